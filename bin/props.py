"""Per-property metadata used by bin/check for evidence files."""

COMMON_TB = [
    "hand-written Lean model BaoModel/*.lean (mirrors src/*.rs function by function)",
    "correspondence check: Rust harness (harness/) runs the real crate in-process, Lean driver runs the model on the same lines",
    "canonicalisation and spec predicates in BaoModel/Ops*.lean",
]

PROPS = {
    "C18": {
        "gens": ["C18"],
        "rule": "every node id below 2^12 (quick) / 2^16 (thorough) + random ids with level uniform in 0..52 and top levels 53..62; "
                "all (id, shift 0..10) for add/subtract_block_size; all (id, len) with id < len <= 72 (quick) / 600 (thorough) for restricted_parent. "
                "non-trivial = every case (each is a distinct node / pair); distinct by case string",
        "theorem_part": "BaoProofs/Props/C18.lean: model methods equal their (k,L)-coordinate meaning for every id",
        "differential_part": "every public TreeNode method value of the real crate equals the model's and the (k,L) specification's",
        "trusted_base": COMMON_TB,
        "assumptions": ["u64 arithmetic is modelled on Nat; bit tricks kept as written and related to arithmetic by lemmas"],
    },
    "C12": {
        "gens": ["C12"],
        "rule": "every byte-size class (g*G-1, g*G, g*G+1, half group, half chunk) for 1..40 (quick) / 300 (thorough) groups x block sizes 0..10: "
                "both node iterators and pre/post offsets of every node id in 0..2*chunks+4 (windows on left spine, root, right edge for larger trees); "
                "sizes 2^k + {-1025..1025}, k = 11..62. non-trivial = trees with more than one block",
        "theorem_part": "BaoProofs/Props/C12.lean",
        "differential_part": "pre_order_offset / post_order_offset / node iterators of the real crate equal the model and the recursive traversal index (spec)",
        "trusted_base": COMMON_TB,
        "assumptions": ["sizes up to 2^62 bytes"],
    },
    "C13": {
        "gens": ["C13"],
        "rule": "as C12 (Stable/Unstable tags of post_order_offset for every node) plus post-order outboards of prefix/extension pairs",
        "theorem_part": "BaoProofs/Props/C13.lean",
        "differential_part": "stable tags and slots equal the spec; byte-prefix relation of real post-order outboards",
        "trusted_base": COMMON_TB,
        "assumptions": [],
    },
    "C17": {
        "gens": ["C17"],
        "rule": "every subset of a 10/11-point boundary universe around group boundaries (open and closed range sets), the same universe mirrored against u64::MAX "
                "(and against 2^40 in the thorough tier), block sizes {0,1,2,4,10} (quick) / 0..10 (thorough), three helpers. non-trivial = non-empty range set",
        "theorem_part": "BaoProofs/Props/C17.lean",
        "differential_part": "results of the real helpers equal the model; spec verdict: pointwise set equalities (meets / inside) on all units touching a boundary",
        "trusted_base": COMMON_TB + ["range-collections union is modelled (Ranges.union)"],
        "assumptions": [],
    },
    "C14": {
        "gens": ["C14"],
        "rule": "14 blob sizes (0..9 chunks, with partial last chunks) x every subset of chunk boundaries in a window reaching 3 chunks past the end, plus random sets with boundaries up to u64::MAX; "
                "pairs of equivalent queries through encoders and decoders. non-trivial = non-empty range set",
        "theorem_part": "BaoProofs/Props/C14.lean",
        "differential_part": "truncate_ranges of the real crate equals the model; spec verdict: selected set preserved, idempotent",
        "trusted_base": COMMON_TB,
        "assumptions": [],
    },
    "C15": {
        "gens": ["C15"],
        "rule": "size classes up to 5 (quick) / 12 (thorough) groups x block sizes 0..3 x min levels {0, bs-1, bs, bs+1, bs+3} x every chunk subset query for small blobs (random beyond), "
                "the response plan and the post-order plan; sampled trees up to 2^40 bytes with sparse queries. non-trivial = all",
        "theorem_part": "BaoProofs/Props/C15.lean",
        "differential_part": "item lists (all fields) of the three public plan iterators equal the model; spec verdict: well-formedness predicate on the implementation's list",
        "trusted_base": COMMON_TB,
        "assumptions": [],
    },
}
