"""Per-property metadata used by bin/check for evidence files."""

COMMON_TB = [
    "hand-written Lean model BaoModel/*.lean (mirrors src/*.rs function by function)",
    "correspondence check: Rust harness (harness/) runs the real crate in-process, Lean driver runs the model on the same lines",
    "canonicalisation and spec predicates in BaoModel/Ops*.lean",
]

PROPS = {
    "C18": {
        "gens": ["C18", "MISCNUM"],
        "rule": "every node id below 2^12 (quick) / 2^16 (thorough) + random ids with level uniform in 0..52 and top levels 53..62; "
                "all (id, shift 0..10) for add/subtract_block_size; all (id, len) with id < len <= 72 (quick) / 600 (thorough) for restricted_parent. "
                "non-trivial = every case (each is a distinct node / pair); distinct by case string",
        "theorem_part": "BaoProofs/Props/C18.lean: model methods equal their (k,L)-coordinate meaning for every id",
        "differential_part": "every public TreeNode method value of the real crate equals the model's and the (k,L) specification's",
        "trusted_base": COMMON_TB,
        "assumptions": ["u64 arithmetic is modelled on Nat; bit tricks kept as written and related to arithmetic by lemmas"],
    },
    "C12": {
        "gens": ["C12", "STORE", "FLIPZ"],
        "rule": "every byte-size class (g*G-1, g*G, g*G+1, half group, half chunk) for 1..40 (quick) / 300 (thorough) groups x block sizes 0..10: "
                "both node iterators and pre/post offsets of every node id in 0..2*chunks+4 (windows on left spine, root, right edge for larger trees); "
                "sizes 2^k + {-1025..1025}, k = 11..62. non-trivial = trees with more than one block",
        "theorem_part": "BaoProofs/Props/C12.lean",
        "differential_part": "pre_order_offset / post_order_offset / node iterators of the real crate equal the model and the recursive traversal index (spec)",
        "trusted_base": COMMON_TB,
        "assumptions": ["sizes up to 2^62 bytes"],
    },
    "C13": {
        "gens": ["C13"],
        "rule": "as C12 (Stable/Unstable tags of post_order_offset for every node) plus post-order outboards of prefix/extension pairs",
        "theorem_part": "BaoProofs/Props/C13.lean",
        "differential_part": "stable tags and slots equal the spec; byte-prefix relation of real post-order outboards",
        "trusted_base": COMMON_TB,
        "assumptions": [],
    },
    "C17": {
        "gens": ["C17", "MISCNUM"],
        "rule": "every subset of a 10/11-point boundary universe around group boundaries (open and closed range sets), the same universe mirrored against u64::MAX "
                "(and against 2^40 in the thorough tier), block sizes {0,1,2,4,10} (quick) / 0..10 (thorough), three helpers. non-trivial = non-empty range set",
        "theorem_part": "BaoProofs/Props/C17.lean",
        "differential_part": "results of the real helpers equal the model; spec verdict: pointwise set equalities (meets / inside) on all units touching a boundary",
        "trusted_base": COMMON_TB + ["range-collections union is modelled (Ranges.union)"],
        "assumptions": [],
    },
    "C14": {
        "gens": ["C14"],
        "rule": "14 blob sizes (0..9 chunks, with partial last chunks) x every subset of chunk boundaries in a window reaching 3 chunks past the end, plus random sets with boundaries up to u64::MAX; "
                "pairs of equivalent queries through encoders and decoders. non-trivial = non-empty range set",
        "theorem_part": "BaoProofs/Props/C14.lean",
        "differential_part": "truncate_ranges of the real crate equals the model; spec verdict: selected set preserved, idempotent",
        "trusted_base": COMMON_TB,
        "assumptions": [],
    },
    "C15": {
        "gens": ["C15", "MISCPLAN"],
        "rule": "size classes up to 5 (quick) / 12 (thorough) groups x block sizes 0..3 x min levels {0, bs-1, bs, bs+1, bs+3} x every chunk subset query for small blobs (random beyond), "
                "the response plan and the post-order plan; sampled trees up to 2^40 bytes with sparse queries. non-trivial = all",
        "theorem_part": "BaoProofs/Props/C15.lean",
        "differential_part": "item lists (all fields) of the three public plan iterators equal the model; spec verdict: well-formedness predicate on the implementation's list",
        "trusted_base": COMMON_TB,
        "assumptions": [],
    },
    "C03": {
        "gens": ["C03", "MISCOB"],
        "rule": "content patterns {random, constant, two-valued repeating chunks, chunk index} x every boundary size class up to 6 (quick) / 64 (thorough) chunk groups (capped at 140 KB / 1.2 MB) x block sizes {0,1,2,3,5,8} / 0..8 x 22 creation entry points (sync/fsm x create / outboard into 5 store kinds / outboard_post_order / create_sized / init_from over stale stores). non-trivial = more than one block",
        "theorem_part": "BaoProofs/Props/C03.lean",
        "differential_part": "root and store bytes of every entry point equal the model and Spec.root / Spec.preOutboard / Spec.postOutboard; root equals the blake3 crate's hash; at bs 0 the pre-order outboard equals the bao crate's",
        "trusted_base": COMMON_TB + ["BaoModel/Blake3.lean is BLAKE3 (checked against the blake3 crate on every case, never used in a proof)"],
        "assumptions": ["identity with the blake3 and bao crates is differential"],
    },
    "C04": {
        "gens": ["C04"],
        "rule": "bao comparison: 14 blob sizes x sampled single byte ranges (start, len) incl. past-the-end; pruning rule: every chunk subset query on blobs up to 9 chunks x block sizes 0..3 (quick: half sampled), query classes on larger blobs for all block sizes. non-trivial = non-empty encoding",
        "theorem_part": "BaoProofs/Props/C04.lean",
        "differential_part": "size prefix + bs-0 encoding byte-identical to bao::encode::SliceExtractor, accepted by bao::decode::SliceDecoder; every encoding equals Spec.encode (pairs inside fully selected groups pruned)",
        "trusted_base": COMMON_TB + ["bao crate used as external reference"],
        "assumptions": ["a zero-length byte range is not 'a single range' (bao sends one chunk for it, bao-tree nothing)"],
    },
    "C02": {
        "gens": ["C02"],
        "rule": "every chunk-subset query (incl. boundaries past the end) on blobs of 0..10 chunks x bs 0..2 (quick: quarter sampled), query classes (all, last.., u64::MAX.., partial group, past-the-end, multi-range, random) on size classes up to 3/12 groups for bs in {0,1,2,3,5,8}; 5 sink kinds, sync and fsm decode_ranges, plus both decoders. non-trivial = non-empty stream",
        "theorem_part": "BaoProofs/Props/C02.lean",
        "differential_part": "decode_ranges of the real honest stream: Done, stream consumed, target = blob on selected chunks and untouched elsewhere, items = Spec.items",
        "trusted_base": COMMON_TB,
        "assumptions": [],
    },
    "C05": {
        "gens": ["C05", "MISCERR"],
        "rule": "blobs up to 4/8 groups x bs 0..3 x 13 query classes x intact store + single byte corruptions (first/last byte of a chunk, either half of a stored pair, random) and pairs of them x 5 encoder flavours x 4 store kinds. non-trivial = non-empty honest encoding",
        "theorem_part": "BaoProofs/Props/C05.lean",
        "differential_part": "output is a prefix of Spec.encode; Ok iff no dependency corrupted; error variant is a hash mismatch",
        "trusted_base": COMMON_TB,
        "assumptions": [],
    },
    "C08": {
        "gens": ["C08enc", "C08dec", "C03"],
        "rule": "union of the C05 encoder cases (5 flavours side by side, intact and corrupted stores), the C01 tamper catalogue through both decoders side by side, and the C03 creation entry points. non-trivial = non-empty stream / encoding",
        "theorem_part": "BaoProofs/Props/C08.lean",
        "differential_part": "spec verdict is the agreement itself: validated encoders equal, plain encoders equal, plain = validated on intact stores, sync decoder output = fsm decoder output, item stream framed Size..Done|Error",
        "trusted_base": COMMON_TB,
        "assumptions": [],
    },
    "C01": {
        "gens": ["C01"],
        "rule": "blobs up to 3/6 groups x bs 0..3 x 13 query classes x streams: honest, single byte changed (6/30 positions, biased to the first 300 bytes), truncated, extended, first pair's halves swapped, later part replayed early, items spliced from another blob / query / block size, wrong claimed sizes, all-zero, random. sync and fsm. non-trivial = non-empty stream",
        "theorem_part": "BaoProofs/Props/C01.lean",
        "differential_part": "every yielded leaf equals the blob's bytes at its offset; every yielded pair is a true pair (of that node when the claimed size is right)",
        "trusted_base": COMMON_TB,
        "assumptions": ["BLAKE3 collision freedom (theorems); with a wrong claimed size parent labels are not meaningful, see DESIGN.md"],
    },
    "C09": {
        "gens": ["C09", "MISCERR"],
        "rule": "blobs up to 3/6 groups x bs 0..3 x 13 query classes x truncation lengths (8/40 sampled + around 64- and 1088-byte boundaries) and single byte alterations; sync and fsm. non-trivial = non-empty stream",
        "theorem_part": "BaoProofs/Props/C09.lean",
        "differential_part": "items before the fault = Spec.items prefix; error names the item containing the cut / altered byte; io kind mapping; no panic",
        "trusted_base": COMMON_TB,
        "assumptions": [],
    },
    "C16": {
        "gens": ["C16"],
        "rule": "true blobs up to 3/6 groups x bs 0..3 x 13 query classes x claimed sizes (+-1, +-1024, x2, /2, 0, 1, 2^k + {-1,0,1025} for k up to 63) x streams (honest for the true geometry, honest for a blob of the claimed size, head/tail mixtures). non-trivial = non-empty stream",
        "theorem_part": "BaoProofs/Props/C16.lean",
        "differential_part": "Done with a query selecting the claimed last chunk implies claimed = true size; never a panic",
        "trusted_base": COMMON_TB,
        "assumptions": [],
    },
    "C20": {
        "gens": ["C20"],
        "rule": "blobs up to 3/6 groups (incl. single-leaf and empty) x bs 0..3 x 13 query classes x honest / truncated / altered streams with 0..70 bytes of trailing garbage, and the empty query: hash() and tree() probed before every step and after an error; reader remainder at Done. non-trivial = non-empty stream",
        "theorem_part": "BaoProofs/Props/C20.lean",
        "differential_part": "acc flag (every accessor call returned the constructor arguments, no panic); bytes left in the reader",
        "trusted_base": COMMON_TB,
        "assumptions": [],
    },
    "C06": {
        "gens": ["C06", "C06short"],
        "rule": "partially filled stores: data file cut at 0 / at, next to and inside group boundaries x constant, periodic and random content x 4 queries (soundness: every reported group is verifiable, completeness up to the first missing group, only UnexpectedEof allowed); blobs on size classes up to 6/16 groups x bs 0..4 x 7/13 query classes x corruption sets: none, single data byte (first/last byte of a chunk, random), a byte of a stored pair, the root, a zeroed (never written) group, a zeroed slot, random 2..4-subsets x 5 store kinds x sync/fsm x data / outboard-only validator. non-trivial = more than one block",
        "theorem_part": "BaoProofs/Props/C06.lean",
        "differential_part": "reported ranges of the real validators = model = independently computed verifiable-and-touched groups (path walk with the real hash, slot = traversal index)",
        "trusted_base": COMMON_TB,
        "assumptions": ["stores are pre-sized (a backing shorter than the geometry is io-failure territory, C10)"],
    },
    "C07": {
        "gens": ["C07", "C07cover", "STORE"],
        "rule": "every sink kind x sync/fsm on incomplete trees of 3..7 (13) groups: download in three pieces with one interrupted, then everything; blobs up to 8 groups x bs 0..2 x 2..5 sink kinds x sync/fsm: alphabet of up to 12 letters = 9 queries x {complete, cut at an item boundary, mid-item cut, k-th target write fails, k-th save fails}; all length-2 histories (quick: a third sampled), length-3 sampled (thorough), random histories of length 3..13. After every step: result, target, outboard, valid_ranges, successful writes. non-trivial = more than one step",
        "theorem_part": "BaoProofs/Props/C07.lean",
        "differential_part": "real decode_ranges histories = model (decodeRangesF) step by step; spec verdict from the implementation's own write log: target = blob on delivered chunks and untouched elsewhere, validator reports exactly the fully delivered groups (target fill differs from the blob), outboard = directly computed one once everything is delivered",
        "trusted_base": COMMON_TB,
        "assumptions": ["A3: a failing write/save has no effect", "targets are filled so that no undelivered chunk coincides with the blob (see DESIGN.md, C07 remark)"],
    },
    "C10": {
        "level": "proof",
        "gens": ["C10", "MISCERR"],
        "rule": "17 public operations (4 byte encoders, item-stream traversal, 2 decode_ranges, 2 outboard, 2 outboard_post_order, 2 copy, 4 validators) x blobs on size classes up to 3/6 groups x bs 0..2 x 4/10 query classes x store kinds: fault-free run measures N(o) per io object, then EVERY call index k < N(o) (stride 1 for small trees) x 4 error kinds is failed. non-trivial = more than two io calls",
        "theorem_part": "BaoProofs/Props/C10.lean (fault-aware decode driver: injected failure is reported, effects are a prefix)",
        "differential_part": "fault enumeration on the real code through counting/failing wrappers of Read, Write, ReadAt, WriteAt, AsyncStreamReader/Writer, AsyncSliceReader/Writer, Outboard(Mut), Sender; the model predicts the call skeleton (object, operation, offset, length of every io call) and the error variant for every (object, k, kind)",
        "trusted_base": COMMON_TB + ["fault injection wrappers in harness/src/faults.rs"],
        "assumptions": ["real OS error behaviour (partial writes, EINTR) is outside the model"],
    },
    "C11": {
        "gens": ["C11"],
        "rule": "blobs up to 3 groups x bs 0..2 x 5/10 query classes x cut sets {1, 7, 63, 64, 65, 1000 bytes, at every item boundary, at boundaries +-1, random subsets (all subsets for <= 12 candidates in the thorough tier)} x Pending before every fragment x honest / truncated / altered streams; sync Read and tokio AsyncRead under iroh-io TokioStreamReader; fragmented data sources for outboard creation and a short-reading ReadAt for the encoder. non-trivial = non-empty stream",
        "theorem_part": "BaoProofs/Props/C11.lean",
        "differential_part": "fragmented runs of the real code = unfragmented model run = spec verdicts of dec/ob/enc",
        "trusted_base": COMMON_TB + ["std read_exact, tokio read_exact / take / read_to_end, iroh-io TokioStreamReader are modelled (Script.readExactFrags), not verified"],
        "assumptions": ["lost-wakeup behaviour of a real executor cannot be exhibited by a pure model; the harness uses futures_lite::block_on with wake_by_ref"],
    },
    "C19": {
        "gens": ["C19", "MISCSERDE"],
        "rule": "every variant of every serialisable type x numbers {0,1,127,128,2^14-1,2^14,2^32,2^53+1,2^63,u64::MAX,...} + random x payload lengths {0,1,127,128,300,2^14-1,2^14,2^16-1,2^16} + random x 19 io error kinds x 8 messages (quotes, backslashes, control characters, non-ASCII, colons, long). non-trivial = all",
        "theorem_part": "BaoProofs/Props/C19.lean",
        "differential_part": "postcard bytes and serde_json bytes of the real crates = model codecs byte for byte; real round trips succeed with equal values",
        "trusted_base": COMMON_TB + ["postcard and serde_json are modelled (BaoModel/Serde.lean), validated byte-for-byte"],
        "assumptions": [],
    },
}


# session 3: additions to the generation rules (appended to the rule texts)
RULE_ADD = {
    "C01": "; decrt: decode_ranges (both flavours, 5 sink kinds) with ONE failing read call k (first items or anywhere) of kind Other / Interrupted / UnexpectedEof / ConnectionReset on honest, tampered and truncated streams",
    "C03": "; 26 entry points incl. the default create methods; sync entry points also with readers returning at most m in {1,7,63,64,1000,1023,1024,1025,4097} bytes per call; create on a reader positioned at byte k; Default outboards (misc defaults)",
    "C04": "; the sync encoders also into sinks accepting at most 7 / 63 / 1000 / 1025 bytes per write call (syncw)",
    "C05": "; io::Error::from(EncodeError) kinds and texts (misc encerr)",
    "C07": "; fsm histories ask the async validator; store: load / save / load / sync through references on every outboard kind x flavour x every node id of size classes up to 6/12 groups x bs 0..3/4 (ids past the tree too), seeded random backings, 1 in 6 with a backing that ends early",
    "C09": "; decr: both decode_ranges drivers x 5 sink kinds on truncations / single byte alterations of the honest stream; misc decerr: conversions and texts for node / chunk numbers up to 2^63",
    "C10": "; fault kinds: the 4 error kinds + Eof (the k-th read returns no bytes, so do all later ones) on every reader (objects data and r) + Interrupted on the async operations and the item stream; misc encerr",
    "C11": "; fragdecr: decode_ranges on a borrowed fragmented reader, response followed by 1..9000 more bytes (also unfragmented), leftover compared",
    "C12": "; store cases as in C07",
    "C13": "; modes growsync / growfsm: the prefix's outboard extended in place through OutboardMut",
    "C14": "; enc2: all four byte encoders on both queries (eight encodings)",
    "C15": "; misc bchunk",
    "C16": "; decr ... c<size>: both decode_ranges drivers with a receiver whose outboard claims another size (claimed sizes up to 200 000)",
    "C17": "; misc cnum / bsbytes: chunk_group_start / _end, from_bytes, ChunkNum arithmetic on 0..39, powers of two +-1, random values, u64::MAX",
    "C18": "; misc fmt / cnum: Display / Debug / alternate Debug of TreeNode, ChunkNum, BlockSize",
    "C19": "; io errors without payload: 19 bare kinds (io::Error::from(kind)) and 18 OS errnos (from_raw_os_error); Parent from JSON arrays of 0..4 elements; misc dbg",
}
for _k, _v in RULE_ADD.items():
    PROPS[_k]["rule"] = PROPS[_k].get("rule", "") + _v
