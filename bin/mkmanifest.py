#!/usr/bin/env python3
"""Regenerates MANIFEST.json from bin/props.py and the set of claimed properties."""
import json, os, sys
ROOT = os.path.dirname(os.path.dirname(os.path.abspath(__file__)))
sys.path.insert(0, os.path.join(ROOT, "bin"))
from props import PROPS
from claims import CLAIMED, NOT_APPLICABLE

titles = {}
for l in open(os.path.join(ROOT, "properties.jsonl")):
    p = json.loads(l)
    titles[p["id"]] = p["title"]

checks = []
for pid in sorted(CLAIMED):
    c = CLAIMED[pid]
    checks.append({
        "property_id": pid,
        "quick_cmd": f"bin/check {pid} --tier quick",
        "thorough_cmd": f"bin/check {pid} --tier thorough",
        "evidence_file": f"evidence/{pid}.json",
        "replay_cmd_template": f"bin/check {pid} --replay {{path}}",
        "engine": "lean4-proof+correspondence",
        "level_claimed": {"category": "proof", "text": c["text"], "design_ref": c.get("design_ref", "DESIGN.md section 6, " + pid)},
        "level_note": c["note"],
        "technique": c["technique"],
    })
m = {
    "version": 1,
    "setup_cmd": "bin/setup",
    "hooks": {
        "guard": "bao_tree_verif",
        "enable": "no source hooks are needed: fault / fragment injection is done by wrapper types in /verif/harness; checks build /repo as a path dependency (dev profile)",
        "baseline_off_cmd": "cd /repo && cargo test --workspace --no-fail-fast --offline",
        "source_commits": [],
        "add_only": True,
    },
    "engines": [{
        "name": "lean4-proof+correspondence", "path": "bin/check",
        "serves_properties": sorted(CLAIMED),
        "kind_free_text": "Lean 4 theorems about a hand-written executable model (lean/BaoModel, lean/BaoProofs) + differential correspondence check of the model's definitions against the real crate (harness/, lean/Driver.lean)",
    }],
    "checks": checks,
    "not_applicable": [{"property_id": k, "reason": v} for k, v in sorted(NOT_APPLICABLE.items())],
    "notes": "Every check rebuilds the Rust harness against /repo's working tree (cargo path dependency) and re-checks the Lean proofs with lake. Six genuine defects were repaired with fix: commits in /repo (see KNOWN_FINDINGS.json, DESIGN.md section 7).",
}
json.dump(m, open(os.path.join(ROOT, "MANIFEST.json"), "w"), indent=1)
print("claimed:", sorted(CLAIMED), "not applicable:", sorted(NOT_APPLICABLE))
