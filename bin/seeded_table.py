#!/usr/bin/env python3
"""prints the markdown table of seeded changes (DESIGN.md section 11) from seeded/*/meta.json"""
import json, os, re
ROOT = os.path.dirname(os.path.dirname(os.path.abspath(__file__)))
rows = []
for sid in sorted(os.listdir(os.path.join(ROOT, "seeded"))):
    mp = os.path.join(ROOT, "seeded", sid, "meta.json")
    if not os.path.exists(mp):
        continue
    m = json.load(open(mp))
    own = m.get("property") or sid.split("-")[0]
    checks = " ".join(m.get("checks", []))
    caught = sorted(set(re.findall(r"VIOLATION property=(C\d\d)", checks)))
    nf = sorted(set(re.findall(r"VIOLATION property=(C\d\d) replay=\S+ no-failing-input-found", checks)))
    hist = m.get("checks_history") or m.get("checks_before_strengthening")
    first_missed = bool(hist) and ("MISSED" in " ".join(hist) if isinstance(hist, list) else True)
    summ = (m.get("summary") or "").replace("|", "/").replace("\n", " ")
    summ = summ[:150] + ("…" if len(summ) > 150 else "")
    c = ", ".join(p + ("*" if p in nf else "") for p in caught) or ("— not flagged (" + m["judged"] + ")" if m.get("judged") else "— NOT CAUGHT")
    rows.append(f"| `{sid}` | {summ} | {c} | {'yes' if first_missed else ''} |")
print("| seeded change | what was changed | caught by (quick checks; * = reported without a failing input) | needed strengthening |")
print("|---|---|---|---|")
print("\n".join(rows))
