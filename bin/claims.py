"""Which properties are claimed in MANIFEST.json, with the text of the claim."""
T = "Lean 4 kernel-checked theorems (unbounded) about the executable model + differential correspondence of the model with the real crate on generated cases"

CLAIMED = {
    "C18": {
        "text": "Every TreeNode method of the model is proved equal to its (k, L)-coordinate meaning for all node ids (children/parent inverse, chunk ranges split at mid, node ranges and counts, post-order offsets = explicit enumeration on complete trees, add/subtract block size inverse exactly on level >= n, restricted parent / right descendant inside the tree). The three bit tricks are proved, not assumed. The model is tied to the code by comparing every public method on all ids < 2^12 (quick) / 2^16 (thorough) and random ids up to 2^63.",
        "note": "Trusted: Lean kernel, the statement of the theorems (BaoProofs/Props/C18.lean), the hand-written model Tree.lean, the correspondence harness. u64 arithmetic is modelled on Nat with explicit bounds (x + 1 < 2^64).",
        "technique": "Lean 4 proof (induction, omega, testBit) over a hand-written model + differential correspondence",
    },
    "C12": {
        "text": "Proved for all sizes <= 2^63 and all block sizes: pre_order_offset / post_order_offset of the i-th persisted node in the recursive pre-/post-order traversal is i, the list has blocks-1 distinct nodes, nodes below the block level and the half-filled last leaf map to none. Correspondence: offsets of every node id and both node iterators of the real crate on every size class up to 40/300 groups x bs 0..10 and around every power of two up to 2^62.",
        "note": "Trusted: Lean kernel, theorem statements (Props/C12.lean), model Tree.lean + Spec.lean (recursive traversal), correspondence harness. flip/copy consequences are covered by correspondence of the store model (C03/C07 ops), not by a separate theorem yet.",
        "technique": "Lean 4 proof (closed forms + induction along the recursive traversal) + differential correspondence",
    },
    "C13": {
        "text": "Proved: a node at or above the block level is Stable iff its whole subtree lies inside the blob; a stable node keeps exactly the same post-order offset for every larger size; stable nodes occupy slots < S and unstable ones slots >= S. Correspondence: tags and slots for every node as in C12, and the byte-prefix relation on real post-order outboards of (prefix, extension) pairs and append chains.",
        "note": "Trusted: as C12. The byte-level statement (stored pair unchanged) is differential: obpre cases compare real outboards; the theorem part covers slots and classification.",
        "technique": "Lean 4 proof + differential correspondence",
    },
    "C14": {
        "text": "Proved for all sizes and all well-formed range sets: truncate_ranges preserves the selected set (Spec.selected), is idempotent, yields a well-formed prefix; split / split_inner preserve membership on their side. Correspondence: truncate_ranges of the real crate on every boundary subset in a window past the end of 14 blob sizes + boundaries up to u64::MAX; pairs of equivalent queries produce identical encodings and cross-decode (enc2 cases).",
        "note": "Trusted: Lean kernel, Props/C14.lean statements, Ranges.lean model of range-collections split/binary search, harness. 'Interchangeable' (second half) is differential so far.",
        "technique": "Lean 4 proof (counting boundaries on sorted lists) + differential correspondence",
    },
    "C17": {
        "text": "Proved for all well-formed range sets with boundaries < 2^64 and all block sizes: the three helpers compute exactly {units meeting R} / {groups meeting R} / {groups inside R} (set equalities), hence smallest cover / smallest aligned superset / largest aligned subset, monotone, idempotent, well formed, never overflowing (checked round-up = none exactly when the u64 add overflows). Correspondence: all subsets of a boundary universe around group edges, mirrored against u64::MAX, bs 0..10.",
        "note": "Trusted: Lean kernel, Props/C17.lean, model of range-collections union (proved to be set union on the model, modelled not verified w.r.t. the crate), harness. Depends on fix 79f1f13.",
        "technique": "Lean 4 proof (set semantics of boundary lists) + differential correspondence",
    },
}

PENDING = "in progress this round: model + correspondence exist or are being built, property theorems not yet written; will be claimed when the first theorem is checked"
NOT_APPLICABLE = {p: PENDING for p in
                  ["C01", "C02", "C03", "C04", "C05", "C06", "C07", "C08", "C09", "C10", "C11", "C15", "C16", "C19", "C20"]}
