"""Which properties are claimed in MANIFEST.json, with the text of the claim."""
T = "Lean 4 kernel-checked theorems (unbounded) about the executable model + differential correspondence of the model with the real crate on generated cases"

CLAIMED = {
    "C18": {
        "text": "Every TreeNode method of the model is proved equal to its (k, L)-coordinate meaning for all node ids (children/parent inverse, chunk ranges split at mid, node ranges and counts, post-order offsets = explicit enumeration on complete trees, add/subtract block size inverse exactly on level >= n, restricted parent / right descendant inside the tree). The three bit tricks are proved, not assumed. The model is tied to the code by comparing every public method on all ids < 2^12 (quick) / 2^16 (thorough) and random ids up to 2^63.",
        "note": "Trusted: Lean kernel, the statement of the theorems (BaoProofs/Props/C18.lean), the hand-written model Tree.lean, the correspondence harness. u64 arithmetic is modelled on Nat with explicit bounds (x + 1 < 2^64).",
        "technique": "Lean 4 proof (induction, omega, testBit) over a hand-written model + differential correspondence",
    },
    "C12": {
        "text": "Proved for all sizes <= 2^63 and all block sizes: pre_order_offset / post_order_offset of the i-th persisted node in the recursive pre-/post-order traversal is i, the list has blocks-1 distinct nodes, nodes below the block level and the half-filled last leaf map to none. Correspondence: offsets of every node id and both node iterators of the real crate on every size class up to 40/300 groups x bs 0..10 and around every power of two up to 2^62.",
        "note": "Trusted: Lean kernel, theorem statements (Props/C12.lean, Props/C12Iter.lean: the real node iterators equal the recursive traversals, offsets along them are 0..blocks-2), model Tree.lean + Spec.lean, correspondence harness. flip/copy consequences are covered by correspondence (C10 copy ops, C03), not by a separate theorem yet.",
        "technique": "Lean 4 proof (closed forms + induction along the recursive traversal) + differential correspondence",
    },
    "C13": {
        "text": "Proved: a node at or above the block level is Stable iff its whole subtree lies inside the blob; a stable node keeps exactly the same post-order offset for every larger size; stable nodes occupy slots < S and unstable ones slots >= S. Correspondence: tags and slots for every node as in C12, and the byte-prefix relation on real post-order outboards of (prefix, extension) pairs and append chains.",
        "note": "Trusted: as C12. The byte-level statement (stored pair unchanged) is differential: obpre cases compare real outboards; the theorem part covers slots and classification.",
        "technique": "Lean 4 proof + differential correspondence",
    },
    "C14": {
        "text": "Proved for all sizes and all well-formed range sets: truncate_ranges preserves the selected set (Spec.selected), is idempotent, yields a well-formed prefix; split / split_inner preserve membership on their side. Correspondence: truncate_ranges of the real crate on every boundary subset in a window past the end of 14 blob sizes + boundaries up to u64::MAX; pairs of equivalent queries produce identical encodings and cross-decode (enc2 cases).",
        "note": "Trusted: Lean kernel, Props/C14.lean statements, Ranges.lean model of range-collections split/binary search, harness. 'Interchangeable' (second half) is differential so far.",
        "technique": "Lean 4 proof (counting boundaries on sorted lists) + differential correspondence",
    },
    "C17": {
        "text": "Proved for all well-formed range sets with boundaries < 2^64 and all block sizes: the three helpers compute exactly {units meeting R} / {groups meeting R} / {groups inside R} (set equalities), hence smallest cover / smallest aligned superset / largest aligned subset, monotone, idempotent, well formed, never overflowing (checked round-up = none exactly when the u64 add overflows). Correspondence: all subsets of a boundary universe around group edges, mirrored against u64::MAX, bs 0..10.",
        "note": "Trusted: Lean kernel, Props/C17.lean, model of range-collections union (proved to be set union on the model, modelled not verified w.r.t. the crate), harness. Depends on fix 79f1f13.",
        "technique": "Lean 4 proof (set semantics of boundary lists) + differential correspondence",
    },
    "C01": {
        "text": "Proved for ALL byte streams, all claimed geometries, all queries, both decoders and both decode_ranges drivers, under collision freedom of the two BLAKE3 primitives: every yielded leaf (off, bytes) has off % 1024 = 0, off + |bytes| <= |d| and bytes = d[off..]; every yielded pair is Spec.pair of an existing node of the true tree; every target write is such a leaf and every saved pair such a pair; a pre-sized target ends with each byte either unchanged or the blob's. The invariant is on the pending-hash stack (every entry is the chaining value of a subtree interval of the true tree); cv_inj binds position, length and root flag. Correspondence: ~21k honest / tampered / truncated / spliced / wrong-size / random streams through the real decoders.",
        "note": "Trusted: Lean kernel, Props/C01.lean, the decoder model Codec.lean, harness. Assumes CollisionFree hf (global injectivity of chunkCv/parentCv incl. domain separation; satisfiable: symbolic instance termHash_cf); the localised (evaluated-inputs-only) form of DESIGN.md section 4 is not threaded through. With a WRONG claimed size the node LABEL of a yielded parent is not claimed (pairs are still true pairs): see DESIGN.md. 'First departure answered with an error' is covered by C09's theorems/correspondence.",
        "technique": "Lean 4 proof (stack invariant + hash-injectivity reduction) + differential correspondence on tampered streams",
    },
    "C08": {
        "text": "Proved for every hash instance, every decoder state and every stream: the sync and fsm decoders produce identical runs (items, terminal, rest) although they push/compare in different orders; decode_ranges drivers agree on target, outboard, writes, saves; validating (and plain) encoders of both flavours are equal whenever load agrees on the plan's parent nodes (always for memory stores; for io stores on persisted nodes with a full-size backing); plain = validating whenever the validating one returns Ok; the item-stream traversal is Size :: items ++ [Done|Error e] and flattens to exactly the validating encoder's bytes with the same terminal; validators agree. Correspondence: five encoder flavours and both decoders side by side on intact/corrupted stores and honest/tampered streams, all creation entry points.",
        "note": "Trusted: Lean kernel, Props/C08.lean, models Codec.lean/Validate.lean, harness. Outboard creation has one model for both flavours (the Rust twins differ only in .await), so creation agreement is differential (C03 cases). Depends on fixes f07f070 (empty query) and f39506f (plain encoders).",
        "technique": "Lean 4 proof (step simulation between the two machines, parallel induction) + differential correspondence",
    },
    "C15": {
        "text": "Post-order plan proved for all sizes <= 2^63, bs <= 10: the iterator equals the explicit recursion left ++ right ++ [parent], leaves tile [0,size) in order with sizes min(group, rest), the root flag is on exactly the last item, the hash stack never underflows and ends with one element, the parent items are exactly the persisted nodes in post-order and the i-th has post-order offset i. Node iterators proved equal to the recursive traversals. Pre-order plan: theorems in Props/C15.lean (refinement of the explicit-stack iterator to the recursive plan, stack discipline, root flag, flags, increasing leaves). Correspondence: all three public plans, every chunk-subset query on small trees x min levels below/at/above the block size, sampled trees up to 2^40 bytes, judged by an executable well-formedness predicate.",
        "note": "Trusted: Lean kernel, Props/C15*.lean, Iter.lean model, harness. Depends on fix f07f070 for the empty query.",
        "technique": "Lean 4 proof (state machine = recursion, structural induction) + differential correspondence",
    },
    "C20": {
        "text": "Proved for every root, geometry, query and stream, over any number of next calls including after an error and after the end: tree() and hash() return the constructor arguments (they are total in the model: no panic possible); the reader is always a suffix of the stream and, along item steps, exactly the stream minus the bytes of the items yielded; at Done the returned reader holds exactly the unread rest; decoding e ++ x after e ended Done with rest [] ends Done with rest x. Correspondence: accessors probed before every step and after errors on ~6.7k decodes incl. single-leaf blobs, empty queries, trailing garbage.",
        "note": "Trusted: Lean kernel, Props/C20.lean, Codec.lean, harness. Depends on fix fe7f1f8 (hash() used to return stack[0] and panic on an empty stack). Reader position after a failed read is unspecified (model leaves the stream untouched on a short read).",
        "technique": "Lean 4 proof (field invariants over steps) + differential correspondence",
    },
}

PENDING = "in progress this round: model + correspondence exist or are being built, property theorems not yet written; will be claimed when the first theorem is checked"
NOT_APPLICABLE = {p: PENDING for p in
                  ["C02", "C03", "C04", "C05", "C06", "C07", "C09", "C10", "C11", "C16", "C19"]}
