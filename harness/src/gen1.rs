//! case generators for the arithmetic / geometry / range-set / plan properties
use crate::canon::nat_list;
use crate::rng::Rng;

fn thorough(tier: &str) -> bool {
    tier == "thorough"
}

/// byte sizes around the group boundaries of `groups` chunk groups of block size `bs`
pub fn size_classes(bs: u32, max_groups: u64) -> Vec<u64> {
    let g = 1024u64 << bs;
    let mut v = vec![0, 1, 1023, 1024, 1025];
    for k in 1..=max_groups {
        for d in [-1i64, 0, 1] {
            let s = (k * g) as i64 + d;
            if s >= 0 {
                v.push(s as u64);
            }
        }
        // half-filled last group, and a last group with a half-filled last chunk
        v.push(k * g + g / 2);
        v.push(k * g + 512);
    }
    v.sort();
    v.dedup();
    v
}

/// all subsets of `points` (sorted) as boundary lists
pub fn subsets(points: &[u64]) -> Vec<Vec<u64>> {
    let n = points.len();
    (0..(1u64 << n))
        .map(|m| (0..n).filter(|i| (m >> i) & 1 == 1).map(|i| points[i]).collect())
        .collect()
}

pub fn random_ranges(r: &mut Rng, max: u64, max_len: u64) -> Vec<u64> {
    let n = r.below(max_len + 1);
    let mut v: Vec<u64> = (0..n).map(|_| r.below(max + 1)).collect();
    v.sort();
    v.dedup();
    v
}

fn random_node(r: &mut Rng) -> u64 {
    let level = r.below(53);
    let max_k = (1u64 << (62 - level)) - 1;
    let k = r.below(max_k);
    ((2 * k + 1) << level) - 1
}

pub fn gen(prop: &str, tier: &str, seed: u64, out: &mut Vec<String>) {
    let mut r = Rng::new(seed ^ 0xC0FFEE);
    let th = thorough(tier);
    match prop {
        "C18" => {
            let exhaustive = if th { 1u64 << 16 } else { 1 << 12 };
            for x in 0..exhaustive {
                out.push(format!("node {x}"));
            }
            let randoms = if th { 50_000 } else { 6_000 };
            for _ in 0..randoms {
                out.push(format!("node {}", random_node(&mut r)));
            }
            // top levels
            for l in 53..63u32 {
                out.push(format!("node {}", (1u64 << l) - 1));
            }
            let ids: Vec<u64> = (0..if th { 2048 } else { 256 })
                .chain((0..if th { 2000 } else { 300 }).map(|_| random_node(&mut r) >> 11))
                .collect();
            for x in ids {
                for n in 0..=10 {
                    out.push(format!("nodebs {x} {n}"));
                }
            }
            let max_len = if th { 600 } else { 72 };
            // nodes inside AND outside the tree described by `len` (a node of a larger tree
            // mapped into a truncated one), plus len = 0
            for len in 0..=max_len {
                for x in 0..(2 * len + 9) {
                    out.push(format!("noderp {x} {len}"));
                }
            }
            for _ in 0..if th { 20_000 } else { 3_000 } {
                let x = random_node(&mut r);
                let len = match r.below(4) {
                    0 => random_node(&mut r),
                    1 => x >> r.below(12),
                    2 => (x >> r.below(40)).saturating_add(r.below(5)),
                    _ => x.saturating_add(r.below(9)).saturating_sub(4),
                };
                out.push(format!("noderp {x} {len}"));
            }
        }
        "C12" | "C13" => {
            let bss: Vec<u32> = (0..=10).collect();
            for &bs in &bss {
                let max_groups = if th { 300 } else { 40 };
                for size in size_classes(bs, max_groups) {
                    out.push(format!("tree {size} {bs}"));
                    let chunks = (size + 1023) / 1024;
                    let ids = 2 * chunks.max(1) + 4;
                    if ids <= if th { 2100 } else { 600 } {
                        out.push(format!("treeoff {size} {bs} 0 {ids}"));
                    } else {
                        // windows: left spine, around the bs=0 root, right edge
                        let root = (chunks.div_ceil(2)).next_power_of_two() - 1;
                        out.push(format!("treeoff {size} {bs} 0 40"));
                        out.push(format!("treeoff {size} {bs} {} 40", root.saturating_sub(20)));
                        out.push(format!("treeoff {size} {bs} {} 60", (2 * chunks).saturating_sub(56)));
                    }
                }
            }
            // sizes around powers of two up to 2^62: probe spines only
            for k in 11..=62u32 {
                for d in [-1025i64, -1024, -1, 0, 1, 1023, 1024, 1025] {
                    let size = ((1u64 << k) as i64 + d) as u64;
                    for &bs in &[0u32, 1, 4, 10] {
                        let chunks = (size + 1023) / 1024;
                        let root = (chunks.div_ceil(2)).next_power_of_two() - 1;
                        out.push(format!("treeoff {size} {bs} 0 12"));
                        out.push(format!("treeoff {size} {bs} {} 12", root.saturating_sub(6)));
                        out.push(format!("treeoff {size} {bs} {} 16", (chunks - 1).saturating_sub(12)));
                    }
                }
            }
        }
        "C17" => {
            let bss: Vec<u32> = if th { (0..=10).collect() } else { vec![0, 1, 2, 4, 10] };
            // byte ranges -> chunks
            let pts = [0u64, 1, 1023, 1024, 1025, 2047, 2048, 3072, 4095, 5000];
            for s in subsets(&pts) {
                out.push(format!("round chunks {} 0", nat_list(&s)));
            }
            let hi: Vec<u64> = pts.iter().rev().map(|p| u64::MAX - p).collect();
            for s in subsets(&hi) {
                out.push(format!("round chunks {} 0", nat_list(&s)));
            }
            for &bs in &bss {
                let g = 1u64 << bs;
                let mut p = vec![0, 1, g - 1, g, g + 1, 2 * g - 1, 2 * g, 2 * g + 1, 3 * g, 4 * g - 1, 5 * g + 2];
                p.sort();
                p.dedup();
                if !th && p.len() > 10 {
                    p.truncate(10);
                }
                let subs = subsets(&p);
                for s in &subs {
                    for kind in ["groups", "full"] {
                        out.push(format!("round {kind} {} {bs}", nat_list(s)));
                    }
                }
                // the same universe against u64::MAX and against 2^40
                let mut hi: Vec<u64> = p.iter().map(|x| u64::MAX - x).collect();
                hi.sort();
                for s in subsets(&hi) {
                    for kind in ["groups", "full"] {
                        out.push(format!("round {kind} {} {bs}", nat_list(&s)));
                    }
                }
                if th {
                    let base = 1u64 << 40;
                    let mid: Vec<u64> = p.iter().map(|x| base - 2 * g + x).collect();
                    for s in subsets(&mid) {
                        for kind in ["groups", "full"] {
                            out.push(format!("round {kind} {} {bs}", nat_list(&s)));
                        }
                    }
                }
            }
        }
        "C14" => {
            let sizes: Vec<u64> = vec![0, 1, 1024, 1025, 2048, 2049, 3000, 4096, 5000, 6144, 7168, 8192, 9000, 9216];
            for size in sizes {
                let chunks = (size + 1023) / 1024;
                let top = (chunks + 3).min(if th { 12 } else { 10 });
                let pts: Vec<u64> = (0..=top).collect();
                for s in subsets(&pts) {
                    out.push(format!("trunc {} {size}", nat_list(&s)));
                }
                // boundaries far beyond the end
                for _ in 0..200 {
                    let mut s = random_ranges(&mut r, chunks + 2, 4);
                    s.push(r.range(1 << 40, u64::MAX));
                    if r.chance(1, 2) {
                        s.push(u64::MAX);
                    }
                    s.sort();
                    s.dedup();
                    out.push(format!("trunc {} {size}", nat_list(&s)));
                }
            }
        }
        "C15" => {
            let bss: Vec<u32> = vec![0, 1, 2, 3];
            for &bs in &bss {
                for size in size_classes(bs, if th { 12 } else { 5 }) {
                    out.push(format!("pplan {size} {bs}"));
                    let chunks = (size + 1023) / 1024;
                    let mls: Vec<u32> = {
                        let mut v = vec![0, bs.saturating_sub(1), bs, bs + 1, bs + 3];
                        v.sort();
                        v.dedup();
                        v
                    };
                    let queries: Vec<Vec<u64>> = if chunks <= if th { 10 } else { 6 } {
                        let pts: Vec<u64> = (0..=chunks + 1).collect();
                        subsets(&pts)
                    } else {
                        let n = if th { 300 } else { 40 };
                        let mut q: Vec<Vec<u64>> = (0..n).map(|_| random_ranges(&mut r, chunks + 2, 6)).collect();
                        q.push(vec![0]);
                        q.push(vec![]);
                        q.push(vec![chunks - 1]);
                        q.push(vec![u64::MAX]);
                        q
                    };
                    for q in &queries {
                        for &ml in &mls {
                            out.push(format!("plan {size} {bs} {ml} {}", nat_list(q)));
                        }
                        // "never descend into a fully selected subtree": min levels at and beyond the width of a u64
                        if r.chance(1, 6) {
                            let ml = *r.pick(&[62u32, 63, 64, 65, 128, 255]);
                            out.push(format!("plan {size} {bs} {ml} {}", nat_list(q)));
                        }
                        out.push(format!("rplan {size} {bs} {}", nat_list(q)));
                    }
                }
            }
            // large trees, sparse queries
            for _ in 0..if th { 3000 } else { 300 } {
                let k = r.range(20, 41);
                let size = (1u64 << k) - r.below(5000);
                let bs = r.below(9);
                let chunks = (size + 1023) / 1024;
                let mut q: Vec<u64> = (0..r.below(5)).map(|_| r.below(chunks + 10)).collect();
                q.sort();
                q.dedup();
                // keep ranges narrow so the plan stays small
                let mut q2 = vec![];
                for (i, b) in q.iter().enumerate() {
                    if i % 2 == 0 {
                        q2.push(*b);
                        q2.push(b + r.range(1, 4));
                    }
                }
                q2.sort();
                q2.dedup();
                if r.chance(1, 4) {
                    q2.push(u64::MAX);
                    q2.sort();
                    q2.dedup();
                }
                let ml = r.below(bs + 3);
                out.push(format!("plan {size} {bs} {ml} {}", nat_list(&q2)));
                out.push(format!("rplan {size} {bs} {}", nat_list(&q2)));
            }
        }
        _ => {

        }
    }
}
