//! the glue around the modelled core: direct `load` / `save` / `sync` on every outboard kind (through the
//! reference forwarding impls), error conversions and texts, small numeric helpers, `Default` outboards
use crate::canon::*;
use crate::ops2::*;
use bao_tree::{
    blake3,
    io::{
        fsm,
        outboard::{EmptyOutboard, PostOrderMemOutboard, PostOrderOutboard, PreOrderMemOutboard, PreOrderOutboard},
        sync, DecodeError, EncodeError,
    },
    BaoTree, BlockSize, ChunkNum, TreeNode,
};
use bytes::BytesMut;
use futures_lite::future::block_on;

type Pair = (blake3::Hash, blake3::Hash);

fn s_load<O: sync::Outboard>(o: O, n: TreeNode) -> std::io::Result<Option<Pair>> {
    o.load(n)
}
fn s_save<O: sync::OutboardMut>(mut o: O, n: TreeNode, p: &Pair) -> std::io::Result<()> {
    o.save(n, p)
}
fn s_sync<O: sync::OutboardMut>(mut o: O) -> std::io::Result<()> {
    o.sync()
}
async fn f_load<O: fsm::Outboard>(mut o: O, n: TreeNode) -> std::io::Result<Option<Pair>> {
    o.load(n).await
}
async fn f_save<O: fsm::OutboardMut>(mut o: O, n: TreeNode, p: &Pair) -> std::io::Result<()> {
    o.save(n, p).await
}
async fn f_sync<O: fsm::OutboardMut>(mut o: O) -> std::io::Result<()> {
    o.sync().await
}

fn load_str(r: std::io::Result<Option<Pair>>) -> String {
    match r {
        Ok(None) => "none".into(),
        Ok(Some((l, r))) => {
            let mut b = l.as_bytes().to_vec();
            b.extend_from_slice(r.as_bytes());
            dig(&b)
        }
        Err(e) => io_err(&e),
    }
}
fn unit_str(r: std::io::Result<()>) -> String {
    r.map(|_| "Ok".to_string()).unwrap_or_else(|e| io_err(&e))
}

/// `store <sync|fsm> <kind> <size> <bs> <seed> <node> [short<len>]`: on a store whose backing holds seeded random bytes:
/// load(node), save(node, seeded pair), load(node) again, sync(); every call through `&` / `&mut` of the store
pub fn op_store(args: &[&str]) -> String {
    let fl = args[0];
    let kind = args[1];
    let size: u64 = args[2].parse().unwrap();
    let bs = bs_of(args[3]);
    let seed: u64 = args[4].parse().unwrap();
    let n = node(args[5].parse().unwrap());
    let tree = BaoTree::new(size, bs);
    let mut backing = crate::rng::rand_bytes(seed, tree.outboard_size() as usize);
    // optional 7th argument `short<len>`: the backing holds only the first len bytes (a file that was never
    // filled to its final length)
    if let Some(l) = args.get(6).and_then(|a| a.strip_prefix("short")) {
        backing.truncate(l.parse().unwrap());
    }
    let l: [u8; 32] = crate::rng::rand_bytes(seed + 1, 32).try_into().unwrap();
    let r: [u8; 32] = crate::rng::rand_bytes(seed + 2, 32).try_into().unwrap();
    let pair: Pair = (l.into(), r.into());
    let zero = blake3::Hash::from([0u8; 32]);
    let (outs, after): (Vec<String>, Vec<u8>) = if fl == "sync" {
        with_sync_store!(kind, zero, tree, backing, |o| {
            let a = load_str(s_load(&o, n));
            let b = unit_str(s_save(&mut o, n, &pair));
            let c = load_str(s_load(&mut o, n));
            let d = unit_str(s_sync(&mut o));
            vec![a, b, c, d]
        })
    } else {
        with_fsm_store!(kind, zero, tree, backing, |o| {
            let a = load_str(block_on(f_load(&mut o, n)));
            let b = unit_str(block_on(f_save(&mut o, n, &pair)));
            let c = load_str(block_on(f_load(&mut o, n)));
            let d = unit_str(block_on(f_sync(&mut o)));
            vec![a, b, c, d]
        })
    };
    format!("{} {}", outs.join(" "), dig(&after))
}

fn kind_name(k: std::io::ErrorKind) -> String {
    format!("{:?}", k)
}
fn io_full(e: &std::io::Error) -> String {
    // kind, text and whether a source error is attached, with spaces made visible
    format!("{}|{}", kind_name(e.kind()), e.to_string().replace(' ', "_"))
}

/// `misc <what> <args…>`: small public functions and trait impls around the core
pub fn op_misc(args: &[&str]) -> String {
    use std::error::Error;
    let num = |i: usize| -> u64 { args[i].parse().unwrap() };
    match args[0] {
        // io::Error::from(EncodeError), Display of the error, source()
        "encerr" => {
            let e = match args[1] {
                "phm" => EncodeError::ParentHashMismatch(node(num(2))),
                "lhm" => EncodeError::LeafHashMismatch(ChunkNum(num(2))),
                "pw" => EncodeError::ParentWrite(node(num(2))),
                "lw" => EncodeError::LeafWrite(ChunkNum(num(2))),
                "sm" => EncodeError::SizeMismatch,
                "io" => EncodeError::from(std::io::Error::new(crate::ops3::io_kind_of_name(args[2]), "boom")),
                _ => panic!("bad encerr"),
            };
            let disp = e.to_string().replace(' ', "_");
            let src = b01(e.source().is_some());
            let io: std::io::Error = e.into();
            format!("{} {} {}", io_full(&io), disp, src)
        }
        "decerr" => {
            let e = match args[1] {
                "pnf" => DecodeError::ParentNotFound(node(num(2))),
                "lnf" => DecodeError::LeafNotFound(ChunkNum(num(2))),
                "phm" => DecodeError::ParentHashMismatch(node(num(2))),
                "lhm" => DecodeError::LeafHashMismatch(ChunkNum(num(2))),
                "io" => DecodeError::from(std::io::Error::new(crate::ops3::io_kind_of_name(args[2]), "boom")),
                _ => panic!("bad decerr"),
            };
            let disp = e.to_string().replace(' ', "_");
            let src = b01(e.source().is_some());
            let io: std::io::Error = e.into();
            format!("{} {} {}", io_full(&io), disp, src)
        }
        // Display / Debug / alternate Debug of the number types
        "fmt" => {
            let x = num(1);
            let (t, c) = (node(x), ChunkNum(x));
            let bsz = BlockSize::from_chunk_log((x % 64) as u8);
            format!(
                "{} {} {} {} {} {} {} {}",
                t,
                format!("{:?}", t),
                format!("{:#?}", t).replace(' ', "_"),
                c,
                format!("{:?}", c),
                format!("{:#?}", c),
                bsz,
                format!("{:?}", bsz)
            )
        }
        "bsbytes" => match BlockSize::from_bytes(num(1)) {
            None => "none".into(),
            Some(b) => format!("{}", b.chunk_log()),
        },
        // chunk group rounding of a chunk number and the arithmetic impls of ChunkNum
        "cnum" => {
            let (a, b, bs) = (num(1), num(2), bs_of(args[3]));
            let gs = ChunkNum::chunk_group_start(ChunkNum(a), bs).0;
            let ge = ChunkNum::chunk_group_end(ChunkNum(a), bs).0;
            let div = if b > 0 { (ChunkNum(a) / b).0.to_string() } else { "-".into() };
            let sub = if a >= b { format!("{}:{}", (ChunkNum(a) - b).0, (ChunkNum(a) - ChunkNum(b)).0) } else { "-".into() };
            let mul = a.checked_mul(b).map(|_| (ChunkNum(a) * b).0.to_string()).unwrap_or("-".into());
            let add = a.checked_add(b).map(|_| format!("{}:{}", (ChunkNum(a) + b).0, (ChunkNum(a) + ChunkNum(b)).0)).unwrap_or("-".into());
            let cmp = format!("{}{}{}", b01(ChunkNum(a) == b), b01(a == ChunkNum(b)), match ChunkNum(a).partial_cmp(&b) {
                Some(std::cmp::Ordering::Less) => "<",
                Some(std::cmp::Ordering::Equal) => "=",
                Some(std::cmp::Ordering::Greater) => ">",
                None => "?",
            });
            format!("{gs} {ge} {div} {sub} {mul} {add} {cmp} {} {}", ChunkNum::chunks(a).0, ChunkNum::full_chunks(a).0)
        }
        // BaoChunk::size / Default
        "bchunk" => {
            use bao_tree::iter::BaoChunk;
            let sz = num(1) as usize;
            let leaf: BaoChunk<()> = BaoChunk::Leaf { start_chunk: ChunkNum(3), size: sz, is_root: false, ranges: () };
            let parent: BaoChunk<()> = BaoChunk::Parent { node: node(1), is_root: false, left: true, right: true, ranges: () };
            let d: BaoChunk<()> = Default::default();
            let ds = match d {
                BaoChunk::Leaf { start_chunk, size, is_root, .. } => format!("L{}:{}:{}", start_chunk.0, size, b01(is_root)),
                _ => "P".into(),
            };
            format!("{} {} {}", leaf.size(), parent.size(), ds)
        }
        // Default memory outboards: the outboard of the empty blob
        "defaults" => {
            let a = PreOrderMemOutboard::<Vec<u8>>::default();
            let b = PostOrderMemOutboard::<Vec<u8>>::default();
            let c = PreOrderOutboard::<Vec<u8>>::default();
            let d = PostOrderOutboard::<Vec<u8>>::default();
            let e = blake3::hash(&[]);
            let ok = a.root == e && b.root == e && a.tree == BaoTree::new(0, BlockSize::ZERO) && b.tree == a.tree && a.data.is_empty() && b.data.is_empty();
            let ok2 = c.tree == a.tree && d.tree == a.tree && c.data.is_empty() && d.data.is_empty();
            format!("{} {}{} {} {}", hex(a.root.as_bytes()), b01(ok), b01(ok2), hex(c.root.as_bytes()), hex(d.root.as_bytes()))
        }
        // Parent's hand-written Deserialize: a JSON array of k well-formed elements (node, left, right, extra…)
        "parentde" => {
            let k = num(1) as usize;
            let h: Vec<String> = (0..32).map(|i| (i * 3 % 256).to_string()).collect();
            let harr = format!("[{}]", h.join(","));
            let mut elems = vec!["5".to_string(), harr.clone(), harr.clone(), harr.clone()];
            elems.truncate(k);
            let js = format!("[{}]", elems.join(","));
            match serde_json::from_str::<bao_tree::io::Parent>(&js) {
                Ok(p) => format!("Ok({})", node_id(p.node)),
                Err(_) => "Err".into(),
            }
        }
        // Debug of Leaf (length instead of bytes) and of the response plan iterator, EncodedItem::from(EncodeError),
        // and what the hand-written deserialisers say they expect when given the wrong type
        "dbg" => {
            let n = num(1);
            let leaf = bao_tree::io::Leaf { offset: n, data: bytes::Bytes::from(vec![7u8; (n % 5) as usize]) };
            let it = bao_tree::iter::ResponseIter::new(BaoTree::new(n, BlockSize::ZERO), bao_tree::ChunkRanges::all());
            let item: bao_tree::io::mixed::EncodedItem = EncodeError::LeafWrite(ChunkNum(n)).into();
            let from_ok = matches!(item, bao_tree::io::mixed::EncodedItem::Error(EncodeError::LeafWrite(c)) if c.0 == n);
            let e1 = serde_json::from_str::<bao_tree::io::Parent>("5").err().map(|e| e.to_string()).unwrap_or_default();
            let e2 = serde_json::from_str::<EncodeError>("{\"Io\":5}").err().map(|e| e.to_string()).unwrap_or_default();
            format!(
                "{} {} {}{}{}",
                format!("{:?}", leaf).replace(' ', "_"),
                format!("{:?}", it).replace(' ', "_"),
                b01(from_ok),
                b01(e1.contains("expected a parent node")),
                b01(e2.contains("expected an io::Error string representation"))
            )
        }
        _ => panic!("bad misc"),
    }
}

/// `flipz <seed> <size> <bs> <m>`: as `flipx`, on a SPARSE outboard (records with index % m == 0 are all zero: an
/// incomplete outboard), plus a sync copy of the sparse pre-order outboard into a post-order target that already
/// holds other records
pub fn op_flipz(args: &[&str]) -> String {
    let seed: u64 = args[0].parse().unwrap();
    let size: u64 = args[1].parse().unwrap();
    let bs = bs_of(args[2]);
    let m: usize = args[3].parse::<usize>().unwrap().max(1);
    let tree = BaoTree::new(size, bs);
    let raw = crate::rng::rand_bytes(seed, tree.outboard_size() as usize + 32);
    let root = blake3::Hash::from(<[u8; 32]>::try_from(&raw[..32]).unwrap());
    let mut data = raw[32..].to_vec();
    for (i, rec) in data.chunks_mut(64).enumerate() {
        if i % m == 0 {
            rec.fill(0);
        }
    }
    let pre = PreOrderMemOutboard { root, tree, data: data.clone() };
    let post = PostOrderMemOutboard { root, tree, data };
    let a = pre.clone().flip();
    let a2 = a.flip();
    let b = post.flip();
    let b2 = b.flip();
    let mut target = PostOrderMemOutboard { root, tree, data: crate::rng::rand_bytes(seed + 7, tree.outboard_size() as usize) };
    let cp = sync::copy(&pre, &mut target).map(|_| dig(&target.data)).unwrap_or_else(|e| io_err(&e));
    format!(
        "postMem:{}:{} preMem:{}:{} preMem:{}:{} postMem:{}:{} {}",
        dig(a.root.as_bytes()),
        dig(&a.data),
        dig(a2.root.as_bytes()),
        dig(&a2.data),
        dig(b.root.as_bytes()),
        dig(&b.data),
        dig(b2.root.as_bytes()),
        dig(&b2.data),
        cp
    )
}
