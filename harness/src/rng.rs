//! splitmix64: the one PRNG every random choice derives from
#[derive(Clone)]
pub struct Rng(pub u64);

impl Rng {
    pub fn new(seed: u64) -> Self {
        Rng(seed)
    }
    pub fn next(&mut self) -> u64 {
        self.0 = self.0.wrapping_add(0x9E3779B97F4A7C15);
        let mut z = self.0;
        z = (z ^ (z >> 30)).wrapping_mul(0xBF58476D1CE4E5B9);
        z = (z ^ (z >> 27)).wrapping_mul(0x94D049BB133111EB);
        z ^ (z >> 31)
    }
    /// uniform in 0..n (n > 0)
    pub fn below(&mut self, n: u64) -> u64 {
        self.next() % n
    }
    pub fn range(&mut self, lo: u64, hi: u64) -> u64 {
        lo + self.below(hi - lo)
    }
    pub fn pick<'a, T>(&mut self, xs: &'a [T]) -> &'a T {
        &xs[self.below(xs.len() as u64) as usize]
    }
    pub fn chance(&mut self, num: u64, den: u64) -> bool {
        self.below(den) < num
    }
    /// derive an independent stream
    pub fn fork(&mut self) -> Rng {
        Rng(self.next())
    }
}

/// the byte stream of the Lean `randBytes seed n`
pub fn rand_bytes(seed: u64, n: usize) -> Vec<u8> {
    let mut out = Vec::with_capacity(n);
    let mut r = Rng(seed);
    let mut cur = 0u64;
    for i in 0..n {
        if i % 8 == 0 {
            cur = r.next();
        }
        out.push((cur >> (8 * (i % 8))) as u8);
    }
    out
}
