//! operations on numbers, geometry, range sets and plans: run the real code, print canonically
use crate::canon::*;
use bao_tree::{
    io::{full_chunk_groups, round_up_to_chunks, round_up_to_chunks_groups, sync::truncate_ranges},
    iter::{BaoChunk, ResponseIterRef},
    BaoTree, BlockSize, ByteRanges, ChunkNum, ChunkRangesRef, PostOrderOffset,
};

fn pair(a: u64, b: u64) -> String {
    format!("{a}:{b}")
}

pub fn parse_list(s: &str) -> Vec<u64> {
    if s == "-" {
        vec![]
    } else {
        s.split(',').map(|x| x.parse().unwrap()).collect()
    }
}

pub fn op_node(args: &[&str]) -> String {
    let x: u64 = args[0].parse().unwrap();
    let n = node(x);
    let nr = n.node_range();
    let cr = n.chunk_range();
    let por = n.post_order_range();
    [
        n.level().to_string(),
        n.mid().0.to_string(),
        b01(n.is_leaf()).to_string(),
        opt_node(n.left_child()),
        opt_node(n.right_child()),
        opt_node(n.parent()),
        n.count_below().to_string(),
        opt_node(n.next_left_ancestor()),
        pair(node_id(nr.start), node_id(nr.end)),
        pair(cr.start.0, cr.end.0),
        n.right_count().to_string(),
        n.post_order_offset().to_string(),
        pair(por.start, por.end),
    ]
    .join(" ")
}

pub fn op_nodebs(args: &[&str]) -> String {
    let x: u64 = args[0].parse().unwrap();
    let n: u8 = args[1].parse().unwrap();
    let nd = node(x);
    format!(
        "{} {}",
        node_id(nd.subtract_block_size(n)),
        opt_node(nd.add_block_size(n))
    )
}

pub fn op_noderp(args: &[&str]) -> String {
    let x: u64 = args[0].parse().unwrap();
    let len: u64 = args[1].parse().unwrap();
    opt_node(node(x).restricted_parent(node(len)))
}

pub fn tree_of(size: &str, bs: &str) -> BaoTree {
    BaoTree::new(size.parse().unwrap(), BlockSize::from_chunk_log(bs.parse().unwrap()))
}

pub fn op_tree(args: &[&str]) -> String {
    let t = tree_of(args[0], args[1]);
    let pre: Vec<u64> = t.pre_order_nodes_iter().map(node_id).collect();
    let post: Vec<u64> = t.post_order_nodes_iter().map(node_id).collect();
    format!(
        "{} {} {} {} {} {}",
        node_id(t.root()),
        t.blocks(),
        t.chunks().0,
        t.outboard_size(),
        dig_nats(&pre),
        dig_nats(&post)
    )
}

fn post_off(o: Option<PostOrderOffset>) -> String {
    match o {
        None => "-".into(),
        Some(PostOrderOffset::Stable(n)) => format!("S{n}"),
        Some(PostOrderOffset::Unstable(n)) => format!("U{n}"),
    }
}

pub fn op_treeoff(args: &[&str]) -> String {
    let t = tree_of(args[0], args[1]);
    let id0: u64 = args[2].parse().unwrap();
    let count: u64 = args[3].parse().unwrap();
    (id0..id0 + count)
        .map(|x| {
            format!(
                "{}/{}",
                opt_u64(t.pre_order_offset(node(x))),
                post_off(t.post_order_offset(node(x)))
            )
        })
        .collect::<Vec<_>>()
        .join(" ")
}

pub fn op_trunc(args: &[&str]) -> String {
    let rs = ranges_of(&parse_list(args[0]));
    let size: u64 = args[1].parse().unwrap();
    ranges_str(truncate_ranges(&rs, size))
}

pub fn op_round(args: &[&str]) -> String {
    let bs = BlockSize::from_chunk_log(args[2].parse().unwrap());
    let b = parse_list(args[1]);
    match args[0] {
        "chunks" => {
            let v: smallvec::SmallVec<[u64; 2]> = b.iter().copied().collect();
            let r = ByteRanges::new(v).unwrap();
            ranges_str(&round_up_to_chunks(&r))
        }
        "groups" => ranges_str(&round_up_to_chunks_groups(ranges_of(&b), bs)),
        "full" => ranges_str(&full_chunk_groups(&ranges_of(&b), bs)),
        _ => panic!("bad kind"),
    }
}

pub fn chunk_str(c: &BaoChunk<&ChunkRangesRef>) -> String {
    match c {
        BaoChunk::Parent {
            node,
            is_root,
            left,
            right,
            ranges,
        } => format!(
            "P{}/{}{}{}/{}",
            node_id(*node),
            b01(*is_root),
            b01(*left),
            b01(*right),
            ranges_str(ranges)
        ),
        BaoChunk::Leaf {
            start_chunk,
            size,
            is_root,
            ranges,
        } => format!("L{}/{}/{}/{}", start_chunk.0, size, b01(*is_root), ranges_str(ranges)),
    }
}

pub fn chunk_str0(c: &BaoChunk) -> String {
    match c {
        BaoChunk::Parent {
            node,
            is_root,
            left,
            right,
            ..
        } => format!("P{}/{}{}{}/-", node_id(*node), b01(*is_root), b01(*left), b01(*right)),
        BaoChunk::Leaf {
            start_chunk,
            size,
            is_root,
            ..
        } => format!("L{}/{}/{}/-", start_chunk.0, size, b01(*is_root)),
    }
}

fn join_plan(v: Vec<String>) -> String {
    if v.is_empty() {
        "-".into()
    } else {
        v.join(" ")
    }
}

pub fn op_plan(args: &[&str]) -> String {
    let t = tree_of(args[0], args[1]);
    let ml: u8 = args[2].parse().unwrap();
    let rs = ranges_of(&parse_list(args[3]));
    // glue: accessors of the iterator and `without_ranges` (must agree with the items themselves)
    let it = t.ranges_pre_order_chunks_iter_ref(&rs, ml);
    if it.min_full_level() != ml || *it.tree() != t {
        return "glue-mismatch:accessors".into();
    }
    let items: Vec<BaoChunk<&ChunkRangesRef>> = it.collect();
    for c in &items {
        let a = chunk_str(c);
        let b = chunk_str0(&c.without_ranges());
        if a.rsplit_once('/').unwrap().0 != b.rsplit_once('/').unwrap().0 {
            return format!("glue-mismatch:without_ranges {a} {b}");
        }
    }
    join_plan(items.iter().map(chunk_str).collect())
}

pub fn op_rplan(args: &[&str]) -> String {
    let t = tree_of(args[0], args[1]);
    let rs = ranges_of(&parse_list(args[2]));
    join_plan(ResponseIterRef::new(t, &rs).map(|c| chunk_str0(&c)).collect())
}

pub fn op_pplan(args: &[&str]) -> String {
    let t = tree_of(args[0], args[1]);
    join_plan(t.post_order_chunks_iter().map(|c| chunk_str0(&c)).collect())
}

#[allow(dead_code)]
pub fn chunk(x: u64) -> ChunkNum {
    ChunkNum(x)
}
