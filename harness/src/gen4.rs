//! generators for the glue operations (`store`, `misc`)
use crate::gen1::size_classes;
use crate::rng::Rng;

pub fn gen(prop: &str, tier: &str, seed: u64, out: &mut Vec<String>) {
    let t = tier == "thorough";
    let mut r = Rng::new(seed ^ 0x5107_e5);
    match prop {
        // direct load / save / sync on every outboard kind, every node id of the tree and a few beyond it
        "STORE" => {
            for bs in 0u32..=if t { 4 } else { 3 } {
                for size in size_classes(bs, if t { 9 } else { 6 }) {
                    let chunks = (size + 1023) / 1024;
                    for kind in crate::gen2::SINKS {
                        for fl in ["sync", "fsm"] {
                            let ids = 2 * chunks + 4;
                            for n in 0..ids {
                                // small trees completely, larger ones sampled
                                if ids > 24 && !r.chance(if t { 8 } else { 5 }, ids.min(60)) {
                                    continue;
                                }
                                out.push(format!("store {fl} {kind} {size} {bs} {} {n}", r.below(1 << 20)));
                                // a backing that ends early (io kinds: error / zero pair on load, the file grows on save;
                                // memory kinds: an index panic)
                                if r.chance(1, 6) {
                                    let full = (((size + (1024u64 << bs) - 1) / (1024u64 << bs)).max(1) - 1) * 64;
                                    if full > 0 {
                                        let l = *r.pick(&[0, 1, 63, 64, 65, full / 2, full - 1, full - 64]);
                                        out.push(format!("store {fl} {kind} {size} {bs} {} {n} short{}", r.below(1 << 20), l.min(full)));
                                    }
                                }
                            }
                        }
                    }
                }
            }
        }
        // flip / copy of sparse (incomplete) outboards
        "FLIPZ" => {
            for bs in 0u32..=3 {
                for size in size_classes(bs, if t { 20 } else { 9 }) {
                    if size <= (1024u64 << bs) {
                        continue;
                    }
                    for m in [1u64, 2, 3] {
                        out.push(format!("flipz {} {size} {bs} {m}", r.below(1 << 30)));
                    }
                }
            }
        }
        // io::Error conversions, Display, source()
        "MISCERR" => {
            let mut ns: Vec<u64> = vec![0, 1, 2, 3, 4, 5, 7, 11, 1023, 1024, (1 << 32) - 1, 1 << 40, (1 << 53) - 1, (1 << 54) + 3, (1 << 62) - 1, (1 << 63) - 2];
            for _ in 0..if t { 300 } else { 60 } {
                ns.push(r.next() >> (1 + r.below(63)));
            }
            for n in ns {
                for v in ["phm", "lhm", "pw", "lw"] {
                    out.push(format!("misc encerr {v} {n}"));
                }
                for v in ["pnf", "lnf", "phm", "lhm"] {
                    out.push(format!("misc decerr {v} {n}"));
                }
            }
            out.push("misc encerr sm".into());
            for k in ["UnexpectedEof", "Other", "ConnectionReset", "WriteZero", "InvalidInput", "InvalidData"] {
                out.push(format!("misc encerr io {k}"));
                out.push(format!("misc decerr io {k}"));
            }
        }
        // number formatting, block size from bytes, chunk group rounding, ChunkNum arithmetic
        "MISCNUM" => {
            let mut ns: Vec<u64> = (0..40).collect();
            ns.extend([1023, 1024, 1025, 2047, 2048, 4096, 3 * 1024, 1 << 20, (1 << 20) + 1, 1 << 32, 1 << 62, 1 << 63, u64::MAX, u64::MAX - 1]);
            for k in 0..64 {
                ns.push(1u64 << k);
                ns.push((1u64 << k) - 1);
            }
            for _ in 0..if t { 400 } else { 80 } {
                ns.push(r.next() >> r.below(64));
            }
            for &n in &ns {
                if n < u64::MAX {
                    out.push(format!("misc fmt {n}"));
                }
                out.push(format!("misc bsbytes {n}"));
                for bs in [0u32, 1, 2, 4, 10] {
                    let b = *r.pick(&[0u64, 1, 2, 3, 7, 1024, n, n / 2 + 1]);
                    out.push(format!("misc cnum {n} {b} {bs}"));
                }
            }
        }
        "MISCOB" => {
            out.push("misc defaults".into());
        }
        "MISCPLAN" => {
            for sz in [0u64, 1, 64, 1024, 16384, 1 << 30] {
                out.push(format!("misc bchunk {sz}"));
            }
        }
        "MISCSERDE" => {
            for n in [0u64, 1, 4, 1024, 99999] {
                out.push(format!("misc dbg {n}"));
            }
            for k in 0..=4 {
                out.push(format!("misc parentde {k}"));
            }
        }
        _ => {}
    }
}
