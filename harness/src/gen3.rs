//! generators: histories (C07), faults (C10), fragmentation (C11), serde (C19)
use crate::canon::{blob, nat_list, ranges_of};
use crate::gen1::random_ranges;
use crate::gen2::{hash_sizes, SINKS};
use crate::rng::Rng;
use bao_tree::{io::outboard::PreOrderMemOutboard, io::sync, iter::BaoChunk, BaoTree, BlockSize};

/// byte offsets of the item boundaries of the honest encoding (0 = start, last = length)
pub fn item_boundaries(size: u64, bs: u32, q: &[u64]) -> Vec<u64> {
    let tree = BaoTree::new(size, BlockSize::from_chunk_log(bs as u8));
    let rs = ranges_of(q);
    let rs = sync::truncate_ranges(&rs, size);
    let mut v = vec![0u64];
    let mut off = 0u64;
    for c in bao_tree::iter::ResponseIterRef::new(tree, rs) {
        off += match c {
            BaoChunk::Parent { .. } => 64,
            BaoChunk::Leaf { size, .. } => size as u64,
        };
        v.push(off);
    }
    v
}

#[allow(dead_code)]
pub fn enc_len(desc: &str, bs: u32, q: &[u64]) -> usize {
    let d = blob(desc);
    let ob = PreOrderMemOutboard::create(&d, BlockSize::from_chunk_log(bs as u8));
    let mut out = Vec::new();
    sync::encode_ranges_validated(&d[..], &ob, &ranges_of(q), &mut out).unwrap();
    out.len()
}

pub fn gen(prop: &str, tier: &str, seed: u64, out: &mut Vec<String>) {
    let mut r = Rng::new(seed ^ 0x715707);
    let t = tier == "thorough";
    match prop {
        "C07" => {
            for &bs in &[0u32, 1, 2] {
                let sizes: Vec<u64> = hash_sizes(bs, 8, 40_000).into_iter().filter(|s| *s >= 1025).collect();
                let n_blobs = if t { sizes.len() } else { 5 };
                for bi in 0..n_blobs {
                    let size = if t { sizes[bi] } else { *r.pick(&sizes) };
                    let chunks = (size + 1023) / 1024;
                    let (b, fill) = match r.below(4) {
                        0 => (format!("rnd:{}:{}", r.below(100), size), r.below(256)),
                        1 => (format!("rep:{}:{}", r.next() >> 1, size), r.below(256)),
                        2 => (format!("idx:{}", size), 255),
                        _ => {
                            let c = r.below(255);
                            (format!("const:{c}:{size}"), c + 1)
                        }
                    };
                    // the alphabet: queries x interruptions
                    let g = 1u64 << bs;
                    let qs: Vec<Vec<u64>> = vec![
                        vec![0],
                        vec![0, 1],
                        vec![chunks / 2, chunks / 2 + 1],
                        vec![g, 2 * g],
                        vec![1, 3],
                        vec![chunks - 1],
                        vec![u64::MAX],
                        vec![0, chunks / 2 + 1],
                        random_ranges(&mut r, chunks + 1, 4),
                    ];
                    let mut letters: Vec<String> = Vec::new();
                    for q in &qs {
                        let ql = nat_list(q);
                        let bd = item_boundaries(size, bs, q);
                        letters.push(format!("{ql}/0:0:$/-"));
                        if bd.len() > 2 {
                            let k = bd[r.range(1, bd.len() as u64 - 1) as usize];
                            letters.push(format!("{ql}/0:0:{k}/-")); // cut at an item boundary
                            letters.push(format!("{ql}/0:0:{}/-", k + 1 + r.below(40))); // mid-item cut
                        }
                        let nleaves = bd.windows(2).filter(|w| w[1] - w[0] != 64).count() as u64;
                        if nleaves > 0 && r.chance(1, 2) {
                            letters.push(format!("{ql}/0:0:$/t{}", r.below(nleaves)));
                        }
                        let nparents = bd.len() as u64 - 1 - nleaves;
                        if nparents > 0 && r.chance(1, 2) {
                            letters.push(format!("{ql}/0:0:$/s{}", r.below(nparents)));
                        }
                    }
                    letters.truncate(12.max(letters.len().min(if t { 14 } else { 12 })));
                    let sinks: Vec<&str> = if t { SINKS.to_vec() } else { vec![*r.pick(SINKS), *r.pick(SINKS)] };
                    for sink in sinks {
                        for fl in ["sync", "fsm"] {
                            if !t && r.chance(1, 2) {
                                continue;
                            }
                            // exhaustive short histories
                            let depth2: Vec<(usize, usize)> = (0..letters.len()).flat_map(|i| (0..letters.len()).map(move |j| (i, j))).collect();
                            for (i, j) in depth2 {
                                if !t && r.chance(2, 3) {
                                    continue;
                                }
                                out.push(format!("hist {fl} {sink} {b} {bs} {fill} {};{}", letters[i], letters[j]));
                            }
                            if t {
                                for _ in 0..400 {
                                    let h: Vec<&str> = (0..3).map(|_| r.pick(&letters).as_str()).collect();
                                    out.push(format!("hist {fl} {sink} {b} {bs} {fill} {}", h.join(";")));
                                }
                            }
                            // longer random histories, ending with a complete download half of the time
                            for _ in 0..if t { 60 } else { 12 } {
                                let len = r.range(3, 13);
                                let mut h: Vec<String> = (0..len).map(|_| r.pick(&letters).clone()).collect();
                                if r.chance(1, 2) {
                                    h.push("0/0:0:$/-".into());
                                }
                                out.push(format!("hist {fl} {sink} {b} {bs} {fill} {}", h.join(";")));
                            }
                        }
                    }
                }
            }
        }
        _ => {}
    }
}
