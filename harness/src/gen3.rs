//! generators: histories (C07), faults (C10), fragmentation (C11), serde (C19)
use crate::canon::{blob, nat_list, ranges_of};
use crate::gen1::random_ranges;
use crate::gen2::{hash_sizes, SINKS};
use crate::rng::Rng;
use bao_tree::{io::outboard::PreOrderMemOutboard, io::sync, iter::BaoChunk, BaoTree, BlockSize};

/// byte offsets of the item boundaries of the honest encoding (0 = start, last = length)
pub fn item_boundaries(size: u64, bs: u32, q: &[u64]) -> Vec<u64> {
    let tree = BaoTree::new(size, BlockSize::from_chunk_log(bs as u8));
    let rs = ranges_of(q);
    let rs = sync::truncate_ranges(&rs, size);
    let mut v = vec![0u64];
    let mut off = 0u64;
    for c in bao_tree::iter::ResponseIterRef::new(tree, rs) {
        off += match c {
            BaoChunk::Parent { .. } => 64,
            BaoChunk::Leaf { size, .. } => size as u64,
        };
        v.push(off);
    }
    v
}

#[allow(dead_code)]
pub fn enc_len(desc: &str, bs: u32, q: &[u64]) -> usize {
    let d = blob(desc);
    let ob = PreOrderMemOutboard::create(&d, BlockSize::from_chunk_log(bs as u8));
    let mut out = Vec::new();
    sync::encode_ranges_validated(&d[..], &ob, &ranges_of(q), &mut out).unwrap();
    out.len()
}

pub fn gen(prop: &str, tier: &str, seed: u64, out: &mut Vec<String>) {
    let mut r = Rng::new(seed ^ 0x715707);
    let t = tier == "thorough";
    match prop {
        "C07" => {
            for &bs in &[0u32, 1, 2] {
                let sizes: Vec<u64> = hash_sizes(bs, 8, 40_000).into_iter().filter(|s| *s >= 1025).collect();
                let n_blobs = if t { sizes.len() } else { 5 };
                for bi in 0..n_blobs {
                    let size = if t { sizes[bi] } else { *r.pick(&sizes) };
                    let chunks = (size + 1023) / 1024;
                    let (b, fill) = match r.below(4) {
                        0 => (format!("rnd:{}:{}", r.below(100), size), r.below(256)),
                        1 => (format!("rep:{}:{}", r.next() >> 1, size), r.below(256)),
                        2 => (format!("idx:{}", size), 255),
                        _ => {
                            let c = r.below(255);
                            (format!("const:{c}:{size}"), c + 1)
                        }
                    };
                    // the alphabet: queries x interruptions
                    let g = 1u64 << bs;
                    let qs: Vec<Vec<u64>> = vec![
                        vec![0],
                        vec![0, 1],
                        vec![chunks / 2, chunks / 2 + 1],
                        vec![g, 2 * g],
                        vec![1, 3],
                        vec![chunks - 1],
                        vec![u64::MAX],
                        vec![0, chunks / 2 + 1],
                        random_ranges(&mut r, chunks + 1, 4),
                    ];
                    let mut letters: Vec<String> = Vec::new();
                    for q in &qs {
                        let ql = nat_list(q);
                        let bd = item_boundaries(size, bs, q);
                        letters.push(format!("{ql}/0:0:$/-"));
                        if bd.len() > 2 {
                            let k = bd[r.range(1, bd.len() as u64 - 1) as usize];
                            letters.push(format!("{ql}/0:0:{k}/-")); // cut at an item boundary
                            letters.push(format!("{ql}/0:0:{}/-", k + 1 + r.below(40))); // mid-item cut
                        }
                        let nleaves = bd.windows(2).filter(|w| w[1] - w[0] != 64).count() as u64;
                        if nleaves > 0 && r.chance(1, 2) {
                            letters.push(format!("{ql}/0:0:$/t{}", r.below(nleaves)));
                        }
                        let nparents = bd.len() as u64 - 1 - nleaves;
                        if nparents > 0 && r.chance(1, 2) {
                            letters.push(format!("{ql}/0:0:$/s{}", r.below(nparents)));
                        }
                    }
                    letters.truncate(12.max(letters.len().min(if t { 14 } else { 12 })));
                    let sinks: Vec<&str> = if t { SINKS.to_vec() } else { vec![*r.pick(SINKS), *r.pick(SINKS)] };
                    for sink in sinks {
                        for fl in ["sync", "fsm"] {
                            if !t && r.chance(1, 2) {
                                continue;
                            }
                            // exhaustive short histories
                            let depth2: Vec<(usize, usize)> = (0..letters.len()).flat_map(|i| (0..letters.len()).map(move |j| (i, j))).collect();
                            for (i, j) in depth2 {
                                if !t && r.chance(2, 3) {
                                    continue;
                                }
                                out.push(format!("hist {fl} {sink} {b} {bs} {fill} {};{}", letters[i], letters[j]));
                            }
                            if t {
                                for _ in 0..400 {
                                    let h: Vec<&str> = (0..3).map(|_| r.pick(&letters).as_str()).collect();
                                    out.push(format!("hist {fl} {sink} {b} {bs} {fill} {}", h.join(";")));
                                }
                            }
                            // longer random histories, ending with a complete download half of the time
                            for _ in 0..if t { 60 } else { 12 } {
                                let len = r.range(3, 13);
                                let mut h: Vec<String> = (0..len).map(|_| r.pick(&letters).clone()).collect();
                                if r.chance(1, 2) {
                                    h.push("0/0:0:$/-".into());
                                }
                                out.push(format!("hist {fl} {sink} {b} {bs} {fill} {}", h.join(";")));
                            }
                        }
                    }
                }
            }
        }
        "C07cover" => {
            // every (sink kind, flavour) pair on incomplete trees of more than two groups: a download in
            // three pieces (head, tail incl. the size proof, everything), one piece interrupted
            for &bs in &[0u32, 1, 2] {
                let g = 1024u64 << bs;
                let groups: &[u64] = if t { &[3, 4, 5, 6, 7, 9, 11, 13] } else { &[3, 5, 6, 7] };
                for &ng in groups {
                    for size in [ng * g - 300, ng * g] {
                        let chunks = (size + 1023) / 1024;
                        let b = format!("rnd:{}:{size}", r.below(100));
                        let fill = 0x55;
                        let head = nat_list(&[0, chunks / 2]);
                        let tail = nat_list(&[chunks / 2]);
                        let bd = item_boundaries(size, bs, &[chunks / 2]);
                        let cut = bd[bd.len() / 2] + r.below(30);
                        for sink in SINKS {
                            for fl in ["sync", "fsm"] {
                                out.push(format!("hist {fl} {sink} {b} {bs} {fill} {head}/0:0:$/-;{tail}/0:0:{cut}/-;{tail}/0:0:$/-;0/0:0:$/-"));
                                // a write to the BACKING of an io outboard fails during the first download (every index on
                                // small trees), then the same request is retried: it must repair whatever was left behind
                                if sink.ends_with("Io") {
                                    for k in 0..(2 * ng).min(if t { 12 } else { 5 }) {
                                        out.push(format!("hist {fl} {sink} {b} {bs} {fill} 0/0:0:$/b{k};0/0:0:$/-"));
                                    }
                                }
                            }
                        }
                    }
                }
            }
        }
        "C10" => {
            let ops = ["encv-sync", "encp-sync", "encv-fsm", "encp-fsm", "mixed", "decr-sync", "decr-fsm", "ob-sync", "ob-fsm",
                "obpo-sync", "obpo-fsm", "copy-sync", "copy-fsm", "valid-sync", "valid-fsm", "validob-sync", "validob-fsm"];
            for &bs in &[0u32, 1, 2] {
                let sizes: Vec<u64> = hash_sizes(bs, if t { 6 } else { 3 }, 30_000).into_iter().filter(|s| *s > 0).collect();
                for size in sizes {
                    let b = crate::gen2::blob_desc(&mut r, size);
                    let chunks = (size + 1023) / 1024;
                    let mut qs = crate::gen2::query_classes(&mut r, chunks, bs);
                    qs.truncate(if t { 10 } else { 4 });
                    for q in qs {
                        // a stream that ends early, read through the sync decoder by a caller that keeps polling after the
                        // failure (collect / log-and-continue): errors, never a panic
                        {
                            let src = format!("{b}/{bs}/{}", nat_list(&q));
                            let total = *item_boundaries(size, bs, &q).last().unwrap();
                            for _ in 0..2 {
                                out.push(format!("dec sync {b} {size} {bs} {} {src} 0:0:{}", nat_list(&q), r.below(total + 1)));
                            }
                        }
                        for op in ops {
                            if !t && r.chance(2, 3) {
                                continue;
                            }
                            let store = if op.starts_with("decr") { *r.pick(SINKS) } else { *r.pick(crate::gen2::STORES) };
                            let stride = if t || chunks <= 8 { 1 } else { 1 + r.below(3) };
                            out.push(format!("faults {op}/{b}/{bs}/{store}/{} {stride}", nat_list(&q)));
                        }
                    }
                }
            }
        }
        "C11" => {
            for &bs in &[0u32, 1, 2] {
                let sizes: Vec<u64> = hash_sizes(bs, 3, 20_000);
                for size in sizes {
                    let b = crate::gen2::blob_desc(&mut r, size);
                    let chunks = (size + 1023) / 1024;
                    let mut qs = crate::gen2::query_classes(&mut r, chunks, bs);
                    qs.truncate(if t { 10 } else { 5 });
                    for q in qs {
                        let ql = nat_list(&q);
                        let src = format!("{b}/{bs}/{ql}");
                        let bd = item_boundaries(size, bs, &q);
                        // candidate cut points: every item boundary and +-1 around it
                        let mut cand: Vec<u64> = bd.iter().flat_map(|x| [x.saturating_sub(1), *x, x + 1]).collect();
                        cand.sort();
                        cand.dedup();
                        let total = *bd.last().unwrap();
                        let mut cutsets: Vec<String> = vec!["e1".into(), "e1p".into(), "e7".into(), "e63p".into(), "e64".into(), "e65".into(), "e1000p".into(), "c-p".into()];
                        cutsets.push(format!("c{}", nat_list(&bd).replace('-', "")));
                        cutsets.push(format!("c{}p", nat_list(&cand).replace('-', "")));
                        let nrand = if t { 12 } else { 3 };
                        for _ in 0..nrand {
                            let sub: Vec<u64> = cand.iter().copied().filter(|_| r.chance(1, 2)).collect();
                            cutsets.push(format!("c{}{}", nat_list(&sub).replace('-', ""), if r.chance(1, 2) { "p" } else { "" }));
                        }
                        if t && cand.len() <= 12 {
                            for s in crate::gen1::subsets(&cand) {
                                cutsets.push(format!("c{}", nat_list(&s).replace('-', "")));
                            }
                        }
                        for cs in &cutsets {
                            if !t && r.chance(1, 2) {
                                continue;
                            }
                            let fl = if r.chance(1, 2) { "sync" } else { "fsm" };
                            // honest, truncated, tampered
                            let expr = match r.below(4) {
                                0 | 1 => "0:0:$".to_string(),
                                2 => format!("0:0:{}", r.below(total + 1)),
                                _ => format!("0:0:$~{}^{}", r.below(total + 1), 1 + r.below(255)),
                            };
                            out.push(format!("fragdec {fl} {cs} {b} {size} {bs} {ql} {src} {expr}"));
                            // the driver on a borrowed reader, the response followed by another message: what is
                            // left for the next reader of the connection must not depend on the slicing either
                            if r.chance(1, 3) {
                                let n = *r.pick(&[1u64, 64, 65, 1000, 9000]) as usize;
                                let tail: String = (0..n).map(|i| format!("{:02x}", (i * 31 + 7) % 256)).collect();
                                let sink = *r.pick(crate::gen2::SINKS);
                                let fl2 = if r.chance(1, 2) { "sync" } else { "fsm" };
                                out.push(format!("fragdecr {cs} {fl2} {sink} {b} {bs} {ql} {src} 0:0:$+x{tail} {}", 1 + r.below(200)));
                                // and a stream that fails part-way: what has been stored by then must not depend on the
                                // slicing or on where the reader suspended
                                let bad = if r.chance(1, 2) { format!("0:0:{}", r.below(total + 1)) } else { format!("0:0:$~{}^{}", r.below(total + 1), 1 + r.below(255)) };
                                out.push(format!("fragdecr {cs} {fl2} {sink} {b} {bs} {ql} {src} {bad} {}", 1 + r.below(200)));
                            }
                        }
                        // unfragmented transport as well (a reader that hands out everything it has)
                        {
                            let sink = *r.pick(crate::gen2::SINKS);
                            let fl2 = if r.chance(1, 2) { "sync" } else { "fsm" };
                            let tail: String = (0..9000usize).map(|i| format!("{:02x}", (i * 31 + 7) % 256)).collect();
                            out.push(format!("fragdecr c- {fl2} {sink} {b} {bs} {ql} {src} 0:0:$+x{tail} 7"));
                        }
                    }
                    // data source fragmented: outboard creation and the encoder
                    for cs in ["e1", "e1p", "e1023", "e1024p", "e1025", "e4096p", "c1,2,3,1024,2047"] {
                        for fl in ["sync", "fsm"] {
                            for order in ["pre", "post"] {
                                if !t && r.chance(1, 2) {
                                    continue;
                                }
                                out.push(format!("fragob {fl} {cs} {b} {bs} {order}"));
                            }
                        }
                    }
                    for m in [1u64, 7, 1023, 1024, 1025, 5000] {
                        let q = random_ranges(&mut r, chunks + 1, 4);
                        out.push(format!("fragenc {m} {b} {bs} {} -", nat_list(&q)));
                    }
                }
            }
        }
        "C19" => {
            let nums: Vec<u64> = vec![0, 1, 127, 128, 16383, 16384, 1 << 32, (1 << 53) + 1, 1 << 63, u64::MAX, u64::MAX - 1];
            let lens: Vec<u64> = vec![0, 1, 127, 128, 300, 16383, 16384, 65535, 65536];
            let kinds = ["NotFound", "PermissionDenied", "ConnectionRefused", "ConnectionReset", "ConnectionAborted", "NotConnected",
                "AddrInUse", "BrokenPipe", "AlreadyExists", "WouldBlock", "InvalidInput", "InvalidData", "TimedOut", "WriteZero",
                "Interrupted", "Unsupported", "UnexpectedEof", "OutOfMemory", "Other"];
            let msgs: Vec<String> = vec!["".into(), "plain".into(), "with \"quotes\" and \\ backslash".into(), "tab\tnewline\ncr\r".into(),
                "ctl \u{1} \u{8} \u{c} \u{1f} \u{7f}".into(), "non-ascii: äöü € 日本 🦀".into(), "colon:in:message".into(), "a".repeat(300)];
            let hexs = |s: &str| -> String { if s.is_empty() { "-".into() } else { s.bytes().map(|b| format!("{:02x}", b)).collect() } };
            let mut n2 = nums.clone();
            for _ in 0..if t { 200 } else { 40 } {
                n2.push(r.next() >> r.below(64));
            }
            for &n in &n2 {
                out.push(format!("serde node:{n}"));
                out.push(format!("serde chunk:{n}"));
                out.push(format!("serde parent:{n}:{}", r.below(1000)));
                out.push(format!("serde content:parent:{n}:{}", r.below(1000)));
                out.push(format!("serde item:parent:{n}:{}", r.below(1000)));
                out.push(format!("serde item:size:{n}"));
                for e in ["phm", "lhm", "pw", "lw"] {
                    out.push(format!("serde err:{e}:{n}"));
                    out.push(format!("serde item:error:{e}:{n}"));
                }
            }
            let mut l2 = lens.clone();
            for _ in 0..if t { 100 } else { 20 } {
                l2.push(r.below(70000));
            }
            for &len in &l2 {
                let off = *r.pick(&n2);
                let seed = r.below(1000);
                out.push(format!("serde leaf:{off}:{len}:{seed}"));
                out.push(format!("serde content:leaf:{off}:{len}:{seed}"));
                out.push(format!("serde item:leaf:{off}:{len}:{seed}"));
            }
            out.push("serde err:sm".into());
            out.push("serde item:error:sm".into());
            out.push("serde item:done".into());
            for k in kinds {
                for m in &msgs {
                    out.push(format!("serde err:io:{k}:{}", hexs(m)));
                    out.push(format!("serde item:error:io:{k}:{}", hexs(m)));
                }
                // the same kind without a custom payload (std's own description is the message)
                let e = std::io::Error::from(crate::ops3::io_kind_of_name(k));
                out.push(format!("serde err:ios:{k}:{}", hexs(&e.to_string())));
                out.push(format!("serde item:error:ios:{k}:{}", hexs(&e.to_string())));
            }
            // OS errors (message produced by the platform, no payload)
            for errno in [1, 2, 4, 5, 9, 11, 12, 13, 17, 20, 21, 22, 28, 32, 104, 110, 111, 9999] {
                let e = std::io::Error::from_raw_os_error(errno);
                let k = format!("{:?}", e.kind());
                out.push(format!("serde err:ioo:{errno}:{k}:{}", hexs(&e.to_string())));
                out.push(format!("serde item:error:ioo:{errno}:{k}:{}", hexs(&e.to_string())));
            }
        }
        _ => {}
    }
}
