//! case generators for the hashing properties
use crate::canon::nat_list;
use crate::gen1::{random_ranges, size_classes, subsets};
use crate::rng::Rng;

pub const ENTRIES: &[&str] = &[
    "sync-create-preMem",
    "sync-create-postMem",
    "sync-post-order",
    "fsm-post-order",
    "sync-sized-preIo",
    "sync-sized-postIo",
    "fsm-sized-preIo",
    "fsm-sized-postIo",
    "sync-init-preIo",
    "sync-init-postIo",
    "fsm-init-preIo",
    "fsm-init-postIo",
    "sync-create-preIo",
    "sync-create-postIo",
    "fsm-create-preIo",
    "fsm-create-postIo",
    "sync-outboard-preMem",
    "sync-outboard-postMem",
    "sync-outboard-preIo",
    "sync-outboard-postIo",
    "sync-outboard-empty",
    "fsm-outboard-preMem",
    "fsm-outboard-postMem",
    "fsm-outboard-preIo",
    "fsm-outboard-postIo",
    "fsm-outboard-empty",
];
pub const STORES: &[&str] = &["preMem", "postMem", "preIo", "postIo"];
pub const SINKS: &[&str] = &["preMem", "postMem", "preIo", "postIo", "empty"];

pub fn blob_desc(r: &mut Rng, size: u64) -> String {
    match r.below(4) {
        0 => format!("rnd:{}:{}", r.below(1000), size),
        1 => format!("const:{}:{}", r.below(256), size),
        2 => format!("rep:{}:{}", r.next() >> 1, size),
        _ => format!("idx:{}", size),
    }
}

/// sizes (bytes) for hashing cases: boundary classes for `bs`, capped
pub fn hash_sizes(bs: u32, max_groups: u64, cap: u64) -> Vec<u64> {
    size_classes(bs, max_groups).into_iter().filter(|s| *s <= cap).collect()
}

/// query classes for a blob of `chunks` chunks
pub fn query_classes(r: &mut Rng, chunks: u64, bs: u32) -> Vec<Vec<u64>> {
    let g = 1u64 << bs;
    let c = chunks.max(1);
    let mut v: Vec<Vec<u64>> = vec![
        vec![0],                         // all
        vec![c - 1],                     // last chunk onwards
        vec![u64::MAX],                  // size proof only
        vec![0, 1],                      // first chunk
        vec![c / 2, c / 2 + 1],          // a single chunk in the middle
        vec![1, 3],                      // partial group (bs >= 2) or two chunks
        vec![g, 2 * g],                  // exactly the second group
        vec![0, c],                      // all, closed
        vec![c, c + 5],                  // past the end only
        vec![1, 2, c + 3, c + 4],        // partial + past the end
    ];
    for _ in 0..3 {
        v.push(random_ranges(r, c + 2, 6));
    }
    for q in v.iter_mut() {
        q.sort();
        q.dedup();
    }
    v
}

fn th(tier: &str) -> bool {
    tier == "thorough"
}

/// honest source descriptor and stream expression
fn honest(blob: &str, bs: u32, q: &[u64]) -> String {
    format!("{}/{}/{}", blob, bs, nat_list(q))
}

/// approximate length of the encoding: used only to pick mutation positions (harness clamps)
fn enc_len_guess(size: u64, q: &[u64]) -> u64 {
    if q.is_empty() {
        0
    } else {
        size + (size / 1024 + 1) * 64
    }
}

pub fn gen(prop: &str, tier: &str, seed: u64, out: &mut Vec<String>) {
    let mut r = Rng::new(seed ^ 0xBA0BA0);
    let t = th(tier);
    let cap: u64 = if t { 1_200_000 } else { 140_000 };
    let bss: Vec<u32> = if t { (0..=8).collect() } else { vec![0, 1, 2, 3, 5, 8] };
    match prop {
        "C03" => {
            for &bs in &bss {
                let sizes = hash_sizes(bs, if t { 64 } else { 6 }, cap);
                for size in sizes {
                    let b = blob_desc(&mut r, size);
                    let n_entries = if t { ENTRIES.len() } else { 6 };
                    let start = r.below(ENTRIES.len() as u64) as usize;
                    for i in 0..n_entries {
                        out.push(format!("ob {b} {bs} {}", ENTRIES[(start + i) % ENTRIES.len()]));
                    }
                    // the same through a data reader that returns short reads (sync entry points take any `Read`)
                    let sync_entries: Vec<&&str> = ENTRIES.iter().filter(|e| e.starts_with("sync-") && **e != "sync-create-preMem" && **e != "sync-create-postMem").collect();
                    for _ in 0..if t { 4 } else { 2 } {
                        let e = sync_entries[r.below(sync_entries.len() as u64) as usize];
                        let m = *r.pick(&[1u64, 7, 63, 64, 1000, 1023, 1024, 1025, 4097]);
                        out.push(format!("ob {b} {bs} {e}+t{m}"));
                    }
                    // zero-rich contents (sparse files, zero padding): equal chunk groups at different offsets
                    if size > 0 {
                        for _ in 0..2 {
                            let e = ENTRIES[r.below(ENTRIES.len() as u64) as usize];
                            out.push(format!("ob const:0:{size} {bs} {e}"));
                        }
                    }
                    // `create` on a reader that is not at its start (a header was read, or an earlier `create` ran)
                    for e in ["sync-create-preIo", "sync-create-postIo"] {
                        let k = *r.pick(&[1u64, 8, 1024, size / 2, size.saturating_sub(1), size]);
                        out.push(format!("ob {b} {bs} {e}+p{k}"));
                    }
                    out.push(format!("glue {b} {bs}"));
                }
            }
        }
        "C12" => {
            for &bs in &bss {
                for size in hash_sizes(bs, if t { 300 } else { 12 }, if t { 2_000_000 } else { 120_000 }) {
                    if t && r.chance(2, 3) {
                        continue;
                    }
                    out.push(format!("flip {} {bs}", blob_desc(&mut r, size)));
                    // arbitrary contents: only the geometry matters
                    out.push(format!("flipx {} {size} {bs}", r.below(1 << 30)));
                }
                for groups in 1..=if t { 70u64 } else { 34 } {
                    let g = 1024u64 << bs;
                    for size in [groups * g, groups * g - r.below(g)] {
                        out.push(format!("flipx {} {size} {bs}", r.below(1 << 30)));
                    }
                }
            }
        }
        "C13" => {
            // all pairs (n <= m) over a size-class list, plus chains of appends
            for &bs in &[0u32, 1, 2, 4] {
                let sizes = hash_sizes(bs, if t { 40 } else { 7 }, if t { 700_000 } else { 60_000 });
                let pat = ["rnd", "rep"];
                for (i, &n) in sizes.iter().enumerate() {
                    for &m in sizes.iter().skip(i) {
                        if !t && r.chance(2, 3) {
                            continue;
                        }
                        let fl = *r.pick(&["sync", "syncw", "fsm", "growsync", "growsync", "growfsm", "reusesync"]);
                        out.push(format!("obpre {} {} {n} {m} {bs} {fl}", r.pick(&pat), r.below(50)));
                    }
                }
                for _ in 0..if t { 60 } else { 10 } {
                    let mut n = r.below(4000);
                    let seed = r.below(50);
                    for _ in 0..r.range(2, 7) {
                        let m = n + r.below(if t { 200_000 } else { 30_000 });
                        out.push(format!("obpre rnd {seed} {n} {m} {bs} {}", if r.chance(1, 2) { "sync" } else { "growsync" }));
                        n = m;
                    }
                }
            }
        }
        "C04" => {
            // bao comparison: all single ranges on blobs up to 12 chunks (quick: sampled), plus large sampled
            let sizes: Vec<u64> = vec![0, 1, 1024, 1025, 2048, 3000, 4096, 5000, 8192, 9000, 12288, 16384, 16385, 40000];
            for &size in &sizes {
                let b = blob_desc(&mut r, size);
                let n = if t { 120 } else { 25 };
                out.push(format!("baocmp {b} 0 {size}"));
                out.push(format!("baocmp {b} {size} 10"));
                for _ in 0..n {
                    let start = r.below(size + 2000);
                    let len = 1 + r.below(size + 2000);
                    out.push(format!("baocmp {b} {start} {len}"));
                }
            }
            // pruning rule: every chunk subset on small blobs, every block size
            for &bs in &[0u32, 1, 2, 3] {
                for &size in &[1u64, 2048, 3000, 4096, 5000, 6144, 8192, 9000] {
                    let chunks = (size + 1023) / 1024;
                    let pts: Vec<u64> = (0..=chunks + 1).collect();
                    let b = blob_desc(&mut r, size);
                    for q in subsets(&pts) {
                        if !t && r.chance(1, 2) {
                            continue;
                        }
                        // all five encoders and all store kinds take turns ("the encoding" is every encoder's)
                        // (`syncw<k>`: the sync encoders into a sink that accepts at most k bytes per write call)
                        let (fl, mode) = *r.pick(&[("sync", "val"), ("sync", "plain"), ("fsm", "val"), ("fsm", "plain"), ("mixed", "val"), ("syncw7", "val"), ("syncw1000", "val"), ("syncw63", "plain"), ("syncw1025", "plain")]);
                        let store = *r.pick(&["preMem", "postMem", "preIo", "postIo"]);
                        out.push(format!("enc {b} {bs} {store} {fl} {mode} {} -", nat_list(&q)));
                    }
                }
            }
            for &bs in &bss {
                for size in hash_sizes(bs, 4, cap) {
                    let b = blob_desc(&mut r, size);
                    let chunks = (size + 1023) / 1024;
                    let mut qs = query_classes(&mut r, chunks, bs);
                    // single chunks of the (possibly short) last group, and the size-proof query
                    let g = 1u64 << bs;
                    let last_group_start = (chunks.max(1) - 1) / g * g;
                    qs.push(vec![last_group_start, last_group_start + 1]);
                    qs.push(vec![chunks.max(1) - 1, chunks.max(1)]);
                    qs.push(vec![u64::MAX]);
                    for q in qs {
                        for (fl, mode) in [("sync", "val"), ("sync", "plain"), ("fsm", "val"), ("fsm", "plain"), ("mixed", "val")] {
                            if !t && r.chance(1, 2) {
                                continue;
                            }
                            let store = *r.pick(&["preMem", "postMem", "preIo", "postIo"]);
                            out.push(format!("enc {b} {bs} {store} {fl} {mode} {} -", nat_list(&q)));
                        }
                    }
                }
            }
        }
        "C02" => {
            // every chunk subset as a query for small blobs, all sinks, both flavours
            for &bs in &[0u32, 1, 2] {
                for &size in &[0u64, 1, 1024, 2049, 4096, 5000, 7000, 8192, 10000] {
                    let chunks = (size + 1023) / 1024;
                    let pts: Vec<u64> = (0..=chunks + 1).collect();
                    let b = blob_desc(&mut r, size);
                    for q in subsets(&pts) {
                        if !t && r.chance(3, 4) {
                            continue;
                        }
                        let sink = *r.pick(SINKS);
                        let fl = if r.chance(1, 2) { "sync" } else { "fsm" };
                        let fill = 1 + r.below(255);
                        // half of the cases: the response is followed by more bytes on the same reader
                        let tail = if r.chance(1, 2) {
                            let n = 1 + r.below(9000) as usize;
                            format!("+x{}", (0..n).map(|i| format!("{:02x}", (i * 31 + 7) % 256)).collect::<String>())
                        } else {
                            String::new()
                        };
                        out.push(format!(
                            "decr {fl} {sink} {b} {bs} {} {} 0:0:${tail} {fill}",
                            nat_list(&q),
                            honest(&b, bs, &q)
                        ));
                        if r.chance(1, 4) {
                            out.push(format!("decx {b} {size} {bs} {} {} 0:0:$", nat_list(&q), honest(&b, bs, &q)));
                        }
                    }
                }
            }
            for &bs in &bss {
                for size in hash_sizes(bs, if t { 12 } else { 3 }, cap) {
                    let b = blob_desc(&mut r, size);
                    for q in query_classes(&mut r, (size + 1023) / 1024, bs) {
                        for (i, sink) in SINKS.iter().enumerate() {
                            if !t && (i as u64 + size) % 2 == 0 {
                                continue;
                            }
                            let fl = if r.chance(1, 2) { "sync" } else { "fsm" };
                            out.push(format!(
                                "decr {fl} {sink} {b} {bs} {} {} 0:0:$ 9",
                                nat_list(&q),
                                honest(&b, bs, &q)
                            ));
                        }
                    }
                }
            }
        }
        "C05" | "C08enc" => {
            // intact and corrupted stores through every encoder flavour
            for &bs in &[0u32, 1, 2, 3] {
                for size in hash_sizes(bs, if t { 8 } else { 4 }, 80_000) {
                    if size < 1025 {
                        continue;
                    }
                    let b = blob_desc(&mut r, size);
                    let chunks = (size + 1023) / 1024;
                    let tree_pairs = ((size + (1024 << bs) - 1) / (1024 << bs)).saturating_sub(1);
                    for q in query_classes(&mut r, chunks, bs) {
                        let store = *r.pick(STORES);
                        out.push(format!("encx {b} {bs} {store} {} -", nat_list(&q)));
                        // single byte corruptions: first / last byte of a chunk, each half of a pair
                        let mut cors: Vec<String> = Vec::new();
                        let per_query = if t { 24 } else { 5 };
                        for _ in 0..per_query {
                            if r.chance(1, 2) || tree_pairs == 0 {
                                let c = r.below(chunks);
                                let pos = match r.below(3) {
                                    0 => c * 1024,
                                    1 => (c * 1024 + 1023).min(size - 1),
                                    _ => r.below(size),
                                };
                                cors.push(format!("d{pos}^{}", 1 + r.below(255)));
                            } else {
                                let p = r.below(tree_pairs);
                                let pos = p * 64 + if r.chance(1, 2) { r.below(32) } else { 32 + r.below(32) };
                                cors.push(format!("o{pos}^{}", 1 + r.below(255)));
                            }
                        }
                        // a data store that is shorter than the geometry (truncated / partial file)
                        cors.push(format!("Td{}", r.below(size)));
                        cors.push(format!("Td{}", size - 1));
                        // pairs of positions
                        if cors.len() >= 2 {
                            let two = format!("{},{}", cors[0], cors[1]);
                            cors.push(two);
                        }
                        for c in cors {
                            let store = *r.pick(STORES);
                            out.push(format!("encx {b} {bs} {store} {} {c}", nat_list(&q)));
                        }
                    }
                }
            }
        }
        "C01" | "C09" | "C16" | "C20" | "C08dec" => {
            let dec_op = |r: &mut Rng| if r.chance(1, 2) { "dec sync" } else { "dec fsm" };
            for &bs in &[0u32, 1, 2, 3] {
                let sizes = hash_sizes(bs, if t { 6 } else { 3 }, 50_000);
                for size in sizes {
                    let b = blob_desc(&mut r, size);
                    let chunks = (size + 1023) / 1024;
                    let qs = query_classes(&mut r, chunks, bs);
                    for q in &qs {
                        let src = honest(&b, bs, q);
                        let ql = nat_list(q);
                        let len = enc_len_guess(size, q);
                        match prop {
                            "C09" => {
                                // truncation lengths and single byte alterations
                                let n = if t { 40 } else { 8 };
                                for _ in 0..n {
                                    let k = if r.chance(1, 3) { r.below(200.min(len + 1)) } else { r.below(len + 1) };
                                    out.push(format!("{} {b} {size} {bs} {ql} {src} 0:0:{k}", dec_op(&mut r)));
                                    let p = if r.chance(1, 3) { r.below(200.min(len + 1)) } else { r.below(len + 1) };
                                    out.push(format!("{} {b} {size} {bs} {ql} {src} 0:0:$~{p}^{}", dec_op(&mut r), 1 + r.below(255)));
                                }
                                // around item boundaries: multiples of 64 and of 1024 +- 1
                                for k in [0u64, 1, 63, 64, 65, 127, 128, 129, 1087, 1088, 1089] {
                                    out.push(format!("{} {b} {size} {bs} {ql} {src} 0:0:{k}", dec_op(&mut r)));
                                }
                                // the async decoder behind a tokio AsyncRead (iroh_io::TokioStreamReader: its fixed-size reads
                                // use tokio's read_exact, whose end-of-stream error carries a payload)
                                for _ in 0..if t { 6 } else { 3 } {
                                    let k = if r.chance(1, 2) { r.below(200.min(len + 1)) } else { r.below(len + 1) };
                                    let cs = *r.pick(&["c-", "e64", "e1000p", "e1"]);
                                    out.push(format!("fragdec fsm {cs} {b} {size} {bs} {ql} {src} 0:0:{k}"));
                                }
                                // the same through the decode_ranges drivers (what they RETURN must be the typed error)
                                for _ in 0..if t { 8 } else { 3 } {
                                    let fl = if r.chance(1, 2) { "sync" } else { "fsm" };
                                    let sink = *r.pick(SINKS);
                                    let k = if r.chance(1, 2) { r.below(200.min(len + 1)) } else { r.below(len + 1) };
                                    out.push(format!("decr {fl} {sink} {b} {bs} {ql} {src} 0:0:{k} 7"));
                                    let p = if r.chance(1, 2) { r.below(200.min(len + 1)) } else { r.below(len + 1) };
                                    out.push(format!("decr {fl} {sink} {b} {bs} {ql} {src} 0:0:$~{p}^{} 7", 1 + r.below(255)));
                                }
                            }
                            "C16" => {
                                // claimed sizes different from the true one, streams honest for true / claimed geometry
                                let mut claims: Vec<u64> = vec![size + 1, size.saturating_sub(1), size + 1024, size.saturating_sub(1024), size * 2, size / 2, 0, 1];
                                for k in [10u32, 11, 20, 30, 40, 50, 62, 63] {
                                    claims.push((1u64 << k) - 1);
                                    claims.push(1u64 << k);
                                    claims.push((1u64 << k) + 1025 * (k < 63) as u64);
                                }
                                for &c in &claims {
                                    if !t && r.chance(1, 2) {
                                        continue;
                                    }
                                    // honest stream for the true geometry
                                    out.push(format!("{} {b} {c} {bs} {ql} {src} 0:0:$", dec_op(&mut r)));
                                    // honest stream of a padded / cut blob for the claimed geometry
                                    if c <= 60_000 {
                                        let pad = format!("idx:{c}");
                                        // same leading bytes only for idx blobs; still a stream derived from real blobs
                                        let src2 = format!("{src};{}", honest(&pad, bs, q));
                                        out.push(format!("{} {b} {c} {bs} {ql} {src2} 1:0:$", dec_op(&mut r)));
                                        // mixture: head of one, tail of the other
                                        let cut = r.below(len + 1);
                                        out.push(format!("{} {b} {c} {bs} {ql} {src2} 0:0:{cut}+1:{cut}:$", dec_op(&mut r)));
                                    }
                                }
                                out.push(format!("{} {b} {size} {bs} {ql} {src} 0:0:$", dec_op(&mut r)));
                                // the same through the decode_ranges drivers: a receiver whose outboard claims another size
                                for &c in claims.iter().filter(|c| **c <= 200_000) {
                                    if !t && r.chance(1, 2) {
                                        continue;
                                    }
                                    let fl = if r.chance(1, 2) { "sync" } else { "fsm" };
                                    let sink = *r.pick(SINKS);
                                    out.push(format!("decr {fl} {sink} {b} {bs} {ql} {src} 0:0:$ 7 c{c}"));
                                    if c <= 60_000 {
                                        let pad = format!("idx:{c}");
                                        let src2 = format!("{src};{}", honest(&pad, bs, q));
                                        out.push(format!("decr {fl} {sink} {b} {bs} {ql} {src2} 1:0:$ 7 c{c}"));
                                    }
                                    if r.chance(1, 3) {
                                        out.push(format!("decr {fl} {sink} {b} {bs} {ql} {src} 0:0:0 7 c{c}"));
                                    }
                                }
                            }
                            "C20" => {
                                out.push(format!("dec fsm {b} {size} {bs} {ql} {src} 0:0:$"));
                                out.push(format!("dec sync {b} {size} {bs} {ql} {src} 0:0:$"));
                                // trailing garbage of 0..70 bytes
                                let g = r.below(71) as usize;
                                let hexs: String = (0..g).map(|_| format!("{:02x}", r.below(256))).collect();
                                out.push(format!("dec fsm {b} {size} {bs} {ql} {src} 0:0:$+x{hexs}"));
                                out.push(format!("dec sync {b} {size} {bs} {ql} {src} 0:0:$+x{hexs}"));
                                let k = r.below(len + 1);
                                out.push(format!("dec fsm {b} {size} {bs} {ql} {src} 0:0:{k}"));
                                let p = r.below(len + 1);
                                out.push(format!("dec fsm {b} {size} {bs} {ql} {src} 0:0:$~{p}^1"));
                                out.push(format!("dec fsm {b} {size} {bs} - - -"));
                            }
                            _ => {
                                // C01 / C08dec: the whole tamper catalogue
                                let op: Box<dyn Fn(&mut Rng) -> String> = if prop == "C01" {
                                    Box::new(|r: &mut Rng| if r.chance(1, 2) { "dec sync".to_string() } else { "dec fsm".to_string() })
                                } else {
                                    Box::new(|_r: &mut Rng| "decx".to_string())
                                };
                                let pre = |r: &mut Rng, claimed: u64| format!("{} {b} {claimed} {bs} {ql}", op(r));
                                out.push(format!("{} {src} 0:0:$", pre(&mut r, size)));
                                if prop == "C01" {
                                    // one read of the stream fails transiently (the reader would carry on if asked again):
                                    // whatever the driver does then, nothing but true bytes / pairs may reach the sinks
                                    let nitems = crate::gen3::item_boundaries(size, bs, q).len() as u64;
                                    for _ in 0..if t { 6 } else { 3 } {
                                        let k = if r.chance(1, 2) { r.below(nitems.min(6) + 1) } else { r.below(nitems + 1) };
                                        let fk = *r.pick(&["Other", "Interrupted", "Interrupted", "UnexpectedEof", "ConnectionReset"]);
                                        let fl = if r.chance(2, 3) { "fsm" } else { "sync" };
                                        let sink = *r.pick(SINKS);
                                        // honest, tampered, or ending inside an item (std's read_exact then makes a second call)
                                        let expr = match r.below(8) {
                                            0 | 1 | 2 | 3 => "0:0:$".to_string(),
                                            4 | 5 => format!("0:0:$~{}^{}", r.below(len + 1), 1 + r.below(255)),
                                            _ => format!("0:0:{}", r.below(len + 1)),
                                        };
                                        out.push(format!("decrt {k} {fk} {fl} {sink} {b} {bs} {ql} {src} {expr} {}", 1 + r.below(200)));
                                    }
                                }
                                let n = if t { 30 } else { 6 };
                                for _ in 0..n {
                                    let p = if r.chance(1, 2) { r.below(300.min(len + 1)) } else { r.below(len + 1) };
                                    out.push(format!("{} {src} 0:0:$~{p}^{}", pre(&mut r, size), 1 + r.below(255)));
                                }
                                // truncated / extended
                                let k = r.below(len + 1);
                                out.push(format!("{} {src} 0:0:{k}", pre(&mut r, size)));
                                out.push(format!("{} {src} 0:0:$+x00ff00ff", pre(&mut r, size)));
                                // hash halves of the first pair swapped
                                out.push(format!("{} {src} 0:32:64+0:0:32+0:64:$", pre(&mut r, size)));
                                // a later part replayed in place of an earlier one (leaf from another offset)
                                let a = 64 * r.below(4);
                                out.push(format!("{} {src} 0:0:{a}+0:{}:$", pre(&mut r, size), a + 1024 + 64));
                                // items spliced from another blob / query / block size / claimed size
                                let other = blob_desc(&mut r, size);
                                let src_other = format!("{src};{}", honest(&other, bs, q));
                                let cut = 64 * r.below(3) + if r.chance(1, 2) { 0 } else { 1024 };
                                out.push(format!("{} {src_other} 0:0:{cut}+1:{cut}:$", pre(&mut r, size)));
                                out.push(format!("{} {src_other} 1:0:$", pre(&mut r, size)));
                                let q2 = random_ranges(&mut r, chunks + 1, 4);
                                let src_q = format!("{src};{}", honest(&b, bs, &q2));
                                out.push(format!("{} {src_q} 1:0:$", pre(&mut r, size)));
                                let bs2 = (bs + 1) % 4;
                                let src_bs = format!("{src};{}", honest(&b, bs2, q));
                                out.push(format!("{} {src_bs} 1:0:$", pre(&mut r, size)));
                                // wrong claimed sizes with the honest stream
                                for c in [size + 1, size + 1024, size.saturating_sub(1), size * 2 + 5, size / 2] {
                                    out.push(format!("{} {src} 0:0:$", pre(&mut r, c)));
                                }
                                // all-zero and random streams
                                out.push(format!("{} - x{}", pre(&mut r, size), "00".repeat(128)));
                                let rnd: String = (0..96).map(|_| format!("{:02x}", r.below(256))).collect();
                                out.push(format!("{} - x{rnd}", pre(&mut r, size)));
                            }
                        }
                    }
                }
            }
        }
        "C06" => {
            for &bs in &[0u32, 1, 2, 3, 4] {
                let sizes = hash_sizes(bs, if t { 16 } else { 6 }, if t { 300_000 } else { 100_000 });
                for size in sizes {
                    let b = blob_desc(&mut r, size);
                    let chunks = (size + 1023) / 1024;
                    let g = 1024u64 << bs;
                    let pairs = ((size + g - 1) / g).max(1) - 1;
                    let mut qs = query_classes(&mut r, chunks, bs);
                    if !t {
                        qs.truncate(7);
                    }
                    for q in qs {
                        let ql = nat_list(&q);
                        let mut cors: Vec<String> = vec!["-".into()];
                        let n = if t { 14 } else { 4 };
                        for _ in 0..n {
                            let c = match r.below(7) {
                                0 if size > 0 => {
                                    let ch = r.below(chunks.max(1));
                                    let pos = if r.chance(1, 2) { ch * 1024 } else { (ch * 1024 + 1023).min(size - 1) };
                                    format!("d{pos}^{}", 1 + r.below(255))
                                }
                                1 if pairs > 0 => format!("o{}^{}", r.below(pairs) * 64 + r.below(64), 1 + r.below(255)),
                                2 => format!("r{}^{}", r.below(32), 1 + r.below(255)),
                                3 if size > 0 => format!("Zd{}:{}", r.below(size / g + 1) * g, g),
                                4 if pairs > 0 => format!("Zo{}:64", r.below(pairs) * 64),
                                5 if pairs > 0 && size > 0 => {
                                    // random k-subset, k <= 4
                                    (0..r.range(2, 5))
                                        .map(|_| {
                                            if r.chance(1, 2) {
                                                format!("d{}^{}", r.below(size), 1 + r.below(255))
                                            } else {
                                                format!("o{}^{}", r.below(pairs * 64), 1 + r.below(255))
                                            }
                                        })
                                        .collect::<Vec<_>>()
                                        .join(",")
                                }
                                _ if size > 0 => format!("d{}^{}", r.below(size), 1 + r.below(255)),
                                _ => "-".into(),
                            };
                            cors.push(c);
                        }
                        for c in cors {
                            let store = *r.pick(SINKS);
                            let fl = if r.chance(1, 2) { "sync" } else { "fsm" };
                            let mode = if r.chance(2, 3) { "data" } else { "ob" };
                            out.push(format!("valid {fl} {store} {b} {bs} {ql} {c} {mode}"));
                        }
                    }
                }
            }
        }
        "C06short" => {
            // partially filled stores: the data file ends early (at 0, at / inside / next to group
            // boundaries), intact outboard, repetitive and constant content so that bytes left over
            // in a scratch buffer could pass for the missing group
            for &bs in &[0u32, 1, 2, 4] {
                let g = 1024u64 << bs;
                let mut sizes: Vec<u64> = vec![1, g / 2, g, g + 1, 2 * g, 3 * g - 1, 4 * g, 5 * g + 300, 8 * g];
                if t {
                    sizes.extend([6 * g, 7 * g + 1, 12 * g, 16 * g - 1024]);
                }
                for size in sizes {
                    let chunks = (size + 1023) / 1024;
                    let blobs = vec![
                        format!("const:0:{size}"),
                        format!("const:{}:{size}", 1 + r.below(255)),
                        format!("rep:0:{size}"),
                        format!("rep:{}:{size}", r.next() >> 1),
                        format!("rnd:{}:{size}", r.below(1000)),
                    ];
                    for b in blobs {
                        let mut cuts: Vec<u64> = vec![0, size / 2, size - 1];
                        for k in 1..=(size / g).min(if t { 16 } else { 6 }) {
                            cuts.extend([k * g, k * g - 1, k * g + 1, k * g + 1024]);
                        }
                        cuts.retain(|c| *c < size);
                        cuts.sort();
                        cuts.dedup();
                        for cut in cuts {
                            let qs: Vec<Vec<u64>> = vec![vec![0], vec![(cut / 1024).saturating_sub(1 << bs)], vec![cut / 1024, chunks.max(cut / 1024 + 1)], vec![chunks - 1]];
                            for q in qs {
                                if !t && r.chance(1, 2) {
                                    continue;
                                }
                                let store = *r.pick(SINKS);
                                let fl = if r.chance(2, 3) { "sync" } else { "fsm" };
                                out.push(format!("valid {fl} {store} {b} {bs} {} Td{cut} data", nat_list(&q)));
                            }
                        }
                    }
                }
            }
        }
        "C14" => {
            // pairs of queries selecting the same chunks
            for &bs in &[0u32, 1, 2] {
                for &size in &[1u64, 1024, 3000, 4096, 5000, 8192, 9000] {
                    let chunks = (size + 1023) / 1024;
                    let b = blob_desc(&mut r, size);
                    let n = if t { 400 } else { 60 };
                    for _ in 0..n {
                        let q1 = random_ranges(&mut r, chunks + 3, 5);
                        // an equivalent query: canonical head, a different but equivalent tail
                        let canon: Vec<u64> = {
                            let rs = crate::canon::ranges_of(&q1);
                            bao_tree::io::sync::truncate_ranges(&rs, size).boundaries().iter().map(|c| c.0).collect()
                        };
                        let lc = chunks.max(1) - 1;
                        let mut q2 = canon.clone();
                        if canon.len() % 2 == 1 {
                            let last = *canon.last().unwrap();
                            q2.pop();
                            if last <= lc {
                                match r.below(5) {
                                    0 => q2.push(last),
                                    1 => {
                                        q2.push(last);
                                        q2.push(lc + 1 + r.below(1000));
                                    }
                                    2 => {
                                        // closed up to the end, then an open tail behind it (`..n | MAX..`)
                                        q2.push(last);
                                        let e = lc + 1 + r.below(3);
                                        q2.push(e);
                                        q2.push(if r.chance(1, 2) { u64::MAX } else { e + 1 + r.below(1000) });
                                    }
                                    3 => {
                                        q2.push(last);
                                        let e = lc + 1 + r.below(3);
                                        q2.push(e);
                                        let a = e + 1 + r.below(1000);
                                        q2.push(a);
                                        q2.push(a + 1 + r.below(1 << 40));
                                    }
                                    _ => {
                                        q2.push(last);
                                        q2.push(u64::MAX);
                                    }
                                }
                            } else {
                                let a = lc + 1 + r.below(1 << 30);
                                q2.push(a);
                                if r.chance(1, 2) {
                                    q2.push(a + 1 + r.below(1 << 30));
                                }
                            }
                        }
                        out.push(format!("enc2 {b} {bs} {} {}", nat_list(&q1), nat_list(&q2)));
                        // canonicalised form is always equivalent
                        out.push(format!("enc2 {b} {bs} {} {}", nat_list(&q1), nat_list(&q1)));
                    }
                }
            }
        }
        _ => {}
    }
}
