//! histories of partial downloads (C07)
use crate::canon::*;
use crate::faults::*;
use crate::ops2::*;
use bao_tree::{
    blake3,
    io::{
        fsm,
        outboard::{EmptyOutboard, PostOrderMemOutboard, PostOrderOutboard, PreOrderMemOutboard, PreOrderOutboard},
        sync,
    },
    BaoTree, ChunkRanges,
};
use bytes::BytesMut;
use futures_lite::future::block_on;

/// `hist <sync|fsm> <sink> <blob> <bs> <fill> <steps>`; steps `ranges/expr/fault;...`
/// fault: `-` | `t<k>` (k-th target write of the step fails) | `s<k>` (k-th save fails)
pub fn op_hist(args: &[&str]) -> String {
    let fl = args[0];
    let kind = args[1];
    let data = blob(args[2]);
    let bs = bs_of(args[3]);
    let fill: u8 = args[4].parse().unwrap();
    let root = blake3::hash(&data);
    let tree = BaoTree::new(data.len() as u64, bs);
    let mut ob: Vec<u8> = vec![0xAAu8; tree.outboard_size() as usize];
    let mut target: Vec<u8> = vec![fill; data.len()];
    let mut outs = Vec::new();
    for step in args[5].split(';') {
        let p: Vec<&str> = step.split('/').collect();
        let ranges = ranges_arg(p[0]);
        let src = format!("{}/{}/{}", args[2], args[3], p[0]);
        let (stream, _) = build_stream(&src, p[1]);
        let (tf, sf) = match p[2].split_at(1) {
            ("t", k) => (Some((k.parse().unwrap(), std::io::ErrorKind::Other)), None),
            ("s", k) => (None, Some((k.parse().unwrap(), std::io::ErrorKind::Other))),
            _ => (None, None),
        };
        let tctl = ctl(tf);
        let octl = ctl(sf);
        // `b<k>`: the k-th write to the BACKING of an io outboard fails (below the `save` call: a save that is
        // carried out as several storage writes can be torn)
        let bf = match p[2].split_at(1) {
            ("b", k) => Some((k.parse().unwrap(), std::io::ErrorKind::Other)),
            _ => None,
        };
        let ob_in = std::mem::take(&mut ob);
        if bf.is_some() {
            let cio = ctl(bf);
            let (r, ob_out): (Result<(), bao_tree::io::DecodeError>, Vec<u8>) = match (fl, kind) {
                ("sync", "preIo") => {
                    let mut o = PreOrderOutboard { root, tree, data: FBack(ob_in, cio.clone()) };
                    let r = sync::decode_ranges(&stream[..], &ranges, FWriteAt(&mut target, tctl.clone()), &mut o);
                    (r, o.data.0)
                }
                ("sync", "postIo") => {
                    let mut o = PostOrderOutboard { root, tree, data: FBack(ob_in, cio.clone()) };
                    let r = sync::decode_ranges(&stream[..], &ranges, FWriteAt(&mut target, tctl.clone()), &mut o);
                    (r, o.data.0)
                }
                ("fsm", "preIo") => {
                    let mut t = BytesMut::from(&target[..]);
                    let mut o = PreOrderOutboard { root, tree, data: FBack(BytesMut::from(&ob_in[..]), cio.clone()) };
                    let r = block_on(fsm::decode_ranges(&stream[..], ranges.clone(), FSliceWriter(&mut t, tctl.clone()), &mut o));
                    target = t.to_vec();
                    (r, o.data.0.to_vec())
                }
                ("fsm", "postIo") => {
                    let mut t = BytesMut::from(&target[..]);
                    let mut o = PostOrderOutboard { root, tree, data: FBack(BytesMut::from(&ob_in[..]), cio.clone()) };
                    let r = block_on(fsm::decode_ranges(&stream[..], ranges.clone(), FSliceWriter(&mut t, tctl.clone()), &mut o));
                    target = t.to_vec();
                    (r, o.data.0.to_vec())
                }
                _ => panic!("b faults need an io outboard"),
            };
            ob = ob_out;
            outs.push(hist_step_out(fl, kind, root, tree, &mut ob, &target, r, &tctl));
            continue;
        }
        let (r, ob_out) = match fl {
            "sync" => with_sync_store!(kind, root, tree, ob_in, |o| sync::decode_ranges(
                &stream[..],
                &ranges,
                FWriteAt(&mut target, tctl.clone()),
                FOb(&mut o, octl.clone())
            )),
            "fsm" => {
                let mut t = BytesMut::from(&target[..]);
                let res = with_fsm_store!(kind, root, tree, ob_in, |o| block_on(fsm::decode_ranges(
                    &stream[..],
                    ranges.clone(),
                    FSliceWriter(&mut t, tctl.clone()),
                    FOb(&mut o, octl.clone())
                )));
                target = t.to_vec();
                res
            }
            _ => panic!("bad flavour"),
        };
        ob = ob_out;
        outs.push(hist_step_out(fl, kind, root, tree, &mut ob, &target, r, &tctl));
    }
    outs.join(" ; ")
}

/// what one step of a history leaves behind: terminal, target / outboard digests, what the validator of the
/// history's flavour reports, and the successful target writes of the step
#[allow(clippy::too_many_arguments)]
fn hist_step_out(
    fl: &str,
    kind: &str,
    root: blake3::Hash,
    tree: BaoTree,
    ob_ref: &mut Vec<u8>,
    target: &[u8],
    r: Result<(), bao_tree::io::DecodeError>,
    tctl: &Ctrl,
) -> String {
    let mut ob = std::mem::take(ob_ref);
    let target: Vec<u8> = target.to_vec();
    let term = match r {
        Ok(()) => "Done".to_string(),
        Err(e) => dec_err(&e),
    };
    // what the validator reports now
    let all = ChunkRanges::all();
    let valid: Vec<String> = if kind == "empty" {
        vec![]
    } else {
        let vkind = if kind == "preIo" { "preMem" } else if kind == "postIo" { "postMem" } else { kind };
        let fmt = |r: std::io::Result<std::ops::Range<bao_tree::ChunkNum>>| r.map(|r| format!("{}:{}", r.start.0, r.end.0)).unwrap_or_else(|e| io_err(&e));
        // the validator of the same flavour as the history (sync iterator / async stream)
        let (v, ob_back) = if fl == "sync" {
            with_sync_store!(vkind, root, tree, std::mem::take(&mut ob), |o| sync::valid_ranges(&o, &target[..], &all)
                .into_iter()
                .map(fmt)
                .collect::<Vec<String>>())
        } else {
            use futures_lite::StreamExt;
            let d = bytes::Bytes::from(target.clone());
            with_fsm_store!(vkind, root, tree, std::mem::take(&mut ob), |o| block_on(async {
                let mut res = Vec::new();
                let mut s = std::pin::pin!(fsm::valid_ranges(&mut o, d.clone(), &all));
                while let Some(r) = s.next().await {
                    res.push(fmt(r));
                }
                res
            }))
        };
        ob = ob_back;
        v
    };
    // successful target writes of this step (offset:len)
    let writes: Vec<String> = {
        let c = tctl.borrow();
        c.log
            .iter()
            .enumerate()
            .filter(|(i, _)| c.fail_at.map(|(k, _)| k != *i).unwrap_or(true))
            .map(|(_, l)| {
                let p: Vec<&str> = l.split(' ').collect();
                format!("{}:{}", p[1], p[2])
            })
            .collect()
    };
    let out = format!(
        "{} {} {} V={} W={}",
        term,
        dig(&target),
        dig(&ob),
        if valid.is_empty() { "-".to_string() } else { valid.join(",") },
        if writes.is_empty() { "-".to_string() } else { writes.join(",") }
    );
    *ob_ref = ob;
    out
}

// ---------------- serde (C19) ----------------
use bao_tree::io::{mixed::EncodedItem, BaoContentItem, EncodeError, Leaf, Parent};
use bao_tree::{ChunkNum, TreeNode};

pub fn io_kind_of_name(s: &str) -> std::io::ErrorKind {
    use std::io::ErrorKind::*;
    match s {
        "NotFound" => NotFound,
        "PermissionDenied" => PermissionDenied,
        "ConnectionRefused" => ConnectionRefused,
        "ConnectionReset" => ConnectionReset,
        "ConnectionAborted" => ConnectionAborted,
        "NotConnected" => NotConnected,
        "AddrInUse" => AddrInUse,
        "BrokenPipe" => BrokenPipe,
        "AlreadyExists" => AlreadyExists,
        "WouldBlock" => WouldBlock,
        "InvalidInput" => InvalidInput,
        "InvalidData" => InvalidData,
        "TimedOut" => TimedOut,
        "WriteZero" => WriteZero,
        "Interrupted" => Interrupted,
        "Unsupported" => Unsupported,
        "UnexpectedEof" => UnexpectedEof,
        "OutOfMemory" => OutOfMemory,
        "Other" => Other,
        _ => panic!("bad kind {s}"),
    }
}

fn mk_parent(p: &[&str]) -> Parent {
    let n: u64 = p[0].parse().unwrap();
    let seed: u64 = p[1].parse().unwrap();
    let l: [u8; 32] = crate::rng::rand_bytes(seed, 32).try_into().unwrap();
    let r: [u8; 32] = crate::rng::rand_bytes(seed + 1, 32).try_into().unwrap();
    Parent { node: node(n), pair: (l.into(), r.into()) }
}
fn mk_leaf(p: &[&str]) -> Leaf {
    let off: u64 = p[0].parse().unwrap();
    let len: usize = p[1].parse().unwrap();
    let seed: u64 = p[2].parse().unwrap();
    Leaf { offset: off, data: crate::rng::rand_bytes(seed, len).into() }
}
fn mk_err(p: &[&str]) -> EncodeError {
    match p[0] {
        "phm" => EncodeError::ParentHashMismatch(node(p[1].parse().unwrap())),
        "lhm" => EncodeError::LeafHashMismatch(ChunkNum(p[1].parse().unwrap())),
        "pw" => EncodeError::ParentWrite(node(p[1].parse().unwrap())),
        "lw" => EncodeError::LeafWrite(ChunkNum(p[1].parse().unwrap())),
        "sm" => EncodeError::SizeMismatch,
        // an io error without a custom payload: a bare kind (`ios:<Kind>:<hex of its Display>`) or an OS error
        // (`ioo:<errno>:<Kind>:<hex of its Display>`); kind and text in the case line are std's, computed by the generator
        "ios" | "ioo" => {
            let (e, rest) = if p[0] == "ios" {
                (std::io::Error::from(io_kind_of_name(p[1])), &p[1..])
            } else {
                (std::io::Error::from_raw_os_error(p[1].parse().unwrap()), &p[2..])
            };
            let msg = String::from_utf8(blob(&format!("hex:{}", rest[1]))).unwrap();
            assert!(format!("{:?}", e.kind()) == rest[0] && e.to_string() == msg && e.get_ref().is_none(), "bad case: std text differs");
            EncodeError::Io(e)
        }
        "io" => {
            let msg = String::from_utf8(blob(&format!("hex:{}", p[2]))).unwrap();
            EncodeError::Io(std::io::Error::new(io_kind_of_name(p[1]), msg))
        }
        _ => panic!("bad err"),
    }
}
fn parent_eq(a: &Parent, b: &Parent) -> bool {
    a.node == b.node && a.pair == b.pair
}
fn leaf_eq(a: &Leaf, b: &Leaf) -> bool {
    a.offset == b.offset && a.data == b.data
}
fn err_eq(a: &EncodeError, b: &EncodeError) -> bool {
    use EncodeError::*;
    match (a, b) {
        (ParentHashMismatch(x), ParentHashMismatch(y)) => x == y,
        (LeafHashMismatch(x), LeafHashMismatch(y)) => x == y,
        (ParentWrite(x), ParentWrite(y)) => x == y,
        (LeafWrite(x), LeafWrite(y)) => x == y,
        (SizeMismatch, SizeMismatch) => true,
        // an io error comes back as an io error whose text contains the original kind and message
        (Io(x), Io(y)) => {
            let t = y.to_string();
            y.kind() == std::io::ErrorKind::Other && t == format!("{:?}:{}", x.kind(), x)
        }
        _ => false,
    }
}

fn rt<T: serde::Serialize + serde::de::DeserializeOwned>(v: &T, eq: impl Fn(&T, &T) -> bool) -> String {
    let pc = postcard::to_stdvec(v);
    let js = serde_json::to_vec(v);
    let pc_ok = pc.as_ref().ok().and_then(|b| postcard::from_bytes::<T>(b).ok()).map(|w| eq(v, &w)).unwrap_or(false);
    // a self-describing format is read back in more than one way: from a slice (may lend borrowed strings), from a
    // reader (cannot), and through the dynamically typed Value
    let js_ok = js.as_ref().ok().map(|b| {
        let a = serde_json::from_slice::<T>(b).ok().map(|w| eq(v, &w)).unwrap_or(false);
        let r = serde_json::from_reader::<_, T>(&b[..]).ok().map(|w| eq(v, &w)).unwrap_or(false);
        let val = serde_json::from_slice::<serde_json::Value>(b).ok().and_then(|x| serde_json::from_value::<T>(x).ok()).map(|w| eq(v, &w)).unwrap_or(false);
        a && r && val
    }).unwrap_or(false);
    format!(
        "pc={} js={} rt={}{}",
        pc.map(|b| dig(&b)).unwrap_or("err".into()),
        js.map(|b| dig(&b)).unwrap_or("err".into()),
        b01(pc_ok),
        b01(js_ok)
    )
}

/// `serde <value descriptor>`
pub fn op_serde(args: &[&str]) -> String {
    let p: Vec<&str> = args[0].split(':').collect();
    match p[0] {
        "node" => rt::<TreeNode>(&node(p[1].parse().unwrap()), |a, b| a == b),
        "chunk" => rt::<ChunkNum>(&ChunkNum(p[1].parse().unwrap()), |a, b| a == b),
        "parent" => rt::<Parent>(&mk_parent(&p[1..]), parent_eq),
        "leaf" => rt::<Leaf>(&mk_leaf(&p[1..]), leaf_eq),
        "content" => {
            let v = if p[1] == "parent" { BaoContentItem::Parent(mk_parent(&p[2..])) } else { BaoContentItem::Leaf(mk_leaf(&p[2..])) };
            rt::<BaoContentItem>(&v, |a, b| match (a, b) {
                (BaoContentItem::Parent(x), BaoContentItem::Parent(y)) => parent_eq(x, y),
                (BaoContentItem::Leaf(x), BaoContentItem::Leaf(y)) => leaf_eq(x, y),
                _ => false,
            })
        }
        "err" => rt::<EncodeError>(&mk_err(&p[1..]), err_eq),
        "item" => {
            let v = match p[1] {
                "size" => EncodedItem::Size(p[2].parse().unwrap()),
                "parent" => EncodedItem::Parent(mk_parent(&p[2..])),
                "leaf" => EncodedItem::Leaf(mk_leaf(&p[2..])),
                "error" => EncodedItem::Error(mk_err(&p[2..])),
                "done" => EncodedItem::Done,
                _ => panic!("bad item"),
            };
            rt::<EncodedItem>(&v, |a, b| match (a, b) {
                (EncodedItem::Size(x), EncodedItem::Size(y)) => x == y,
                (EncodedItem::Parent(x), EncodedItem::Parent(y)) => parent_eq(x, y),
                (EncodedItem::Leaf(x), EncodedItem::Leaf(y)) => leaf_eq(x, y),
                (EncodedItem::Error(x), EncodedItem::Error(y)) => err_eq(x, y),
                (EncodedItem::Done, EncodedItem::Done) => true,
                _ => false,
            })
        }
        _ => panic!("bad serde value"),
    }
}
