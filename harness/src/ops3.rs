//! histories of partial downloads (C07)
use crate::canon::*;
use crate::faults::*;
use crate::ops2::*;
use bao_tree::{
    blake3,
    io::{
        fsm,
        outboard::{EmptyOutboard, PostOrderMemOutboard, PostOrderOutboard, PreOrderMemOutboard, PreOrderOutboard},
        sync,
    },
    BaoTree, ChunkRanges,
};
use bytes::BytesMut;
use futures_lite::future::block_on;

/// `hist <sync|fsm> <sink> <blob> <bs> <fill> <steps>`; steps `ranges/expr/fault;...`
/// fault: `-` | `t<k>` (k-th target write of the step fails) | `s<k>` (k-th save fails)
pub fn op_hist(args: &[&str]) -> String {
    let fl = args[0];
    let kind = args[1];
    let data = blob(args[2]);
    let bs = bs_of(args[3]);
    let fill: u8 = args[4].parse().unwrap();
    let root = blake3::hash(&data);
    let tree = BaoTree::new(data.len() as u64, bs);
    let mut ob: Vec<u8> = vec![0xAAu8; tree.outboard_size() as usize];
    let mut target: Vec<u8> = vec![fill; data.len()];
    let mut outs = Vec::new();
    for step in args[5].split(';') {
        let p: Vec<&str> = step.split('/').collect();
        let ranges = ranges_arg(p[0]);
        let src = format!("{}/{}/{}", args[2], args[3], p[0]);
        let (stream, _) = build_stream(&src, p[1]);
        let (tf, sf) = match p[2].split_at(1) {
            ("t", k) => (Some((k.parse().unwrap(), std::io::ErrorKind::Other)), None),
            ("s", k) => (None, Some((k.parse().unwrap(), std::io::ErrorKind::Other))),
            _ => (None, None),
        };
        let tctl = ctl(tf);
        let octl = ctl(sf);
        let ob_in = std::mem::take(&mut ob);
        let (r, ob_out) = match fl {
            "sync" => with_sync_store!(kind, root, tree, ob_in, |o| sync::decode_ranges(
                &stream[..],
                &ranges,
                FWriteAt(&mut target, tctl.clone()),
                FOb(&mut o, octl.clone())
            )),
            "fsm" => {
                let mut t = BytesMut::from(&target[..]);
                let res = with_fsm_store!(kind, root, tree, ob_in, |o| block_on(fsm::decode_ranges(
                    &stream[..],
                    ranges.clone(),
                    FSliceWriter(&mut t, tctl.clone()),
                    FOb(&mut o, octl.clone())
                )));
                target = t.to_vec();
                res
            }
            _ => panic!("bad flavour"),
        };
        ob = ob_out;
        let term = match r {
            Ok(()) => "Done".to_string(),
            Err(e) => dec_err(&e),
        };
        // what the validator reports now
        let all = ChunkRanges::all();
        let valid: Vec<String> = if kind == "empty" {
            vec![]
        } else {
            let (v, ob_back) = with_sync_store!(
                if kind == "preIo" { "preMem" } else if kind == "postIo" { "postMem" } else { kind },
                root,
                tree,
                std::mem::take(&mut ob),
                |o| sync::valid_ranges(&o, &target[..], &all)
                    .into_iter()
                    .map(|r| r.map(|r| format!("{}:{}", r.start.0, r.end.0)).unwrap_or_else(|e| io_err(&e)))
                    .collect::<Vec<String>>()
            );
            ob = ob_back;
            v
        };
        // successful target writes of this step (offset:len)
        let writes: Vec<String> = {
            let c = tctl.borrow();
            c.log
                .iter()
                .enumerate()
                .filter(|(i, _)| c.fail_at.map(|(k, _)| k != *i).unwrap_or(true))
                .map(|(_, l)| {
                    let p: Vec<&str> = l.split(' ').collect();
                    format!("{}:{}", p[1], p[2])
                })
                .collect()
        };
        outs.push(format!(
            "{} {} {} V={} W={}",
            term,
            dig(&target),
            dig(&ob),
            if valid.is_empty() { "-".to_string() } else { valid.join(",") },
            if writes.is_empty() { "-".to_string() } else { writes.join(",") }
        ));
    }
    outs.join(" ; ")
}
