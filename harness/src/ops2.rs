//! operations that hash: outboard creation, encoders, decoders, decode_ranges
use crate::canon::*;
use crate::ops1::parse_list;
use bao_tree::{
    blake3,
    io::{
        fsm, mixed,
        outboard::{EmptyOutboard, PostOrderMemOutboard, PostOrderOutboard, PreOrderMemOutboard, PreOrderOutboard},
        sync, BaoContentItem, DecodeError, EncodeError,
    },
    BaoTree, BlockSize, ChunkRanges,
};
use bytes::{Bytes, BytesMut};
use futures_lite::future::block_on;

pub fn io_kind(k: std::io::ErrorKind) -> String {
    format!("{:?}", k)
}
pub fn io_err(e: &std::io::Error) -> String {
    let inj = e.to_string().contains("injected");
    format!("Io({}{})", io_kind(e.kind()), if inj { "*" } else { "" })
}
pub fn dec_err(e: &DecodeError) -> String {
    match e {
        DecodeError::ParentNotFound(n) => format!("ParentNotFound({})", node_id(*n)),
        DecodeError::LeafNotFound(c) => format!("LeafNotFound({})", c.0),
        DecodeError::ParentHashMismatch(n) => format!("ParentHashMismatch({})", node_id(*n)),
        DecodeError::LeafHashMismatch(c) => format!("LeafHashMismatch({})", c.0),
        DecodeError::Io(e) => io_err(e),
    }
}
pub fn enc_err(e: &EncodeError) -> String {
    match e {
        EncodeError::ParentHashMismatch(n) => format!("ParentHashMismatch({})", node_id(*n)),
        EncodeError::LeafHashMismatch(c) => format!("LeafHashMismatch({})", c.0),
        EncodeError::ParentWrite(n) => format!("ParentWrite({})", node_id(*n)),
        EncodeError::LeafWrite(c) => format!("LeafWrite({})", c.0),
        EncodeError::SizeMismatch => "SizeMismatch".into(),
        EncodeError::Io(e) => io_err(e),
    }
}
pub fn item_str(i: &BaoContentItem) -> String {
    match i {
        BaoContentItem::Parent(p) => {
            let mut b = p.pair.0.as_bytes().to_vec();
            b.extend_from_slice(p.pair.1.as_bytes());
            format!("P{}/{}", node_id(p.node), dig(&b))
        }
        BaoContentItem::Leaf(l) => format!("L{}/{}", l.offset, dig(&l.data)),
    }
}
pub fn join(v: Vec<String>) -> String {
    if v.is_empty() {
        "-".into()
    } else {
        v.join(" ")
    }
}

pub fn bs_of(s: &str) -> BlockSize {
    BlockSize::from_chunk_log(s.parse().unwrap())
}

/// apply `d<pos>^<xor>` / `o<pos>^<xor>` corruptions (comma separated, `-` = none)
pub fn corrupt(spec: &str, data: &mut [u8], ob: &mut [u8]) {
    if spec == "-" {
        return;
    }
    for c in spec.split(',') {
        let (which, rest) = c.split_at(1);
        let (pos, x) = rest.split_once('^').unwrap();
        let pos: usize = pos.parse().unwrap();
        let x: u8 = x.parse().unwrap();
        let tgt = if which == "d" { &mut *data } else { &mut *ob };
        if pos < tgt.len() {
            tgt[pos] ^= x;
        }
    }
}

/// run `$body` with `$ob` bound to a sync outboard of kind `$kind`; `$body` evaluates to R;
/// returns (R, final outboard bytes)
macro_rules! with_sync_store {
    ($kind:expr, $root:expr, $tree:expr, $data:expr, |$ob:ident| $body:expr) => {{
        let (root, tree, data): (blake3::Hash, BaoTree, Vec<u8>) = ($root, $tree, $data);
        match $kind {
            "preMem" => {
                let mut $ob = PreOrderMemOutboard { root, tree, data };
                let r = $body;
                (r, $ob.data)
            }
            "postMem" => {
                let mut $ob = PostOrderMemOutboard { root, tree, data };
                let r = $body;
                (r, $ob.data)
            }
            "preIo" => {
                let mut $ob = PreOrderOutboard { root, tree, data };
                let r = $body;
                (r, $ob.data)
            }
            "postIo" => {
                let mut $ob = PostOrderOutboard { root, tree, data };
                let r = $body;
                (r, $ob.data)
            }
            "empty" => {
                let mut $ob = EmptyOutboard { root, tree };
                let r = $body;
                let _ = &mut $ob;
                (r, data)
            }
            k => panic!("bad store kind {k}"),
        }
    }};
}

macro_rules! with_fsm_store {
    ($kind:expr, $root:expr, $tree:expr, $data:expr, |$ob:ident| $body:expr) => {{
        let (root, tree, data): (blake3::Hash, BaoTree, Vec<u8>) = ($root, $tree, $data);
        match $kind {
            "preMem" => {
                let mut $ob = PreOrderMemOutboard { root, tree, data };
                let r = $body;
                (r, $ob.data)
            }
            "postMem" => {
                let mut $ob = PostOrderMemOutboard { root, tree, data };
                let r = $body;
                (r, $ob.data)
            }
            "preIo" => {
                let mut $ob = PreOrderOutboard { root, tree, data: BytesMut::from(&data[..]) };
                let r = $body;
                (r, $ob.data.to_vec())
            }
            "postIo" => {
                let mut $ob = PostOrderOutboard { root, tree, data: BytesMut::from(&data[..]) };
                let r = $body;
                (r, $ob.data.to_vec())
            }
            "empty" => {
                let mut $ob = EmptyOutboard { root, tree };
                let r = $body;
                let _ = &mut $ob;
                (r, data)
            }
            k => panic!("bad store kind {k}"),
        }
    }};
}
pub(crate) use {with_fsm_store, with_sync_store};

/// the intact store of a blob: (root, pre- or post-order outboard bytes as the kind needs)
pub fn intact_store(kind: &str, data: &[u8], bs: BlockSize) -> (blake3::Hash, BaoTree, Vec<u8>) {
    let tree = BaoTree::new(data.len() as u64, bs);
    match kind {
        "postMem" | "postIo" => {
            let ob = PostOrderMemOutboard::create(data, bs);
            (ob.root, tree, ob.data)
        }
        _ => {
            let ob = PreOrderMemOutboard::create(data, bs);
            (ob.root, tree, ob.data)
        }
    }
}

/// `ob <blob> <bs> <entry>`: outboard creation through one of the entry points
/// a reader that hands out at most `m` bytes per `read` call (m = 0: everything); also seekable
pub struct Trickle<'a> {
    pub data: &'a [u8],
    pub pos: usize,
    pub m: usize,
}
impl std::io::Read for Trickle<'_> {
    fn read(&mut self, buf: &mut [u8]) -> std::io::Result<usize> {
        let left = self.data.len() - self.pos.min(self.data.len());
        let mut n = buf.len().min(left);
        if self.m > 0 {
            n = n.min(self.m);
        }
        buf[..n].copy_from_slice(&self.data[self.pos..self.pos + n]);
        self.pos += n;
        Ok(n)
    }
}
impl std::io::Seek for Trickle<'_> {
    fn seek(&mut self, p: std::io::SeekFrom) -> std::io::Result<u64> {
        let np = match p {
            std::io::SeekFrom::Start(x) => x as i64,
            std::io::SeekFrom::End(x) => self.data.len() as i64 + x,
            std::io::SeekFrom::Current(x) => self.pos as i64 + x,
        };
        self.pos = np.max(0) as usize;
        Ok(self.pos as u64)
    }
}

/// `ob <blob> <bs> <entry>[+t<m>]`: one way of creating an outboard; `+t<m>`: the (sync) data reader returns
/// at most m bytes per read call
pub fn op_ob(args: &[&str]) -> String {
    let data = blob(args[0]);
    let bs = bs_of(args[1]);
    // suffixes: `+t<m>` (at most m bytes per read), `+p<k>` (the reader is handed over positioned at byte k, as
    // after reading a header or after an earlier pass over the data; only `create` may be given such a reader: it
    // measures and rewinds the source itself)
    let mut entry = args[2];
    let (mut m, mut p0) = (0usize, 0usize);
    if let Some((e, k)) = entry.split_once("+p") {
        entry = e;
        p0 = k.parse::<usize>().unwrap().min(data.len());
    }
    if let Some((e, k)) = entry.split_once("+t") {
        entry = e;
        m = k.parse::<usize>().unwrap();
    }
    let rd = || Trickle { data: &data[..], pos: p0, m };
    let size = data.len() as u64;
    let tree = BaoTree::new(size, bs);
    let obsize = tree.outboard_size() as usize;
    let zero = blake3::Hash::from([0u8; 32]);
    let stale = |n: usize| -> Vec<u8> { (0..n).map(|i| (i * 7 + 3) as u8).collect() };
    let (root, ob): (std::io::Result<blake3::Hash>, Vec<u8>) = match entry {
        "sync-create-preMem" => {
            let o = PreOrderMemOutboard::create(&data, bs);
            (Ok(o.root), o.data)
        }
        "sync-create-postMem" => {
            let o = PostOrderMemOutboard::create(&data, bs);
            (Ok(o.root), o.data)
        }
        "sync-post-order" => {
            let mut w = Vec::new();
            let r = sync::outboard_post_order(rd(), tree, &mut w);
            (r, w)
        }
        "fsm-post-order" => {
            let mut w = Vec::new();
            let r = block_on(fsm::outboard_post_order(Bytes::from(data.clone()), tree, &mut w));
            (r, w)
        }
        "sync-sized-preIo" => {
            use sync::CreateOutboard;
            match PreOrderOutboard::<Vec<u8>>::create_sized(rd(), size, bs) {
                Ok(o) => (Ok(o.root), o.data),
                Err(e) => (Err(e), vec![]),
            }
        }
        "sync-sized-postIo" => {
            use sync::CreateOutboard;
            match PostOrderOutboard::<Vec<u8>>::create_sized(rd(), size, bs) {
                Ok(o) => (Ok(o.root), o.data),
                Err(e) => (Err(e), vec![]),
            }
        }
        "fsm-sized-preIo" => {
            use fsm::CreateOutboard;
            match block_on(PreOrderOutboard::<BytesMut>::create_sized(Bytes::from(data.clone()), size, bs)) {
                Ok(o) => (Ok(o.root), o.data.to_vec()),
                Err(e) => (Err(e), vec![]),
            }
        }
        "fsm-sized-postIo" => {
            use fsm::CreateOutboard;
            match block_on(PostOrderOutboard::<BytesMut>::create_sized(Bytes::from(data.clone()), size, bs)) {
                Ok(o) => (Ok(o.root), o.data.to_vec()),
                Err(e) => (Err(e), vec![]),
            }
        }
        // the default `create` method (size found by seeking / asking the data source)
        "sync-create-preIo" => {
            use sync::CreateOutboard;
            match PreOrderOutboard::<Vec<u8>>::create(rd(), bs) {
                Ok(o) => (Ok(o.root), o.data),
                Err(e) => (Err(e), vec![]),
            }
        }
        "sync-create-postIo" => {
            use sync::CreateOutboard;
            match PostOrderOutboard::<Vec<u8>>::create(rd(), bs) {
                Ok(o) => (Ok(o.root), o.data),
                Err(e) => (Err(e), vec![]),
            }
        }
        "fsm-create-preIo" => {
            use fsm::CreateOutboard;
            match block_on(PreOrderOutboard::<BytesMut>::create(Bytes::from(data.clone()), bs)) {
                Ok(o) => (Ok(o.root), o.data.to_vec()),
                Err(e) => (Err(e), vec![]),
            }
        }
        "fsm-create-postIo" => {
            use fsm::CreateOutboard;
            match block_on(PostOrderOutboard::<BytesMut>::create(Bytes::from(data.clone()), bs)) {
                Ok(o) => (Ok(o.root), o.data.to_vec()),
                Err(e) => (Err(e), vec![]),
            }
        }
        "sync-init-preIo" => {
            use sync::CreateOutboard;
            let mut o = PreOrderOutboard { root: zero, tree, data: stale(obsize) };
            let r = o.init_from(rd());
            (r.map(|_| o.root), o.data)
        }
        "sync-init-postIo" => {
            use sync::CreateOutboard;
            let mut o = PostOrderOutboard { root: zero, tree, data: stale(obsize) };
            let r = o.init_from(rd());
            (r.map(|_| o.root), o.data)
        }
        "fsm-init-preIo" => {
            use fsm::CreateOutboard;
            let mut o = PreOrderOutboard { root: zero, tree, data: BytesMut::from(&stale(obsize)[..]) };
            let r = block_on(o.init_from(Bytes::from(data.clone())));
            (r.map(|_| o.root), o.data.to_vec())
        }
        "fsm-init-postIo" => {
            use fsm::CreateOutboard;
            let mut o = PostOrderOutboard { root: zero, tree, data: BytesMut::from(&stale(obsize)[..]) };
            let r = block_on(o.init_from(Bytes::from(data.clone())));
            (r.map(|_| o.root), o.data.to_vec())
        }
        e if e.starts_with("sync-outboard-") => {
            let kind = &e["sync-outboard-".len()..];
            with_sync_store!(kind, zero, tree, stale(obsize), |ob| sync::outboard(rd(), tree, &mut ob))
        }
        e if e.starts_with("fsm-outboard-") => {
            let kind = &e["fsm-outboard-".len()..];
            with_fsm_store!(kind, zero, tree, stale(obsize), |ob| block_on(fsm::outboard(
                Bytes::from(data.clone()),
                tree,
                &mut ob
            )))
        }
        _ => panic!("bad entry {entry}"),
    };
    let root_s = match &root {
        Ok(h) => hex(h.as_bytes()),
        Err(e) => io_err(e),
    };
    // references from outside the crate: the blake3 crate and (at bs 0) the bao crate
    let b3 = hex(blake3::hash(&data).as_bytes());
    let bao_ob = if bs.chunk_log() == 0 {
        let (ob, _h) = bao::encode::outboard(&data);
        dig(&ob[8..])
    } else {
        "-".into()
    };
    format!("{} {} {} {}", root_s, dig(&ob), b3, bao_ob)
}

pub fn ranges_arg(s: &str) -> ChunkRanges {
    ranges_of(&parse_list(s))
}

/// a sink that accepts at most `.1` bytes per `write` call
pub struct ShortWrite<'a>(pub &'a mut Vec<u8>, pub usize);
impl std::io::Write for ShortWrite<'_> {
    fn write(&mut self, buf: &[u8]) -> std::io::Result<usize> {
        let n = buf.len().min(self.1);
        self.0.extend_from_slice(&buf[..n]);
        Ok(n)
    }
    fn flush(&mut self) -> std::io::Result<()> {
        Ok(())
    }
}

/// `enc <blob> <bs> <store> <sync|syncw<k>|fsm|mixed> <plain|val> <ranges> <corruption>`
pub fn op_enc(args: &[&str]) -> String {
    let mut data = blob(args[0]);
    let bs = bs_of(args[1]);
    let kind = args[2];
    let fl = args[3];
    let val = args[4] == "val";
    let ranges = ranges_arg(args[5]);
    let (root, tree, mut ob) = intact_store(kind, &data, bs);
    // `Td<len>`: the data store is shorter than the geometry says (truncated / partial data file)
    let mut cor = args[6].to_string();
    if let Some(t) = args[6].split(',').find(|c| c.starts_with("Td")) {
        data.truncate(t[2..].parse().unwrap());
        let rest: Vec<&str> = args[6].split(',').filter(|c| !c.starts_with("Td")).collect();
        cor = if rest.is_empty() { "-".to_string() } else { rest.join(",") };
    }
    corrupt(&cor, &mut data, &mut ob);
    match fl {
        // `syncw<k>`: the sink is a legal `Write` that accepts at most k bytes per call (a socket under back pressure)
        f if f == "sync" || f.starts_with("syncw") => {
            let k: usize = f.strip_prefix("syncw").map(|k| k.parse().unwrap()).unwrap_or(usize::MAX);
            let mut out = Vec::new();
            let (r, _) = with_sync_store!(kind, root, tree, ob, |o| if val {
                sync::encode_ranges_validated(&data[..], &o, &ranges, ShortWrite(&mut out, k))
            } else {
                sync::encode_ranges(&data[..], &o, &ranges, ShortWrite(&mut out, k))
            });
            format!("{} {}", r.map(|_| "Ok".to_string()).unwrap_or_else(|e| enc_err(&e)), dig(&out))
        }
        "fsm" => {
            let mut out = Vec::new();
            let d = Bytes::from(data.clone());
            let (r, _) = with_fsm_store!(kind, root, tree, ob, |o| if val {
                block_on(fsm::encode_ranges_validated(d.clone(), &mut o, &ranges, &mut out))
            } else {
                block_on(fsm::encode_ranges(d.clone(), &mut o, &ranges, &mut out))
            });
            format!("{} {}", r.map(|_| "Ok".to_string()).unwrap_or_else(|e| enc_err(&e)), dig(&out))
        }
        "mixed" => {
            let d = Bytes::from(data.clone());
            let mut items: Vec<mixed::EncodedItem> = Vec::new();
            struct VecSender<'a>(&'a mut Vec<mixed::EncodedItem>);
            impl mixed::Sender for VecSender<'_> {
                type Error = ();
                fn send(&mut self, item: mixed::EncodedItem) -> impl std::future::Future<Output = Result<(), ()>> + '_ {
                    self.0.push(item);
                    std::future::ready(Ok(()))
                }
            }
            let mut snd = VecSender(&mut items);
            let (_r, _) = with_sync_store!(kind, root, tree, ob, |o| block_on(mixed::traverse_ranges_validated(
                d.clone(),
                &o,
                &ranges,
                &mut snd
            )));
            // framing: Size first, Done | Error last, only Parent / Leaf in between
            let mut flat = Vec::new();
            let n = items.len();
            let mut framing_ok = n >= 2 && matches!(items[0], mixed::EncodedItem::Size(s) if s == tree.size());
            let mut term = "none".to_string();
            for (i, it) in items.iter().enumerate() {
                match it {
                    mixed::EncodedItem::Parent(p) => {
                        flat.extend_from_slice(p.pair.0.as_bytes());
                        flat.extend_from_slice(p.pair.1.as_bytes());
                        if i == 0 || i == n - 1 {
                            framing_ok = false
                        }
                    }
                    mixed::EncodedItem::Leaf(l) => {
                        flat.extend_from_slice(&l.data);
                        if i == 0 || i == n - 1 {
                            framing_ok = false
                        }
                    }
                    mixed::EncodedItem::Size(_) => {
                        if i != 0 {
                            framing_ok = false
                        }
                    }
                    mixed::EncodedItem::Done => {
                        if i != n - 1 {
                            framing_ok = false
                        }
                        term = "Ok".into();
                    }
                    mixed::EncodedItem::Error(e) => {
                        if i != n - 1 {
                            framing_ok = false
                        }
                        term = enc_err(e);
                    }
                }
            }
            format!("{} {} framing={}", term, dig(&flat), b01(framing_ok))
        }
        _ => panic!("bad flavour"),
    }
}

/// build a stream from sources and a stream expression
/// sources: `-` or `blob/bs/ranges;blob/bs/ranges` (honest validated sync encodings)
/// expr: `+`-separated segments `k:a:b` (slice of source k; b may be `$`) or `x<hex>`,
/// then optional `~pos^xor` mutations
pub fn build_stream(sources: &str, expr: &str) -> (Vec<u8>, Vec<String>) {
    let mut srcs: Vec<Vec<u8>> = Vec::new();
    let mut digs = Vec::new();
    if sources != "-" {
        for s in sources.split(';') {
            let p: Vec<&str> = s.split('/').collect();
            let data = blob(p[0]);
            let bs = bs_of(p[1]);
            let ranges = ranges_arg(p[2]);
            let ob = PreOrderMemOutboard::create(&data, bs);
            let mut out = Vec::new();
            sync::encode_ranges_validated(&data[..], &ob, &ranges, &mut out).unwrap();
            digs.push(dig(&out));
            srcs.push(out);
        }
    }
    let mut parts = expr.split('~');
    let segs = parts.next().unwrap();
    let mut stream = Vec::new();
    if segs != "-" {
        for seg in segs.split('+') {
            if let Some(h) = seg.strip_prefix('x') {
                stream.extend_from_slice(&blob(&format!("hex:{h}")));
            } else {
                let p: Vec<&str> = seg.split(':').collect();
                let k: usize = p[0].parse().unwrap();
                let a: usize = p[1].parse().unwrap();
                let b: usize = if p[2] == "$" { srcs[k].len() } else { p[2].parse().unwrap() };
                let a = a.min(srcs[k].len());
                let b = b.min(srcs[k].len()).max(a);
                stream.extend_from_slice(&srcs[k][a..b]);
            }
        }
    }
    for m in parts {
        let (pos, x) = m.split_once('^').unwrap();
        let pos: usize = pos.parse().unwrap();
        let x: u8 = x.parse().unwrap();
        if pos < stream.len() {
            stream[pos] ^= x;
        }
    }
    (stream, digs)
}

/// `dec <sync|fsm> <blob> <claimed size> <bs> <ranges> <sources> <stream>`:
/// decoder created with the blob's TRUE root and the claimed geometry
pub fn op_dec(args: &[&str]) -> String {
    let fl = args[0];
    let data = blob(args[1]);
    let claimed: u64 = args[2].parse().unwrap();
    let bs = bs_of(args[3]);
    let ranges = ranges_arg(args[4]);
    let (stream, digs) = build_stream(args[5], args[6]);
    let root = blake3::hash(&data);
    let tree = BaoTree::new(claimed, bs);
    let mut items = Vec::new();
    let term: String;
    let rest: usize;
    let mut acc_ok = true; // accessors report root / tree at every step (C20)
    match fl {
        "sync" => {
            let mut rd: &[u8] = &stream;
            // the caller-supplied decode buffer is unobservable in a correct decoder: take turns between
            // `new` and `new_with_buffer` with empty, short, group-sized and over-long pre-filled buffers
            // (variant chosen by a hash of the case, so a case replays exactly)
            let variant = args.iter().flat_map(|a| a.bytes()).fold(0xcbf29ce484222325u64, |h, b| (h ^ b as u64).wrapping_mul(0x100000001b3)) % 6;
            let mut it = match variant {
                0 => sync::DecodeResponseIter::new(root, tree, &mut rd, &ranges),
                1 => sync::DecodeResponseIter::new_with_buffer(root, tree, &mut rd, &ranges, BytesMut::new()),
                2 => sync::DecodeResponseIter::new_with_buffer(root, tree, &mut rd, &ranges, BytesMut::zeroed(tree.block_size().bytes())),
                3 => sync::DecodeResponseIter::new_with_buffer(root, tree, &mut rd, &ranges, BytesMut::from(&vec![0xEEu8; 3000][..])),
                4 => sync::DecodeResponseIter::new_with_buffer(root, tree, &mut rd, &ranges, BytesMut::from(&[7u8][..])),
                _ => sync::DecodeResponseIter::new_with_buffer(root, tree, &mut rd, &ranges, BytesMut::from(&vec![0x11u8; 2 * tree.block_size().bytes() + 5][..])),
            };
            let _ = it.buffer();
            let mut t = "Done".to_string();
            loop {
                if it.tree() != tree {
                    acc_ok = false;
                }
                match it.next() {
                    None => break,
                    Some(Ok(i)) => items.push(item_str(&i)),
                    Some(Err(e)) => {
                        t = dec_err(&e);
                        let k = std::io::Error::from(e).kind();
                        t = format!("{t}>{}", io_kind(k));
                        if it.tree() != tree {
                            acc_ok = false;
                        }
                        // a caller that keeps polling after a failed READ (log-and-continue, collect) must keep getting
                        // errors, never a panic; (after a hash mismatch the pending-hash stack is unbalanced by design:
                        // not polled)
                        if t.starts_with("ParentNotFound") || t.starts_with("LeafNotFound") || t.starts_with("Io(") {
                            for _ in 0..6 {
                                let r = std::panic::catch_unwind(std::panic::AssertUnwindSafe(|| match it.next() {
                                    None => 0,
                                    Some(Ok(_)) => 1,
                                    Some(Err(_)) => 2,
                                }));
                                match r {
                                    Err(_) => {
                                        acc_ok = false;
                                        break;
                                    }
                                    Ok(0) => break,
                                    Ok(1) => {
                                        // an item after the stream has already ended cannot be a verified one
                                        acc_ok = false;
                                        break;
                                    }
                                    Ok(_) => {}
                                }
                            }
                        }
                        break;
                    }
                }
            }
            drop(it);
            term = t;
            rest = rd.len();
        }
        "fsm" => {
            let rd: &[u8] = &stream;
            let mut dec = fsm::ResponseDecoder::new(root, ranges.clone(), tree, rd);
            let t;
            let r;
            loop {
                let ok = std::panic::catch_unwind(std::panic::AssertUnwindSafe(|| *dec.hash() == root && dec.tree() == tree))
                    .unwrap_or(false);
                if !ok {
                    acc_ok = false;
                }
                match block_on(dec.next()) {
                    fsm::ResponseDecoderNext::Done(reader) => {
                        t = "Done".to_string();
                        r = reader.len();
                        break;
                    }
                    fsm::ResponseDecoderNext::More((d, Ok(i))) => {
                        items.push(item_str(&i));
                        dec = d;
                    }
                    fsm::ResponseDecoderNext::More((d, Err(e))) => {
                        let ok = std::panic::catch_unwind(std::panic::AssertUnwindSafe(|| {
                            *d.hash() == root && d.tree() == tree
                        }))
                        .unwrap_or(false);
                        if !ok {
                            acc_ok = false;
                        }
                        let s = dec_err(&e);
                        let k = std::io::Error::from(e).kind();
                        t = format!("{s}>{}", io_kind(k));
                        r = d.finish().len();
                        break;
                    }
                }
            }
            term = t;
            rest = r;
        }
        _ => panic!("bad flavour"),
    }
    let rest_s = if term == "Done" { rest.to_string() } else { "_".into() };
    format!(
        "{} | {} {} acc={} src={}",
        join(items),
        term,
        rest_s,
        b01(acc_ok),
        if digs.is_empty() { "-".into() } else { digs.join(";") }
    )
    .replace(" | ", " // ")
}

/// `decr <sync|fsm> <sink kind> <blob> <bs> <ranges> <sources> <stream> <target fill>`:
/// decode_ranges into a sink whose outboard has the blob's true root and geometry;
/// target pre-sized and filled with `<fill>` bytes, outboard pre-sized with 0xAA
pub fn op_decr(args: &[&str]) -> String {
    let fl = args[0];
    let kind = args[1];
    let data = blob(args[2]);
    let bs = bs_of(args[3]);
    let ranges = ranges_arg(args[4]);
    let (stream, digs) = build_stream(args[5], args[6]);
    let fill: u8 = args[7].parse().unwrap();
    let root = blake3::hash(&data);
    // optional 9th argument `c<size>`: the receiver's outboard claims this size (C16 through the drivers)
    let claimed: u64 = args.get(8).and_then(|a| a.strip_prefix('c')).map(|c| c.parse().unwrap()).unwrap_or(data.len() as u64);
    let tree = BaoTree::new(claimed, bs);
    let ob0 = vec![0xAAu8; tree.outboard_size() as usize];
    let mut target = vec![fill; data.len().max(claimed.min(1 << 20) as usize)];
    let mut rd: &[u8] = &stream;
    let (r, ob) = match fl {
        "sync" => with_sync_store!(kind, root, tree, ob0, |o| sync::decode_ranges(&mut rd, &ranges, &mut target, &mut o)),
        "fsm" => {
            let mut t = BytesMut::from(&target[..]);
            let res = with_fsm_store!(kind, root, tree, ob0, |o| block_on(fsm::decode_ranges(
                &mut rd,
                ranges.clone(),
                &mut t,
                &mut o
            )));
            target = t.to_vec();
            res
        }
        _ => panic!("bad flavour"),
    };
    let rest = rd.len();
    let term = match r {
        Ok(()) => "Done".to_string(),
        Err(e) => dec_err(&e),
    };
    format!(
        "{} {} {} src={} rest={}",
        term,
        dig(&target),
        dig(&ob),
        if digs.is_empty() { "-".into() } else { digs.join(";") },
        if term == "Done" { rest.to_string() } else { "_".into() }
    )
}

/// `encx <blob> <bs> <store> <ranges> <corruption>`: all five encoder flavours side by side
pub fn op_encx(args: &[&str]) -> String {
    let mut outs = Vec::new();
    for (fl, mode) in [("sync", "val"), ("sync", "plain"), ("fsm", "val"), ("fsm", "plain"), ("mixed", "val")] {
        let a = [args[0], args[1], args[2], fl, mode, args[3], args[4]];
        outs.push(guard(move || op_enc(&a)));
    }
    outs.join(" ; ")
}

/// `decx <blob> <claimed> <bs> <ranges> <sources> <stream>`: sync and fsm decoders side by side
pub fn op_decx(args: &[&str]) -> String {
    let mut outs = Vec::new();
    for fl in ["sync", "fsm"] {
        let a = [fl, args[0], args[1], args[2], args[3], args[4], args[5]];
        outs.push(guard(move || op_dec(&a)));
    }
    outs.join(" ; ")
}

/// `baocmp <blob> <start byte> <len>`: bs = 0 single-range encoding with size prefix vs the bao crate
pub fn op_baocmp(args: &[&str]) -> String {
    use std::io::{Cursor, Read};
    let data = blob(args[0]);
    let start: u64 = args[1].parse().unwrap();
    let len: u64 = args[2].parse().unwrap();
    // ours
    let byte_ranges = {
        let v: smallvec::SmallVec<[u64; 2]> = if len == 0 { smallvec::smallvec![] } else { smallvec::smallvec![start, start + len] };
        bao_tree::ByteRanges::new(v).unwrap()
    };
    let chunk_ranges = bao_tree::io::round_up_to_chunks(&byte_ranges);
    let ob = PreOrderMemOutboard::create(&data, BlockSize::ZERO);
    let mut ours = (data.len() as u64).to_le_bytes().to_vec();
    sync::encode_ranges_validated(&data[..], &ob, &chunk_ranges, &mut ours).unwrap();
    // bao
    let (bao_enc, bao_hash) = bao::encode::encode(&data);
    let mut extractor = bao::encode::SliceExtractor::new(Cursor::new(&bao_enc), start, len);
    let mut slice = Vec::new();
    extractor.read_to_end(&mut slice).unwrap();
    // bao's decoder on our bytes
    let mut dec = bao::decode::SliceDecoder::new(Cursor::new(&ours), &bao_hash, start, len);
    let mut got = Vec::new();
    let ok = dec.read_to_end(&mut got).is_ok();
    let s = (start as usize).min(data.len());
    let e = ((start + len) as usize).min(data.len());
    let same_bytes = ok && got == data[s..e];
    format!(
        "{} {} {} {}",
        ranges_str(&chunk_ranges),
        dig(&ours),
        dig(&slice),
        b01(same_bytes)
    )
}

/// `obpre <pattern> <seed> <prefix size> <extended size> <bs> <sync|fsm>`: post-order outboards of a blob
/// and of an extension of it; number of stable pairs and common prefix length (in pairs)
pub fn op_obpre(args: &[&str]) -> String {
    let n: usize = args[2].parse().unwrap();
    let m: usize = args[3].parse().unwrap();
    let bs = bs_of(args[4]);
    let ext = blob(&format!("{}:{}:{}", args[0], args[1], m));
    let pre = &ext[..n];
    let mk = |d: &[u8]| -> Vec<u8> {
        if args[5] == "syncw" {
            // the sequential writer into a plain `Write` (only `write` / `flush` implemented, as a user's progress
            // or counting wrapper would be: std's default `write_vectored`, `write_all` etc. apply)
            struct PlainWrite<'a>(&'a mut Vec<u8>);
            impl std::io::Write for PlainWrite<'_> {
                fn write(&mut self, buf: &[u8]) -> std::io::Result<usize> {
                    self.0.extend_from_slice(buf);
                    Ok(buf.len())
                }
                fn flush(&mut self) -> std::io::Result<()> {
                    Ok(())
                }
            }
            let mut w = Vec::new();
            sync::outboard_post_order(d, BaoTree::new(d.len() as u64, bs), PlainWrite(&mut w)).unwrap();
            w
        } else if args[5] == "sync" || args[5] == "growsync" {
            PostOrderMemOutboard::create(d, bs).data
        } else {
            let mut w = Vec::new();
            block_on(fsm::outboard_post_order(Bytes::copy_from_slice(d), BaoTree::new(d.len() as u64, bs), &mut w)).unwrap();
            w
        }
    };
    if args[5] == "reusesync" {
        // one long-lived reader over an append-only source: `create` for the prefix, the source grows, `create` again
        // on the SAME reader (left wherever the first call left it)
        struct GrowRead {
            data: Vec<u8>,
            visible: usize,
            pos: usize,
        }
        impl std::io::Read for GrowRead {
            fn read(&mut self, buf: &mut [u8]) -> std::io::Result<usize> {
                let n = buf.len().min(self.visible - self.pos.min(self.visible));
                buf[..n].copy_from_slice(&self.data[self.pos..self.pos + n]);
                self.pos += n;
                Ok(n)
            }
        }
        impl std::io::Seek for GrowRead {
            fn seek(&mut self, p: std::io::SeekFrom) -> std::io::Result<u64> {
                let np = match p {
                    std::io::SeekFrom::Start(x) => x as i64,
                    std::io::SeekFrom::End(x) => self.visible as i64 + x,
                    std::io::SeekFrom::Current(x) => self.pos as i64 + x,
                };
                self.pos = np.max(0) as usize;
                Ok(self.pos as u64)
            }
        }
        use sync::CreateOutboard;
        let mut rd = GrowRead { data: ext.clone(), visible: n, pos: 0 };
        let a = PostOrderOutboard::<Vec<u8>>::create(&mut rd, bs).unwrap().data;
        rd.visible = ext.len();
        let b = PostOrderOutboard::<Vec<u8>>::create(&mut rd, bs).unwrap().data;
        return obpre_report(&a, &b, &ext, n, bs, &mk);
    }
    let a = mk(pre);
    // "grow…": the outboard of the prefix is extended IN PLACE (buffer resized, tree replaced, brought up to date
    // through the OutboardMut path), as an application that appends to a blob would do it
    let b = if args[5].starts_with("grow") {
        let mut ob = PostOrderMemOutboard { root: blake3::hash(pre), tree: BaoTree::new(n as u64, bs), data: a.clone() };
        let t2 = BaoTree::new(ext.len() as u64, bs);
        ob.data.resize(t2.outboard_size() as usize, 0);
        ob.tree = t2;
        if args[5] == "growsync" {
            ob.root = sync::outboard(&ext[..], t2, &mut ob).unwrap();
        } else {
            ob.root = block_on(fsm::outboard(Bytes::copy_from_slice(&ext), t2, &mut ob)).unwrap();
        }
        assert!(ob.root == blake3::hash(&ext), "root after growing in place");
        ob.data
    } else {
        mk(&ext)
    };
    obpre_report(&a, &b, &ext, n, bs, &mk)
}

fn obpre_report(a: &[u8], b: &[u8], ext: &[u8], n: usize, bs: BlockSize, mk: &dyn Fn(&[u8]) -> Vec<u8>) -> String {
    let tree = BaoTree::new(n as u64, bs);
    let stable = tree
        .post_order_nodes_iter()
        .filter(|x| matches!(tree.post_order_offset(*x), Some(bao_tree::PostOrderOffset::Stable(_))))
        .count();
    let mut lcp = 0;
    while (lcp + 1) * 64 <= a.len() && (lcp + 1) * 64 <= b.len() && a[lcp * 64..(lcp + 1) * 64] == b[lcp * 64..(lcp + 1) * 64] {
        lcp += 1;
    }
    // the grown outboard against the one computed from scratch: common prefix in pairs, and the number of
    // stable pairs of the extension (those must be right for the outboard to be a prefix of further extensions)
    let fresh = mk(ext);
    let t2 = BaoTree::new(ext.len() as u64, bs);
    let stable2 = t2
        .post_order_nodes_iter()
        .filter(|x| matches!(t2.post_order_offset(*x), Some(bao_tree::PostOrderOffset::Stable(_))))
        .count();
    let mut g = 0;
    while (g + 1) * 64 <= b.len() && (g + 1) * 64 <= fresh.len() && b[g * 64..(g + 1) * 64] == fresh[g * 64..(g + 1) * 64] {
        g += 1;
    }
    format!("{} {} {} {} {}", a.len() / 64, stable, lcp, g, stable2)
}

/// `enc2 <blob> <bs> <q1> <q2>`: encodings of two queries and the cross decode
pub fn op_enc2(args: &[&str]) -> String {
    let data = blob(args[0]);
    let bs = bs_of(args[1]);
    let q1 = ranges_arg(args[2]);
    let q2 = ranges_arg(args[3]);
    let ob = PreOrderMemOutboard::create(&data, bs);
    let mut e1 = Vec::new();
    let mut e2 = Vec::new();
    sync::encode_ranges_validated(&data[..], &ob, &q1, &mut e1).unwrap();
    block_on(fsm::encode_ranges(Bytes::from(data.clone()), &mut ob.clone(), &q2, &mut e2)).unwrap();
    // decode the encoding of q2 with the query q1
    let tree = ob.tree;
    let mut target = vec![0u8; data.len()];
    let sink = PostOrderMemOutboard { root: ob.root, tree, data: vec![0u8; tree.outboard_size() as usize] };
    let mut sink = sink;
    let r = sync::decode_ranges(&e2[..], &q1, &mut target, &mut sink);
    // and the encoding of q1 with the query q2, through the async decoder (which owns and
    // canonicalises its query by a separate function)
    let mut target2 = BytesMut::from(&vec![0u8; data.len()][..]);
    let mut sink2 = PreOrderMemOutboard { root: ob.root, tree, data: vec![0u8; tree.outboard_size() as usize] };
    let r2 = block_on(fsm::decode_ranges(&e1[..], q2.clone(), &mut target2, &mut sink2));
    let fin = |r: Result<(), bao_tree::io::DecodeError>| r.map(|_| "Done".to_string()).unwrap_or_else(|e| dec_err(&e));
    // every byte encoder on both queries: all eight encodings must be the same bytes
    let mut same = String::new();
    for q in [&q1, &q2] {
        let mut o = Vec::new();
        let r = sync::encode_ranges_validated(&data[..], &ob, q, &mut o);
        same.push_str(b01(r.is_ok() && o == e1));
        let mut o = Vec::new();
        let r = sync::encode_ranges(&data[..], &ob, q, &mut o);
        same.push_str(b01(r.is_ok() && o == e1));
        let mut o = Vec::new();
        let r = block_on(fsm::encode_ranges_validated(Bytes::from(data.clone()), &mut ob.clone(), q, &mut o));
        same.push_str(b01(r.is_ok() && o == e1));
        let mut o = Vec::new();
        let r = block_on(fsm::encode_ranges(Bytes::from(data.clone()), &mut ob.clone(), q, &mut o));
        same.push_str(b01(r.is_ok() && o == e1));
    }
    // and through the decoder built with a caller supplied buffer (documented as "the same as new")
    let mut r3 = "Done".to_string();
    for item in sync::DecodeResponseIter::new_with_buffer(ob.root, tree, &e2[..], &q1, BytesMut::with_capacity(64)) {
        if let Err(e) = item {
            r3 = dec_err(&e);
            break;
        }
    }
    format!("{} {} {} {} {} {}", dig(&e1), dig(&e2), fin(r), fin(r2), same, r3)
}

/// extended corruption: `d<pos>^x`, `o<pos>^x`, `r<pos>^x` (root), `Zd<a>:<len>` / `Zo<a>:<len>` (zero a region)
pub fn corrupt_ext(spec: &str, data: &mut Vec<u8>, ob: &mut [u8], root: &mut [u8; 32]) {
    if spec == "-" {
        return;
    }
    for c in spec.split(',') {
        if let Some(rest) = c.strip_prefix("Td") {
            // partially filled store: the data file ends early
            let len: usize = rest.parse().unwrap();
            data.truncate(len);
        } else if let Some(rest) = c.strip_prefix('Z') {
            let (which, rest) = rest.split_at(1);
            let (a, len) = rest.split_once(':').unwrap();
            let a: usize = a.parse().unwrap();
            let len: usize = len.parse().unwrap();
            let tgt: &mut [u8] = if which == "d" { &mut data[..] } else { &mut *ob };
            for i in a..(a + len).min(tgt.len()) {
                tgt[i] = 0;
            }
        } else if let Some(rest) = c.strip_prefix('r') {
            let (pos, x) = rest.split_once('^').unwrap();
            let pos: usize = pos.parse().unwrap();
            root[pos % 32] ^= x.parse::<u8>().unwrap();
        } else {
            corrupt(c, data, ob);
        }
    }
}

/// `valid <sync|fsm> <store> <blob> <bs> <ranges> <corruption> <data|ob>`
pub fn op_valid(args: &[&str]) -> String {
    use bao_tree::ChunkNum;
    let fl = args[0];
    let kind = args[1];
    let mut data = blob(args[2]);
    let bs = bs_of(args[3]);
    let ranges = ranges_arg(args[4]);
    let with_data = args[6] == "data";
    let (root, tree, mut ob) = intact_store(kind, &data, bs);
    let mut root_b = *root.as_bytes();
    corrupt_ext(args[5], &mut data, &mut ob, &mut root_b);
    let root = blake3::Hash::from(root_b);
    let mut res: Vec<std::io::Result<std::ops::Range<ChunkNum>>> = Vec::new();
    match fl {
        "sync" => {
            let (_, _) = with_sync_store!(kind, root, tree, ob, |o| {
                if with_data {
                    for r in sync::valid_ranges(&o, &data[..], &ranges) {
                        res.push(r);
                    }
                } else {
                    for r in sync::valid_outboard_ranges(&o, &ranges) {
                        res.push(r);
                    }
                }
            });
        }
        "fsm" => {
            use futures_lite::StreamExt;
            let d = Bytes::from(data.clone());
            let (_, _) = with_fsm_store!(kind, root, tree, ob, |o| {
                block_on(async {
                    if with_data {
                        let mut s = std::pin::pin!(fsm::valid_ranges(&mut o, d.clone(), &ranges));
                        while let Some(r) = s.next().await {
                            res.push(r);
                        }
                    } else {
                        let mut s = std::pin::pin!(fsm::valid_outboard_ranges(&mut o, &ranges));
                        while let Some(r) = s.next().await {
                            res.push(r);
                        }
                    }
                })
            });
        }
        _ => panic!("bad flavour"),
    }
    let mut out = Vec::new();
    let mut err = "ok".to_string();
    for (i, r) in res.iter().enumerate() {
        match r {
            Ok(r) => out.push(format!("{}:{}", r.start.0, r.end.0)),
            Err(e) => {
                err = format!("{}@{}", io_err(e), if i + 1 == res.len() { "last" } else { "notlast" });
            }
        }
    }
    format!("{} {}", if out.is_empty() { "-".to_string() } else { out.join(",") }, err)
}

/// `flip <blob> <bs>`: flip / copy between pre- and post-order
pub fn op_flip(args: &[&str]) -> String {
    let data = blob(args[0]);
    let bs = bs_of(args[1]);
    let pre = PreOrderMemOutboard::create(&data, bs);
    let post = PostOrderMemOutboard::create(&data, bs);
    let a = pre.flip();
    let b = post.flip();
    let c = a.flip();
    // async copy pre -> post-order io store -> pre-order memory store
    let tree = pre.tree;
    let mut io_post = PostOrderOutboard { root: pre.root, tree, data: BytesMut::new() };
    let r1 = block_on(fsm::copy(&mut pre.clone(), &mut io_post));
    let mut back = PreOrderMemOutboard { root: pre.root, tree, data: vec![0u8; tree.outboard_size() as usize] };
    let r2 = block_on(fsm::copy(&mut io_post, &mut back));
    format!(
        "{} {} {} {} {} {}{}",
        dig(&a.data),
        dig(&b.data),
        dig(&c.data),
        dig(&io_post.data),
        dig(&back.data),
        b01(r1.is_ok()),
        b01(r2.is_ok())
    )
}

/// `flipx <seed> <size> <bs>`: flip of memory outboards with arbitrary contents and root
pub fn op_flipx(args: &[&str]) -> String {
    let seed: u64 = args[0].parse().unwrap();
    let size: u64 = args[1].parse().unwrap();
    let bs = bs_of(args[2]);
    let tree = BaoTree::new(size, bs);
    let raw = crate::rng::rand_bytes(seed, tree.outboard_size() as usize + 32);
    let root = blake3::Hash::from(<[u8; 32]>::try_from(&raw[..32]).unwrap());
    let data = raw[32..].to_vec();
    let pre = PreOrderMemOutboard { root, tree, data: data.clone() };
    let post = PostOrderMemOutboard { root, tree, data };
    let a = pre.flip();
    let a2 = a.flip();
    let b = post.flip();
    let b2 = b.flip();
    format!(
        "postMem:{}:{} preMem:{}:{} preMem:{}:{} postMem:{}:{}",
        dig(a.root.as_bytes()),
        dig(&a.data),
        dig(a2.root.as_bytes()),
        dig(&a2.data),
        dig(b.root.as_bytes()),
        dig(&b.data),
        dig(b2.root.as_bytes()),
        dig(&b2.data)
    )
}

/// `glue <blob> <bs>`: the small public conversions around the outboards: length-prefixed / suffixed forms
/// (at bs 0 the prefixed pre-order outboard is the bao crate's outboard, prefix included), `map_data`,
/// geometry accessors, item predicates, `ChunkNum::to_usize`
pub fn op_glue(args: &[&str]) -> String {
    let data = blob(args[0]);
    let bs = bs_of(args[1]);
    let pre = PreOrderMemOutboard::create(&data, bs);
    let post = PostOrderMemOutboard::create(&data, bs);
    let tree = pre.tree;
    let acc = tree.block_size() == bs
        && tree.size() == data.len() as u64
        && tree.chunks().to_usize() as u64 == tree.chunks().0
        && post.tree == tree
        && pre.root == post.root;
    let mapped_pre = pre.clone().map_data(|v| v.into_iter().rev().collect::<Vec<u8>>());
    let mapped_post = post.clone().map_data(|v| v.into_iter().rev().collect::<Vec<u8>>());
    let map_ok = mapped_pre.root == pre.root
        && mapped_pre.tree == tree
        && mapped_post.root == post.root
        && mapped_post.tree == tree
        && mapped_pre.data.iter().rev().copied().collect::<Vec<u8>>() == pre.data
        && mapped_post.data.iter().rev().copied().collect::<Vec<u8>>() == post.data;
    let with_prefix = pre.clone().into_inner_with_prefix();
    let with_suffix = post.clone().into_inner_with_suffix();
    let bao_full = if bs == BlockSize::ZERO {
        let (o, h) = bao::encode::outboard(&data);
        format!("{}:{}", dig(&o), b01(h.as_bytes() == pre.root.as_bytes()))
    } else {
        "-".to_string()
    };
    // item predicates on the honest decode of the whole blob
    let mut enc = Vec::new();
    sync::encode_ranges_validated(&data[..], &pre, &ChunkRanges::all(), &mut enc).unwrap();
    let all = ChunkRanges::all();
    let mut pred_ok = true;
    let (mut np, mut nl) = (0u64, 0u64);
    for item in sync::DecodeResponseIter::new(pre.root, tree, &enc[..], &all) {
        let item = item.unwrap();
        match &item {
            bao_tree::io::BaoContentItem::Parent(_) => {
                np += 1;
                pred_ok &= item.is_parent() && !item.is_leaf();
            }
            bao_tree::io::BaoContentItem::Leaf(_) => {
                nl += 1;
                pred_ok &= item.is_leaf() && !item.is_parent();
            }
        }
    }
    format!(
        "{} {} {} {}{}{} {np} {nl}",
        dig(&with_prefix),
        dig(&with_suffix),
        bao_full,
        b01(acc),
        b01(map_ok),
        b01(pred_ok)
    )
}
