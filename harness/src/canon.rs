//! canonical text forms, identical to `BaoModel/Proto.lean`
use bao_tree::{ChunkNum, ChunkRanges, ChunkRangesRef, TreeNode};

pub fn node(x: u64) -> TreeNode {
    // TreeNode is a private newtype over u64
    unsafe { std::mem::transmute::<u64, TreeNode>(x) }
}
pub fn node_id(n: TreeNode) -> u64 {
    unsafe { std::mem::transmute::<TreeNode, u64>(n) }
}
pub fn opt_u64(x: Option<u64>) -> String {
    match x {
        None => "-".into(),
        Some(v) => v.to_string(),
    }
}
pub fn opt_node(x: Option<TreeNode>) -> String {
    opt_u64(x.map(node_id))
}
pub fn b01(b: bool) -> &'static str {
    if b {
        "1"
    } else {
        "0"
    }
}
pub fn nat_list(l: &[u64]) -> String {
    if l.is_empty() {
        "-".into()
    } else {
        l.iter().map(|x| x.to_string()).collect::<Vec<_>>().join(",")
    }
}
pub fn ranges_str(r: &ChunkRangesRef) -> String {
    nat_list(&r.boundaries().iter().map(|c| c.0).collect::<Vec<_>>())
}
pub fn ranges_of(bs: &[u64]) -> ChunkRanges {
    let v: smallvec::SmallVec<[ChunkNum; 2]> = bs.iter().map(|x| ChunkNum(*x)).collect();
    ChunkRanges::new(v).expect("strictly sorted boundaries")
}
pub fn hex(b: &[u8]) -> String {
    if b.is_empty() {
        return "-".into();
    }
    let mut s = String::with_capacity(b.len() * 2);
    for x in b {
        s.push_str(&format!("{:02x}", x));
    }
    s
}
pub fn fnv(b: &[u8]) -> u64 {
    let mut h: u64 = 14695981039346656037;
    for x in b {
        h = (h ^ (*x as u64)).wrapping_mul(1099511628211);
    }
    h
}
/// digest form of a byte string: `len:fnv`
pub fn dig(b: &[u8]) -> String {
    format!("{}:{}", b.len(), fnv(b))
}
pub fn dig_nats(l: &[u64]) -> String {
    dig(nat_list(l).as_bytes())
}

/// blob descriptor -> bytes (same as Lean `Proto.blob`)
pub fn blob(desc: &str) -> Vec<u8> {
    let p: Vec<&str> = desc.split(':').collect();
    match p[0] {
        "idx" => {
            let n: usize = p[1].parse().unwrap();
            (0..n).map(|i| ((i / 1024) % 256) as u8).collect()
        }
        "const" => {
            let b: u8 = p[1].parse().unwrap();
            let n: usize = p[2].parse().unwrap();
            vec![b; n]
        }
        "rnd" => {
            let seed: u64 = p[1].parse().unwrap();
            let n: usize = p[2].parse().unwrap();
            crate::rng::rand_bytes(seed, n)
        }
        "rep" => {
            let seed: u64 = p[1].parse().unwrap();
            let n: usize = p[2].parse().unwrap();
            let a = crate::rng::rand_bytes(1, 1024);
            let b = crate::rng::rand_bytes(2, 1024);
            (0..n)
                .map(|i| {
                    if (seed >> ((i / 1024) % 64)) % 2 == 0 {
                        a[i % 1024]
                    } else {
                        b[i % 1024]
                    }
                })
                .collect()
        }
        "hex" => {
            let h = p[1];
            if h == "-" {
                vec![]
            } else {
                (0..h.len() / 2)
                    .map(|i| u8::from_str_radix(&h[2 * i..2 * i + 2], 16).unwrap())
                    .collect()
            }
        }
        _ => panic!("bad blob descriptor {desc}"),
    }
}

/// run `f`, mapping a panic to the string "panic"
pub fn guard(f: impl FnOnce() -> String + std::panic::UnwindSafe) -> String {
    match std::panic::catch_unwind(f) {
        Ok(s) => s,
        Err(_) => "panic".into(),
    }
}
