//! fragmentation (C11) and fault enumeration (C10)
use crate::canon::*;
use crate::faults::*;
use crate::ops2::*;
use bao_tree::{
    blake3,
    io::{
        fsm,
        outboard::{EmptyOutboard, PostOrderMemOutboard, PostOrderOutboard, PreOrderMemOutboard, PreOrderOutboard},
        sync,
    },
    BaoTree,
};
use bytes::{Bytes, BytesMut};
use futures_lite::future::block_on;
use std::io::Read;
use std::pin::Pin;
use std::task::{Context, Poll};

/// how a reader slices its bytes: cut positions (absolute), or every k bytes; `pending` =
/// the async reader returns `Pending` once before every fragment
#[derive(Clone, Debug)]
pub struct Cuts {
    pub cuts: Vec<usize>,
    pub every: usize,
    pub pending: bool,
}
pub fn parse_cuts(s: &str) -> Cuts {
    let pending = s.ends_with('p');
    let s = s.trim_end_matches('p');
    if let Some(k) = s.strip_prefix('e') {
        Cuts { cuts: vec![], every: k.parse().unwrap(), pending }
    } else {
        let l = s.strip_prefix('c').unwrap();
        let cuts = if l.is_empty() || l == "-" { vec![] } else { l.split(',').map(|x| x.parse().unwrap()).collect() };
        Cuts { cuts, every: 0, pending }
    }
}
impl Cuts {
    /// max bytes that may be returned at position `pos`
    fn limit(&self, pos: usize) -> usize {
        let mut lim = usize::MAX;
        if self.every > 0 {
            lim = self.every - pos % self.every;
        }
        for c in &self.cuts {
            if *c > pos {
                lim = lim.min(*c - pos);
            }
        }
        lim
    }
}

pub struct FragRead {
    pub data: Vec<u8>,
    pub pos: usize,
    pub cuts: Cuts,
    pub calls: usize,
}
impl Read for FragRead {
    fn read(&mut self, buf: &mut [u8]) -> std::io::Result<usize> {
        self.calls += 1;
        let n = buf.len().min(self.data.len() - self.pos).min(self.cuts.limit(self.pos));
        buf[..n].copy_from_slice(&self.data[self.pos..self.pos + n]);
        self.pos += n;
        Ok(n)
    }
}
pub struct FragAsyncRead {
    pub data: Vec<u8>,
    pub pos: usize,
    pub cuts: Cuts,
    pub armed: bool,
    pub polls: usize,
}
impl tokio::io::AsyncRead for FragAsyncRead {
    fn poll_read(mut self: Pin<&mut Self>, cx: &mut Context<'_>, buf: &mut tokio::io::ReadBuf<'_>) -> Poll<std::io::Result<()>> {
        self.polls += 1;
        if self.cuts.pending && !self.armed {
            // suspend once before every fragment; wake immediately so the executor polls again
            self.armed = true;
            cx.waker().wake_by_ref();
            return Poll::Pending;
        }
        self.armed = false;
        let n = buf.remaining().min(self.data.len() - self.pos).min(self.cuts.limit(self.pos));
        let (p, d) = (self.pos, &self.data);
        buf.put_slice(&d[p..p + n]);
        self.pos += n;
        Poll::Ready(Ok(()))
    }
}
/// a positional reader that returns at most `m` bytes per call
pub struct FragReadAt(pub Vec<u8>, pub usize);
impl sync::ReadAt for FragReadAt {
    fn read_at(&self, pos: u64, buf: &mut [u8]) -> std::io::Result<usize> {
        let pos = pos as usize;
        if pos >= self.0.len() {
            return Ok(0);
        }
        let n = buf.len().min(self.0.len() - pos).min(self.1.max(1));
        buf[..n].copy_from_slice(&self.0[pos..pos + n]);
        Ok(n)
    }
}

/// `fragdec <sync|fsm> <cuts> <blob> <claimed> <bs> <ranges> <sources> <stream>`: as `dec`, fragmented transport
pub fn op_fragdec(args: &[&str]) -> String {
    let fl = args[0];
    let cuts = parse_cuts(args[1]);
    let data = blob(args[2]);
    let claimed: u64 = args[3].parse().unwrap();
    let bs = bs_of(args[4]);
    let ranges = ranges_arg(args[5]);
    let (stream, digs) = build_stream(args[6], args[7]);
    let root = blake3::hash(&data);
    let tree = BaoTree::new(claimed, bs);
    let mut items = Vec::new();
    let term;
    let rest;
    match fl {
        "sync" => {
            let mut rd = FragRead { data: stream.clone(), pos: 0, cuts, calls: 0 };
            let mut t = "Done".to_string();
            {
                let it = sync::DecodeResponseIter::new(root, tree, &mut rd, &ranges);
                for x in it {
                    match x {
                        Ok(i) => items.push(item_str(&i)),
                        Err(e) => {
                            let s = dec_err(&e);
                            t = format!("{s}>{}", io_kind(std::io::Error::from(e).kind()));
                            break;
                        }
                    }
                }
            }
            term = t;
            rest = stream.len() - rd.pos;
        }
        _ => {
            let rd = iroh_io::TokioStreamReader::new(FragAsyncRead { data: stream.clone(), pos: 0, cuts, armed: false, polls: 0 });
            let mut dec = fsm::ResponseDecoder::new(root, ranges.clone(), tree, rd);
            let t;
            let r;
            loop {
                match block_on(dec.next()) {
                    fsm::ResponseDecoderNext::Done(reader) => {
                        t = "Done".to_string();
                        r = stream.len() - reader.into_inner().pos;
                        break;
                    }
                    fsm::ResponseDecoderNext::More((d, Ok(i))) => {
                        items.push(item_str(&i));
                        dec = d;
                    }
                    fsm::ResponseDecoderNext::More((d, Err(e))) => {
                        let s = dec_err(&e);
                        t = format!("{s}>{}", io_kind(std::io::Error::from(e).kind()));
                        r = stream.len() - d.finish().into_inner().pos;
                        break;
                    }
                }
            }
            term = t;
            rest = r;
        }
    }
    let rest_s = if term == "Done" { rest.to_string() } else { "_".into() };
    format!(
        "{} // {} {} acc=1 src={}",
        join(items),
        term,
        rest_s,
        if digs.is_empty() { "-".into() } else { digs.join(";") }
    )
}

/// `fragob <sync|fsm> <cuts> <blob> <bs> <pre|post>`: outboard creation from a fragmented data source
pub fn op_fragob(args: &[&str]) -> String {
    let cuts = parse_cuts(args[1]);
    let data = blob(args[2]);
    let bs = bs_of(args[3]);
    let tree = BaoTree::new(data.len() as u64, bs);
    let zero = blake3::Hash::from([0u8; 32]);
    let obz = vec![0u8; tree.outboard_size() as usize];
    let (root, ob) = match (args[0], args[4]) {
        ("sync", "pre") => {
            let mut o = PreOrderMemOutboard { root: zero, tree, data: obz };
            let r = sync::outboard(FragRead { data: data.clone(), pos: 0, cuts, calls: 0 }, tree, &mut o);
            (r, o.data)
        }
        ("sync", _) => {
            let mut w = Vec::new();
            let r = sync::outboard_post_order(FragRead { data: data.clone(), pos: 0, cuts, calls: 0 }, tree, &mut w);
            (r, w)
        }
        (_, "pre") => {
            let mut o = PreOrderMemOutboard { root: zero, tree, data: obz };
            let rd = iroh_io::TokioStreamReader::new(FragAsyncRead { data: data.clone(), pos: 0, cuts, armed: false, polls: 0 });
            let r = block_on(fsm::outboard(rd, tree, &mut o));
            (r, o.data)
        }
        _ => {
            let mut w = Vec::new();
            let rd = iroh_io::TokioStreamReader::new(FragAsyncRead { data: data.clone(), pos: 0, cuts, armed: false, polls: 0 });
            let r = block_on(fsm::outboard_post_order(rd, tree, &mut w));
            (r, w)
        }
    };
    format!("{} {}", root.map(|h| hex(h.as_bytes())).unwrap_or_else(|e| io_err(&e)), dig(&ob))
}

/// `fragenc <m> <blob> <bs> <ranges> <corruption>`: sync validating encoder, data source returns at most m bytes per read_at
pub fn op_fragenc(args: &[&str]) -> String {
    let m: usize = args[0].parse().unwrap();
    let mut data = blob(args[1]);
    let bs = bs_of(args[2]);
    let ranges = ranges_arg(args[3]);
    let (root, tree, mut ob) = intact_store("preMem", &data, bs);
    corrupt(args[4], &mut data, &mut ob);
    let o = PreOrderMemOutboard { root, tree, data: ob };
    let mut out = Vec::new();
    let r = sync::encode_ranges_validated(FragReadAt(data, m), &o, &ranges, &mut out);
    format!("{} {}", r.map(|_| "Ok".to_string()).unwrap_or_else(|e| enc_err(&e)), dig(&out))
}
