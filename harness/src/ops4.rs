//! fragmentation (C11) and fault enumeration (C10)
use crate::canon::*;
use crate::faults::*;
use crate::ops2::*;
use bao_tree::{
    blake3,
    io::{
        fsm,
        outboard::{EmptyOutboard, PostOrderMemOutboard, PostOrderOutboard, PreOrderMemOutboard, PreOrderOutboard},
        sync,
    },
    BaoTree,
};
use bytes::{Bytes, BytesMut};
use futures_lite::future::block_on;
use std::io::Read;
use std::pin::Pin;
use std::task::{Context, Poll};

/// how a reader slices its bytes: cut positions (absolute), or every k bytes; `pending` =
/// the async reader returns `Pending` once before every fragment
#[derive(Clone, Debug)]
pub struct Cuts {
    pub cuts: Vec<usize>,
    pub every: usize,
    pub pending: bool,
}
pub fn parse_cuts(s: &str) -> Cuts {
    let pending = s.ends_with('p');
    let s = s.trim_end_matches('p');
    if let Some(k) = s.strip_prefix('e') {
        Cuts { cuts: vec![], every: k.parse().unwrap(), pending }
    } else {
        let l = s.strip_prefix('c').unwrap();
        let cuts = if l.is_empty() || l == "-" { vec![] } else { l.split(',').map(|x| x.parse().unwrap()).collect() };
        Cuts { cuts, every: 0, pending }
    }
}
impl Cuts {
    /// max bytes that may be returned at position `pos`
    fn limit(&self, pos: usize) -> usize {
        let mut lim = usize::MAX;
        if self.every > 0 {
            lim = self.every - pos % self.every;
        }
        for c in &self.cuts {
            if *c > pos {
                lim = lim.min(*c - pos);
            }
        }
        lim
    }
}

pub struct FragRead {
    pub data: Vec<u8>,
    pub pos: usize,
    pub cuts: Cuts,
    pub calls: usize,
}
impl Read for FragRead {
    fn read(&mut self, buf: &mut [u8]) -> std::io::Result<usize> {
        self.calls += 1;
        let n = buf.len().min(self.data.len() - self.pos).min(self.cuts.limit(self.pos));
        buf[..n].copy_from_slice(&self.data[self.pos..self.pos + n]);
        self.pos += n;
        Ok(n)
    }
}
pub struct FragAsyncRead {
    pub data: Vec<u8>,
    pub pos: usize,
    pub cuts: Cuts,
    pub armed: bool,
    pub polls: usize,
}
impl tokio::io::AsyncRead for FragAsyncRead {
    fn poll_read(mut self: Pin<&mut Self>, cx: &mut Context<'_>, buf: &mut tokio::io::ReadBuf<'_>) -> Poll<std::io::Result<()>> {
        self.polls += 1;
        if self.cuts.pending && !self.armed {
            // suspend once before every fragment; wake immediately so the executor polls again
            self.armed = true;
            cx.waker().wake_by_ref();
            return Poll::Pending;
        }
        self.armed = false;
        let n = buf.remaining().min(self.data.len() - self.pos).min(self.cuts.limit(self.pos));
        let (p, d) = (self.pos, &self.data);
        buf.put_slice(&d[p..p + n]);
        self.pos += n;
        Poll::Ready(Ok(()))
    }
}
/// a positional reader that returns at most `m` bytes per call
pub struct FragReadAt(pub Vec<u8>, pub usize);
impl sync::ReadAt for FragReadAt {
    fn read_at(&self, pos: u64, buf: &mut [u8]) -> std::io::Result<usize> {
        let pos = pos as usize;
        if pos >= self.0.len() {
            return Ok(0);
        }
        let n = buf.len().min(self.0.len() - pos).min(self.1.max(1));
        buf[..n].copy_from_slice(&self.0[pos..pos + n]);
        Ok(n)
    }
}

/// `fragdec <sync|fsm> <cuts> <blob> <claimed> <bs> <ranges> <sources> <stream>`: as `dec`, fragmented transport
pub fn op_fragdec(args: &[&str]) -> String {
    let fl = args[0];
    let cuts = parse_cuts(args[1]);
    let data = blob(args[2]);
    let claimed: u64 = args[3].parse().unwrap();
    let bs = bs_of(args[4]);
    let ranges = ranges_arg(args[5]);
    let (stream, digs) = build_stream(args[6], args[7]);
    let root = blake3::hash(&data);
    let tree = BaoTree::new(claimed, bs);
    let mut items = Vec::new();
    let term;
    let rest;
    match fl {
        "sync" => {
            let mut rd = FragRead { data: stream.clone(), pos: 0, cuts, calls: 0 };
            let mut t = "Done".to_string();
            {
                let it = sync::DecodeResponseIter::new(root, tree, &mut rd, &ranges);
                for x in it {
                    match x {
                        Ok(i) => items.push(item_str(&i)),
                        Err(e) => {
                            let s = dec_err(&e);
                            t = format!("{s}>{}", io_kind(std::io::Error::from(e).kind()));
                            break;
                        }
                    }
                }
            }
            term = t;
            rest = stream.len() - rd.pos;
        }
        _ => {
            let rd = iroh_io::TokioStreamReader::new(FragAsyncRead { data: stream.clone(), pos: 0, cuts, armed: false, polls: 0 });
            let mut dec = fsm::ResponseDecoder::new(root, ranges.clone(), tree, rd);
            let t;
            let r;
            loop {
                match block_on(dec.next()) {
                    fsm::ResponseDecoderNext::Done(reader) => {
                        t = "Done".to_string();
                        r = stream.len() - reader.into_inner().pos;
                        break;
                    }
                    fsm::ResponseDecoderNext::More((d, Ok(i))) => {
                        items.push(item_str(&i));
                        dec = d;
                    }
                    fsm::ResponseDecoderNext::More((d, Err(e))) => {
                        let s = dec_err(&e);
                        t = format!("{s}>{}", io_kind(std::io::Error::from(e).kind()));
                        r = stream.len() - d.finish().into_inner().pos;
                        break;
                    }
                }
            }
            term = t;
            rest = r;
        }
    }
    let rest_s = if term == "Done" { rest.to_string() } else { "_".into() };
    format!(
        "{} // {} {} acc=1 src={}",
        join(items),
        term,
        rest_s,
        if digs.is_empty() { "-".into() } else { digs.join(";") }
    )
}

/// `fragdecr <cuts> <sync|fsm> <sink kind> <blob> <bs> <ranges> <sources> <stream> <fill>`: as `decr`
/// (decode_ranges on a borrowed reader, the response possibly followed by more bytes), fragmented transport;
/// `rest` = what the caller's reader still holds afterwards
pub fn op_fragdecr(args: &[&str]) -> String {
    // the run under the given slicing, and the same run on a reader that hands out everything at once and never
    // suspends: C11 says they are indistinguishable
    let a = fragdecr_one(parse_cuts(args[0]), args);
    let b = fragdecr_one(parse_cuts("c-"), args);
    format!("{a} || {b}")
}
fn fragdecr_one(cuts: Cuts, args: &[&str]) -> String {
    let fl = args[1];
    let kind = args[2];
    let data = blob(args[3]);
    let bs = bs_of(args[4]);
    let ranges = ranges_arg(args[5]);
    let (stream, digs) = build_stream(args[6], args[7]);
    let fill: u8 = args[8].parse().unwrap();
    let root = blake3::hash(&data);
    let tree = BaoTree::new(data.len() as u64, bs);
    let ob0 = vec![0xAAu8; tree.outboard_size() as usize];
    let mut target = vec![fill; data.len()];
    let rest;
    let (r, ob) = match fl {
        "sync" => {
            let mut rd = FragRead { data: stream.clone(), pos: 0, cuts, calls: 0 };
            let res = with_sync_store!(kind, root, tree, ob0, |o| sync::decode_ranges(&mut rd, &ranges, &mut target, &mut o));
            rest = stream.len() - rd.pos;
            res
        }
        _ => {
            let mut t = BytesMut::from(&target[..]);
            let mut rd = iroh_io::TokioStreamReader::new(FragAsyncRead { data: stream.clone(), pos: 0, cuts, armed: false, polls: 0 });
            let res = with_fsm_store!(kind, root, tree, ob0, |o| block_on(fsm::decode_ranges(&mut rd, ranges.clone(), &mut t, &mut o)));
            target = t.to_vec();
            rest = stream.len() - rd.into_inner().pos;
            res
        }
    };
    let term = match r {
        Ok(()) => "Done".to_string(),
        Err(e) => dec_err(&e),
    };
    format!(
        "{} {} {} src={} rest={}",
        term,
        dig(&target),
        dig(&ob),
        if digs.is_empty() { "-".into() } else { digs.join(";") },
        if term == "Done" { rest.to_string() } else { "_".into() }
    )
}

/// `decrt <k> <Kind> <sync|fsm> <sink kind> <blob> <bs> <ranges> <sources> <stream> <fill>`: as `decr`, but the
/// k-th read call on the stream reader fails ONCE with an io error of the given kind (a transient failure: the
/// reader would carry on if asked again). Observed: terminal, target / outboard digests, and per chunk of the target
/// and per slot of the outboard whether it is untouched (`u`), holds the true bytes / pair (`t`) or anything else (`x`)
pub fn op_decrt(args: &[&str]) -> String {
    let k: usize = args[0].parse().unwrap();
    let fkind = kind_of(args[1]);
    let fl = args[2];
    let kind = args[3];
    let data = blob(args[4]);
    let bs = bs_of(args[5]);
    let ranges = ranges_arg(args[6]);
    let (stream, _digs) = build_stream(args[7], args[8]);
    let fill: u8 = args[9].parse().unwrap();
    let root = blake3::hash(&data);
    let tree = BaoTree::new(data.len() as u64, bs);
    let ob0 = vec![0xAAu8; tree.outboard_size() as usize];
    let mut target = vec![fill; data.len()];
    let c = ctl(Some((k, fkind)));
    let (r, ob) = match fl {
        "sync" => with_sync_store!(kind, root, tree, ob0, |o| sync::decode_ranges(FRead(&stream[..], c.clone()), &ranges, &mut target, &mut o)),
        _ => {
            let mut t = BytesMut::from(&target[..]);
            let res = with_fsm_store!(kind, root, tree, ob0, |o| block_on(fsm::decode_ranges(
                FStreamReader(&stream[..], c.clone()),
                ranges.clone(),
                &mut t,
                &mut o
            )));
            target = t.to_vec();
            res
        }
    };
    let term = match r {
        Ok(()) => "Done".to_string(),
        Err(e) => dec_err(&e),
    };
    // the true outboard in the sink's order, from the creation code path
    let true_ob: Vec<u8> = if kind.starts_with("post") { PostOrderMemOutboard::create(&data, bs).data } else { PreOrderMemOutboard::create(&data, bs).data };
    let obf: String = if kind == "empty" {
        "-".into()
    } else {
        ob.chunks(64)
            .zip(true_ob.chunks(64))
            .map(|(a, t)| if a.iter().all(|x| *x == 0xAA) { 'u' } else if a == t { 't' } else { 'x' })
            .collect()
    };
    let tf: String = target
        .chunks(1024)
        .zip(data.chunks(1024))
        .map(|(a, t)| if a == t { 't' } else if a.iter().all(|x| *x == fill) { 'u' } else { 'x' })
        .collect();
    format!("{} {} {} ob={} t={}", term, dig(&target), dig(&ob), if obf.is_empty() { "-".into() } else { obf }, if tf.is_empty() { "-".into() } else { tf })
}

/// `fragob <sync|fsm> <cuts> <blob> <bs> <pre|post>`: outboard creation from a fragmented data source
pub fn op_fragob(args: &[&str]) -> String {
    let cuts = parse_cuts(args[1]);
    let data = blob(args[2]);
    let bs = bs_of(args[3]);
    let tree = BaoTree::new(data.len() as u64, bs);
    let zero = blake3::Hash::from([0u8; 32]);
    let obz = vec![0u8; tree.outboard_size() as usize];
    let (root, ob) = match (args[0], args[4]) {
        ("sync", "pre") => {
            let mut o = PreOrderMemOutboard { root: zero, tree, data: obz };
            let r = sync::outboard(FragRead { data: data.clone(), pos: 0, cuts, calls: 0 }, tree, &mut o);
            (r, o.data)
        }
        ("sync", _) => {
            let mut w = Vec::new();
            let r = sync::outboard_post_order(FragRead { data: data.clone(), pos: 0, cuts, calls: 0 }, tree, &mut w);
            (r, w)
        }
        (_, "pre") => {
            let mut o = PreOrderMemOutboard { root: zero, tree, data: obz };
            let rd = iroh_io::TokioStreamReader::new(FragAsyncRead { data: data.clone(), pos: 0, cuts, armed: false, polls: 0 });
            let r = block_on(fsm::outboard(rd, tree, &mut o));
            (r, o.data)
        }
        _ => {
            let mut w = Vec::new();
            let rd = iroh_io::TokioStreamReader::new(FragAsyncRead { data: data.clone(), pos: 0, cuts, armed: false, polls: 0 });
            let r = block_on(fsm::outboard_post_order(rd, tree, &mut w));
            (r, w)
        }
    };
    format!("{} {}", root.map(|h| hex(h.as_bytes())).unwrap_or_else(|e| io_err(&e)), dig(&ob))
}

/// `fragenc <m> <blob> <bs> <ranges> <corruption>`: sync validating encoder, data source returns at most m bytes per read_at
pub fn op_fragenc(args: &[&str]) -> String {
    let m: usize = args[0].parse().unwrap();
    let mut data = blob(args[1]);
    let bs = bs_of(args[2]);
    let ranges = ranges_arg(args[3]);
    let (root, tree, mut ob) = intact_store("preMem", &data, bs);
    corrupt(args[4], &mut data, &mut ob);
    let o = PreOrderMemOutboard { root, tree, data: ob };
    let mut out = Vec::new();
    let r = sync::encode_ranges_validated(FragReadAt(data, m), &o, &ranges, &mut out);
    format!("{} {}", r.map(|_| "Ok".to_string()).unwrap_or_else(|e| enc_err(&e)), dig(&out))
}

// ---------------- fault enumeration (C10) ----------------
use bao_tree::io::mixed;
use std::io::ErrorKind;


/// like `with_sync_store!`, but the backing of io kinds is a counted / failing `FBack` (ctl `$cio`)
macro_rules! with_sync_store_f {
    ($kind:expr, $root:expr, $tree:expr, $data:expr, $cio:expr, |$ob:ident| $body:expr) => {{
        let (root, tree, data): (blake3::Hash, BaoTree, Vec<u8>) = ($root, $tree, $data);
        match $kind {
            "preIo" => {
                let mut $ob = PreOrderOutboard { root, tree, data: FBack(data, $cio.clone()) };
                let r = $body;
                (r, $ob.data.0)
            }
            "postIo" => {
                let mut $ob = PostOrderOutboard { root, tree, data: FBack(data, $cio.clone()) };
                let r = $body;
                (r, $ob.data.0)
            }
            k => with_sync_store!(k, root, tree, data, |$ob| $body),
        }
    }};
}
macro_rules! with_fsm_store_f {
    ($kind:expr, $root:expr, $tree:expr, $data:expr, $cio:expr, |$ob:ident| $body:expr) => {{
        let (root, tree, data): (blake3::Hash, BaoTree, Vec<u8>) = ($root, $tree, $data);
        match $kind {
            "preIo" => {
                let mut $ob = PreOrderOutboard { root, tree, data: FBack(BytesMut::from(&data[..]), $cio.clone()) };
                let r = $body;
                (r, $ob.data.0.to_vec())
            }
            "postIo" => {
                let mut $ob = PostOrderOutboard { root, tree, data: FBack(BytesMut::from(&data[..]), $cio.clone()) };
                let r = $body;
                (r, $ob.data.0.to_vec())
            }
            k => with_fsm_store!(k, root, tree, data, |$ob| $body),
        }
    }};
}

pub struct RunOut {
    pub res: String,
    pub out: Vec<u8>,
    pub ctls: Vec<(&'static str, Ctrl)>,
}

fn fault_for(obj: &str, fault: &Option<(String, usize, ErrorKind)>) -> Option<(usize, ErrorKind)> {
    match fault {
        Some((o, k, kind)) if o == obj => Some((*k, *kind)),
        _ => None,
    }
}

struct CountingSender<'a> {
    items: &'a mut Vec<u8>,
    ctl: Ctrl,
}
impl mixed::Sender for CountingSender<'_> {
    type Error = ();
    fn send(&mut self, item: mixed::EncodedItem) -> impl std::future::Future<Output = Result<(), ()>> + '_ {
        let what = match &item {
            mixed::EncodedItem::Size(_) => "send Size".to_string(),
            mixed::EncodedItem::Parent(p) => format!("send P{}", node_id(p.node)),
            mixed::EncodedItem::Leaf(l) => format!("send L{}", l.offset / 1024),
            mixed::EncodedItem::Error(e) => format!("send Error({})", enc_err(e)),
            mixed::EncodedItem::Done => "send Done".to_string(),
        };
        let r = tick(&self.ctl, what);
        if r.is_ok() {
            match &item {
                mixed::EncodedItem::Parent(p) => {
                    self.items.extend_from_slice(p.pair.0.as_bytes());
                    self.items.extend_from_slice(p.pair.1.as_bytes());
                }
                mixed::EncodedItem::Leaf(l) => self.items.extend_from_slice(&l.data),
                _ => {}
            }
        }
        std::future::ready(r.map_err(|_| ()))
    }
}

/// run one operation with an optional fault; opspec = `name/blob/bs/store/ranges`
pub fn run_faulty(spec: &str, fault: Option<(String, usize, ErrorKind)>) -> RunOut {
    let p: Vec<&str> = spec.split('/').collect();
    let name = p[0];
    let data = blob(p[1]);
    let bs = bs_of(p[2]);
    let kind = p[3];
    let ranges = ranges_arg(p[4]);
    let (root, tree, ob) = intact_store(kind, &data, bs);
    let c = |o: &'static str| (o, ctl(fault_for(o, &fault)));
    let zero = blake3::Hash::from([0u8; 32]);
    match name {
        "encv-sync" | "encp-sync" => {
            let (cd, co, cw, cio) = (c("data"), c("ob"), c("w"), c("obio"));
            let mut out = Vec::new();
            let (r, _) = with_sync_store_f!(kind, root, tree, ob, cio.1, |o| {
                let d = FReadAt(&data[..], cd.1.clone());
                let fo = FOb(&o, co.1.clone());
                let w = FWrite(&mut out, cw.1.clone());
                if name == "encv-sync" {
                    sync::encode_ranges_validated(d, fo, &ranges, w)
                } else {
                    sync::encode_ranges(d, fo, &ranges, w)
                }
            });
            RunOut { res: r.map(|_| "Ok".into()).unwrap_or_else(|e| enc_err(&e)), out, ctls: vec![cd, co, cw, cio] }
        }
        "encv-fsm" | "encp-fsm" => {
            let (cd, co, cw, cio) = (c("data"), c("ob"), c("w"), c("obio"));
            let mut out = Vec::new();
            let d = Bytes::from(data.clone());
            let (r, _) = with_fsm_store_f!(kind, root, tree, ob, cio.1, |o| {
                let d = FSliceReader(d.clone(), cd.1.clone());
                let fo = FOb(&mut o, co.1.clone());
                let w = FStreamWriter(&mut out, cw.1.clone());
                if name == "encv-fsm" {
                    block_on(fsm::encode_ranges_validated(d, fo, &ranges, w))
                } else {
                    block_on(fsm::encode_ranges(d, fo, &ranges, w))
                }
            });
            RunOut { res: r.map(|_| "Ok".into()).unwrap_or_else(|e| enc_err(&e)), out, ctls: vec![cd, co, cw, cio] }
        }
        "mixed" => {
            let (cd, co, cs) = (c("data"), c("ob"), c("s"));
            let mut out = Vec::new();
            struct RB<'a>(&'a [u8], Ctrl);
            impl mixed::ReadBytesAt for RB<'_> {
                fn read_bytes_at(&self, offset: u64, size: usize) -> std::io::Result<Bytes> {
                    tick(&self.1, format!("read_at {} {}", offset, size))?;
                    self.0.read_bytes_at(offset, size)
                }
            }
            let (r, _) = with_sync_store!(kind, root, tree, ob, |o| {
                let mut snd = CountingSender { items: &mut out, ctl: cs.1.clone() };
                block_on(mixed::traverse_ranges_validated(RB(&data[..], cd.1.clone()), FOb(&o, co.1.clone()), &ranges, &mut snd))
            });
            // the terminal is the last thing sent
            let last = cs.1.borrow().log.last().cloned().unwrap_or_default();
            let res = match r {
                Err(()) => "SendErr".to_string(),
                Ok(()) => {
                    if last == "send Done" {
                        "Ok".into()
                    } else if last.starts_with("send Error(") {
                        last["send Error(".len()..last.len() - 1].to_string()
                    } else {
                        format!("bad-terminal:{last}")
                    }
                }
            };
            // the terminal item is not part of the emitted prefix
            if cs.1.borrow().log.last().map(|l| l.starts_with("send Error(")).unwrap_or(false) {
                cs.1.borrow_mut().log.pop();
            }
            RunOut { res, out, ctls: vec![cd, co, cs] }
        }
        "decr-sync" | "decr-fsm" => {
            let (cr, ct, co, cio) = (c("r"), c("t"), c("ob"), c("obio"));
            let mut enc = Vec::new();
            {
                let pre = PreOrderMemOutboard::create(&data, bs);
                sync::encode_ranges_validated(&data[..], &pre, &ranges, &mut enc).unwrap();
            }
            let ob0 = vec![0u8; tree.outboard_size() as usize];
            let mut target = vec![0u8; data.len()];
            let (r, ob_out) = if name == "decr-sync" {
                with_sync_store_f!(kind, root, tree, ob0, cio.1, |o| sync::decode_ranges(
                    FRead(&enc[..], cr.1.clone()),
                    &ranges,
                    FWriteAt(&mut target, ct.1.clone()),
                    FOb(&mut o, co.1.clone())
                ))
            } else {
                let mut t = BytesMut::from(&target[..]);
                let res = with_fsm_store_f!(kind, root, tree, ob0, cio.1, |o| block_on(fsm::decode_ranges(
                    FStreamReader(&enc[..], cr.1.clone()),
                    ranges.clone(),
                    FSliceWriter(&mut t, ct.1.clone()),
                    FOb(&mut o, co.1.clone())
                )));
                target = t.to_vec();
                res
            };
            let mut out = target;
            out.extend_from_slice(&ob_out);
            RunOut { res: r.map(|_| "Ok".into()).unwrap_or_else(|e| dec_err(&e)), out: vec![], ctls: vec![cr, ct, co, cio] }.with_out(out)
        }
        "ob-sync" | "ob-fsm" => {
            let (cd, co, cio) = (c("data"), c("ob"), c("obio"));
            let ob0 = vec![0u8; tree.outboard_size() as usize];
            let (r, ob_out) = if name == "ob-sync" {
                with_sync_store_f!(kind, zero, tree, ob0, cio.1, |o| sync::outboard(FRead(&data[..], cd.1.clone()), tree, FOb(&mut o, co.1.clone())))
            } else {
                with_fsm_store_f!(kind, zero, tree, ob0, cio.1, |o| block_on(fsm::outboard(
                    FStreamReader(Bytes::from(data.clone()), cd.1.clone()),
                    tree,
                    FOb(&mut o, co.1.clone())
                )))
            };
            RunOut { res: r.map(|_| "Ok".into()).unwrap_or_else(|e| io_err(&e)), out: vec![], ctls: vec![cd, co, cio] }.with_out(ob_out)
        }
        "obpo-sync" | "obpo-fsm" => {
            let (cd, cw) = (c("data"), c("w"));
            let mut out = Vec::new();
            let r = if name == "obpo-sync" {
                sync::outboard_post_order(FRead(&data[..], cd.1.clone()), tree, FWrite(&mut out, cw.1.clone()))
            } else {
                block_on(fsm::outboard_post_order(
                    FStreamReader(Bytes::from(data.clone()), cd.1.clone()),
                    tree,
                    FStreamWriter(&mut out, cw.1.clone()),
                ))
            };
            RunOut { res: r.map(|_| "Ok".into()).unwrap_or_else(|e| io_err(&e)), out, ctls: vec![cd, cw] }
        }
        "copy-sync" | "copy-fsm" => {
            let (cf, ct) = (c("from"), c("to"));
            // copy into the other order
            let to_kind = if kind.starts_with("pre") { "postMem" } else { "preMem" };
            let ob0 = vec![0u8; tree.outboard_size() as usize];
            let (r, to_out) = if name == "copy-sync" {
                let (rr, _) = with_sync_store!(kind, root, tree, ob, |from| {
                    with_sync_store!(to_kind, root, tree, ob0.clone(), |to| sync::copy(FOb(&from, cf.1.clone()), FOb(&mut to, ct.1.clone())))
                });
                rr
            } else {
                let (rr, _) = with_fsm_store!(kind, root, tree, ob, |from| {
                    with_fsm_store!(to_kind, root, tree, ob0.clone(), |to| block_on(fsm::copy(
                        FOb(&mut from, cf.1.clone()),
                        FOb(&mut to, ct.1.clone())
                    )))
                });
                rr
            };
            RunOut { res: r.map(|_| "Ok".into()).unwrap_or_else(|e| io_err(&e)), out: vec![], ctls: vec![cf, ct] }.with_out(to_out)
        }
        "valid-sync" | "validob-sync" | "valid-fsm" | "validob-fsm" => {
            let (co, cd) = (c("ob"), c("data"));
            let mut res: Vec<String> = Vec::new();
            let with_data = name.starts_with("valid-");
            if name.ends_with("-sync") {
                let _ = with_sync_store!(kind, root, tree, ob, |o| {
                    if with_data {
                        for r in sync::valid_ranges(FOb(&o, co.1.clone()), FReadAt(&data[..], cd.1.clone()), &ranges) {
                            res.push(r.map(|r| format!("{}:{}", r.start.0, r.end.0)).unwrap_or_else(|e| io_err(&e)));
                        }
                    } else {
                        for r in sync::valid_outboard_ranges(FOb(&o, co.1.clone()), &ranges) {
                            res.push(r.map(|r| format!("{}:{}", r.start.0, r.end.0)).unwrap_or_else(|e| io_err(&e)));
                        }
                    }
                });
            } else {
                use futures_lite::StreamExt;
                let d = Bytes::from(data.clone());
                let _ = with_fsm_store!(kind, root, tree, ob, |o| {
                    block_on(async {
                        if with_data {
                            let mut s = std::pin::pin!(fsm::valid_ranges(FOb(&mut o, co.1.clone()), FSliceReader(d.clone(), cd.1.clone()), &ranges));
                            while let Some(r) = s.next().await {
                                res.push(r.map(|r| format!("{}:{}", r.start.0, r.end.0)).unwrap_or_else(|e| io_err(&e)));
                            }
                        } else {
                            let mut s = std::pin::pin!(fsm::valid_outboard_ranges(FOb(&mut o, co.1.clone()), &ranges));
                            while let Some(r) = s.next().await {
                                res.push(r.map(|r| format!("{}:{}", r.start.0, r.end.0)).unwrap_or_else(|e| io_err(&e)));
                            }
                        }
                    })
                });
            }
            // result: the error if there is one (must be the last item), else Ok; `out` = the ranges yielded
            let errs: Vec<usize> = res.iter().enumerate().filter(|(_, s)| s.starts_with("Io(")).map(|(i, _)| i).collect();
            let r = if errs.is_empty() {
                "Ok".to_string()
            } else if errs == vec![res.len() - 1] {
                res.last().unwrap().clone()
            } else {
                format!("error-not-last:{}", res.join(","))
            };
            let yielded: Vec<String> = res.iter().filter(|s| !s.starts_with("Io(")).cloned().collect();
            RunOut { res: r, out: yielded.join(",").into_bytes(), ctls: vec![co, cd] }
        }
        _ => panic!("bad op {name}"),
    }
}
impl RunOut {
    fn with_out(mut self, out: Vec<u8>) -> Self {
        self.out = out;
        self
    }
}

/// `faults <opspec> <stride>`: fault-free run, then a fault at every `stride`-th call index of every object, 4 kinds
pub fn op_faults(args: &[&str]) -> String {
    let spec = args[0];
    let stride: usize = args[1].parse().unwrap();
    let free = run_faulty(spec, None);
    let name = spec.split('/').next().unwrap();
    let store_like = name.starts_with("decr") || name.starts_with("ob-") || name.starts_with("copy");
    let mut parts: Vec<String> = Vec::new();
    let counts: Vec<String> = free.ctls.iter().map(|(o, c)| format!("{}:{}", o, c.borrow().calls)).collect();
    parts.push(format!("{} N={}", free.res, counts.join(",")));
    for (obj, c0) in &free.ctls {
        let n = c0.borrow().calls;
        let free_log = c0.borrow().log.clone();
        let mut k = 0;
        while k < n {
            let mut toks = Vec::new();
            // "Eof": the data source / stream simply ends at this read (a short read, not an error)
            let eof_applies = (*obj == "data" || *obj == "r") && name != "mixed";
            let mut kinds: Vec<&str> = vec!["Other", "UnexpectedEof", "ConnectionReset", "WriteZero"];
            if eof_applies {
                kinds.push("Eof");
            }
            // the async code has no retry loops: `Interrupted` is a failure like any other there (the std loops of the
            // sync code retry it by contract, so it is not a failure of a sync operation)
            if name.ends_with("-fsm") || name == "mixed" {
                kinds.push("Interrupted");
            }
            for &kind in &kinds {
                let spec_s = spec.to_string();
                let obj_s = obj.to_string();
                let kk = kind_of(kind);
                let r = std::panic::catch_unwind(move || run_faulty(&spec_s, Some((obj_s, k, kk))));
                match r {
                    Err(_) => toks.push(format!("{kind}=panic/a0/p0")),
                    Ok(run) => {
                        let (_, cf) = run.ctls.iter().find(|(o, _)| o == obj).unwrap();
                        let after = cf.borrow().after_fail;
                        // (c): everything observable is a prefix of the fault-free run
                        let mut prefix = true;
                        for ((_, a), (_, b)) in run.ctls.iter().zip(free.ctls.iter()) {
                            let la = a.borrow().log.clone();
                            let lb = b.borrow().log.clone();
                            if la.len() > lb.len() || la[..] != lb[..la.len()] {
                                prefix = false;
                            }
                        }
                        if !store_like && !(run.out.len() <= free.out.len() && run.out[..] == free.out[..run.out.len()]) {
                            prefix = false;
                        }
                        let _ = &free_log;
                        toks.push(format!("{kind}={}/a{}/p{}", run.res, after, b01(prefix)));
                    }
                }
            }
            // what the failing call was (label of the k-th call on this object in the fault-free run)
            parts.push(format!("{}@{}[{}] {}", obj, k, free_log[k].replace(' ', "_"), toks.join(" ")));
            k += stride.max(1);
        }
    }
    parts.join(" # ")
}
