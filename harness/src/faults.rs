//! io wrappers that count calls and fail the k-th one (sync and async flavours)
use bao_tree::{blake3, io::fsm, io::sync, BaoTree, TreeNode};
use bytes::Bytes;
use std::cell::RefCell;
use std::io;
use std::rc::Rc;

/// shared fault plan / call log of one io object
#[derive(Default, Debug)]
pub struct Ctl {
    /// calls made so far
    pub calls: usize,
    /// fail the call with this index
    pub fail_at: Option<(usize, io::ErrorKind)>,
    /// calls made after the failing one
    pub after_fail: usize,
    pub failed: bool,
    /// log of (op, offset, len)
    pub log: Vec<String>,
}
pub type Ctrl = Rc<RefCell<Ctl>>;

pub fn ctl(fail_at: Option<(usize, io::ErrorKind)>) -> Ctrl {
    Rc::new(RefCell::new(Ctl { fail_at, ..Default::default() }))
}

/// account for one call; Err = the injected failure
pub fn tick(c: &Ctrl, what: String) -> io::Result<()> {
    let mut c = c.borrow_mut();
    if c.failed {
        c.after_fail += 1;
    }
    let idx = c.calls;
    c.calls += 1;
    c.log.push(what);
    if let Some((k, kind)) = c.fail_at {
        if k == idx {
            c.failed = true;
            return Err(io::Error::new(kind, "injected"));
        }
        // "the source ends here": every later read finds the end of the data as well
        if kind == EOF_MARK && idx > k {
            return Err(io::Error::new(kind, "injected"));
        }
    }
    Ok(())
}

/// pseudo kind of the fault "the reader has no more data from the k-th read on" (a short / empty read, not an error)
pub const EOF_MARK: io::ErrorKind = io::ErrorKind::Unsupported;

/// account for one read call; `Ok(true)` = the source has ended (return an empty read), Err = injected failure
pub fn tick_read(c: &Ctrl, what: String) -> io::Result<bool> {
    match tick(c, what) {
        Ok(()) => Ok(false),
        Err(e) if e.kind() == EOF_MARK => Ok(true),
        Err(e) => Err(e),
    }
}

pub fn kind_of(s: &str) -> io::ErrorKind {
    match s {
        "Other" => io::ErrorKind::Other,
        "UnexpectedEof" => io::ErrorKind::UnexpectedEof,
        "ConnectionReset" => io::ErrorKind::ConnectionReset,
        "WriteZero" => io::ErrorKind::WriteZero,
        "Eof" => EOF_MARK,
        "Interrupted" => io::ErrorKind::Interrupted,
        _ => panic!("bad kind {s}"),
    }
}

// ---------- sync ----------
pub struct FRead<R>(pub R, pub Ctrl);
impl<R: io::Read> io::Read for FRead<R> {
    fn read(&mut self, buf: &mut [u8]) -> io::Result<usize> {
        if tick_read(&self.1, format!("read {}", buf.len()))? {
            return Ok(0);
        }
        self.0.read(buf)
    }
}
pub struct FWrite<W>(pub W, pub Ctrl);
impl<W: io::Write> io::Write for FWrite<W> {
    fn write(&mut self, buf: &[u8]) -> io::Result<usize> {
        tick(&self.1, format!("write {}", buf.len()))?;
        self.0.write(buf)
    }
    fn flush(&mut self) -> io::Result<()> {
        self.0.flush()
    }
}
pub struct FReadAt<R>(pub R, pub Ctrl);
impl<R: sync::ReadAt> sync::ReadAt for FReadAt<R> {
    fn read_at(&self, pos: u64, buf: &mut [u8]) -> io::Result<usize> {
        if tick_read(&self.1, format!("read_at {} {}", pos, buf.len()))? {
            return Ok(0);
        }
        self.0.read_at(pos, buf)
    }
}
pub struct FWriteAt<W>(pub W, pub Ctrl);
impl<W: sync::WriteAt> sync::WriteAt for FWriteAt<W> {
    fn write_at(&mut self, pos: u64, buf: &[u8]) -> io::Result<usize> {
        tick(&self.1, format!("write_at {} {}", pos, buf.len()))?;
        self.0.write_at(pos, buf)
    }
    fn flush(&mut self) -> io::Result<()> {
        self.0.flush()
    }
}
/// outboard wrapper: `load`, `save`, `sync` are the counted operations
pub struct FOb<O>(pub O, pub Ctrl);
impl<O: sync::Outboard> sync::Outboard for FOb<O> {
    fn root(&self) -> blake3::Hash {
        self.0.root()
    }
    fn tree(&self) -> BaoTree {
        self.0.tree()
    }
    fn load(&self, node: TreeNode) -> io::Result<Option<(blake3::Hash, blake3::Hash)>> {
        tick(&self.1, format!("load {}", crate::canon::node_id(node)))?;
        self.0.load(node)
    }
}
impl<O: sync::OutboardMut> sync::OutboardMut for FOb<O> {
    fn save(&mut self, node: TreeNode, pair: &(blake3::Hash, blake3::Hash)) -> io::Result<()> {
        tick(&self.1, format!("save {}", crate::canon::node_id(node)))?;
        self.0.save(node, pair)
    }
    fn sync(&mut self) -> io::Result<()> {
        tick(&self.1, "sync".to_string())?;
        self.0.sync()
    }
}

// ---------- async ----------
impl<O: fsm::Outboard> fsm::Outboard for FOb<O> {
    fn root(&self) -> blake3::Hash {
        self.0.root()
    }
    fn tree(&self) -> BaoTree {
        self.0.tree()
    }
    async fn load(&mut self, node: TreeNode) -> io::Result<Option<(blake3::Hash, blake3::Hash)>> {
        tick(&self.1, format!("load {}", crate::canon::node_id(node)))?;
        self.0.load(node).await
    }
}
impl<O: fsm::OutboardMut> fsm::OutboardMut for FOb<O> {
    async fn save(&mut self, node: TreeNode, pair: &(blake3::Hash, blake3::Hash)) -> io::Result<()> {
        tick(&self.1, format!("save {}", crate::canon::node_id(node)))?;
        self.0.save(node, pair).await
    }
    async fn sync(&mut self) -> io::Result<()> {
        tick(&self.1, "sync".to_string())?;
        self.0.sync().await
    }
}
pub struct FStreamReader<R>(pub R, pub Ctrl);
impl<R: iroh_io::AsyncStreamReader> iroh_io::AsyncStreamReader for FStreamReader<R> {
    async fn read_bytes(&mut self, len: usize) -> io::Result<Bytes> {
        if tick_read(&self.1, format!("read {}", len))? {
            return Ok(Bytes::new());
        }
        self.0.read_bytes(len).await
    }
    async fn read<const L: usize>(&mut self) -> io::Result<[u8; L]> {
        // by contract a fixed-size read fails with UnexpectedEof at the end of the stream
        if tick_read(&self.1, format!("read {}", L))? {
            return Err(io::ErrorKind::UnexpectedEof.into());
        }
        self.0.read::<L>().await
    }
}
pub struct FStreamWriter<W>(pub W, pub Ctrl);
impl<W: iroh_io::AsyncStreamWriter> iroh_io::AsyncStreamWriter for FStreamWriter<W> {
    async fn write(&mut self, data: &[u8]) -> io::Result<()> {
        tick(&self.1, format!("write {}", data.len()))?;
        self.0.write(data).await
    }
    async fn write_bytes(&mut self, data: Bytes) -> io::Result<()> {
        tick(&self.1, format!("write {}", data.len()))?;
        self.0.write_bytes(data).await
    }
    async fn sync(&mut self) -> io::Result<()> {
        self.0.sync().await
    }
}
pub struct FSliceReader<R>(pub R, pub Ctrl);
impl<R: fsm::AsyncSliceReader> fsm::AsyncSliceReader for FSliceReader<R> {
    async fn read_at(&mut self, offset: u64, len: usize) -> io::Result<Bytes> {
        if tick_read(&self.1, format!("read_at {} {}", offset, len))? {
            return Ok(Bytes::new());
        }
        self.0.read_at(offset, len).await
    }
    async fn size(&mut self) -> io::Result<u64> {
        self.0.size().await
    }
}
pub struct FSliceWriter<W>(pub W, pub Ctrl);
impl<W: fsm::AsyncSliceWriter> fsm::AsyncSliceWriter for FSliceWriter<W> {
    async fn write_at(&mut self, offset: u64, data: &[u8]) -> io::Result<()> {
        tick(&self.1, format!("write_at {} {}", offset, data.len()))?;
        self.0.write_at(offset, data).await
    }
    async fn write_bytes_at(&mut self, offset: u64, data: Bytes) -> io::Result<()> {
        tick(&self.1, format!("write_at {} {}", offset, data.len()))?;
        self.0.write_bytes_at(offset, data).await
    }
    async fn set_len(&mut self, len: u64) -> io::Result<()> {
        self.0.set_len(len).await
    }
    async fn sync(&mut self) -> io::Result<()> {
        self.0.sync().await
    }
}
impl<R: sync::Size> sync::Size for FReadAt<R> {
    fn size(&self) -> io::Result<Option<u64>> {
        self.0.size()
    }
}

/// backing store of an io-backed outboard: positional reads and writes are counted / failed
pub struct FBack<T>(pub T, pub Ctrl);
impl<T: sync::ReadAt> sync::ReadAt for FBack<T> {
    fn read_at(&self, pos: u64, buf: &mut [u8]) -> io::Result<usize> {
        tick(&self.1, format!("read_at {} {}", pos, buf.len()))?;
        self.0.read_at(pos, buf)
    }
}
impl<T: sync::WriteAt> sync::WriteAt for FBack<T> {
    fn write_at(&mut self, pos: u64, buf: &[u8]) -> io::Result<usize> {
        tick(&self.1, format!("write_at {} {}", pos, buf.len()))?;
        self.0.write_at(pos, buf)
    }
    fn flush(&mut self) -> io::Result<()> {
        self.0.flush()
    }
}
impl<T: fsm::AsyncSliceReader> fsm::AsyncSliceReader for FBack<T> {
    async fn read_at(&mut self, offset: u64, len: usize) -> io::Result<Bytes> {
        tick(&self.1, format!("read_at {} {}", offset, len))?;
        self.0.read_at(offset, len).await
    }
    async fn size(&mut self) -> io::Result<u64> {
        self.0.size().await
    }
}
impl<T: fsm::AsyncSliceWriter> fsm::AsyncSliceWriter for FBack<T> {
    async fn write_at(&mut self, offset: u64, data: &[u8]) -> io::Result<()> {
        tick(&self.1, format!("write_at {} {}", offset, data.len()))?;
        self.0.write_at(offset, data).await
    }
    async fn write_bytes_at(&mut self, offset: u64, data: Bytes) -> io::Result<()> {
        tick(&self.1, format!("write_at {} {}", offset, data.len()))?;
        self.0.write_bytes_at(offset, data).await
    }
    async fn set_len(&mut self, len: u64) -> io::Result<()> {
        self.0.set_len(len).await
    }
    async fn sync(&mut self) -> io::Result<()> {
        self.0.sync().await
    }
}
