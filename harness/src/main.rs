#![allow(unused_mut, unused_imports, dead_code)]
mod canon;
mod gen1;
mod ops1;
mod ops2;
mod faults;
mod ops3;
mod ops4;
mod ops5;
mod gen2;
mod gen3;
mod gen4;
mod rng;

use std::io::{BufRead, Write};

/// number of cases started (watchdog)
static PROGRESS: std::sync::atomic::AtomicU64 = std::sync::atomic::AtomicU64::new(0);

/// run one operation of the real implementation; panics are reported as "panic"
pub fn run_op(lhs: &str) -> String {
    PROGRESS.fetch_add(1, std::sync::atomic::Ordering::Relaxed);
    let lhs = lhs.to_string();
    canon::guard(move || {
        let toks: Vec<&str> = lhs.split(' ').collect();
        let (op, args) = (toks[0], &toks[1..]);
        match op {
            "node" => ops1::op_node(args),
            "nodebs" => ops1::op_nodebs(args),
            "noderp" => ops1::op_noderp(args),
            "tree" => ops1::op_tree(args),
            "treeoff" => ops1::op_treeoff(args),
            "trunc" => ops1::op_trunc(args),
            "round" => ops1::op_round(args),
            "plan" => ops1::op_plan(args),
            "rplan" => ops1::op_rplan(args),
            "pplan" => ops1::op_pplan(args),
            "ob" => ops2::op_ob(args),
            "enc" => ops2::op_enc(args),
            "dec" => ops2::op_dec(args),
            "decr" => ops2::op_decr(args),
            "encx" => ops2::op_encx(args),
            "decx" => ops2::op_decx(args),
            "baocmp" => ops2::op_baocmp(args),
            "obpre" => ops2::op_obpre(args),
            "enc2" => ops2::op_enc2(args),
            "valid" => ops2::op_valid(args),
            "flip" => ops2::op_flip(args),
            "flipx" => ops2::op_flipx(args),
            "glue" => ops2::op_glue(args),
            "hist" => ops3::op_hist(args),
            "serde" => ops3::op_serde(args),
            "fragdec" => ops4::op_fragdec(args),
            "fragdecr" => ops4::op_fragdecr(args),
            "decrt" => ops4::op_decrt(args),
            "fragob" => ops4::op_fragob(args),
            "fragenc" => ops4::op_fragenc(args),
            "faults" => ops4::op_faults(args),
            "store" => ops5::op_store(args),
            "flipz" => ops5::op_flipz(args),
            "misc" => ops5::op_misc(args),
            _ => format!("unknown-op {op}"),
        }
    })
}

fn main() {
    // silence panic messages: panics are an observable ("panic"), not noise
    std::panic::set_hook(Box::new(|_| {}));
    let args: Vec<String> = std::env::args().collect();
    // watchdog: a single case that does not come back within the limit ends the process with status 97
    // (the orchestrator reports the case as "no result" and resumes behind it)
    let limit: u64 = std::env::var("VERIF_CASE_LIMIT_S").ok().and_then(|s| s.parse().ok()).unwrap_or(120);
    std::thread::spawn(move || {
        let mut seen = PROGRESS.load(std::sync::atomic::Ordering::Relaxed);
        let mut since = std::time::Instant::now();
        loop {
            std::thread::sleep(std::time::Duration::from_millis(500));
            let now = PROGRESS.load(std::sync::atomic::Ordering::Relaxed);
            if now != seen {
                seen = now;
                since = std::time::Instant::now();
            } else if now > 0 && since.elapsed().as_secs() >= limit {
                std::process::exit(97);
            }
        }
    });
    let stdout = std::io::stdout();
    // line buffered: when a case hangs or kills the process, every completed case has already been written
    let mut out = std::io::LineWriter::new(stdout.lock());
    match args.get(1).map(|s| s.as_str()) {
        // `gen <prop> <tier> <seed> [shard] [shards] [skip]` runs the cases; `list …` only prints their left-hand sides
        Some(mode @ ("gen" | "list")) => {
            let prop = &args[2];
            let tier = &args[3];
            let seed: u64 = args[4].parse().unwrap();
            let sidx: usize = args.get(5).map(|s| s.parse().unwrap()).unwrap_or(0);
            let shards: usize = args.get(6).map(|s| s.parse().unwrap()).unwrap_or(1);
            let skip: usize = args.get(7).map(|s| s.parse().unwrap()).unwrap_or(0);
            let mut done = 0usize;
            let mut cases: Vec<String> = Vec::new();
            gen1::gen(prop, tier, seed, &mut cases);
            gen2::gen(prop, tier, seed, &mut cases);
            gen3::gen(prop, tier, seed, &mut cases);
            gen4::gen(prop, tier, seed, &mut cases);
            for (i, lhs) in cases.into_iter().enumerate() {
                if i % shards != sidx {
                    continue;
                }
                done += 1;
                if done <= skip {
                    continue;
                }
                if mode == "list" {
                    writeln!(out, "{lhs}").unwrap();
                    continue;
                }
                let r = run_op(&lhs);
                writeln!(out, "{lhs} | {r}").unwrap();
            }
        }
        // re-run the left-hand sides read from stdin (replay / corpus)
        Some("run") => {
            let stdin = std::io::stdin();
            for line in stdin.lock().lines() {
                let line = line.unwrap();
                let line = line.trim();
                if line.is_empty() || line.starts_with('#') {
                    continue;
                }
                let lhs = line.split(" | ").next().unwrap();
                let r = run_op(lhs);
                writeln!(out, "{lhs} | {r}").unwrap();
            }
        }
        _ => {
            eprintln!("usage: harness gen <prop> <tier> <seed> | harness run < cases");
            std::process::exit(2);
        }
    }
}
