import BaoModel.Tree

/-!
# L2: range sets as boundary lists

A `ChunkRanges` / `ByteRanges` value is its strictly increasing boundary list:
`[a, b, c]` denotes `[a,b) ∪ [c, ∞)`.  Mirrors the parts of `range-collections`
the crate uses (`contains`, `split`, `is_all`, `is_empty`, iteration, union) and
`split` / `split_inner` (`src/lib.rs`), `truncated_len` / `truncate_ranges`
(`src/rec.rs`), and the three rounding helpers of `src/io/mod.rs`.
-/

namespace Bao

abbrev Ranges := List Nat

namespace Ranges

/-- strictly increasing boundaries (the invariant of `RangeSetRef`) -/
def WF : List Nat → Bool
  | [] => true
  | [_] => true
  | a :: b :: rest => decide (a < b) && WF (b :: rest)

/-- number of boundaries `< x` (= the index `binary_search` reports on a sorted slice) -/
def countLt : List Nat → Nat → Nat
  | [], _ => 0
  | b :: rest, x => if b < x then countLt rest x + 1 else 0

/-- `slice::binary_search`: `(true, i)` = `Ok(i)`, `(false, i)` = `Err(i)` -/
def bsearch (bs : List Nat) (x : Nat) : Bool × Nat :=
  let i := countLt bs x
  (bs[i]? == some x, i)

/-- `RangeSetRef::contains` -/
def contains (bs : Ranges) (x : Nat) : Bool :=
  match bsearch bs x with
  | (true, i) => i % 2 == 0
  | (false, i) => i % 2 == 1

/-- `RangeSetRef::is_empty` -/
abbrev isEmpty (bs : Ranges) : Bool := List.isEmpty bs

/-- `RangeSetRef::is_all` -/
def isAll (bs : Ranges) : Bool := bs == [0]

/-- `range_collections::split` -/
def split (bs : List Nat) (at_ : Nat) : List Nat × List Nat :=
  match bsearch bs at_ with
  | (_, i) =>
    if i % 2 == 0 then (bs.take i, bs.drop i)
    else
      match bsearch bs at_ with
      | (true, _) => (bs.take i, bs.drop (min (i + 1) bs.length))
      | (false, _) => (bs.take i, bs.drop (i - 1))

/-- `split_inner` (`src/lib.rs`) -/
def splitInner (bs : List Nat) (start mid : Nat) : List Nat × List Nat :=
  let (a, b) := split bs mid
  let a := match a with
    | [x] => if x ≤ start then [0] else a
    | _ => a
  let b := match b with
    | [x] => if x ≤ mid then [0] else b
    | _ => b
  (a, b)

/-- `split(ranges, node)` (`src/lib.rs`) -/
def splitNode (bs : List Nat) (node : Nat) : List Nat × List Nat :=
  splitInner bs (Node.chunkRange node).1 (Node.mid node)

/-- `truncated_len` (`src/rec.rs`) -/
def truncatedLen (bs : List Nat) (size : Nat) : Nat :=
  let lc := chunksOf size - 1
  match bsearch bs lc with
  | (true, i) =>
    if i % 2 == 0 then i + 1
    else if bs.length == i + 1 then i + 1 else i
  | (false, ip) =>
    if ip % 2 == 0 then (if bs.length == ip then ip else ip + 1)
    else ip

/-- `truncate_ranges` / `truncate_ranges_owned` -/
def truncate (bs : List Nat) (size : Nat) : List Nat := bs.take (truncatedLen bs size)

/-- one element of `RangeSetRef::iter()` -/
inductive Item
  | range (a b : Nat)
  | from_ (a : Nat)
deriving Repr, DecidableEq

/-- `RangeSetRef::iter()` -/
def items : List Nat → List Item
  | [] => []
  | [a] => [.from_ a]
  | a :: b :: rest => .range a b :: items rest

/-- merge of two boundary lists under "or", tracking membership on both sides -/
def unionAux : Nat → List Nat → List Nat → Bool → Bool → List Nat
  | 0, _, _, _, _ => []
  | _ + 1, [], [], _, _ => []
  | fuel + 1, x :: a, [], ia, ib =>
    if (ia || ib) != (!ia || ib) then x :: unionAux fuel a [] (!ia) ib else unionAux fuel a [] (!ia) ib
  | fuel + 1, [], y :: b, ia, ib =>
    if (ia || ib) != (ia || !ib) then y :: unionAux fuel [] b ia (!ib) else unionAux fuel [] b ia (!ib)
  | fuel + 1, x :: a, y :: b, ia, ib =>
    if x < y then
      if (ia || ib) != (!ia || ib) then x :: unionAux fuel a (y :: b) (!ia) ib
      else unionAux fuel a (y :: b) (!ia) ib
    else if y < x then
      if (ia || ib) != (ia || !ib) then y :: unionAux fuel (x :: a) b ia (!ib)
      else unionAux fuel (x :: a) b ia (!ib)
    else
      if (ia || ib) != (!ia || !ib) then x :: unionAux fuel a b (!ia) (!ib)
      else unionAux fuel a b (!ia) (!ib)

/-- `RangeSet::bitor` (third party; modelled by its set meaning) -/
def union (a b : List Nat) : List Nat := unionAux (a.length + b.length + 1) a b false false

/-- `ChunkRanges::from(a..b)` (empty when `a ≥ b`) -/
def ofRange (a b : Nat) : List Nat :=
  if a < b then [a, b] else []

/-- `ChunkRanges::from(a..)` -/
def ofFrom (a : Nat) : List Nat := [a]

/-! ### rounding helpers (`src/io/mod.rs`) -/

/-- `round_up_to_chunks` -/
def roundUpToChunks (bs : List Nat) : List Nat :=
  (items bs).foldl (fun res it =>
    match it with
    | .from_ a => union res (ofFrom (fullChunksOf a))
    | .range a b => union res (ofRange (fullChunksOf a) (chunksOf b))) []

/-- `ChunkNum::chunk_group_end`, `none` when the end lies beyond `u64::MAX` -/
def chunkGroupEnd? (e bs : Nat) : Option Nat :=
  let whole := e / 2 ^ bs
  let part := if e % 2 ^ bs ≠ 0 then 1 else 0
  let r := (whole + part) * 2 ^ bs
  if r < U64 then some r else none

/-- `round_up_to_chunks_groups` -/
def roundUpToChunkGroups (bs : List Nat) (blockSize : Nat) : List Nat :=
  (items bs).foldl (fun res it =>
    match it with
    | .from_ a => union res (ofFrom (chunkGroupStart a blockSize))
    | .range a b =>
      match chunkGroupEnd? b blockSize with
      | some e => union res (ofRange (chunkGroupStart a blockSize) e)
      | none => union res (ofFrom (chunkGroupStart a blockSize))) []

/-- `ceil` of `full_chunk_groups`, `none` when the result lies beyond `u64::MAX` -/
def ceilGroup? (v bs : Nat) : Option Nat :=
  let r := (v + 2 ^ bs - 1) / 2 ^ bs * 2 ^ bs
  if r < U64 then some r else none

/-- `floor` of `full_chunk_groups` -/
def floorGroup (v bs : Nat) : Nat := v / 2 ^ bs * 2 ^ bs

/-- `full_chunk_groups` -/
def fullChunkGroups (bs : List Nat) (blockSize : Nat) : List Nat :=
  (items bs).foldl (fun res it =>
    match it with
    | .from_ a =>
      match ceilGroup? a blockSize with
      | some s => union res (ofFrom s)
      | none => res
    | .range a b =>
      match ceilGroup? a blockSize with
      | some s =>
        let e := floorGroup b blockSize
        if s < e then union res (ofRange s e) else res
      | none => res) []

end Ranges

end Bao
