import BaoModel.Ops2

/-!
# Driver operations, part 3: validators (C06), histories (C07)
-/

namespace Bao.Ops
open Bao.Proto

/-- extended corruption: also the root (`r<pos>^x`), zeroed regions (`Zd<a>:<len>`, `Zo<a>:<len>`)
and a data file that ends early (`Td<len>`) -/
def applyCorruptionExt (spec : String) (d ob root : List UInt8) :
    Option (List UInt8 × List UInt8 × List UInt8) :=
  if spec == "-" then some (d, ob, root) else
  (spec.splitOn ",").foldlM (fun (acc : List UInt8 × List UInt8 × List UInt8) c =>
    let (d, ob, root) := acc
    if c.startsWith "Td" then
      -- partially filled store: the data file ends early
      (c.drop 2).toString.toNat?.map fun len => (d.take len, ob, root)
    else if c.startsWith "Z" then
      let which := (c.drop 1).take 1 |>.toString
      match ((c.drop 2).toString.splitOn ":").mapM (·.toNat?) with
      | some [a, len] =>
        let zero (l : List UInt8) : List UInt8 :=
          l.zipIdx.map fun (x, i) => if a ≤ i && i < a + len then 0 else x
        if which == "d" then some (zero d, ob, root) else some (d, zero ob, root)
      | _ => none
    else if c.startsWith "r" then
      match ((c.drop 1).toString.splitOn "^").mapM (·.toNat?) with
      | some [pos, x] => some (d, ob, root.set (pos % 32) (root[pos % 32]! ^^^ UInt8.ofNat x))
      | _ => none
    else
      (applyCorruption c d ob).map fun (d', ob') => (d', ob', root)) (d, ob, root)

/-- stored pair of node `x` in a store given by raw bytes, located by the *specification's* slot
(traversal index), independent of the model's offset functions -/
def specLoad (kind : StoreKind) (size bs : Nat) (ob : List UInt8) (x : Nat) : Option (HB × HB) :=
  match kind with
  | .empty => some (zeros32, zeros32)
  | _ =>
    let slot := if isPostKind kind then Spec.postIndex size bs x else Spec.preIndex size bs x
    slot.map fun k => ((ob.drop (k * 64)).take 32, (ob.drop (k * 64 + 32)).take 32)

/--
`Spec.Verifiable`: block `i` of the store is linked to the root by stored pairs (and, with
`withData`, its bytes hash to the owed value).  Walk over block intervals of height `hh`.
-/
def verifiableBlock (kind : StoreKind) (size bs : Nat) (data ob : List UInt8) (withData : Bool)
    (i : Nat) : Nat → Nat → HB → Bool → Bool
  | 0, j, owed, isRoot =>
    if !withData then true else
    let g := 2 ^ bs
    let bytes := (data.drop (j * g * 1024)).take (g * 1024)
    let _ := i
    hashSubtree hf (j * g) bytes isRoot == owed
  | hh + 1, j, owed, isRoot =>
    let blocks := Spec.nBlocks size bs
    let mid := j * 2 ^ (hh + 1) + 2 ^ hh
    if mid ≥ blocks then verifiableBlock kind size bs data ob withData i hh (2 * j) owed isRoot
    else
      let node := Spec.nodeOf j (hh + bs)
      match specLoad kind size bs ob node with
      | none => false
      | some (l, r) =>
        if hf.parentCv l r isRoot != owed then false
        else if i < mid then verifiableBlock kind size bs data ob withData i hh (2 * j) l false
        else verifiableBlock kind size bs data ob withData i hh (2 * j + 1) r false

/-- `valid flavour store blob bs ranges corruption data|ob` -/
def opValid (args : List String) (impl : String) : Verdict :=
  match args with
  | [fl, kind, b, bs, rs, cor, mode] =>
    match flavour? fl, storeKind? kind, blob b, bs.toNat?, parseNatList rs with
    | some fl, some kind, some d, some bs, some ranges =>
      let st0 := intactStore kind d bs
      match applyCorruptionExt cor d st0.data st0.root with
      | none => bad "corruption"
      | some (d', ob', root') =>
        let st := { st0 with data := ob', root := root' }
        let withData := mode == "data"
        let run := if withData then validRanges hf fl st d' ranges else validOutboardRanges hf fl st ranges
        let ys := if run.yields.isEmpty then "-" else ",".intercalate (run.yields.map pair)
        let e := match run.terminal with | .ok => "ok" | .err e => s!"{ioErrStr e}@last" | .panic => "panic"
        let m := s!"{ys} {e}"
        -- spec: exactly the verifiable groups that the query touches (a one-block tree ignores the query)
        let size := d.length
        let blocks := Spec.nBlocks size bs
        let n := (size + 1023) / 1024
        let g := 2 ^ bs
        let want : List (Nat × Nat) := (List.range blocks).filterMap fun i =>
          let a := i * g
          let e := min ((i + 1) * g) n
          let touched := blocks == 1 || (List.range (max 1 (e - a))).any fun c => Spec.selected size ranges (a + c)
          if touched && verifiableBlock kind size bs d' ob' withData i (Spec.log2ceil 64 blocks) 0 root' true
          then some (a, e) else none
        let wantS := if want.isEmpty then "-" else ",".intercalate (want.map pair)
        -- a data file that ends early (`Td`): groups the query touches whose bytes are not all there
        let touchedOf (i : Nat) : Bool :=
          let a := i * g
          let e := min ((i + 1) * g) n
          blocks == 1 || (List.range (max 1 (e - a))).any fun c => Spec.selected size ranges (a + c)
        let shortGroups : List Nat := if !withData then [] else
          (List.range blocks).filter fun i => touchedOf i && min ((i + 1) * g * 1024) size > d'.length
        let sf : Option String :=
          match impl.splitOn " " with
          | [iy, ie] =>
            if shortGroups.isEmpty then
              if ie != "ok" then some s!"validator error {ie}"
              else if iy != wantS then some s!"reported {iy}, verifiable and touched {wantS}"
              else none
            else
              -- soundness always: every reported group is verifiable (so its bytes are stored);
              -- completeness up to the first group whose bytes are missing; an io error is allowed
              let rep := if iy == "-" then [] else iy.splitOn ","
              let wantL := want.map pair
              let firstShort := shortGroups.head!
              let before := (want.filter fun (a, _) => a < firstShort * g).map pair
              if !(rep.all fun x => wantL.contains x) then
                some s!"reported {iy} with the data file cut at {d'.length}, verifiable and touched {wantS}"
              else if !(before.all fun x => rep.contains x) then
                some s!"reported {iy}, missing a verifiable group before the first short one; verifiable {wantS}"
              else if ie != "ok" && !(ie.startsWith "Io(UnexpectedEof") then some s!"validator error {ie} on a short data file"
              else none
          | _ => some "malformed"
        { model := m, specFail := sf, nontrivial := blocks > 1 }
    | _, _, _, _, _ => bad "valid"
  | _ => bad "valid"

/-- `hist flavour sink blob bs fill steps` (C07): a history of decode_ranges calls into one sink -/
def opHist (args : List String) (impl : String) : Verdict :=
  match args with
  | [fl, kind, b, bs, fill, steps] =>
    match flavour? fl, storeKind? kind, blob b, bs.toNat?, fill.toNat? with
    | some fl, some kind, some d, some bs, some fill =>
      let root := hashSubtree hf 0 d true
      let tree : Tree := ⟨d.length, bs⟩
      let size := d.length
      let n := Spec.nChunks size
      let g := 2 ^ bs
      let blocks := Spec.nBlocks size bs
      let sink0 : Sink HB := { ob := { kind, root, tree, data := List.replicate tree.outboardSize (UInt8.ofNat 0xAA) },
                               target := List.replicate size (UInt8.ofNat fill) }
      let stepsL := steps.splitOn ";"
      let implL := impl.splitOn " ; "
      if implL.length != stepsL.length then { model := "?", specFail := some "malformed" } else
      -- model run and spec verdict, step by step
      let init : Sink HB × List String × List Bool × Option String := (sink0, [], List.replicate n false, none)
      let (_, outs, _, sf) := (stepsL.zip implL).foldl (fun (acc : Sink HB × List String × List Bool × Option String) (si : String × String) =>
        let (sink, outs, delivered, sf) := acc
        let (step, ist) := si
        match step.splitOn "/" with
        | [rs, expr, fault] =>
          match parseNatList rs, buildSources s!"{b}/{bs}/{rs}" with
          | some ranges, some srcs =>
            match buildStream srcs expr with
            | none => (sink, outs ++ ["bad-stream"], delivered, some "bad-op")
            | some stream =>
              let fw := if fault.startsWith "t" then (fault.drop 1).toString.toNat? else none
              -- `b<k>`: the k-th write to the backing of an io outboard fails: one 64-byte write per save, so it is
              -- the k-th save that fails (and has no effect, A3)
              let fs := if fault.startsWith "s" || fault.startsWith "b" then (fault.drop 1).toString.toNat? else none
              let (sink', term) := decodeRangesF hf fl stream ranges sink fw fs
              -- the validator on the model's state
              let vst : Store HB := { sink'.ob with kind := (match kind with | .preIo => .preMem | .postIo => .postMem | k => k) }
              let vr := if kind == .empty then "-" else
                let run := validRanges hf .sync vst sink'.target [0]
                if run.yields.isEmpty then "-" else ",".intercalate (run.yields.map pair)
              let out := s!"{decEndStr term} {dig sink'.target} {dig sink'.ob.data} V={vr}"
              -- ===== spec verdict from the implementation's own report =====
              let toks := ist.splitOn " "
              let sf' : Option String :=
                if sf.isSome then sf else
                match toks with
                | [iterm, itgt, iob, iv, iw] =>
                  if iterm == "panic" then some "panic" else
                  -- delivered chunks so far, from the implementation's successful writes
                  let ws : List (Nat × Nat) := if iw == "W=-" then [] else
                    ((iw.drop 2).toString.splitOn ",").filterMap fun w =>
                      match (w.splitOn ":").mapM (·.toNat?) with | some [o, l] => some (o, l) | _ => none
                  let delivered' := delivered.zipIdx.map fun (x, c) =>
                    x || ws.any fun (o, l) => o ≤ c * 1024 && min ((c + 1) * 1024) size ≤ o + l && (l > 0 || size == 0)
                  -- (i)+(ii): target = blob on delivered chunks, fill elsewhere
                  let expT := d.zipIdx.map fun (x, i) => if delivered'.getD (i / 1024) false then x else UInt8.ofNat fill
                  if itgt != dig expT then some "target: a delivered chunk does not hold the blob's bytes or an undelivered byte changed"
                  else
                    -- (iv): reported groups = groups all of whose chunks are delivered (fill differs from the blob)
                    let full : List (Nat × Nat) := (List.range blocks).filterMap fun i =>
                      let a := i * g
                      let e := min ((i + 1) * g) n
                      if (List.range (max 1 (e - a))).all (fun c => delivered'.getD (a + c) false) then some (a, if size == 0 then 0 else e) else none
                    let wantV := if full.isEmpty then "V=-" else "V=" ++ ",".intercalate (full.map pair)
                    if kind != .empty && iv != wantV then some s!"validator reports {iv}, fully delivered groups {wantV}"
                    else if delivered'.all id && kind != .empty then
                      -- convergence: outboard equals the one computed directly from the blob
                      let direct := if isPostKind kind then Spec.postOutboard hf d bs else Spec.preOutboard hf d bs
                      if iob != dig direct then some "all chunks delivered but the outboard differs from the directly computed one" else none
                    else none
                | _ => some "malformed"
              let delivered'' := match toks with
                | [_, _, _, _, iw] =>
                  let ws : List (Nat × Nat) := if iw == "W=-" then [] else
                    ((iw.drop 2).toString.splitOn ",").filterMap fun w =>
                      match (w.splitOn ":").mapM (·.toNat?) with | some [o, l] => some (o, l) | _ => none
                  delivered.zipIdx.map fun (x, c) =>
                    x || ws.any fun (o, l) => o ≤ c * 1024 && min ((c + 1) * 1024) size ≤ o + l && (l > 0 || size == 0)
                | _ => delivered
              (sink', outs ++ [out], delivered'', sf')
          | _, _ => (sink, outs ++ ["bad-step"], delivered, some "bad-op")
        | _ => (sink, outs ++ ["bad-step"], delivered, some "bad-op")) init
      -- the implementation's lines carry W=…, the model's do not: compare on the first four fields
      let implCore := " ; ".intercalate (implL.map fun s => " ".intercalate ((s.splitOn " ").take 4))
      let m := " ; ".intercalate outs
      { model := if m == implCore then impl else m, specFail := sf, nontrivial := stepsL.length > 1 }
    | _, _, _, _, _ => bad "hist"
  | _ => bad "hist"

/-- `flip blob bs`: flip / copy between the two orders loses and invents nothing -/
def opFlip (args : List String) (impl : String) : Verdict :=
  match args with
  | [b, bs] =>
    match blob b, bs.toNat? with
    | some d, some bs =>
      let tree : Tree := ⟨d.length, bs⟩
      let pre := intactStore .preMem d bs
      let post := intactStore .postMem d bs
      let z := zerosN tree.outboardSize
      let dataOf (r : Res IoErr (Store HB)) : List UInt8 := match r with | .ok s => s.data | _ => []
      let a := dataOf (copy hf .sync pre { pre with kind := .postMem, data := z })
      let b' := dataOf (copy hf .sync post { post with kind := .preMem, data := z })
      let c := dataOf (copy hf .sync { pre with kind := .postMem, data := a } { pre with kind := .preMem, data := z })
      let ioPost := dataOf (copy hf .fsm pre { pre with kind := .postIo, data := [] })
      let back := dataOf (copy hf .fsm { pre with kind := .postIo, data := ioPost } { pre with kind := .preMem, data := z })
      let m := s!"{dig a} {dig b'} {dig c} {dig ioPost} {dig back} 11"
      let sPre := dig (Spec.preOutboard hf d bs)
      let sPost := dig (Spec.postOutboard hf d bs)
      let spec := s!"{sPost} {sPre} {sPre} {sPost} {sPre} 11"
      { model := m, specFail := if impl == spec then none else some s!"flip / copy result differs from the directly computed outboards ({spec})",
        nontrivial := tree.blocks > 1 }
    | _, _ => bad "flip"
  | _ => bad "flip"

/-- `flipx seed size bs`: flip of memory outboards with ARBITRARY contents (and an arbitrary root);
spec: the result is the same 64-byte records re-ordered from one traversal order to the other
(computed from the recursive traversals, independent of the offset functions), root unchanged,
and flipping twice gives the original back -/
def opFlipX (args : List String) (impl : String) : Verdict :=
  match args.mapM (·.toNat?) with
  | some [seed, size, bs] =>
    let tree : Tree := ⟨size, bs⟩
    let raw := randBytes seed (tree.outboardSize + 32)
    let root := raw.take 32
    let data := raw.drop 32
    let pre : Store HB := ⟨.preMem, root, tree, data⟩
    let post : Store HB := ⟨.postMem, root, tree, data⟩
    let str (r : Res IoErr (Store HB)) : String :=
      match r with
      | .ok s => s!"{kindStr s.kind}:{dig s.root}:{dig s.data}"
      | .err e => ioErrStr e
      | .panic => "panic"
    let bind (r : Res IoErr (Store HB)) (f : Store HB → Res IoErr (Store HB)) := match r with | .ok s => f s | x => x
    let a := flip hf pre
    let a2 := bind a (flip hf)
    let b' := flip hf post
    let b2 := bind b' (flip hf)
    let m := s!"{str a} {str a2} {str b'} {str b2}"
    -- spec
    let P := Spec.persistedPre size bs
    let Q := Spec.persistedPost size bs
    let rec64 (l : List UInt8) (i : Nat) : List UInt8 := (l.drop (i * 64)).take 64
    let toPost := Q.flatMap fun x => match Spec.indexOfNode P x with | some i => rec64 data i | none => []
    let toPre := P.flatMap fun x => match Spec.indexOfNode Q x with | some i => rec64 data i | none => []
    let spec := s!"postMem:{dig root}:{dig toPost} preMem:{dig root}:{dig data} preMem:{dig root}:{dig toPre} postMem:{dig root}:{dig data}"
    { model := m, specFail := if impl == spec then none else some s!"flip of arbitrary contents is not the re-ordering of its records ({spec})",
      nontrivial := tree.blocks > 2 }
  | _ => bad "flipx"

/-- `glue blob bs`: length-prefixed / suffixed outboards, `map_data`, accessors, item predicates;
spec: LE size ++ `Spec.preOutboard`, `Spec.postOutboard` ++ LE size, at bs 0 the prefixed form is the bao
crate's outboard; the honest full decode has `blocks - 1` parents and `blocks` leaves -/
def opGlue (args : List String) (impl : String) : Verdict :=
  match args with
  | [b, bs] =>
    match blob b, bs.toNat? with
    | some d, some bs =>
      let tree : Tree := ⟨d.length, bs⟩
      let le8 : List UInt8 := (List.range 8).map fun i => UInt8.ofNat (d.length / 256 ^ i % 256)
      let pre := outboard hf d tree ⟨.preMem, [], tree, zerosN tree.outboardSize⟩
      let post := outboardPostOrder hf d tree
      let withPrefix := le8 ++ pre.sink.data
      let withSuffix := post.sink ++ le8
      let baoFull := if bs == 0 then s!"{dig withPrefix}:1" else "-"
      let st := intactStore .preMem d bs
      let run := decodeAll hf .sync st.root tree [0] (encodeRangesValidated hf .sync d st [0]).out
      let np := (run.items.filter fun i => match i with | .parent .. => true | _ => false).length
      let nl := run.items.length - np
      let m := s!"{dig withPrefix} {dig withSuffix} {baoFull} 111 {np} {nl}"
      let blocks := Spec.nBlocks d.length bs
      let spec := s!"{dig (le8 ++ Spec.preOutboard hf d bs)} {dig (Spec.postOutboard hf d bs ++ le8)} " ++
        (if bs == 0 then s!"{dig (le8 ++ Spec.preOutboard hf d 0)}:1" else "-") ++ s!" 111 {blocks - 1} {blocks}"
      { model := m, specFail := if impl == spec then none else some s!"outboard conversions / accessors ({spec})",
        nontrivial := blocks > 1 }
    | _, _ => bad "glue"
  | _ => bad "glue"

end Bao.Ops
