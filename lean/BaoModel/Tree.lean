import BaoModel.U64

/-!
# L0 / L1: tree node numbering and tree geometry

Mirrors `TreeNode::*` (`src/lib.rs`), `ChunkNum::*` / `BlockSize` (`src/tree.rs`)
and `BaoTree::*` (`src/lib.rs`).  A node id, a chunk number and a byte offset are
`Nat`s.  Each definition names the Rust function it mirrors.

Conventions: `x & (2^n - 1)` is written `x % 2^n`, `x & 2^k == 0` is written
`x / 2^k % 2 = 0`, `x >> n` is `x / 2^n`, `1 << n` is `2^n`; the three genuine
bit tricks (`x & -x`, `x & (x-1)`, `!(!x << n)`) are kept as written.
-/

namespace Bao

/-! ## ChunkNum -/

/-- `ChunkNum::chunks` -/
def chunksOf (size : Nat) : Nat := size / 1024 + (if size % 1024 ≠ 0 then 1 else 0)

/-- `ChunkNum::full_chunks` -/
def fullChunksOf (size : Nat) : Nat := size / 1024

/-- `ChunkNum::to_bytes` (`<< 10`; exact for chunk numbers below `2^54`) -/
def toBytes (c : Nat) : Nat := c * 1024

/-- `ChunkNum::chunk_group_start` -/
def chunkGroupStart (start bs : Nat) : Nat := start / 2 ^ bs * 2 ^ bs

/-! ## TreeNode -/

namespace Node

/-- `TreeNode::level` -/
def level (x : Nat) : Nat := trailingOnes x

/-- `TreeNode::mid` -/
def mid (x : Nat) : Nat := x + 1

/-- `TreeNode::half_span` -/
def halfSpan (x : Nat) : Nat := 2 ^ level x

/-- `TreeNode::is_leaf` -/
def isLeaf (x : Nat) : Bool := x % 2 == 0

/-- `TreeNode::subtract_block_size`: `!(!x << n)` -/
def subBs (x n : Nat) : Nat := not64 (shl64 (not64 x) n)

/-- `TreeNode::add_block_size` -/
def addBs (x n : Nat) : Option Nat :=
  if x % 2 ^ n = 2 ^ n - 1 then some (x / 2 ^ n) else none

/-- `x & (-(x as i64) as u64)` -/
def lowestBit (x : Nat) : Nat := x &&& neg64 x

/-- `TreeNode::count_below` -/
def countBelow (x : Nat) : Nat := lowestBit (x + 1) * 2 - 2

/-- `TreeNode::next_left_ancestor0` -/
def nextLeftAncestor (x : Nat) : Option Nat :=
  let y := x + 1
  let w := y &&& (y - 1)
  if w = 0 then none else some (w - 1)

/-- `TreeNode::left_child` -/
def leftChild (x : Nat) : Option Nat :=
  if level x = 0 then none else some (x - 2 ^ (level x - 1))

/-- `TreeNode::right_child` -/
def rightChild (x : Nat) : Option Nat :=
  if level x = 0 then none else some (x + 2 ^ (level x - 1))

/-- `TreeNode::parent` -/
def parent (x : Nat) : Option Nat :=
  let l := level x
  if l = 63 then none
  else
    let span := 2 ^ l
    if x / (span * 2) % 2 = 0 then some (x + span) else some (x - span)

/-- loop of `TreeNode::restricted_parent` -/
def restrictedParentAux : Nat → Nat → Nat → Option Nat
  | 0, _, _ => none
  | fuel + 1, curr, len =>
    match parent curr with
    | none => none
    | some p => if p < len then some p else restrictedParentAux fuel p len

/-- `TreeNode::restricted_parent` (the level grows with every step, at most 63 steps) -/
def restrictedParent (x len : Nat) : Option Nat := restrictedParentAux 64 x len

/-- loop of `TreeNode::right_descendant` -/
def descendLeft : Nat → Nat → Nat → Option Nat
  | 0, _, _ => none
  | fuel + 1, node, len =>
    if node ≥ len then
      match leftChild node with
      | none => none
      | some c => descendLeft fuel c len
    else some node

/-- `TreeNode::right_descendant` -/
def rightDescendant (x len : Nat) : Option Nat :=
  match rightChild x with
  | none => none
  | some r => descendLeft 65 r len

/-- `TreeNode::node_range` (start, end) -/
def nodeRange (x : Nat) : Nat × Nat :=
  let h := halfSpan x
  (x + 1 - h, x + h)

/-- `TreeNode::chunk_range` (start, end) -/
def chunkRange (x : Nat) : Nat × Nat :=
  let span := 2 ^ level x
  let mid := x + 1
  (mid - span, mid + span)

/-- `TreeNode::right_count` -/
def rightCount (x : Nat) : Nat := popcount (x + 1) - 1

/-- `TreeNode::post_order_offset` -/
def postOrderOffset (x : Nat) : Nat :=
  let below := countBelow x
  match nextLeftAncestor x with
  | some nla => below + nla + 1 - popcount (nla + 1)
  | none => below

/-- `TreeNode::post_order_range` (start, end) -/
def postOrderRange (x : Nat) : Nat × Nat :=
  let off := postOrderOffset x
  (off - countBelow x, off + 1)

/-- `TreeNode::root(chunks)` -/
def root (chunks : Nat) : Nat := nextPow2 (divCeil2 chunks) - 1

end Node

/-! ## BaoTree -/

structure Tree where
  size : Nat
  bs : Nat
deriving Repr, DecidableEq, BEq

namespace Tree

/-- `blocks(size, block_size)` (free function) -/
def blocksRaw (size bs : Nat) : Nat :=
  size / 2 ^ (bs + 10) + (if size % 2 ^ (bs + 10) ≠ 0 then 1 else 0)

/-- `BaoTree::blocks` -/
def blocks (t : Tree) : Nat := max (blocksRaw t.size t.bs) 1

/-- `BaoTree::chunks` -/
def chunks (t : Tree) : Nat := chunksOf t.size

/-- `BaoTree::shifted`: (root, filled size) of the tree shifted by the block size -/
def shifted (t : Tree) : Nat × Nat :=
  let shift := 10 + t.bs
  let full := t.size / 2 ^ shift
  let openBlock := if t.size % 2 ^ shift ≠ 0 then 1 else 0
  let blocks := max (full + openBlock) 1
  let n := divCeil2 blocks
  (nextPow2 n - 1, n + (n - 1))

/-- `BaoTree::root` (block size 0) -/
def root (t : Tree) : Nat := Node.root (max (chunksOf t.size) 1)

/-- `BaoTree::outboard_hash_pairs` -/
def outboardPairs (t : Tree) : Nat := t.blocks - 1

/-- `BaoTree::outboard_size` -/
def outboardSize (t : Tree) : Nat := t.outboardPairs * 64

/-- `BaoTree::byte_range` (start, end) -/
def byteRange (t : Tree) (node : Nat) : Nat × Nat :=
  let r := Node.chunkRange node
  (toBytes r.1, min (toBytes r.2) t.size)

/-- `BaoTree::leaf_byte_ranges3` -/
def leafByteRanges3 (t : Tree) (leaf : Nat) : Nat × Nat × Nat :=
  let r := Node.chunkRange leaf
  (toBytes r.1, min (toBytes (Node.mid leaf)) t.size, min (toBytes r.2) t.size)

/-- `BaoTree::is_relevant_for_outboard` -/
def isRelevant (t : Tree) (node : Nat) : Bool :=
  let level := Node.level node
  if level < t.bs then false
  else if level > t.bs then true
  else toBytes (Node.mid node) < t.size

/-- `BaoTree::chunk_group_chunks` -/
def chunkGroupChunks (t : Tree) : Nat := 2 ^ t.bs

/-- `BaoTree::chunk_group_bytes` -/
def chunkGroupBytes (t : Tree) : Nat := toBytes t.chunkGroupChunks

/-- the loop of `pre_order_offset_loop`, counting in-tree parents -/
def preLoop : Nat → Nat → Nat → Nat → Nat → Nat
  | 0, _, _, _, count => count
  | fuel + 1, offset, span, len, count =>
    let pspan := span * 2
    let offset' := if offset / pspan % 2 = 0 then offset + span else offset - span
    let count' := if offset' < len then count + 1 else count
    if pspan ≥ len then count' else preLoop fuel offset' pspan len count'

/-- `pre_order_offset_loop(node, len)` -/
def preOrderOffsetLoop (node len : Nat) : Nat :=
  let level := trailingOnes node
  let span := 2 ^ level
  let left := node + 1 - span
  left - popcount left + preLoop 64 node span len 0

/-- `BaoTree::pre_order_offset` -/
def preOrderOffset (t : Tree) (node : Nat) : Option Nat :=
  match Node.addBs node t.bs with
  | none => none
  | some sh =>
    let isHalfLeaf := Node.isLeaf sh && decide (toBytes (Node.mid node) ≥ t.size)
    if !isHalfLeaf then some (preOrderOffsetLoop sh t.shifted.2) else none

/-- `PostOrderOffset` -/
inductive PostOffset
  | stable (n : Nat)
  | unstable (n : Nat)
deriving Repr, DecidableEq, BEq

def PostOffset.value : PostOffset → Nat
  | .stable n => n
  | .unstable n => n

/-- `BaoTree::post_order_offset` -/
def postOrderOffset (t : Tree) (node : Nat) : Option PostOffset :=
  match Node.addBs node t.bs with
  | none => none
  | some sh =>
    if toBytes (Node.chunkRange node).2 ≤ t.size then
      some (.stable (Node.postOrderOffset sh))
    else if Node.isLeaf sh && decide (toBytes (Node.mid node) ≥ t.size) then none
    else
      match sub? t.outboardPairs (Node.rightCount node + 1) with
      | none => none
      | some v => some (.unstable v)

end Tree

end Bao
