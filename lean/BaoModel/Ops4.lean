import BaoModel.Ops3
import BaoModel.Serde
import BaoModel.Script

/-!
# Driver operations, part 4: serde (C19), faults (C10), fragmentation (C11)
-/

namespace Bao.Ops
open Bao.Proto Bao.Serde

def mkParentV (p : List String) : Option ParentV :=
  match p with
  | n :: seed :: _ => do
    let n ← n.toNat?; let seed ← seed.toNat?
    pure ⟨n, randBytes seed 32, randBytes (seed + 1) 32⟩
  | _ => none

def mkLeafV (p : List String) : Option LeafV :=
  match p with
  | off :: len :: seed :: _ => do
    let off ← off.toNat?; let len ← len.toNat?; let seed ← seed.toNat?
    pure ⟨off, randBytes seed len⟩
  | _ => none

def mkErrV (p : List String) : Option EncErrV :=
  match p with
  | ["phm", n] => n.toNat?.map .parentHashMismatch
  | ["lhm", n] => n.toNat?.map .leafHashMismatch
  | ["pw", n] => n.toNat?.map .parentWrite
  | ["lw", n] => n.toNat?.map .leafWrite
  | ["sm"] => some .sizeMismatch
  | ["io", kind, msg] => (parseHex msg).map fun m => .io (ioErrorText (str kind) m)
  | _ => none

/-- both codecs and both round trips of a value -/
def serdeOut {α : Type} [BEq α] (v : α) (pc : α → List UInt8) (rpc : List UInt8 → Option (α × List UInt8))
    (js : α → List UInt8) (rjs : List UInt8 → Option (α × List UInt8)) : String :=
  let ok (r : Option (α × List UInt8)) : Bool := match r with | some (w, []) => w == v | _ => false
  s!"pc={dig (pc v)} js={dig (js v)} rt={bool01 (ok (rpc (pc v)))}{bool01 (ok (rjs (js v)))}"

/-- `serde value` -/
def opSerde (args : List String) (impl : String) : Verdict :=
  match args with
  | [desc] =>
    let p := desc.splitOn ":"
    let m : Option String :=
      match p with
      | ["node", n] | ["chunk", n] => n.toNat?.map fun n => serdeOut n varint readVarint jsNat jsReadNat
      | "parent" :: rest => (mkParentV rest).map fun v => serdeOut v pcParent pcReadParent jsParent jsReadParent
      | "leaf" :: rest => (mkLeafV rest).map fun v => serdeOut v pcLeaf pcReadLeaf jsLeaf jsReadLeaf
      | "content" :: "parent" :: rest => (mkParentV rest).map fun v =>
          serdeOut (ContentV.parent v) pcContent pcReadContent jsContent jsReadContent
      | "content" :: "leaf" :: rest => (mkLeafV rest).map fun v =>
          serdeOut (ContentV.leaf v) pcContent pcReadContent jsContent jsReadContent
      | "err" :: rest => (mkErrV rest).map fun v => serdeOut v pcEncErr pcReadEncErr jsEncErr jsReadEncErr
      | ["item", "size", n] => n.toNat?.map fun n => serdeOut (EncItemV.size n) pcEncItem pcReadEncItem jsEncItem jsReadEncItem
      | "item" :: "parent" :: rest => (mkParentV rest).map fun v =>
          serdeOut (EncItemV.parent v) pcEncItem pcReadEncItem jsEncItem jsReadEncItem
      | "item" :: "leaf" :: rest => (mkLeafV rest).map fun v =>
          serdeOut (EncItemV.leaf v) pcEncItem pcReadEncItem jsEncItem jsReadEncItem
      | "item" :: "error" :: rest => (mkErrV rest).map fun v =>
          serdeOut (EncItemV.error v) pcEncItem pcReadEncItem jsEncItem jsReadEncItem
      | ["item", "done"] => some (serdeOut EncItemV.done pcEncItem pcReadEncItem jsEncItem jsReadEncItem)
      | _ => none
    match m with
    | none => bad "serde"
    | some m =>
      { model := m,
        specFail := if impl.endsWith "rt=11" then none else some "a value does not survive serialisation (postcard, json)" }
  | _ => bad "serde"

/-- `fragdec flavour cuts …dec args…`: the fragmented transport must not change anything:
model and spec verdict are those of `dec` -/
def opFragDec (args : List String) (impl : String) : Verdict :=
  match args with
  | fl :: _cuts :: rest => opDec (fl :: rest) impl
  | _ => bad "fragdec"

/-- `fragob flavour cuts blob bs pre|post` -/
def opFragOb (args : List String) (impl : String) : Verdict :=
  match args with
  | [_, _, b, bs, order] =>
    match blob b, bs.toNat? with
    | some d, some bs =>
      let tree : Tree := ⟨d.length, bs⟩
      let (root, ob) :=
        if order == "pre" then
          let r := outboard hf d tree { kind := .preMem, root := [], tree, data := zerosN tree.outboardSize }
          (resHashStr r.res, r.sink.data)
        else
          let r := outboardPostOrder hf d tree
          (resHashStr r.res, r.sink)
      let specOb := if order == "pre" then Spec.preOutboard hf d bs else Spec.postOutboard hf d bs
      let spec := s!"{hex (Spec.root hf d)} {dig specOb}"
      { model := s!"{root} {dig ob}", specFail := if impl == spec then none else some "fragmented data source changed the outboard",
        nontrivial := d.length > 0 }
    | _, _ => bad "fragob"
  | _ => bad "fragob"

/-- `fragenc m blob bs ranges corruption` -/
def opFragEnc (args : List String) (impl : String) : Verdict :=
  match args with
  | [_, b, bs, rs, cor] => opEnc [b, bs, "preMem", "sync", "val", rs, cor] impl
  | _ => bad "fragenc"

end Bao.Ops
