import BaoModel.Ops3
import BaoModel.Fault
import BaoModel.Serde
import BaoModel.Script
import BaoModel.FaultMixed

/-!
# Driver operations, part 4: serde (C19), faults (C10), fragmentation (C11)
-/

namespace Bao.Ops
open Bao.Proto Bao.Serde

def mkParentV (p : List String) : Option ParentV :=
  match p with
  | n :: seed :: _ => do
    let n ← n.toNat?; let seed ← seed.toNat?
    pure ⟨n, randBytes seed 32, randBytes (seed + 1) 32⟩
  | _ => none

def mkLeafV (p : List String) : Option LeafV :=
  match p with
  | off :: len :: seed :: _ => do
    let off ← off.toNat?; let len ← len.toNat?; let seed ← seed.toNat?
    pure ⟨off, randBytes seed len⟩
  | _ => none

def mkErrV (p : List String) : Option EncErrV :=
  match p with
  | ["phm", n] => n.toNat?.map .parentHashMismatch
  | ["lhm", n] => n.toNat?.map .leafHashMismatch
  | ["pw", n] => n.toNat?.map .parentWrite
  | ["lw", n] => n.toNat?.map .leafWrite
  | ["sm"] => some .sizeMismatch
  | ["io", kind, msg] => (parseHex msg).map fun m => .io (ioErrorText (str kind) m)
  -- errors without a custom payload: a bare kind / an OS error; kind and Display text are given by the case line
  | ["ios", kind, msg] => (parseHex msg).map fun m => .io (ioErrorText (str kind) m)
  | ["ioo", _, kind, msg] => (parseHex msg).map fun m => .io (ioErrorText (str kind) m)
  | _ => none

/-- both codecs and both round trips of a value -/
def serdeOut {α : Type} [BEq α] (v : α) (pc : α → List UInt8) (rpc : List UInt8 → Option (α × List UInt8))
    (js : α → List UInt8) (rjs : List UInt8 → Option (α × List UInt8)) : String :=
  let ok (r : Option (α × List UInt8)) : Bool := match r with | some (w, []) => w == v | _ => false
  s!"pc={dig (pc v)} js={dig (js v)} rt={bool01 (ok (rpc (pc v)))}{bool01 (ok (rjs (js v)))}"

/-- `serde value` -/
def opSerde (args : List String) (impl : String) : Verdict :=
  match args with
  | [desc] =>
    let p := desc.splitOn ":"
    let m : Option String :=
      match p with
      | ["node", n] | ["chunk", n] => n.toNat?.map fun n => serdeOut n varint readVarint jsNat jsReadNat
      | "parent" :: rest => (mkParentV rest).map fun v => serdeOut v pcParent pcReadParent jsParent jsReadParent
      | "leaf" :: rest => (mkLeafV rest).map fun v => serdeOut v pcLeaf pcReadLeaf jsLeaf jsReadLeaf
      | "content" :: "parent" :: rest => (mkParentV rest).map fun v =>
          serdeOut (ContentV.parent v) pcContent pcReadContent jsContent jsReadContent
      | "content" :: "leaf" :: rest => (mkLeafV rest).map fun v =>
          serdeOut (ContentV.leaf v) pcContent pcReadContent jsContent jsReadContent
      | "err" :: rest => (mkErrV rest).map fun v => serdeOut v pcEncErr pcReadEncErr jsEncErr jsReadEncErr
      | ["item", "size", n] => n.toNat?.map fun n => serdeOut (EncItemV.size n) pcEncItem pcReadEncItem jsEncItem jsReadEncItem
      | "item" :: "parent" :: rest => (mkParentV rest).map fun v =>
          serdeOut (EncItemV.parent v) pcEncItem pcReadEncItem jsEncItem jsReadEncItem
      | "item" :: "leaf" :: rest => (mkLeafV rest).map fun v =>
          serdeOut (EncItemV.leaf v) pcEncItem pcReadEncItem jsEncItem jsReadEncItem
      | "item" :: "error" :: rest => (mkErrV rest).map fun v =>
          serdeOut (EncItemV.error v) pcEncItem pcReadEncItem jsEncItem jsReadEncItem
      | ["item", "done"] => some (serdeOut EncItemV.done pcEncItem pcReadEncItem jsEncItem jsReadEncItem)
      | _ => none
    match m with
    | none => bad "serde"
    | some m =>
      { model := m,
        specFail := if impl.endsWith "rt=11" then none else some "a value does not survive serialisation (postcard, json)" }
  | _ => bad "serde"

/-- `fragdec flavour cuts …dec args…`: the fragmented transport must not change anything:
model and spec verdict are those of `dec` -/
def opFragDec (args : List String) (impl : String) : Verdict :=
  match args with
  | fl :: _cuts :: rest => opDec (fl :: rest) impl
  | _ => bad "fragdec"

/-- `fragob flavour cuts blob bs pre|post` -/
def opFragOb (args : List String) (impl : String) : Verdict :=
  match args with
  | [_, _, b, bs, order] =>
    match blob b, bs.toNat? with
    | some d, some bs =>
      let tree : Tree := ⟨d.length, bs⟩
      let (root, ob) :=
        if order == "pre" then
          let r := outboard hf d tree { kind := .preMem, root := [], tree, data := zerosN tree.outboardSize }
          (resHashStr r.res, r.sink.data)
        else
          let r := outboardPostOrder hf d tree
          (resHashStr r.res, r.sink)
      let specOb := if order == "pre" then Spec.preOutboard hf d bs else Spec.postOutboard hf d bs
      let spec := s!"{hex (Spec.root hf d)} {dig specOb}"
      { model := s!"{root} {dig ob}", specFail := if impl == spec then none else some "fragmented data source changed the outboard",
        nontrivial := d.length > 0 }
    | _, _ => bad "fragob"
  | _ => bad "fragob"

/-- `fragdecr cuts …decr args…`: the fragmented transport must not change anything, in particular not what is
left in the caller's reader: model and spec verdict are those of `decr` -/
def opFragDecr (args : List String) (impl : String) : Verdict :=
  match args, impl.splitOn " || " with
  | _ :: rest, [a, b] =>
    -- `a`: the run under the given slicing, `b`: the same on a reader that hands out everything at once
    let v := opDecr rest a
    { model := s!"{v.model} || {v.model}",
      specFail := match v.specFail with
        | some e => some e
        | none => if a != b then some "the outcome depends on how the transport slices / suspends (C11)" else none,
      nontrivial := v.nontrivial }
  | _, _ => bad "fragdecr"

/-- `fragenc m blob bs ranges corruption` -/
def opFragEnc (args : List String) (impl : String) : Verdict :=
  match args with
  | [_, b, bs, rs, cor] => opEnc [b, bs, "preMem", "sync", "val", rs, cor] impl
  | _ => bad "fragenc"

/-! ## fault enumeration (C10) -/

/-- one io call of an operation: object, label (as the harness logs it), item it belongs to -/
structure Ev where
  obj : String
  label : String
  /-- `P node` / `L chunk` / none -/
  item : Option (Bool × Nat) := none

def validTrace (withData : Bool) (tree : Tree) (filled : Nat) : Nat → Nat → Ranges → List Ev
  | 0, _, _ => []
  | fuel + 1, shifted, ranges =>
    if ranges.isEmpty then [] else
    let node := Node.subBs shifted tree.bs
    let (l, m, r) := tree.leafByteRanges3 node
    let rd (a b : Nat) : List Ev := if withData then [⟨"data", s!"read_at_{a}_{b - a}", none⟩] else []
    if !tree.isRelevant node then rd l r
    else
      let (lr, rr) := Ranges.splitNode ranges node
      [⟨"ob", s!"load_{node}", none⟩] ++
      (if Node.isLeaf shifted then
        (if !lr.isEmpty then rd l m else []) ++ (if !rr.isEmpty then rd m r else [])
      else
        match Node.leftChild shifted, Node.rightDescendant shifted filled with
        | some lc, some rc => validTrace withData tree filled fuel lc lr ++ validTrace withData tree filled fuel rc rr
        | _, _ => [])

/-- the io-call skeleton of an operation on an intact store -/
def opTrace (name : String) (d : List UInt8) (bs : Nat) (kind : StoreKind) (ranges : Ranges) : Option (List Ev) :=
  let tree : Tree := ⟨d.length, bs⟩
  let tr := Ranges.truncate ranges tree.size
  let st : Store HB := { kind, root := [], tree, data := [] }
  match name with
  | "encv-sync" | "encp-sync" | "encv-fsm" | "encp-fsm" =>
    if name == "encv-sync" && ranges.isEmpty then some [] else
    (tree.prePartialChunks tr 0).map fun plan => plan.flatMap fun c =>
      match c with
      | .parent node _ _ _ _ =>
        [⟨"ob", s!"load_{node}", some (true, node)⟩] ++
        -- io backed sync stores read the pair from their backing: one positional read per load
        (if (kind == .preIo || kind == .postIo) then
          match st.slot node with
          | some k => [(⟨"obio", s!"read_at_{k * 64}_64", some (true, node)⟩ : Ev)]
          | none => []
         else []) ++
        [⟨"w", "write_64", some (true, node)⟩]
      | .leaf start size isRoot rs =>
        let buf := (d.drop (start * 1024)).take size
        let n := if !Ranges.isAll rs then (encodeSelectedRec hf recFuel start buf isRoot rs bs true).2.length else size
        [⟨"data", s!"read_at_{start * 1024}_{size}", some (false, start)⟩, ⟨"w", s!"write_{n}", some (false, start)⟩]
  | "mixed" =>
    if ranges.isEmpty then some [⟨"s", "send_Size", none⟩, ⟨"s", "send_Done", none⟩] else
    (tree.prePartialChunks tr 0).map fun plan =>
      [⟨"s", "send_Size", none⟩] ++ (plan.flatMap fun c =>
        match c with
        | .parent node _ _ _ _ => [⟨"ob", s!"load_{node}", none⟩, ⟨"s", s!"send_P{node}", none⟩]
        | .leaf start size isRoot rs =>
          let buf := (d.drop (start * 1024)).take size
          [⟨"data", s!"read_at_{start * 1024}_{size}", none⟩] ++
          (if !Ranges.isAll rs then
            (traverseSelectedRec hf recFuel start buf isRoot rs bs true).2.map fun it =>
              match it with
              | .parent n _ _ => (⟨"s", s!"send_P{n}", none⟩ : Ev)
              | .leaf off _ => ⟨"s", s!"send_L{off / 1024}", none⟩
          else [⟨"s", s!"send_L{start}", none⟩])) ++ [⟨"s", "send_Done", none⟩]
  | "decr-sync" | "decr-fsm" =>
    (tree.responseChunks tr).map fun plan => plan.flatMap fun c =>
      match c with
      | .parent node _ _ _ _ =>
        [⟨"r", "read_64", some (true, node)⟩] ++
        (if tree.isRelevant node then
          [(⟨"ob", s!"save_{node}", none⟩ : Ev)] ++
          -- io backed sinks write the pair to their backing: one positional write per save
          (if kind == .preIo || kind == .postIo then
            match st.slot node with
            | some k => [(⟨"obio", s!"write_at_{k * 64}_64", none⟩ : Ev)]
            | none => []
           else [])
         else [])
      | .leaf start size _ _ =>
        [⟨"r", s!"read_{size}", some (false, start)⟩, ⟨"t", s!"write_at_{start * 1024}_{size}", none⟩]
  | "ob-sync" | "ob-fsm" =>
    some (tree.postOrderChunks.flatMap fun c =>
      match c with
      | .parent node _ _ _ _ =>
        [(⟨"ob", s!"save_{node}", none⟩ : Ev)] ++
        (if kind == .preIo || kind == .postIo then
          match st.slot node with
          | some k => [(⟨"obio", s!"write_at_{k * 64}_64", none⟩ : Ev)]
          | none => []
         else [])
      | .leaf _ size _ _ => [⟨"data", s!"read_{size}", none⟩])
  | "obpo-sync" | "obpo-fsm" =>
    some (tree.postOrderChunks.flatMap fun c =>
      match c with
      | .parent .. => [(⟨"w", "write_32", none⟩ : Ev), ⟨"w", "write_32", none⟩]
      | .leaf _ size _ _ => [⟨"data", s!"read_{size}", none⟩])
  | "copy-sync" | "copy-fsm" =>
    some (tree.preOrderNodesIter.flatMap fun node =>
      [(⟨"from", s!"load_{node}", none⟩ : Ev)] ++ (if (st.slot node).isSome then [(⟨"to", s!"save_{node}", none⟩ : Ev)] else []))
  | "valid-sync" | "valid-fsm" | "validob-sync" | "validob-fsm" =>
    let withData := name.startsWith "valid-"
    if tree.blocks == 1 then some (if withData then [⟨"data", s!"read_at_0_{tree.size}", none⟩] else [])
    else
      let (root, filled) := tree.shifted
      some (validTrace withData tree filled 65 root tr)
  | _ => none

/-- objects of an operation in the order the harness lists them -/
def opObjs (name : String) : List String :=
  if name.startsWith "enc" then ["data", "ob", "w", "obio"]
  else if name == "mixed" then ["data", "ob", "s"]
  else if name.startsWith "decr" then ["r", "t", "ob", "obio"]
  else if name.startsWith "ob-" then ["data", "ob", "obio"]
  else if name.startsWith "obpo" then ["data", "w"]
  else if name.startsWith "copy" then ["from", "to"]
  else ["ob", "data"]

/-- what a fault of `kind` at event `e` must be reported as -/
def expectFault (name : String) (e : Ev) (kind : String) : String :=
  let io := s!"Io({kind}*)"
  if (name == "encv-fsm" || name == "encp-fsm") && e.obj == "w" && kind == "ConnectionReset" then
    match e.item with
    | some (true, n) => s!"ParentWrite({n})"
    | some (false, c) => s!"LeafWrite({c})"
    | none => io
  else if name == "mixed" && e.obj == "s" then "SendErr"
  else if name.startsWith "decr" && e.obj == "r" && kind == "UnexpectedEof" then
    match e.item with
    | some (true, n) => s!"ParentNotFound({n})"
    | some (false, c) => s!"LeafNotFound({c})"
    | none => io
  else io

/-- terminal of the fault-aware model twin of an operation (outboard creation, copy, validators), as the
harness prints it; `none` for operations that have no twin in `BaoModel/Fault.lean` -/
def faultTerminal (name : String) (d : List UInt8) (bs : Nat) (kind : StoreKind) (ranges : Ranges) :
    Option (Option Fault → String) :=
  let tree : Tree := ⟨d.length, bs⟩
  let fl := if name.endsWith "-fsm" then Flavour.fsm else Flavour.sync
  let resStr {α : Type} (r : Res IoErr α) : String :=
    match r with | .ok _ => "Ok" | .err e => ioErrStr e | .panic => "panic"
  let valStr (r : ValRun) : String :=
    match r.terminal with | .ok => "Ok" | .err e => ioErrStr e | .panic => "panic"
  if name.startsWith "ob-" then
    some fun f => resStr (outboardF hf d tree ⟨kind, zeros32, tree, zerosN tree.outboardSize⟩ f).2.res
  else if name.startsWith "obpo" then
    some fun f => resStr (outboardPostOrderF hf d tree f).2.res
  else if name.startsWith "copy" then
    let src := intactStore kind d bs
    let toKind : StoreKind := if kind == .preMem || kind == .preIo then .postMem else .preMem
    some fun f => resStr (copyF hf fl src ⟨toKind, src.root, tree, zerosN tree.outboardSize⟩ f).2.toRes
  else if name.startsWith "valid-" then
    some fun f => valStr (validRangesF hf fl (intactStore kind d bs) d ranges f).2
  else if name.startsWith "validob" then
    some fun f => valStr (validOutboardRangesF hf fl (intactStore kind d bs) ranges f).2
  else none

/-- terminal of the fault-aware twin of the item-stream traversal (`BaoModel/FaultMixed.lean`, theorems in
`Props/C10Mixed.lean`) for a fault on object `o` -/
def mixedTerminal (d : List UInt8) (bs : Nat) (kind : StoreKind) (ranges : Ranges) (o : String) (k : Nat)
    (kk : IoKind) : Option String :=
  let mo : Option MObj := match o with | "data" => some .data | "ob" => some .ob | "s" => some .s | _ => none
  mo.map fun mo =>
    match (traverseRangesValidatedF hf d (intactStore kind d bs) ranges (some ⟨mo, k, kk⟩)).2 with
    | .ok => "Ok"
    | .errItem e => encErrStr e
    | .sendErr => "SendErr"
    | .panic => "panic"

/-- the io calls of the fault-free twin, as `(object, label)`; must agree with the skeleton (minus "obio") -/
def faultCalls (name : String) (d : List UInt8) (bs : Nat) (kind : StoreKind) (ranges : Ranges) :
    Option (List (String × String)) :=
  let tree : Tree := ⟨d.length, bs⟩
  let fl := if name.endsWith "-fsm" then Flavour.fsm else Flavour.sync
  if name.startsWith "ob-" then
    some (FEv.calls (outboardF hf d tree ⟨kind, zeros32, tree, zerosN tree.outboardSize⟩ none).1)
  else if name.startsWith "obpo" then some (FEv.calls (outboardPostOrderF hf d tree none).1)
  else if name.startsWith "copy" then
    let src := intactStore kind d bs
    let toKind : StoreKind := if kind == .preMem || kind == .preIo then .postMem else .preMem
    some (FEv.calls (copyF hf fl src ⟨toKind, src.root, tree, zerosN tree.outboardSize⟩ none).1)
  else if name.startsWith "valid-" then
    some (FEv.calls (validRangesF hf fl (intactStore kind d bs) d ranges none).1)
  else if name.startsWith "validob" then
    some (FEv.calls (validOutboardRangesF hf fl (intactStore kind d bs) ranges none).1)
  else if name == "mixed" then
    some (MEv.calls (traverseRangesValidatedF hf d (intactStore kind d bs) ranges none).1)
  else none

/-- `faults opspec stride`: the whole expected report is computed from the call skeleton -/
def opFaults (args : List String) (impl : String) : Verdict :=
  match args with
  | [spec, stride] =>
    match spec.splitOn "/", stride.toNat? with
    | [name, b, bs, kind, rs], some stride =>
      match blob b, bs.toNat?, storeKind? kind, parseNatList rs with
      | some d, some bs, some kind, some ranges =>
        match opTrace name d bs kind ranges with
        | none => bad "faults op"
        | some tr =>
          let objs := opObjs name
          let counts := ",".intercalate (objs.map fun o => s!"{o}:{(tr.filter (·.obj == o)).length}")
          let head := s!"Ok N={counts}"
          let kinds0 := ["Other", "UnexpectedEof", "ConnectionReset", "WriteZero"]
          let lines := objs.flatMap fun o =>
            let evs := tr.filter (·.obj == o)
            -- "Eof": the data source / stream ends at this read (short read). The exact-read loops turn that
            -- into an UnexpectedEof error of their own (not the injected one: no `*`)
            let kinds := if (o == "data" || o == "r") && name != "mixed" then kinds0 ++ ["Eof"] else kinds0
            -- `Interrupted` on the async operations: no retry loops there, reported like any other kind
            -- (evaluated as `Other` in the model, which treats all kinds but UnexpectedEof / ConnectionReset alike)
            let kinds := if name.endsWith "-fsm" || name == "mixed" then kinds ++ ["Interrupted"] else kinds
            (evs.zipIdx.filter fun (_, k) => k % (max stride 1) == 0).map fun (e, k) =>
              s!"{o}@{k}[{e.label}] " ++ " ".intercalate (kinds.map fun kd0 =>
                let kd := if kd0 == "Eof" then "UnexpectedEof" else if kd0 == "Interrupted" then "Other" else kd0
                -- the byte encoders have a fault-aware model function; the others use the call skeleton
                let res :=
                  if name.startsWith "enc" then
                    let fl := if name.endsWith "-fsm" then Flavour.fsm else Flavour.sync
                    let validate := name.startsWith "encv"
                    let eo := if o == "data" then EncObj.data else if o == "ob" || o == "obio" then EncObj.ob else EncObj.w
                    let kk := match kd with
                      | "Other" => IoKind.other | "UnexpectedEof" => IoKind.unexpectedEof
                      | "ConnectionReset" => IoKind.connectionReset | _ => IoKind.writeZero
                    encEndStr (encodeRangesF hf fl validate d (intactStore kind d bs) ranges (some ⟨eo, k, kk⟩)).terminal
                  else
                    -- outboard creation, copy and the validators have fault-aware model functions too
                    -- (BaoModel/Fault.lean, theorems in Props/C10Ops.lean); the backing file of an io
                    -- outboard ("obio") is below their granularity and keeps the skeleton rule
                    let kk := match kd with
                      | "Other" => IoKind.other | "UnexpectedEof" => IoKind.unexpectedEof
                      | "ConnectionReset" => IoKind.connectionReset | _ => IoKind.writeZero
                    let fo : Option FObj := match o with
                      | "data" => some .data | "ob" => some .ob | "w" => some .w
                      | "from" => some .src | "to" => some .dst | _ => none
                    if name == "mixed" then
                      (mixedTerminal d bs kind ranges o k kk).getD (expectFault name e kd)
                    else
                    match fo, faultTerminal name d bs kind ranges with
                    | some fo, some f => f (some ⟨fo, k, kk⟩)
                    | _, _ => expectFault name e kd
                let res := if kd0 == "Eof" then res.replace "*" "" else if kd0 == "Interrupted" then res.replace "Other" "Interrupted" else res
                s!"{kd0}={res}/a0/p1")
          -- the twin's own call log must be the skeleton (two independent descriptions of "the k-th call")
          let twinOk : Bool := match faultCalls name d bs kind ranges with
            | none => true
            | some calls => calls == ((tr.filter (·.obj != "obio")).map fun e => (e.obj, e.label))
          let m := if twinOk then " # ".intercalate (head :: lines) else "fault-twin and call skeleton disagree"
          -- spec verdict on the implementation's report, clause by clause (independent of the skeleton)
          let parts := impl.splitOn " # "
          let sf : Option String :=
            (parts.drop 1).findSome? fun part =>
              ((part.splitOn " ").drop 1).findSome? fun tok =>
                match tok.splitOn "=" with
                | [kd, rest] =>
                  match rest.splitOn "/" with
                  | [res, a, p] =>
                    if res == "Ok" then some s!"{part.take 30}: {kd} fault swallowed (Ok)"
                    else if res.startsWith "panic" then some s!"{part.take 30}: panic"
                    else if res.contains "HashMismatch" then some s!"{part.take 30}: fault reported as hash mismatch"
                    else if a != "a0" then some s!"{part.take 30}: further calls on the failed object"
                    else if p != "p1" then some s!"{part.take 30}: output is not a prefix of the fault-free run"
                    else
                      -- the io error itself; the write-failed error only for a connection reset on a
                      -- writer; the not-found error only for end-of-stream on the stream reader
                      let obj := (part.splitOn "@").head!
                      let isEof := kd == "Eof"
                      let kd := if isEof then "UnexpectedEof" else kd
                      let okIo := res == (if isEof then "Io(UnexpectedEof)" else s!"Io({kd}*)")
                      let okWrite := (res.startsWith "ParentWrite" || res.startsWith "LeafWrite") && obj == "w" && kd == "ConnectionReset"
                      let okNotFound := (res.startsWith "ParentNotFound" || res.startsWith "LeafNotFound") && obj == "r" && kd == "UnexpectedEof"
                      let okSend := res == "SendErr" && obj == "s"
                      if !(okIo || okWrite || okNotFound || okSend) then
                        some s!"{part.take 30}: {kd} fault on {obj} reported as {res}"
                      else none
                  | _ => some "malformed"
                | _ => some "malformed"
          { model := m, specFail := sf, nontrivial := tr.length > 2 }
      | _, _, _, _ => bad "faults"
    | _, _ => bad "faults"
  | _ => bad "faults"

end Bao.Ops
