import BaoModel.Codec

/-!
# Fragmenting / suspending transports (C11)

A transport delivers its bytes in fragments: every `read` call returns a non-empty part of
the next fragment (at most what was asked for); an async transport may in addition return
`Pending` any number of times before a fragment.  The crate reads a stream only through
exact-length reads (`Read::read_exact`, `AsyncStreamReader::read::<64>`,
`read_bytes_exact(n)` over tokio's `read_exact` / `take(n).read_to_end`), which loop until
`n` bytes have arrived or the transport reports end of stream.
-/

namespace Bao.Script

/-- one thing a transport does when polled -/
inductive Frag
  | bytes (b : List UInt8)
  | pending
deriving Repr, DecidableEq

/-- all bytes a script will ever deliver -/
def concat : List Frag → List UInt8
  | [] => []
  | .bytes b :: rest => b ++ concat rest
  | .pending :: rest => concat rest

/-- the exact-read loop: accumulate until `n` bytes, skipping `Pending` polls (the future is
polled again); a `read` call returns `min need (fragment length)` bytes; end of script before
`n` bytes is `UnexpectedEof` -/
def readExactFrags : List Frag → Nat → Except IoErr (List UInt8 × List Frag)
  | frags, 0 => .ok ([], frags)
  | [], _ + 1 => .error ⟨.unexpectedEof, false⟩
  | .pending :: rest, n + 1 => readExactFrags rest (n + 1)
  | .bytes b :: rest, n + 1 =>
    if b.length ≤ n + 1 then
      match readExactFrags rest (n + 1 - b.length) with
      | .ok (more, fr) => .ok (b ++ more, fr)
      | .error e => .error e
    else .ok (b.take (n + 1), .bytes (b.drop (n + 1)) :: rest)

/-- a client that talks to the transport only through exact reads: given its state it either
finishes or asks for `n` bytes and continues with the outcome -/
structure Client (σ ρ : Type) where
  step : σ → Sum ρ (Nat × (Except IoErr (List UInt8) → σ))

/-- run a client against a fragmenting script -/
def runFrags (c : Client σ ρ) : Nat → σ → List Frag → Option (ρ × List UInt8)
  | 0, _, _ => none
  | fuel + 1, s, frags =>
    match c.step s with
    | .inl r => some (r, concat frags)
    | .inr (n, k) =>
      match readExactFrags frags n with
      | .ok (b, fr) => runFrags c fuel (k (.ok b)) fr
      | .error e => runFrags c fuel (k (.error e)) []

/-- run the same client against the plain byte list -/
def runPlain (c : Client σ ρ) : Nat → σ → List UInt8 → Option (ρ × List UInt8)
  | 0, _, _ => none
  | fuel + 1, s, bytes =>
    match c.step s with
    | .inl r => some (r, bytes)
    | .inr (n, k) =>
      match readExact bytes n with
      | .ok (b, rest) => runPlain c fuel (k (.ok b)) rest
      | .error e => runPlain c fuel (k (.error e)) []

end Bao.Script
