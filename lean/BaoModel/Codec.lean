import BaoModel.Store

/-!
# L5: encoders, decoders, outboard creation, copy (`src/io/sync.rs`, `src/io/fsm.rs`)

The io objects of this file are *plain*: an encoded stream / data source is the
list of bytes still to be read, a stream writer is the list of bytes written, a
target is a byte list written positionally.  `Script.lean` generalises to
fragmenting / failing / suspending objects and relates the two.

Every driver walks a traversal plan (`List Chunk`).  The Rust code pulls the
plan lazily from a pure iterator; that laziness is not observable.
-/

namespace Bao

/-- `Read::read_exact` / `read::<N>()` / `read_bytes_exact(n)` on a plain stream -/
def readExact (s : List UInt8) (n : Nat) : Except IoErr (List UInt8 × List UInt8) :=
  if n ≤ s.length then .ok (s.take n, s.drop n) else .error ⟨.unexpectedEof, false⟩

/-- `ReadAt::read_exact_at(off, n)` on a plain byte store -/
def readExactAt (d : List UInt8) (off n : Nat) : Except IoErr (List UInt8) :=
  if n = 0 then .ok []
  else if off + n ≤ d.length then .ok ((d.drop off).take n) else .error ⟨.unexpectedEof, false⟩

/-- what one decoder step returns -/
inductive DecNext (H σ : Type)
  | item (i : Item H) (s : σ)
  | err (e : DecodeError) (s : σ)
  | done (s : σ)
  | panic

/-- state of `sync::DecodeResponseIter` and of `fsm::ResponseDecoder` -/
structure Dec (H : Type) where
  /-- the response plan iterator (`ResponseIterRef` / `ResponseIter`) -/
  iter : PrePartial
  /-- pending hashes, top = head -/
  stack : List H
  /-- the encoded stream still unread -/
  encoded : List UInt8
  /-- the root hash field of the fsm decoder -/
  hash : H

/-- `DecodeResponseIter::tree` / `ResponseDecoder::tree` -/
def Dec.tree (d : Dec H) : Tree := Response.tree d.iter

/-- `DecodeResponseIter::new` / `ResponseDecoder::new` -/
def Dec.new (root : H) (tree : Tree) (ranges : Ranges) (encoded : List UInt8) : Dec H :=
  { iter := Response.new tree (Ranges.truncate ranges tree.size), stack := [root], encoded, hash := root }

/-- `DecodeResponseIter::next` (sync): pop and compare, then push the children -/
def Dec.nextSync (hf : HashFns H) [BEq H] (d : Dec H) : DecNext H (Dec H) :=
  match Response.next d.iter with
  | .done => .done d
  | .panic => .panic
  | .item (.parent node isRoot left right _) iter =>
    match readExact d.encoded 64 with
    | .error e => .err (DecodeError.maybeParentNotFound e node) { d with iter }
    | .ok (buf, rest) =>
      let (l, r) := parsePair hf buf
      match d.stack with
      | [] => .panic
      | parentHash :: stack =>
        let actual := hf.parentCv l r isRoot
        if parentHash != actual then
          .err (.parentHashMismatch node) { d with iter, stack, encoded := rest }
        else
          let stack := if right then r :: stack else stack
          let stack := if left then l :: stack else stack
          .item (.parent node l r) { d with iter, stack, encoded := rest }
  | .item (.leaf start size isRoot _) iter =>
    match readExact d.encoded size with
    | .error e => .err (DecodeError.maybeLeafNotFound e start) { d with iter }
    | .ok (buf, rest) =>
      let actual := hashSubtree hf start buf isRoot
      match d.stack with
      | [] => .panic
      | leafHash :: stack =>
        if leafHash != actual then
          .err (.leafHashMismatch start) { d with iter, stack, encoded := rest }
        else
          .item (.leaf (toBytes start) buf) { d with iter, stack, encoded := rest }

/-- `ResponseDecoder::next` (fsm): push the children, then compare -/
def Dec.nextFsm (hf : HashFns H) [BEq H] (d : Dec H) : DecNext H (Dec H) :=
  match Response.next d.iter with
  | .done => .done d
  | .panic => .panic
  | .item (.parent node isRoot left right _) iter =>
    match readExact d.encoded 64 with
    | .error e => .err (DecodeError.maybeParentNotFound e node) { d with iter }
    | .ok (buf, rest) =>
      let (l, r) := parsePair hf buf
      match d.stack with
      | [] => .panic
      | parentHash :: stack =>
        let actual := hf.parentCv l r isRoot
        let stack := if right then r :: stack else stack
        let stack := if left then l :: stack else stack
        if parentHash != actual then
          .err (.parentHashMismatch node) { d with iter, stack, encoded := rest }
        else
          .item (.parent node l r) { d with iter, stack, encoded := rest }
  | .item (.leaf start size isRoot _) iter =>
    match readExact d.encoded size with
    | .error e => .err (DecodeError.maybeLeafNotFound e start) { d with iter }
    | .ok (buf, rest) =>
      match d.stack with
      | [] => .panic
      | leafHash :: stack =>
        let actual := hashSubtree hf start buf isRoot
        if leafHash != actual then
          .err (.leafHashMismatch start) { d with iter, stack, encoded := rest }
        else
          .item (.leaf (toBytes start) buf) { d with iter, stack, encoded := rest }

def Dec.next (hf : HashFns H) [BEq H] (fl : Flavour) (d : Dec H) : DecNext H (Dec H) :=
  match fl with
  | .sync => d.nextSync hf
  | .fsm => d.nextFsm hf

/-- terminal of a decode -/
inductive DecEnd
  | done
  | err (e : DecodeError)
  | panic
deriving Repr, DecidableEq, BEq

/-- everything observable of a decoder driven until its first non-item -/
structure DecRun (H : Type) where
  items : List (Item H)
  terminal : DecEnd
  /-- the encoded stream not consumed (meaningful for `done`) -/
  rest : List UInt8

/-- drive a decoder until the first non-item (`fuel` > number of plan items) -/
def Dec.runAux (hf : HashFns H) [BEq H] (fl : Flavour) : Nat → Dec H → DecRun H
  | 0, d => ⟨[], .panic, d.encoded⟩
  | fuel + 1, d =>
    match d.next hf fl with
    | .done d' => ⟨[], .done, d'.encoded⟩
    | .err e d' => ⟨[], .err e, d'.encoded⟩
    | .panic => ⟨[], .panic, d.encoded⟩
    | .item i d' =>
      let r := Dec.runAux hf fl fuel d'
      { r with items := i :: r.items }

def Dec.run (hf : HashFns H) [BEq H] (fl : Flavour) (d : Dec H) : DecRun H :=
  Dec.runAux hf fl (PrePartial.fuelFor d.iter.tree + 1) d

/-- the full decode of a stream, as an iterator client sees it -/
def decodeAll (hf : HashFns H) [BEq H] (fl : Flavour) (root : H) (tree : Tree) (ranges : Ranges)
    (encoded : List UInt8) : DecRun H :=
  (Dec.new root tree ranges encoded).run hf fl

/-! ## `decode_ranges` -/

/-- state threaded through `decode_ranges`: the outboard and the target -/
structure Sink (H : Type) where
  ob : Store H
  target : List UInt8

/-- result of `decode_ranges` -/
structure DecodeRangesRun (H : Type) where
  sink : Sink H
  terminal : DecEnd
  rest : List UInt8
  /-- `(offset, len)` of the target writes, in order -/
  writes : List (Nat × Nat)
  /-- nodes offered to `save`, in order -/
  saves : List Nat

def decodeRangesAux (hf : HashFns H) [BEq H] (fl : Flavour) (tree : Tree) :
    Nat → Dec H → Sink H → List (Nat × Nat) → List Nat → DecodeRangesRun H
  | 0, d, sink, ws, ss => ⟨sink, .panic, d.encoded, ws.reverse, ss.reverse⟩
  | fuel + 1, d, sink, ws, ss =>
    match d.next hf fl with
    | .done d' => ⟨sink, .done, d'.encoded, ws.reverse, ss.reverse⟩
    | .err e d' => ⟨sink, .err e, d'.encoded, ws.reverse, ss.reverse⟩
    | .panic => ⟨sink, .panic, d.encoded, ws.reverse, ss.reverse⟩
    | .item (.parent node l r) d' =>
      if tree.isRelevant node then
        match sink.ob.save hf node (l, r) with
        | .ok ob => decodeRangesAux hf fl tree fuel d' { sink with ob } ws (node :: ss)
        | .err e => ⟨sink, .err (.io e), d'.encoded, ws.reverse, (node :: ss).reverse⟩
        | .panic => ⟨sink, .panic, d'.encoded, ws.reverse, (node :: ss).reverse⟩
      else decodeRangesAux hf fl tree fuel d' sink ws ss
    | .item (.leaf off data) d' =>
      decodeRangesAux hf fl tree fuel d'
        { sink with target := writeAt sink.target off data } ((off, data.length) :: ws) ss

/-- `sync::decode_ranges` / `fsm::decode_ranges` (root and tree are taken from the outboard) -/
def decodeRanges (hf : HashFns H) [BEq H] (fl : Flavour) (encoded : List UInt8) (ranges : Ranges)
    (sink : Sink H) : DecodeRangesRun H :=
  let tree := sink.ob.tree
  let d := Dec.new sink.ob.root tree ranges encoded
  decodeRangesAux hf fl tree (PrePartial.fuelFor d.iter.tree + 1) d sink [] []

/-- `decode_ranges` with an injected failure of the `fw`-th target write or the `fs`-th
outboard save of this call (0-based); a failing call has no effect (assumption A3) -/
def decodeRangesFAux (hf : HashFns H) [BEq H] (fl : Flavour) (tree : Tree) (fw fs : Option Nat) :
    Nat → Dec H → Sink H → Nat → Nat → Sink H × DecEnd
  | 0, _, sink, _, _ => (sink, .panic)
  | fuel + 1, d, sink, nw, ns =>
    match d.next hf fl with
    | .done _ => (sink, .done)
    | .err e _ => (sink, .err e)
    | .panic => (sink, .panic)
    | .item (.parent node l r) d' =>
      if tree.isRelevant node then
        if fs == some ns then (sink, .err (.io ⟨.other, true⟩))
        else
          match sink.ob.save hf node (l, r) with
          | .ok ob => decodeRangesFAux hf fl tree fw fs fuel d' { sink with ob } nw (ns + 1)
          | .err e => (sink, .err (.io e))
          | .panic => (sink, .panic)
      else decodeRangesFAux hf fl tree fw fs fuel d' sink nw ns
    | .item (.leaf off data) d' =>
      -- `write_all_at` with an empty buffer makes no call on the target (sync only)
      if fl == .sync && data.isEmpty then decodeRangesFAux hf fl tree fw fs fuel d' sink nw ns
      else if fw == some nw then (sink, .err (.io ⟨.other, true⟩))
      else decodeRangesFAux hf fl tree fw fs fuel d' { sink with target := writeAt sink.target off data } (nw + 1) ns

def decodeRangesF (hf : HashFns H) [BEq H] (fl : Flavour) (encoded : List UInt8) (ranges : Ranges)
    (sink : Sink H) (fw fs : Option Nat) : Sink H × DecEnd :=
  let tree := sink.ob.tree
  let d := Dec.new sink.ob.root tree ranges encoded
  decodeRangesFAux hf fl tree fw fs (PrePartial.fuelFor d.iter.tree + 1) d sink 0 0

/-! ## encoders -/

/-- terminal of an encode -/
inductive EncEnd
  | ok
  | err (e : EncodeError)
  | panic
deriving Repr, DecidableEq, BEq

structure EncRun where
  out : List UInt8
  terminal : EncEnd
deriving Repr, DecidableEq, BEq

/-- the loop of `encode_ranges_validated` (sync and fsm differ only in io calls) -/
def encodeValidatedLoop (hf : HashFns H) [BEq H] (fl : Flavour) (data : List UInt8) (ob : Store H) :
    List Chunk → List H → List UInt8 → EncRun
  | [], _, out => ⟨out, .ok⟩
  | .parent node isRoot left right _ :: plan, stack, out =>
    match ob.load hf fl node with
    | .err e => ⟨out, .err (.io e)⟩
    | .panic => ⟨out, .panic⟩
    | .ok none => ⟨out, .panic⟩          -- `.unwrap()` on `None`
    | .ok (some (l, r)) =>
      let actual := hf.parentCv l r isRoot
      match stack with
      | [] => ⟨out, .panic⟩
      | expected :: stack =>
        if actual != expected then ⟨out, .err (.parentHashMismatch node)⟩
        else
          let stack := if right then r :: stack else stack
          let stack := if left then l :: stack else stack
          encodeValidatedLoop hf fl data ob plan stack (out ++ hf.toBytes l ++ hf.toBytes r)
  | .leaf start size isRoot ranges :: plan, stack, out =>
    match stack with
    | [] => ⟨out, .panic⟩
    | expected :: stack =>
      match readExactAt data (toBytes start) size with
      | .error e => ⟨out, .err (.io e)⟩
      | .ok buf =>
        let (actual, toWrite) :=
          if !Ranges.isAll ranges then
            encodeSelectedRec hf recFuel start buf isRoot ranges ob.tree.bs true
          else (hashSubtree hf start buf isRoot, buf)
        if actual != expected then ⟨out, .err (.leafHashMismatch start)⟩
        else encodeValidatedLoop hf fl data ob plan stack (out ++ toWrite)

/-- `sync::encode_ranges_validated` / `fsm::encode_ranges_validated` -/
def encodeRangesValidated (hf : HashFns H) [BEq H] (fl : Flavour) (data : List UInt8) (ob : Store H)
    (ranges : Ranges) : EncRun :=
  if fl == .sync && ranges.isEmpty then ⟨[], .ok⟩
  else
    let ranges := Ranges.truncate ranges ob.tree.size
    match ob.tree.prePartialChunks ranges 0 with
    | none => ⟨[], .panic⟩
    | some plan => encodeValidatedLoop hf fl data ob plan [ob.root] []

/-- the loop of `encode_ranges` (no validation) -/
def encodePlainLoop (hf : HashFns H) (fl : Flavour) (data : List UInt8) (ob : Store H) :
    List Chunk → List UInt8 → EncRun
  | [], out => ⟨out, .ok⟩
  | .parent node _ _ _ _ :: plan, out =>
    match ob.load hf fl node with
    | .err e => ⟨out, .err (.io e)⟩
    | .panic => ⟨out, .panic⟩
    | .ok none => ⟨out, .panic⟩
    | .ok (some (l, r)) => encodePlainLoop hf fl data ob plan (out ++ hf.toBytes l ++ hf.toBytes r)
  | .leaf start size isRoot ranges :: plan, out =>
    match readExactAt data (toBytes start) size with
    | .error e => ⟨out, .err (.io e)⟩
    | .ok buf =>
      let toWrite :=
        if !Ranges.isAll ranges then
          (encodeSelectedRec hf recFuel start buf isRoot ranges ob.tree.bs true).2
        else buf
      encodePlainLoop hf fl data ob plan (out ++ toWrite)

/-- `sync::encode_ranges` / `fsm::encode_ranges` -/
def encodeRanges (hf : HashFns H) (fl : Flavour) (data : List UInt8) (ob : Store H)
    (ranges : Ranges) : EncRun :=
  let ranges := Ranges.truncate ranges ob.tree.size
  match ob.tree.prePartialChunks ranges 0 with
  | none => ⟨[], .panic⟩
  | some plan => encodePlainLoop hf fl data ob plan []

/-! ### fault-aware encoders (C10) -/

/-- io objects of an encoder -/
inductive EncObj | data | ob | w
deriving Repr, DecidableEq, BEq

/-- fail the `k`-th call (0-based) on object `obj` with an io error of kind `kind` -/
structure EncFault where
  obj : EncObj
  k : Nat
  kind : IoKind
deriving Repr

/-- does the `n`-th call on `o` fail? -/
def EncFault.hits (f : Option EncFault) (o : EncObj) (n : Nat) : Option IoErr :=
  match f with
  | some ⟨obj, k, kind⟩ => if obj == o && k == n then some ⟨kind, true⟩ else none
  | none => none

/-- error of a failed stream write: `maybe_parent_write` / `maybe_leaf_write` in the fsm flavour,
plain `?` in the sync flavour -/
def writeErr (fl : Flavour) (e : IoErr) (isParent : Bool) (label : Nat) : EncodeError :=
  match fl with
  | .sync => .io e
  | .fsm => if isParent then EncodeError.maybeParentWrite e label else EncodeError.maybeLeafWrite e label

/-- the loop of `encode_ranges_validated` (`validate = true`) / `encode_ranges` (`false`) with an
injected fault; counters: calls made so far on data / outboard / writer -/
def encodeLoopF (hf : HashFns H) [BEq H] (fl : Flavour) (validate : Bool) (data : List UInt8) (ob : Store H)
    (fault : Option EncFault) :
    List Chunk → List H → List UInt8 → Nat → Nat → Nat → EncRun
  | [], _, out, _, _, _ => ⟨out, .ok⟩
  | .parent node isRoot left right _ :: plan, stack, out, nd, no, nw =>
    match EncFault.hits fault .ob no with
    | some e => ⟨out, .err (.io e)⟩
    | none =>
    match ob.load hf fl node with
    | .err e => ⟨out, .err (.io e)⟩
    | .panic => ⟨out, .panic⟩
    | .ok none => ⟨out, .panic⟩
    | .ok (some (l, r)) =>
      let cont (stack : List H) : EncRun :=
        match EncFault.hits fault .w nw with
        | some e => ⟨out, .err (writeErr fl e true node)⟩
        | none => encodeLoopF hf fl validate data ob fault plan stack (out ++ hf.toBytes l ++ hf.toBytes r) nd (no + 1) (nw + 1)
      if validate then
        match stack with
        | [] => ⟨out, .panic⟩
        | expected :: stack =>
          if hf.parentCv l r isRoot != expected then ⟨out, .err (.parentHashMismatch node)⟩
          else
            let stack := if right then r :: stack else stack
            let stack := if left then l :: stack else stack
            cont stack
      else cont stack
  | .leaf start size isRoot ranges :: plan, stack, out, nd, no, nw =>
    let go (stack : List H) (expected : Option H) : EncRun :=
      match EncFault.hits fault .data nd with
      | some e => ⟨out, .err (.io e)⟩
      | none =>
      match readExactAt data (toBytes start) size with
      | .error e => ⟨out, .err (.io e)⟩
      | .ok buf =>
        let (actual, toWrite) :=
          if !Ranges.isAll ranges then
            encodeSelectedRec hf recFuel start buf isRoot ranges ob.tree.bs true
          else (hashSubtree hf start buf isRoot, buf)
        if (match expected with | some e => actual != e | none => false) then ⟨out, .err (.leafHashMismatch start)⟩
        else
          match EncFault.hits fault .w nw with
          | some e => ⟨out, .err (writeErr fl e false start)⟩
          | none => encodeLoopF hf fl validate data ob fault plan stack (out ++ toWrite) (nd + 1) no (nw + 1)
    if validate then
      match stack with
      | [] => ⟨out, .panic⟩
      | expected :: stack => go stack (some expected)
    else go stack none

/-- `encode_ranges_validated` / `encode_ranges` with an injected fault -/
def encodeRangesF (hf : HashFns H) [BEq H] (fl : Flavour) (validate : Bool) (data : List UInt8) (ob : Store H)
    (ranges : Ranges) (fault : Option EncFault) : EncRun :=
  if validate && fl == .sync && ranges.isEmpty then ⟨[], .ok⟩
  else
    let ranges := Ranges.truncate ranges ob.tree.size
    match ob.tree.prePartialChunks ranges 0 with
    | none => ⟨[], .panic⟩
    | some plan => encodeLoopF hf fl validate data ob fault plan [ob.root] [] 0 0 0

/-! ## outboard creation -/

/-- result of an outboard computation: the root and the updated sink -/
structure ObRun (H σ : Type) where
  res : Res IoErr H
  sink : σ

/-- loop of `outboard_impl`: stack machine over the post-order plan, saving pairs -/
def outboardLoop (hf : HashFns H) : List Chunk → List H → List UInt8 → Store H → ObRun H (Store H)
  | [], stack, _, ob =>
    match stack with
    | [h] => ⟨.ok h, ob⟩
    | _ => ⟨.panic, ob⟩            -- debug_assert_eq!(stack.len(), 1) / pop on empty
  | .parent node isRoot _ _ _ :: plan, stack, data, ob =>
    match stack with
    | r :: l :: stack =>
      match ob.save hf node (l, r) with
      | .err e => ⟨.err e, ob⟩
      | .panic => ⟨.panic, ob⟩
      | .ok ob' => outboardLoop hf plan (hf.parentCv l r isRoot :: stack) data ob'
    | _ => ⟨.panic, ob⟩
  | .leaf start size isRoot _ :: plan, stack, data, ob =>
    match readExact data size with
    | .error e => ⟨.err e, ob⟩
    | .ok (buf, rest) => outboardLoop hf plan (hashSubtree hf start buf isRoot :: stack) rest ob

/-- `sync::outboard` / `fsm::outboard` -/
def outboard (hf : HashFns H) (data : List UInt8) (tree : Tree) (ob : Store H) : ObRun H (Store H) :=
  outboardLoop hf tree.postOrderChunks [] data ob

/-- loop of `outboard_post_order_impl`: pairs are appended to a writer -/
def outboardPostOrderLoop (hf : HashFns H) :
    List Chunk → List H → List UInt8 → List UInt8 → ObRun H (List UInt8)
  | [], stack, _, out =>
    match stack with
    | [h] => ⟨.ok h, out⟩
    | _ => ⟨.panic, out⟩
  | .parent _ isRoot _ _ _ :: plan, stack, data, out =>
    match stack with
    | r :: l :: stack =>
      outboardPostOrderLoop hf plan (hf.parentCv l r isRoot :: stack) data
        (out ++ hf.toBytes l ++ hf.toBytes r)
    | _ => ⟨.panic, out⟩
  | .leaf start size isRoot _ :: plan, stack, data, out =>
    match readExact data size with
    | .error e => ⟨.err e, out⟩
    | .ok (buf, rest) =>
      outboardPostOrderLoop hf plan (hashSubtree hf start buf isRoot :: stack) rest out

/-- `sync::outboard_post_order` / `fsm::outboard_post_order` -/
def outboardPostOrder (hf : HashFns H) (data : List UInt8) (tree : Tree) : ObRun H (List UInt8) :=
  outboardPostOrderLoop hf tree.postOrderChunks [] data []

/-- `CreateOutboard::init_from`: recompute into an existing store, then set the root -/
def initFrom (hf : HashFns H) (data : List UInt8) (ob : Store H) : Res IoErr (Store H) :=
  match outboard hf data ob.tree ob with
  | ⟨.ok root, ob'⟩ => .ok { ob' with root }
  | ⟨.err e, _⟩ => .err e
  | ⟨.panic, _⟩ => .panic

/-! ## copy -/

/-- loop of `copy` -/
def copyLoop (hf : HashFns H) (fl : Flavour) (src : Store H) : List Nat → Store H → Res IoErr (Store H)
  | [], dst => .ok dst
  | node :: nodes, dst =>
    match src.load hf fl node with
    | .err e => .err e
    | .panic => .panic
    | .ok none => copyLoop hf fl src nodes dst
    | .ok (some pair) =>
      match dst.save hf node pair with
      | .err e => .err e
      | .panic => .panic
      | .ok dst' => copyLoop hf fl src nodes dst'

/-- `sync::copy` / `fsm::copy` -/
def copy (hf : HashFns H) (fl : Flavour) (src dst : Store H) : Res IoErr (Store H) :=
  copyLoop hf fl src src.tree.preOrderNodesIter dst

/-- `PostOrderMemOutboard::flip` / `PreOrderMemOutboard::flip`: `sync::copy` into a zero-filled memory
outboard of the other order with the same root and tree (`.unwrap()` on the result) -/
def flip (hf : HashFns H) (s : Store H) : Res IoErr (Store H) :=
  let kind' : StoreKind := match s.kind with
    | .postMem | .postIo => .preMem
    | _ => .postMem
  match copy hf .sync s { kind := kind', root := s.root, tree := s.tree,
                          data := List.replicate s.tree.outboardSize 0 } with
  | .ok t => .ok t
  | _ => .panic

end Bao
