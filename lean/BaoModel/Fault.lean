import BaoModel.Validate

/-!
# C10: fault-aware twins of outboard creation, `copy` and the validators

Every function of this file is the fault-free function of `Codec.lean` / `Validate.lean` with

* an injected fault `fault : Option Fault` – `some ⟨obj, k, kind⟩`: the `k`-th call (0-based) on the
  io object `obj` fails with the io error `⟨kind, true⟩`; a failing call has no effect other than
  returning its error (assumption A3);
* call counters (calls made so far on each object it uses), threaded through the loop / recursion;
* the log of the io calls it makes, in order (`FEv`): a call that fails - by injection or by itself -
  is logged and is then the last one.  The validators also log the ranges they hand to their
  consumer (`FEv.yield`, a pseudo event without an object), so that the log shows which ranges were
  yielded before which call.

Same case split and same order of effects as the fault-free functions.
-/

namespace Bao

/-- io objects: the data reader (stream reader for outboard creation, positional reader for the
validators), the outboard (`save` in outboard creation, `load` in the validators), the output
writer of `outboard_post_order`, source and target of `copy` -/
inductive FObj | data | ob | w | src | dst
deriving Repr, DecidableEq, BEq

/-- fail the `k`-th call (0-based) on object `obj` with an io error of kind `kind` -/
structure Fault where
  obj : FObj
  k : Nat
  kind : IoKind
deriving Repr

/-- does the `n`-th call on `o` fail? -/
def Fault.hits (f : Option Fault) (o : FObj) (n : Nat) : Option IoErr :=
  match f with
  | some ⟨obj, k, kind⟩ => if obj == o && k == n then some ⟨kind, true⟩ else none
  | none => none

/-- one io call with its arguments (and `yield`: a range handed to the consumer of a validator) -/
inductive FEv (H : Type)
  /-- `read_exact` / `read_bytes_exact(size)` on the data stream -/
  | read (size : Nat)
  /-- `read_exact_at(off, size)` on the data source -/
  | readAt (off size : Nat)
  /-- `load(node)` on outboard `o` (`.ob` or `.src`) -/
  | load (o : FObj) (node : Nat)
  /-- `save(node, (l, r))` on outboard `o` (`.ob` or `.dst`) -/
  | save (o : FObj) (node : Nat) (l r : H)
  /-- `write_all(bytes)` / `write(bytes)` on the output writer -/
  | write (bytes : List UInt8)
  /-- not an io call: the chunk range `s..e` is yielded -/
  | yield (s e : Nat)
deriving Repr, DecidableEq

/-- the object a call is made on -/
def FEv.obj : FEv H → Option FObj
  | .read _ => some .data
  | .readAt .. => some .data
  | .load o _ => some o
  | .save o .. => some o
  | .write _ => some .w
  | .yield .. => none

/-- name of an object as the test harness prints it -/
def FObj.name : FObj → String
  | .data => "data" | .ob => "ob" | .w => "w" | .src => "from" | .dst => "to"

/-- label of a call as the test harness prints it -/
def FEv.label : FEv H → String
  | .read size => s!"read_{size}"
  | .readAt off size => s!"read_at_{off}_{size}"
  | .load _ node => s!"load_{node}"
  | .save _ node _ _ => s!"save_{node}"
  | .write b => s!"write_{b.length}"
  | .yield s e => s!"yield_{s}_{e}"

/-- the io calls of a log as `(object, label)` (yields dropped) -/
def FEv.calls (log : List (FEv H)) : List (String × String) :=
  log.filterMap fun e => e.obj.map fun o => (o.name, e.label)

/-! ## `outboard_post_order` -/

/-- loop of `outboard_post_order_impl` with a fault; `nd nw`: calls made so far on the data reader /
the writer.  A parent makes TWO writes (left hash, right hash). -/
def outboardPostOrderLoopF (hf : HashFns H) (fault : Option Fault) :
    List Chunk → List H → List UInt8 → List UInt8 → Nat → Nat →
      List (FEv H) × ObRun H (List UInt8)
  | [], stack, _, out, _, _ =>
    match stack with
    | [h] => ([], ⟨.ok h, out⟩)
    | _ => ([], ⟨.panic, out⟩)
  | .parent _ isRoot _ _ _ :: plan, stack, data, out, nd, nw =>
    match stack with
    | r :: l :: stack =>
      match Fault.hits fault .w nw with
      | some e => ([.write (hf.toBytes l)], ⟨.err e, out⟩)
      | none =>
      match Fault.hits fault .w (nw + 1) with
      | some e => ([.write (hf.toBytes l), .write (hf.toBytes r)], ⟨.err e, out ++ hf.toBytes l⟩)
      | none =>
        let r' := outboardPostOrderLoopF hf fault plan (hf.parentCv l r isRoot :: stack) data
          (out ++ hf.toBytes l ++ hf.toBytes r) nd (nw + 2)
        (.write (hf.toBytes l) :: .write (hf.toBytes r) :: r'.1, r'.2)
    | _ => ([], ⟨.panic, out⟩)
  | .leaf start size isRoot _ :: plan, stack, data, out, nd, nw =>
    match Fault.hits fault .data nd with
    | some e => ([.read size], ⟨.err e, out⟩)
    | none =>
    match readExact data size with
    | .error e => ([.read size], ⟨.err e, out⟩)
    | .ok (buf, rest) =>
      let r' := outboardPostOrderLoopF hf fault plan (hashSubtree hf start buf isRoot :: stack) rest
        out (nd + 1) nw
      (.read size :: r'.1, r'.2)

/-- `sync::outboard_post_order` / `fsm::outboard_post_order` with a fault: the io calls made, and the
result (root hash / error, bytes written) -/
def outboardPostOrderF (hf : HashFns H) (data : List UInt8) (tree : Tree) (fault : Option Fault) :
    List (FEv H) × ObRun H (List UInt8) :=
  outboardPostOrderLoopF hf fault tree.postOrderChunks [] data [] 0 0

/-! ## `outboard`, `init_from` -/

/-- loop of `outboard_impl` with a fault; `nd no`: calls made so far on the data reader / the
outboard -/
def outboardLoopF (hf : HashFns H) (fault : Option Fault) :
    List Chunk → List H → List UInt8 → Store H → Nat → Nat → List (FEv H) × ObRun H (Store H)
  | [], stack, _, ob, _, _ =>
    match stack with
    | [h] => ([], ⟨.ok h, ob⟩)
    | _ => ([], ⟨.panic, ob⟩)
  | .parent node isRoot _ _ _ :: plan, stack, data, ob, nd, no =>
    match stack with
    | r :: l :: stack =>
      match Fault.hits fault .ob no with
      | some e => ([.save .ob node l r], ⟨.err e, ob⟩)
      | none =>
      match ob.save hf node (l, r) with
      | .err e => ([.save .ob node l r], ⟨.err e, ob⟩)
      | .panic => ([.save .ob node l r], ⟨.panic, ob⟩)
      | .ok ob' =>
        let r' := outboardLoopF hf fault plan (hf.parentCv l r isRoot :: stack) data ob' nd (no + 1)
        (.save .ob node l r :: r'.1, r'.2)
    | _ => ([], ⟨.panic, ob⟩)
  | .leaf start size isRoot _ :: plan, stack, data, ob, nd, no =>
    match Fault.hits fault .data nd with
    | some e => ([.read size], ⟨.err e, ob⟩)
    | none =>
    match readExact data size with
    | .error e => ([.read size], ⟨.err e, ob⟩)
    | .ok (buf, rest) =>
      let r' := outboardLoopF hf fault plan (hashSubtree hf start buf isRoot :: stack) rest ob
        (nd + 1) no
      (.read size :: r'.1, r'.2)

/-- `sync::outboard` / `fsm::outboard` with a fault: the io calls made, and the result (root hash /
error, the outboard as it is left) -/
def outboardF (hf : HashFns H) (data : List UInt8) (tree : Tree) (ob : Store H)
    (fault : Option Fault) : List (FEv H) × ObRun H (Store H) :=
  outboardLoopF hf fault tree.postOrderChunks [] data ob 0 0

/-- `CreateOutboard::init_from` with a fault: the io calls made, the result, and the store as it
is left when the result is not `ok` -/
def initFromF (hf : HashFns H) (data : List UInt8) (ob : Store H) (fault : Option Fault) :
    List (FEv H) × Res IoErr (Store H) × Store H :=
  match outboardF hf data ob.tree ob fault with
  | (log, ⟨.ok root, ob'⟩) => (log, .ok { ob' with root }, { ob' with root })
  | (log, ⟨.err e, ob'⟩) => (log, .err e, ob')
  | (log, ⟨.panic, ob'⟩) => (log, .panic, ob')

/-! ## `copy` -/

/-- the `io::Result<()>` of a `copy` run (`sink`: the target as it is left, also after an error),
with the target on success (as `Bao.copy` returns it) -/
def ObRun.toRes (r : ObRun Unit (Store H)) : Res IoErr (Store H) :=
  match r.res with
  | .ok _ => .ok r.sink
  | .err e => .err e
  | .panic => .panic

/-- loop of `copy` with a fault; `ns nt`: calls made so far on the source / the target -/
def copyLoopF (hf : HashFns H) (fl : Flavour) (fault : Option Fault) (src : Store H) :
    List Nat → Store H → Nat → Nat → List (FEv H) × ObRun Unit (Store H)
  | [], dst, _, _ => ([], ⟨.ok (), dst⟩)
  | node :: nodes, dst, ns, nt =>
    match Fault.hits fault .src ns with
    | some e => ([.load .src node], ⟨.err e, dst⟩)
    | none =>
    match src.load hf fl node with
    | .err e => ([.load .src node], ⟨.err e, dst⟩)
    | .panic => ([.load .src node], ⟨.panic, dst⟩)
    | .ok none =>
      let r' := copyLoopF hf fl fault src nodes dst (ns + 1) nt
      (.load .src node :: r'.1, r'.2)
    | .ok (some pair) =>
      match Fault.hits fault .dst nt with
      | some e => ([.load .src node, .save .dst node pair.1 pair.2], ⟨.err e, dst⟩)
      | none =>
      match dst.save hf node pair with
      | .err e => ([.load .src node, .save .dst node pair.1 pair.2], ⟨.err e, dst⟩)
      | .panic => ([.load .src node, .save .dst node pair.1 pair.2], ⟨.panic, dst⟩)
      | .ok dst' =>
        let r' := copyLoopF hf fl fault src nodes dst' (ns + 1) (nt + 1)
        (.load .src node :: .save .dst node pair.1 pair.2 :: r'.1, r'.2)

/-- `sync::copy` / `fsm::copy` with a fault: the io calls made, and the result (`()` / error, the
target as it is left) -/
def copyF (hf : HashFns H) (fl : Flavour) (src dst : Store H) (fault : Option Fault) :
    List (FEv H) × ObRun Unit (Store H) :=
  copyLoopF hf fl fault src src.tree.preOrderNodesIter dst 0 0

/-! ## validators -/

/-- a validator run with its log and the counters after it (`nd`: positional reads on the data
source, `no`: `load`s on the outboard; a failed call is counted) -/
structure ValF (H : Type) where
  log : List (FEv H)
  run : ValRun
  nd : Nat
  no : Nat

/-- sequencing of two validator runs (`?` after the first) -/
def ValF.andThen (a : ValF H) (b : Nat → Nat → ValF H) : ValF H :=
  match a.run.terminal with
  | .ok =>
    let r := b a.nd a.no
    ⟨a.log ++ r.log, ⟨a.run.yields ++ r.run.yields, r.run.terminal⟩, r.nd, r.no⟩
  | _ => a

/-- the log entries of yielded ranges -/
def yieldEvs (ys : List (Nat × Nat)) : List (FEv H) := ys.map fun p => .yield p.1 p.2

/-- `yield_if_valid(s..e, h, root)` of the data validator (one positional read) /
`yield_node_range(s..e)` of the outboard validator (no io) -/
def yieldRangeF (hf : HashFns H) [BEq H] (withData : Bool) (data : List UInt8)
    (fault : Option Fault) (s e : Nat) (h : H) (root : Bool) (nd no : Nat) : ValF H :=
  if withData then
    match Fault.hits fault .data nd with
    | some err => ⟨[.readAt s (e - s)], ⟨[], .err err⟩, nd + 1, no⟩
    | none =>
    match yieldIfValid hf data s e h root with
    | .error err => ⟨[.readAt s (e - s)], ⟨[], .err err⟩, nd + 1, no⟩
    | .ok ys => ⟨.readAt s (e - s) :: yieldEvs ys, ⟨ys, .ok⟩, nd + 1, no⟩
  else ⟨[.yield (fullChunksOf s) (chunksOf e)], ⟨[(fullChunksOf s, chunksOf e)], .ok⟩, nd, no⟩

/-- `validate_rec` of both validators with a fault; `nd no`: calls made so far on the data source /
the outboard -/
def validateRecF (hf : HashFns H) [BEq H] (fl : Flavour) (withData : Bool) (ob : Store H)
    (data : List UInt8) (filled : Nat) (fault : Option Fault) :
    Nat → H → Nat → Bool → Ranges → Nat → Nat → ValF H
  | 0, _, _, _, _, nd, no => ⟨[], ⟨[], .panic⟩, nd, no⟩
  | fuel + 1, parentHash, shifted, isRoot, ranges, nd, no =>
    if ranges.isEmpty then ⟨[], ⟨[], .ok⟩, nd, no⟩
    else
      let tree := ob.tree
      let node := Node.subBs shifted tree.bs
      let (l, m, r) := tree.leafByteRanges3 node
      if !tree.isRelevant node then yieldRangeF hf withData data fault l r parentHash isRoot nd no
      else
        match Fault.hits fault .ob no with
        | some e => ⟨[.load .ob node], ⟨[], .err e⟩, nd, no + 1⟩
        | none =>
        match ob.load hf fl node with
        | .err e => ⟨[.load .ob node], ⟨[], .err e⟩, nd, no + 1⟩
        | .panic => ⟨[.load .ob node], ⟨[], .panic⟩, nd, no + 1⟩
        | .ok none => ⟨[.load .ob node], ⟨[], .ok⟩, nd, no + 1⟩
        | .ok (some (lh, rh)) =>
          let actual := hf.parentCv lh rh isRoot
          if actual != parentHash then ⟨[.load .ob node], ⟨[], .ok⟩, nd, no + 1⟩
          else
            let (lr, rr) := Ranges.splitNode ranges node
            let rest : ValF H :=
              if Node.isLeaf shifted then
                (if !lr.isEmpty then yieldRangeF hf withData data fault l m lh false nd (no + 1)
                  else ⟨[], ⟨[], .ok⟩, nd, no + 1⟩).andThen fun nd no =>
                  (if !rr.isEmpty then yieldRangeF hf withData data fault m r rh false nd no
                    else ⟨[], ⟨[], .ok⟩, nd, no⟩)
              else
                match Node.leftChild shifted, Node.rightDescendant shifted filled with
                | some left, some right =>
                  (validateRecF hf fl withData ob data filled fault fuel lh left false lr nd
                    (no + 1)).andThen fun nd no =>
                    validateRecF hf fl withData ob data filled fault fuel rh right false rr nd no
                | _, _ => ⟨[], ⟨[], .panic⟩, nd, no + 1⟩
            ⟨.load .ob node :: rest.log, rest.run, rest.nd, rest.no⟩

/-- `valid_ranges(outboard, data, ranges)` with a fault: the log (io calls and yields) and the
items yielded - chunk ranges, then possibly one error as the LAST item (`terminal = .err`) -/
def validRangesF (hf : HashFns H) [BEq H] (fl : Flavour) (ob : Store H) (data : List UInt8)
    (ranges : Ranges) (fault : Option Fault) : List (FEv H) × ValRun :=
  let tree := ob.tree
  if tree.blocks == 1 then
    match Fault.hits fault .data 0 with
    | some e => ([.readAt 0 tree.size], ⟨[], .err e⟩)
    | none =>
    match readExactAt data 0 tree.size with
    | .error e => ([.readAt 0 tree.size], ⟨[], .err e⟩)
    | .ok tmp =>
      if hashSubtree hf 0 tmp true == ob.root then
        ([.readAt 0 tree.size, .yield 0 tree.chunks], ⟨[(0, tree.chunks)], .ok⟩)
      else ([.readAt 0 tree.size], ⟨[], .ok⟩)
  else
    let ranges := Ranges.truncate ranges tree.size
    let (root, filled) := tree.shifted
    let r := validateRecF hf fl true ob data filled fault 65 ob.root root true ranges 0 0
    (r.log, r.run)

/-- `valid_outboard_ranges(outboard, ranges)` with a fault -/
def validOutboardRangesF (hf : HashFns H) [BEq H] (fl : Flavour) (ob : Store H) (ranges : Ranges)
    (fault : Option Fault) : List (FEv H) × ValRun :=
  let tree := ob.tree
  if tree.blocks == 1 then ([.yield 0 tree.chunks], ⟨[(0, tree.chunks)], .ok⟩)
  else
    let ranges := Ranges.truncate ranges tree.size
    let (root, filled) := tree.shifted
    let r := validateRecF hf fl false ob [] filled fault 65 ob.root root true ranges 0 0
    (r.log, r.run)

end Bao
