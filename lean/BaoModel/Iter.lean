import BaoModel.Ranges

/-!
# L3: traversal plans (`src/iter.rs`)

Every iterator of the crate is modelled by its state and its `next` function,
exactly as the Rust `struct` + `Iterator::next`, plus a fuel-driven `toList`.
-/

namespace Bao

/-- `BaoChunk<R>`; `ranges` is `[]`-irrelevant for the post-order plan -/
inductive Chunk
  | parent (node : Nat) (isRoot left right : Bool) (ranges : Ranges)
  | leaf (start size : Nat) (isRoot : Bool) (ranges : Ranges)
deriving Repr, DecidableEq, BEq

/-- `BaoChunk::without_ranges` -/
def Chunk.withoutRanges : Chunk → Chunk
  | .parent n r l rr _ => .parent n r l rr []
  | .leaf s z r _ => .leaf s z r []

/-- `BaoChunk::size` -/
def Chunk.size : Chunk → Nat
  | .parent .. => 64
  | .leaf _ z _ _ => z

/-- `enum Prev` -/
inductive Prev | parent | left | right | done
deriving Repr, DecidableEq

/-! ## `PostOrderNodeIter` / `PreOrderNodeIter` -/

structure NodeIter where
  len : Nat
  curr : Nat
  prev : Prev
deriving Repr

def NodeIter.new (root len : Nat) : NodeIter := ⟨len, root, .parent⟩

/-- `go_up` (shared by both node iterators) -/
def NodeIter.goUp (it : NodeIter) (curr : Nat) : NodeIter :=
  match Node.restrictedParent curr it.len with
  | some p => { it with curr := p, prev := if curr < p then .left else .right }
  | none => { it with curr := curr, prev := .done }

/-- one turn of the `loop` in `PostOrderNodeIter::next`:
`(some x, it')` = `break Some(x)`, `(none, it')` = continue, `none` = `break None`.
`rightDescendant … .unwrap()` panics are mapped to `none` as well (unreachable in a tree). -/
def NodeIter.postStep (it : NodeIter) : Option (Option Nat × NodeIter) :=
  let curr := it.curr
  match it.prev with
  | .parent =>
    match Node.leftChild curr with
    | some c => some (none, { it with curr := c, prev := .parent })
    | none => some (some curr, it.goUp curr)
  | .left =>
    match Node.rightDescendant curr it.len with
    | some r => some (none, { it with curr := r, prev := .parent })
    | none => none
  | .right => some (some curr, it.goUp curr)
  | .done => none

/-- one turn of the `loop` in `PreOrderNodeIter::next` -/
def NodeIter.preStep (it : NodeIter) : Option (Option Nat × NodeIter) :=
  let curr := it.curr
  match it.prev with
  | .parent =>
    match Node.leftChild curr with
    | some c => some (some curr, { it with curr := c, prev := .parent })
    | none => some (some curr, it.goUp curr)
  | .left =>
    match Node.rightDescendant curr it.len with
    | some r => some (none, { it with curr := r, prev := .parent })
    | none => none
  | .right => some (none, it.goUp curr)
  | .done => none

/-- run a node iterator to exhaustion (`fuel` turns of the loop) -/
def NodeIter.run (step : NodeIter → Option (Option Nat × NodeIter)) :
    Nat → NodeIter → List Nat
  | 0, _ => []
  | fuel + 1, it =>
    match step it with
    | none => []
    | some (some x, it') => x :: NodeIter.run step fuel it'
    | some (none, it') => NodeIter.run step fuel it'

/-- every node is entered from above, from the left and from the right at most once -/
def NodeIter.fuelFor (len : Nat) : Nat := 3 * len + 3

/-- `PostOrderNodeIter::new(root, len).collect()` -/
def postOrderNodes (root len : Nat) : List Nat :=
  NodeIter.run NodeIter.postStep (NodeIter.fuelFor len) (NodeIter.new root len)

/-- `PreOrderNodeIter::new(root, len).collect()` -/
def preOrderNodes (root len : Nat) : List Nat :=
  NodeIter.run NodeIter.preStep (NodeIter.fuelFor len) (NodeIter.new root len)

/-- `BaoTree::post_order_nodes_iter` -/
def Tree.postOrderNodesIter (t : Tree) : List Nat :=
  (postOrderNodes t.shifted.1 t.shifted.2).map (Node.subBs · t.bs)

/-- `BaoTree::pre_order_nodes_iter` -/
def Tree.preOrderNodesIter (t : Tree) : List Nat :=
  (preOrderNodes t.shifted.1 t.shifted.2).map (Node.subBs · t.bs)

/-! ## `PostOrderChunkIter` -/

/-- what `PostOrderChunkIter::next` produces for one node of the inner iterator,
in the order in which it is yielded (first the returned item, then the stack popped) -/
def Tree.postChunksOfNode (t : Tree) (shiftedRoot sh : Nat) : List Chunk :=
  let isRoot := sh == shiftedRoot
  let node := Node.subBs sh t.bs
  if Node.isLeaf sh then
    let (s, m, e) := t.leafByteRanges3 node
    let lStart := (Node.chunkRange node).1
    let rStart := lStart + t.chunkGroupChunks
    let isHalfLeaf := m == e
    if !isHalfLeaf then
      [.leaf lStart (m - s) (isRoot && isHalfLeaf) [],
       .leaf rStart (e - m) false [],
       .parent node isRoot true true []]
    else
      [.leaf lStart (m - s) (isRoot && isHalfLeaf) []]
  else
    [.parent node isRoot true true []]

/-- `BaoTree::post_order_chunks_iter().collect()` -/
def Tree.postOrderChunks (t : Tree) : List Chunk :=
  (postOrderNodes t.shifted.1 t.shifted.2).flatMap (t.postChunksOfNode t.shifted.1)

/-! ## `PreOrderPartialChunkIterRef` -/

structure PrePartial where
  tree : Tree
  minFullLevel : Nat
  /-- top of the stack is the head -/
  stack : List (Nat × Ranges)
  shiftedFilled : Nat
  shiftedRoot : Nat
  /-- top of the buffer is the head -/
  buffer : List Chunk
deriving Repr

/-- `PreOrderPartialChunkIterRef::new` -/
def PrePartial.new (t : Tree) (ranges : Ranges) (minFullLevel : Nat) : PrePartial :=
  let (root, filled) := t.shifted
  { tree := t, minFullLevel, stack := if ranges.isEmpty then [] else [(root, ranges)],
    shiftedFilled := filled, shiftedRoot := root, buffer := [] }

/-- result of one call of `next` -/
inductive IterNext (σ : Type)
  | item (c : Chunk) (s : σ)
  | done
  | panic

/-- `PreOrderPartialChunkIterRef::next` -/
def PrePartial.next (it : PrePartial) : IterNext PrePartial :=
  match it.buffer with
  | c :: rest => .item c { it with buffer := rest }
  | [] =>
    match it.stack with
    | [] => .done
    | (sh, ranges) :: stack =>
      if ranges.isEmpty then .panic   -- debug_assert!(!ranges.is_empty())
      else
        let t := it.tree
        let node := Node.subBs sh t.bs
        let queryLeaf := Ranges.isAll ranges && decide (Node.level node < it.minFullLevel)
        let isRoot := sh == it.shiftedRoot
        let chunkRange := Node.chunkRange node
        let byteRange := t.byteRange node
        let size := byteRange.2 - byteRange.1
        if queryLeaf then
          .item (.leaf chunkRange.1 size isRoot ranges) { it with stack := stack }
        else if !Node.isLeaf sh then
          let (l, r) := Ranges.splitNode ranges node
          -- right first, so it is popped last
          match (if r.isEmpty then some stack else
                  (Node.rightDescendant sh it.shiftedFilled).map fun rd => (rd, r) :: stack) with
          | none => .panic
          | some stack1 =>
            match (if l.isEmpty then some stack1 else
                    (Node.leftChild sh).map fun lc => (lc, l) :: stack1) with
            | none => .panic
            | some stack2 =>
              .item (.parent node isRoot (!l.isEmpty) (!r.isEmpty) ranges) { it with stack := stack2 }
        else
          let midChunk := Node.mid node
          let mid := toBytes midChunk
          if mid ≥ t.size then
            .item (.leaf chunkRange.1 size isRoot ranges) { it with stack := stack }
          else
            let (l, r) := Ranges.splitNode ranges node
            let buf1 := if r.isEmpty then [] else [Chunk.leaf midChunk (byteRange.2 - mid) false r]
            let buf2 := if l.isEmpty then buf1 else Chunk.leaf chunkRange.1 (mid - byteRange.1) false l :: buf1
            .item (.parent node isRoot (!l.isEmpty) (!r.isEmpty) ranges)
              { it with stack := stack, buffer := buf2 }

/-- collect up to `fuel` items; `none` = the iterator panicked -/
def PrePartial.run : Nat → PrePartial → Option (List Chunk)
  | 0, _ => some []
  | fuel + 1, it =>
    match it.next with
    | .done => some []
    | .panic => none
    | .item c it' => (PrePartial.run fuel it').map (c :: ·)

/-- enough calls of `next` for any query: every node yields at most 3 items -/
def PrePartial.fuelFor (t : Tree) : Nat := 3 * t.shifted.2 + 6

/-- `tree.ranges_pre_order_chunks_iter_ref(ranges, min_full_level).collect()` -/
def Tree.prePartialChunks (t : Tree) (ranges : Ranges) (minFullLevel : Nat) : Option (List Chunk) :=
  PrePartial.run (PrePartial.fuelFor t) (PrePartial.new t ranges minFullLevel)

/-! ## `ResponseIterRef` -/

/-- `ResponseIterRef::new(tree, ranges)`: block size 0 tree, `min_full_level = bs` -/
def Response.new (t : Tree) (ranges : Ranges) : PrePartial :=
  PrePartial.new ⟨t.size, 0⟩ ranges t.bs

/-- `ResponseIterRef::tree` -/
def Response.tree (it : PrePartial) : Tree := ⟨it.tree.size, it.minFullLevel⟩

/-- `ResponseIterRef::next` -/
def Response.next (it : PrePartial) : IterNext PrePartial :=
  match it.next with
  | .item c s => .item c.withoutRanges s
  | .done => .done
  | .panic => .panic

/-- `ResponseIter::new(tree, ranges).collect()` -/
def Tree.responseChunks (t : Tree) (ranges : Ranges) : Option (List Chunk) :=
  (PrePartial.run (PrePartial.fuelFor ⟨t.size, 0⟩) (Response.new t ranges)).map
    (·.map Chunk.withoutRanges)

end Bao
