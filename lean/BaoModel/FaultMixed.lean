import BaoModel.Validate

/-!
# C10: fault-aware twin of the item-stream traversal `mixed::traverse_ranges_validated`

`traverseRangesValidatedF` is `traverseRangesValidated` (`Validate.lean`) with

* an injected fault `fault : Option MFault` – `some ⟨obj, k, kind⟩`: the `k`-th call (0-based) on the
  io object `obj` (`.data`: `read_bytes_at`, `.ob`: `load`, `.s`: `Sender::send`) fails; a failing
  `read_bytes_at` / `load` returns the io error `⟨kind, true⟩`, a failing `send` returns the sender's
  own error (opaque, `Sender::Error`); a failing call has no other effect (assumption A3);
* call counters (calls made so far on each object), threaded through the loop;
* the log of the io calls it makes, in order (`MEv`): a call that fails - by injection or by itself -
  is logged.

Same case split and same order of effects as `traverse_ranges_validated` /
`traverse_ranges_validated_impl` (`src/io/mixed.rs`):
`send(Size)?`; the loop; then `Ok(Ok(()))` → `send(Done)`, `Err(cause)` → `send(Error(cause))`,
`Ok(Err(e))` → `return Err(e)` (nothing more is sent).

`FObj` (`Fault.lean`) has no constructor for the sender, so the objects of this operation are a type
of their own (`MObj`), and so is the fault (`MFault`, same fields as `Fault`).
-/

namespace Bao

/-- io objects of `traverse_ranges_validated`: the data (`ReadBytesAt`), the outboard (`load`), the
sender -/
inductive MObj | data | ob | s
deriving Repr, DecidableEq, BEq

/-- fail the `k`-th call (0-based) on object `obj` (with an io error of kind `kind` for the data and
the outboard) -/
structure MFault where
  obj : MObj
  k : Nat
  kind : IoKind
deriving Repr

/-- does the `n`-th call on `o` fail? -/
def MFault.hits (f : Option MFault) (o : MObj) (n : Nat) : Option IoErr :=
  match f with
  | some ⟨obj, k, kind⟩ => if obj == o && k == n then some ⟨kind, true⟩ else none
  | none => none

/-- one io call with its arguments -/
inductive MEv (H : Type)
  /-- `read_bytes_at(off, size)` on the data -/
  | readAt (off size : Nat)
  /-- `load(node)` on the outboard -/
  | load (node : Nat)
  /-- `send(item)` on the sender -/
  | send (item : EncodedItem H)
deriving Repr, DecidableEq

/-- the object a call is made on -/
def MEv.obj : MEv H → MObj
  | .readAt .. => .data
  | .load _ => .ob
  | .send _ => .s

/-- name of an object as the test harness prints it -/
def MObj.name : MObj → String
  | .data => "data" | .ob => "ob" | .s => "s"

/-- label of a sent item as the test harness prints it (`L<chunk>`: offset / 1024) -/
def EncodedItem.sendLabel : EncodedItem H → String
  | .size _ => "send_Size"
  | .parent node _ _ => s!"send_P{node}"
  | .leaf off _ => s!"send_L{off / 1024}"
  | .error _ => "send_Error"
  | .done => "send_Done"

/-- label of a call as the test harness prints it -/
def MEv.label : MEv H → String
  | .readAt off size => s!"read_at_{off}_{size}"
  | .load node => s!"load_{node}"
  | .send item => item.sendLabel

/-- the io calls of a log as `(object, label)` -/
def MEv.calls (log : List (MEv H)) : List (String × String) :=
  log.map fun e => (e.obj.name, e.label)

/-- how `traverse_ranges_validated` ends -/
inductive MixEnd
  /-- `Done` was sent, `Ok(())` -/
  | ok
  /-- `Error(e)` was sent as the last item, `Ok(())` -/
  | errItem (e : EncodeError)
  /-- a `send` failed: `Err(send error)`, nothing more is sent -/
  | sendErr
  | panic
deriving Repr, DecidableEq, BEq

/-- what `traverse_ranges_validated_impl` returns -/
inductive MixInner
  /-- `Ok(Ok(()))` -/
  | done
  /-- `Err(cause)` -/
  | cause (e : EncodeError)
  /-- `Ok(Err(send error))` -/
  | sendErr
  | panic
deriving Repr, DecidableEq, BEq

/-- a run of the loop: calls made, result, calls made so far on the sender afterwards -/
structure MixLoop (H : Type) where
  log : List (MEv H)
  res : MixInner
  ns : Nat

/-- `for item in out_buf { send.send(item)? }` / a single `send.send(item)?`; `ns`: calls made so far
on the sender.  Result: the calls made, the error of the send that failed (if any), the counter -/
def sendAllF (fault : Option MFault) : List (EncodedItem H) → Nat → List (MEv H) × Option IoErr × Nat
  | [], ns => ([], none, ns)
  | it :: its, ns =>
    match MFault.hits fault .s ns with
    | some e => ([.send it], some e, ns + 1)
    | none =>
      let r := sendAllF fault its (ns + 1)
      (.send it :: r.1, r.2)

/-- loop of `traverse_ranges_validated_impl` with a fault; `nd no ns`: calls made so far on the data /
the outboard / the sender -/
def traverseLoopF (hf : HashFns H) [BEq H] (data : List UInt8) (ob : Store H) (fault : Option MFault) :
    List Chunk → List H → Nat → Nat → Nat → MixLoop H
  | [], _, _, _, ns => ⟨[], .done, ns⟩
  | .parent node isRoot left right _ :: plan, stack, nd, no, ns =>
    match MFault.hits fault .ob no with
    | some e => ⟨[.load node], .cause (.io e), ns⟩
    | none =>
    match ob.load hf .sync node with
    | .err e => ⟨[.load node], .cause (.io e), ns⟩
    | .panic => ⟨[.load node], .panic, ns⟩
    | .ok none => ⟨[.load node], .panic, ns⟩          -- `.unwrap()` on `None`
    | .ok (some (l, r)) =>
      let actual := hf.parentCv l r isRoot
      match stack with
      | [] => ⟨[.load node], .panic, ns⟩
      | expected :: stack =>
        if actual != expected then ⟨[.load node], .cause (.parentHashMismatch node), ns⟩
        else
          let stack := if right then r :: stack else stack
          let stack := if left then l :: stack else stack
          match MFault.hits fault .s ns with
          | some _ => ⟨[.load node, .send (.parent node l r)], .sendErr, ns + 1⟩
          | none =>
            let r' := traverseLoopF hf data ob fault plan stack nd (no + 1) (ns + 1)
            ⟨.load node :: .send (.parent node l r) :: r'.log, r'.res, r'.ns⟩
  | .leaf start size isRoot ranges :: plan, stack, nd, no, ns =>
    match stack with
    | [] => ⟨[], .panic, ns⟩
    | expected :: stack =>
      match MFault.hits fault .data nd with
      | some e => ⟨[.readAt (toBytes start) size], .cause (.io e), ns⟩
      | none =>
      match readExactAt data (toBytes start) size with
      | .error e => ⟨[.readAt (toBytes start) size], .cause (.io e), ns⟩
      | .ok buf =>
        let (actual, items) : H × List (EncodedItem H) :=
          if !Ranges.isAll ranges then
            let r := traverseSelectedRec hf recFuel start buf isRoot ranges ob.tree.bs true
            (r.1, r.2.map Item.toEncoded)
          else (hashSubtree hf start buf isRoot, [.leaf (toBytes start) buf])
        if actual != expected then
          ⟨[.readAt (toBytes start) size], .cause (.leafHashMismatch start), ns⟩
        else
          let s := sendAllF fault items ns
          match s.2.1 with
          | some _ => ⟨.readAt (toBytes start) size :: s.1, .sendErr, s.2.2⟩
          | none =>
            let r' := traverseLoopF hf data ob fault plan stack (nd + 1) no s.2.2
            ⟨.readAt (toBytes start) size :: (s.1 ++ r'.log), r'.res, r'.ns⟩

/-- `traverse_ranges_validated_impl` with a fault; `ns`: calls made so far on the sender -/
def traverseImplF (hf : HashFns H) [BEq H] (data : List UInt8) (ob : Store H) (ranges : Ranges)
    (fault : Option MFault) (ns : Nat) : MixLoop H :=
  if ranges.isEmpty then ⟨[], .done, ns⟩
  else
    let ranges := Ranges.truncate ranges ob.tree.size
    match ob.tree.prePartialChunks ranges 0 with
    | none => ⟨[], .panic, ns⟩
    | some plan => traverseLoopF hf data ob fault plan [ob.root] 0 0 ns

/-- `mixed::traverse_ranges_validated(data, outboard, ranges, send)` with a fault: the io calls made,
in order, and how the function ends -/
def traverseRangesValidatedF (hf : HashFns H) [BEq H] (data : List UInt8) (ob : Store H)
    (ranges : Ranges) (fault : Option MFault) : List (MEv H) × MixEnd :=
  let first : MEv H := .send (.size ob.tree.size)
  match MFault.hits fault .s 0 with
  | some _ => ([first], .sendErr)
  | none =>
    let r := traverseImplF hf data ob ranges fault 1
    let fin (item : EncodedItem H) (t : MixEnd) : List (MEv H) × MixEnd :=
      match MFault.hits fault .s r.ns with
      | some _ => (first :: (r.log ++ [.send item]), .sendErr)
      | none => (first :: (r.log ++ [.send item]), t)
    match r.res with
    | .done => fin .done .ok
    | .cause e => fin (.error e) (.errItem e)
    | .sendErr => (first :: r.log, .sendErr)
    | .panic => (first :: r.log, .panic)

/-- the items of the `send` calls of a log -/
def MEv.sends : List (MEv H) → List (EncodedItem H)
  | [] => []
  | .send it :: es => it :: MEv.sends es
  | _ :: es => MEv.sends es

/-- the items the receiver gets: those of the `send` calls, except the one that failed (the last
call of a run ending `sendErr`) -/
def deliveredOf (r : List (MEv H) × MixEnd) : List (EncodedItem H) :=
  match r.2 with
  | .sendErr => MEv.sends r.1.dropLast
  | _ => MEv.sends r.1

end Bao
