import BaoModel.Ops4
import BaoModel.Misc
import BaoModel.FaultRead

/-!
# Driver operations, part 5: the glue around the core

`store` (direct `load` / `save` / `sync` on every outboard kind) and `misc` (error conversions and texts,
number formatting, small numeric helpers, `Default` outboards, `Parent`'s deserialiser on short sequences).
-/

namespace Bao.Ops
open Bao.Proto Bao.Serde

def loadStr : Res IoErr (Option (HB × HB)) → Option String
  | .ok none => some "none"
  | .ok (some (l, r)) => some (dig (l ++ r))
  | .err e => some (ioErrStr e)
  | .panic => none

/-- is `x` a node of the tree (an existing node or the half-filled last leaf of the shifted tree) -/
def inTree (size bs x : Nat) : Bool :=
  let n := Spec.nChunks size
  let L := Spec.levelOf x
  let k := Spec.indexOf x
  let sblocks := Spec.nBlocks size bs
  Spec.midOf k L < n || (sblocks % 2 == 1 && x == Node.subBs (sblocks - 1) bs)

/-- `store flavour kind size bs seed node` -/
def opStore (args : List String) (impl : String) : Verdict :=
  let (args, short) : List String × Option Nat := match args with
    | [a, b, c, d, e, f, sh] => ([a, b, c, d, e, f], (sh.drop 5).toString.toNat?)
    | _ => (args, none)
  match args with
  | [fl, kind, size, bs, seed, node] =>
    match flavour? fl, storeKind? kind, size.toNat?, bs.toNat?, seed.toNat?, node.toNat? with
    | some fl, some kind, some size, some bs, some seed, some node =>
      let tree : Tree := ⟨size, bs⟩
      let backing := match short with
        | some l => (randBytes seed tree.outboardSize).take l
        | none => randBytes seed tree.outboardSize
      let pair : HB × HB := (randBytes (seed + 1) 32, randBytes (seed + 2) 32)
      let s0 : Store HB := ⟨kind, zeros32, tree, backing⟩
      let l0 := Store.load hf fl s0 node
      let r := Store.save hf s0 node pair
      let (rs, s1, rp) : String × Store HB × Bool := match r with
        | .ok s => ("Ok", s, false)
        | .err e => (ioErrStr e, s0, false)
        | .panic => ("", s0, true)
      let l1 := Store.load hf fl s1 node
      let m := match loadStr l0, loadStr l1, rp with
        | some a, some c, false => s!"{a} {rs} {c} Ok {dig s1.data}"
        | _, _, _ => "panic"
      -- specification, independent of the offset functions of the model: the slot is the index of the node in
      -- the recursive traversal of the persisted nodes
      let idx := if isPostKind kind then Spec.postIndex size bs node else Spec.preIndex size bs node
      let sf : Option String :=
        if !inTree size bs node || short.isSome then none else
        match impl.splitOn " " with
        | [a, b, c, d, after] =>
          let isIo := kind == .preIo || kind == .postIo
          match idx with
          | some i =>
            let old := if kind == .empty then zerosN 64 else (backing.drop (i * 64)).take 64
            let new := if kind == .empty then zerosN 64 else pair.1 ++ pair.2
            let exp := if kind == .empty then backing else backing.take (i * 64) ++ new ++ backing.drop (i * 64 + 64)
            if a != dig old then some "load does not return the 64 bytes of the node's slot"
            else if b != "Ok" then some "save of a persisted node failed"
            else if c != dig new then some "load after save does not return the saved pair"
            else if d != "Ok" then some "sync failed"
            else if after != dig exp then some "save changed something other than the node's slot"
            else none
          | none =>
            if a != "none" || c != "none" then some "a node that is not persisted has a pair"
            else if after != dig backing then some "save of a node that is not persisted changed the backing"
            else if b != (if isIo then "Ok" else "Io(InvalidInput)") then some "save of a node that is not persisted: unexpected result"
            else none
        | _ => some "malformed (panic?)"
      { model := m, specFail := sf, nontrivial := tree.blocks > 1 }
    | _, _, _, _, _, _ => bad "store"
  | _ => bad "store"

/-- per 64-byte slot / 1024-byte chunk: `u` = still the initial filling, `t` = the true bytes, `x` = anything else -/
def flagsOf (unit : Nat) (fill : UInt8) (cur truth : List UInt8) (truthFirst : Bool) : String :=
  let n := (cur.length + unit - 1) / unit
  let s := String.ofList ((List.range n).map fun i =>
    let a := (cur.drop (i * unit)).take unit
    let t := (truth.drop (i * unit)).take unit
    let isU := a.all (· == fill)
    if truthFirst then (if a == t then 't' else if isU then 'u' else 'x')
    else (if isU then 'u' else if a == t then 't' else 'x'))
  if s.isEmpty then "-" else s

/-- `decrt k Kind flavour sink blob bs ranges sources stream fill`: `decode_ranges` with ONE failing read (the k-th
read call on the stream). Model: the run on the stream cut just before the k-th item, the terminal replaced by the
injected error (the not-found form for `UnexpectedEof`); a `sync` run retries `Interrupted` (std's `read_exact`), so
that kind changes nothing there. Specification (C01, independent of the model): no slot of the outboard and no chunk
of the target holds anything but its initial filling or the blob's true pair / bytes. -/
def opDecrT (args : List String) (impl : String) : Verdict :=
  match args with
  | [k, fkind, fl, kind, b, bs, rs, sources, expr, fill] =>
    match k.toNat?, flavour? fl, storeKind? kind, blob b, bs.toNat?, parseNatList rs, buildSources sources, fill.toNat? with
    | some k, some fl, some kind, some d, some bs, some ranges, some srcs, some fill =>
      match buildStream srcs expr with
      | none => bad "stream"
      | some stream =>
        let root := hashSubtree hf 0 d true
        let tree : Tree := ⟨d.length, bs⟩
        let ob0 := List.replicate tree.outboardSize (UInt8.ofNat 0xAA)
        let target0 := List.replicate d.length (UInt8.ofNat fill)
        let sink : Sink HB := { ob := { kind, root, tree, data := ob0 }, target := target0 }
        -- the code-shaped model with a read counter (`BaoModel/FaultRead.lean`; `Props/C01Read.lean` proves that a
        -- reached fault stops the driver in front of the item, with the effects of the run on the stream cut there,
        -- and that the C01 conclusions hold for every stream and fault). `Interrupted`: std's sync `read_exact`
        -- retries it (no fault at all); the async code reports it like any other kind (evaluated as `Other`).
        let retried := fl == .sync && fkind == "Interrupted"
        let ek : IoKind := match fkind with
          | "UnexpectedEof" => .unexpectedEof | "ConnectionReset" => .connectionReset | "WriteZero" => .writeZero
          | _ => .other
        let fault : Option ReadFault := if retried then none else some ⟨k, ⟨ek, true⟩⟩
        let run := decodeRangesR hf fl stream ranges sink fault
        let reached := !retried && ((readCalls hf fl stream ranges sink)[k]?).isSome
        let term := match run.terminal with
          | .done => "Done" | .panic => "panic"
          | .err e =>
            let t := decErrStr e
            if fkind == "Interrupted" then t.replace "Io(Other*)" "Io(Interrupted*)" else t
        let trueOb := if isPostKind kind then Spec.postOutboard hf d bs else Spec.preOutboard hf d bs
        let obf := if kind == .empty then "-" else flagsOf 64 (UInt8.ofNat 0xAA) run.sink.ob.data trueOb false
        let tf := flagsOf 1024 (UInt8.ofNat fill) run.sink.target d true
        let m := s!"{term} {dig run.sink.target} {dig run.sink.ob.data} ob={obf} t={tf}"
        let sf : Option String :=
          match impl.splitOn " " with
          | [iterm, _, _, iob, itf] =>
            if iterm == "panic" then some "decode_ranges panicked"
            else if iob.contains 'x' then some s!"a slot of the outboard holds a pair that is not the blob's: {iob}"
            else if itf.contains 'x' then some s!"a chunk of the target holds bytes that are not the blob's: {itf}"
            else if reached && iterm == "Done" then some "the failed read was swallowed"
            else none
          | _ => some "malformed (panic?)"
        { model := m, specFail := sf, nontrivial := !stream.isEmpty && reached }
    | _, _, _, _, _, _, _, _ => bad "decrt"
  | _ => bad "decrt"

/-- `flipz seed size bs m`: as `flipx`, on a SPARSE outboard: the records with index `i % m = 0` are all zero
(an incomplete outboard: pairs not yet known), plus a copy of the sparse outboard into a target that already holds
other records (a re-used target). Spec: the re-ordering of the records, zeros included. -/
def opFlipZ (args : List String) (impl : String) : Verdict :=
  match args.mapM (·.toNat?) with
  | some [seed, size, bs, m] =>
    let tree : Tree := ⟨size, bs⟩
    let raw := randBytes seed (tree.outboardSize + 32)
    let root := raw.take 32
    let data0 := raw.drop 32
    let data := (List.range (tree.outboardSize / 64)).flatMap fun i =>
      if i % (max m 1) == 0 then zerosN 64 else (data0.drop (i * 64)).take 64
    let pre : Store HB := ⟨.preMem, root, tree, data⟩
    let post : Store HB := ⟨.postMem, root, tree, data⟩
    let str (r : Res IoErr (Store HB)) : String :=
      match r with
      | .ok s => s!"{kindStr s.kind}:{dig s.root}:{dig s.data}"
      | .err e => ioErrStr e
      | .panic => "panic"
    let bind (r : Res IoErr (Store HB)) (f : Store HB → Res IoErr (Store HB)) := match r with | .ok s => f s | x => x
    let a := flip hf pre
    let a2 := bind a (flip hf)
    let b' := flip hf post
    let b2 := bind b' (flip hf)
    -- copy of the sparse pre-order outboard into a post-order target that holds other records already
    let other := randBytes (seed + 7) tree.outboardSize
    let cp := copy hf .sync pre ⟨.postMem, root, tree, other⟩
    let cpS := match cp with | .ok st => dig st.data | .err e => ioErrStr e | .panic => "panic"
    let mdl := s!"{str a} {str a2} {str b'} {str b2} {cpS}"
    let P := Spec.persistedPre size bs
    let Q := Spec.persistedPost size bs
    let rec64 (l : List UInt8) (i : Nat) : List UInt8 := (l.drop (i * 64)).take 64
    let toPost := Q.flatMap fun x => match Spec.indexOfNode P x with | some i => rec64 data i | none => []
    let toPre := P.flatMap fun x => match Spec.indexOfNode Q x with | some i => rec64 data i | none => []
    let spec := s!"postMem:{dig root}:{dig toPost} preMem:{dig root}:{dig data} preMem:{dig root}:{dig toPre} postMem:{dig root}:{dig data} {dig toPost}"
    { model := mdl, specFail := if impl == spec then none else some s!"flip / copy of a sparse outboard is not the re-ordering of its records ({spec})",
      nontrivial := tree.blocks > 2 }
  | _ => bad "flipz"

def us (s : String) : String := s.replace " " "_"

def hexNat (n : Nat) : String := String.ofList (Nat.toDigits 16 n)

def ioKind? : String → Option IoKind
  | "UnexpectedEof" => some .unexpectedEof | "Other" => some .other | "ConnectionReset" => some .connectionReset
  | "WriteZero" => some .writeZero | "InvalidInput" => some .invalidInput | "InvalidData" => some .invalidData
  | _ => none

/-- `misc what args…` -/
def opMisc (args : List String) (impl : String) : Verdict :=
  let v (m : String) (nt : Bool := true) : Verdict :=
    { model := m, specFail := if impl == m then none else some s!"expected {m}", nontrivial := nt }
  match args with
  | "encerr" :: rest =>
    let e : Option (EncodeError × String × String) := match rest with
      | ["phm", n] => n.toNat?.map fun n => (.parentHashMismatch n, s!"ParentHashMismatch(TreeNode({n}))", "0")
      | ["lhm", n] => n.toNat?.map fun n => (.leafHashMismatch n, s!"LeafHashMismatch({n})", "0")
      | ["pw", n] => n.toNat?.map fun n => (.parentWrite n, s!"ParentWrite(TreeNode({n}))", "0")
      | ["lw", n] => n.toNat?.map fun n => (.leafWrite n, s!"LeafWrite({n})", "0")
      | ["sm"] => some (.sizeMismatch, "SizeMismatch", "0")
      | ["io", k] => (ioKind? k).map fun kk => (.io ⟨kk, false⟩, "Io(Custom { kind: " ++ k ++ ", error: \"boom\" })", "1")
      | _ => none
    match e with
    | some (e, dbg, src) => v s!"{ioKindStr e.toIoKind}|{us e.ioText} {us dbg} {src}"
    | none => bad "misc encerr"
  | "decerr" :: rest =>
    let e : Option (DecodeError × String × String) := match rest with
      | ["pnf", n] => n.toNat?.map fun n => (.parentNotFound n, s!"ParentNotFound(TreeNode({n}))", "0")
      | ["lnf", n] => n.toNat?.map fun n => (.leafNotFound n, s!"LeafNotFound({n})", "0")
      | ["phm", n] => n.toNat?.map fun n => (.parentHashMismatch n, s!"ParentHashMismatch(TreeNode({n}))", "0")
      | ["lhm", n] => n.toNat?.map fun n => (.leafHashMismatch n, s!"LeafHashMismatch({n})", "0")
      | ["io", k] => (ioKind? k).map fun kk => (.io ⟨kk, false⟩, "Io(Custom { kind: " ++ k ++ ", error: \"boom\" })", "1")
      | _ => none
    match e with
    | some (e, dbg, src) => v s!"{ioKindStr e.toIoKind}|{us e.ioText} {us dbg} {src}"
    | none => bad "misc decerr"
  | ["fmt", x] =>
    match x.toNat? with
    | some x =>
      let alt := if Node.isLeaf x then s!"TreeNode::Leaf({x})" else s!"TreeNode::Branch({x},_level={Node.level x})"
      v s!"{x} TreeNode({x}) {alt} {x} {x} ChunkNum(0x{hexNat x}) BlockSize({x % 64}) BlockSize({x % 64})"
    | none => bad "misc fmt"
  | ["bsbytes", n] =>
    match n.toNat? with
    | some n =>
      -- specification: exactly the sizes 1024 * 2^k
      let m := match blockSizeFromBytes n with | none => "none" | some k => toString k
      let spec := match (List.range 54).find? (fun k => 1024 * 2 ^ k == n) with | none => "none" | some k => toString k
      { model := m, specFail := if impl == spec then none else some s!"expected {spec}" }
    | none => bad "misc bsbytes"
  | ["cnum", a, b, bs] =>
    match a.toNat?, b.toNat?, bs.toNat? with
    | some a, some b, some bs =>
      let gs := chunkGroupStart a bs
      let ge := chunkGroupEnd a bs
      let div := if b > 0 then toString (a / b) else "-"
      let sub := if a ≥ b then s!"{a - b}:{a - b}" else "-"
      let mul := if a * b < 2 ^ 64 then toString (a * b) else "-"
      let add := if a + b < 2 ^ 64 then s!"{a + b}:{a + b}" else "-"
      let cmp := s!"{bool01 (a == b)}{bool01 (a == b)}{if a < b then "<" else if a == b then "=" else ">"}"
      let m := s!"{gs} {ge} {div} {sub} {mul} {add} {cmp} {chunksOf a} {fullChunksOf a}"
      -- specification of the two roundings: the multiples of the group size around `a` (when they fit)
      let g := 2 ^ bs
      let sf := match impl.splitOn " " with
        | igs :: ige :: _ =>
          if igs != toString (a / g * g) then some "chunk_group_start is not the multiple of the group size below"
          else if (a + g - 1) / g * g < 2 ^ 64 && ige != toString ((a + g - 1) / g * g) then
            some "chunk_group_end is not the multiple of the group size above"
          else if impl != m then some s!"expected {m}"
          else none
        | _ => some "malformed"
      { model := m, specFail := sf }
    | _, _, _ => bad "misc cnum"
  | ["bchunk", sz] => v s!"{sz} 64 L0:0:1"
  | ["dbg", n] =>
    match n.toNat? with
    | some n => v s!"Leaf_\{_offset:_{n},_data:_{n % 5}_} ResponseIter_\{_.._} 111"
    | none => bad "misc dbg"
  | ["defaults"] =>
    let e := hex (hashSubtree hf 0 [] true)
    v s!"{e} 11 {e} {e}"
  | ["parentde", k] =>
    match k.toNat? with
    | some k =>
      let harr := str "[" ++ (str ",").intercalate ((List.range 32).map fun i => jsNat (i * 3 % 256)) ++ str "]"
      let elems := ([jsNat 5, harr, harr, harr].take k)
      let js := str "[" ++ (str ",").intercalate elems ++ str "]"
      let m := match jsReadParent js with
        | some (p, []) => s!"Ok({p.node})"
        | _ => "Err"
      { model := m, specFail := if impl == (if k == 3 then "Ok(5)" else "Err") then none else some "Parent must be a sequence of exactly three elements" }
    | none => bad "misc parentde"
  | _ => bad "misc"

end Bao.Ops
