import BaoModel.Validate

/-!
# Specification layer

Short, recursive, arithmetic definitions that say what the code-shaped model is
supposed to compute.  Theorems (in `BaoProofs`) relate the model to these; the
driver evaluates them on the *implementation's* outputs (the "spec verdict").
-/

namespace Bao.Spec

/-! ## nodes in `(k, L)` coordinates: id `(2k+1)·2^L − 1` -/

/-- number of trailing zero bits of `y` (for `y > 0`), by repeated halving -/
def tz : Nat → Nat → Nat
  | 0, _ => 0
  | fuel + 1, y => if y % 2 = 0 ∧ y ≠ 0 then tz fuel (y / 2) + 1 else 0

/-- level of node `x`: number of trailing zeros of `x + 1` -/
def levelOf (x : Nat) : Nat := tz 64 (x + 1)

/-- index `k` of node `x` within its level -/
def indexOf (x : Nat) : Nat := (x + 1) / 2 ^ levelOf x / 2

/-- the node with coordinates `(k, L)` -/
def nodeOf (k L : Nat) : Nat := (2 * k + 1) * 2 ^ L - 1

/-- first chunk of the (untruncated) interval of node `(k, L)` -/
def startOf (k L : Nat) : Nat := k * 2 ^ (L + 1)

/-- one past the last chunk of the (untruncated) interval of node `(k, L)` -/
def endOf (k L : Nat) : Nat := (k + 1) * 2 ^ (L + 1)

/-- the first chunk of the right half -/
def midOf (k L : Nat) : Nat := k * 2 ^ (L + 1) + 2 ^ L

/-- number of one bits -/
def popc : Nat → Nat → Nat
  | 0, _ => 0
  | fuel + 1, x => if x = 0 then 0 else x % 2 + popc fuel (x / 2)

/-! ## tree of a blob -/

/-- number of chunks of a blob of `size` bytes, at least 1 -/
def nChunks (size : Nat) : Nat := max 1 ((size + 1023) / 1024)

/-- number of chunk groups (blocks), at least 1 -/
def nBlocks (size bs : Nat) : Nat := max 1 ((size + 2 ^ (bs + 10) - 1) / 2 ^ (bs + 10))

/-- smallest `h` with `2^h ≥ n` -/
def log2ceil : Nat → Nat → Nat
  | 0, _ => 0
  | fuel + 1, n => if n ≤ 1 then 0 else log2ceil fuel ((n + 1) / 2) + 1

/-- node `(k, L)` exists in the tree over `n` leaves-units iff its mid has something to the right -/
def inTree (n k L : Nat) : Bool := midOf k L < n

/--
Pre-order list of the nodes of level ≥ `minL` of the subtree rooted at the *complete-tree*
node `(k, L)`, restricted to a blob of `n` chunks: a node whose mid is not inside the blob
is skipped (its left child takes its place).
-/
def preNodes (n minL : Nat) : Nat → Nat → List Nat
  | 0, k => if midOf k 0 < n ∧ 0 ≥ minL then [nodeOf k 0] else []
  | L + 1, k =>
    if midOf k (L + 1) < n then
      (if L + 1 ≥ minL then [nodeOf k (L + 1)] else []) ++
        preNodes n minL L (2 * k) ++ preNodes n minL L (2 * k + 1)
    else preNodes n minL L (2 * k)

/-- post-order twin of `preNodes` -/
def postNodes (n minL : Nat) : Nat → Nat → List Nat
  | 0, k => if midOf k 0 < n ∧ 0 ≥ minL then [nodeOf k 0] else []
  | L + 1, k =>
    if midOf k (L + 1) < n then
      postNodes n minL L (2 * k) ++ postNodes n minL L (2 * k + 1) ++
        (if L + 1 ≥ minL then [nodeOf k (L + 1)] else [])
    else postNodes n minL L (2 * k)

/-- the persisted nodes of `(size, bs)` in pre-order -/
def persistedPre (size bs : Nat) : List Nat :=
  preNodes (nChunks size) bs (log2ceil 64 (nChunks size)) 0

/-- the persisted nodes of `(size, bs)` in post-order -/
def persistedPost (size bs : Nat) : List Nat :=
  postNodes (nChunks size) bs (log2ceil 64 (nChunks size)) 0

/-! ### the same indices by counting (usable on huge trees) -/

/-- number of level-`L'` nodes `(k', L')`, `lo ≤ k' < hi`, that exist in a blob of `n` chunks -/
def countLevel (n L' lo hi : Nat) : Nat :=
  if n ≤ 2 ^ L' then 0
  else
    let lim := (n - 2 ^ L' + 2 ^ (L' + 1) - 1) / 2 ^ (L' + 1)   -- k' < lim ⇔ mid < n
    min hi lim - min lo lim

/-- number of existing nodes of level ≥ `minL` in the complete subtree `(k, L)` -/
def countSub (n minL L k : Nat) : Nat :=
  (List.range (L + 1)).foldl (fun acc L' =>
    if L' ≥ minL then acc + countLevel n L' (k * 2 ^ (L - L')) ((k + 1) * 2 ^ (L - L')) else acc) 0

/-- pre-order index of node `(kx, Lx)` among the existing nodes of level ≥ `minL`,
walking down from `(k, L)`; `none` if it is not one of them -/
def preIndexAux (n minL kx Lx : Nat) : Nat → Nat → Nat → Option Nat
  | L, k, idx =>
    if L = Lx then
      if k = kx ∧ midOf k L < n ∧ L ≥ minL then some idx else none
    else if L < Lx then none
    else
      match L with
      | 0 => none
      | L' + 1 =>
        let here := if midOf k (L' + 1) < n ∧ L' + 1 ≥ minL then 1 else 0
        -- does x lie in the left half?
        if startOf kx Lx < midOf k (L' + 1) then preIndexAux n minL kx Lx L' (2 * k) (idx + here)
        else preIndexAux n minL kx Lx L' (2 * k + 1) (idx + here + countSub n minL L' (2 * k))

/-- post-order twin -/
def postIndexAux (n minL kx Lx : Nat) : Nat → Nat → Nat → Option Nat
  | L, k, idx =>
    if L = Lx then
      if k = kx ∧ midOf k L < n ∧ L ≥ minL then some (idx + countSub n minL L k - 1) else none
    else if L < Lx then none
    else
      match L with
      | 0 => none
      | L' + 1 =>
        if startOf kx Lx < midOf k (L' + 1) then postIndexAux n minL kx Lx L' (2 * k) idx
        else postIndexAux n minL kx Lx L' (2 * k + 1) (idx + countSub n minL L' (2 * k))

def preIndex (size bs x : Nat) : Option Nat :=
  let n := nChunks size
  let L := levelOf x
  let k := indexOf x
  if startOf k L ≥ n then none else
  preIndexAux n bs k L (max (log2ceil 64 n) L) 0 0

def postIndex (size bs x : Nat) : Option Nat :=
  let n := nChunks size
  let L := levelOf x
  let k := indexOf x
  if startOf k L ≥ n then none else
  postIndexAux n bs k L (max (log2ceil 64 n) L) 0 0

/-! ## selection -/

/-- is chunk `c` selected by query `q` on a blob of `size` bytes:
queried chunks inside the blob, plus the last chunk when the query reaches it or past it -/
def selected (size : Nat) (q : Ranges) (c : Nat) : Bool :=
  let n := nChunks size
  decide (c < n) && (Ranges.contains q c ||
    (c == n - 1 && ((List.range (q.length)).any fun i =>
       -- some point `x ≥ n - 1` is in `q`: a range [a,b) with b > n-1, or an open end
       if i % 2 == 0 then
         match q[i]?, q[i+1]? with
         | some _, some b => decide (b > n - 1)
         | some _, none => true
         | _, _ => false
       else false)))

/-- index of an element in a list -/
def indexOfNode (l : List Nat) (x : Nat) : Option Nat :=
  let i := l.takeWhile (· != x) |>.length
  if i < l.length then some i else none


/-! ## the BLAKE3 / bao tree of a blob, on chunk intervals -/

/-- bytes of the chunk interval `[a, b)` of blob `d` -/
def slice (d : List UInt8) (a b : Nat) : List UInt8 := (d.drop (a * 1024)).take ((b - a) * 1024)

/-- chaining value of the chunk interval `[a, b)` (clipped to the blob by `slice`) -/
def cv (hf : HashFns H) (d : List UInt8) (a b : Nat) (isRoot : Bool) : H :=
  hashSubtree hf a (slice d a b) isRoot

/-- root hash of a blob -/
def root (hf : HashFns H) (d : List UInt8) : H := cv hf d 0 (nChunks d.length) true

/-- the two child chaining values of node `(k, L)` of blob `d` (node must exist: `midOf k L < n`) -/
def pair (hf : HashFns H) (d : List UInt8) (k L : Nat) : H × H :=
  let n := nChunks d.length
  (cv hf d (startOf k L) (midOf k L) false, cv hf d (midOf k L) (min (endOf k L) n) false)

/-- the 64 stored bytes of a node -/
def pairBytes (hf : HashFns H) (d : List UInt8) (x : Nat) : List UInt8 :=
  let p := pair hf d (indexOf x) (levelOf x)
  hf.toBytes p.1 ++ hf.toBytes p.2

/-- pre-order outboard: the pairs of the persisted nodes in pre-order -/
def preOutboard (hf : HashFns H) (d : List UInt8) (bs : Nat) : List UInt8 :=
  (persistedPre d.length bs).flatMap (pairBytes hf d)

/-- post-order outboard -/
def postOutboard (hf : HashFns H) (d : List UInt8) (bs : Nat) : List UInt8 :=
  (persistedPost d.length bs).flatMap (pairBytes hf d)

/-- some chunk of `[a, b)` is selected -/
def anySel (sel : Nat → Bool) (a b : Nat) : Bool := (List.range (b - a)).any fun i => sel (a + i)

/-- every chunk of `[a, b)` is selected -/
def allSel (sel : Nat → Bool) (a b : Nat) : Bool := (List.range (b - a)).all fun i => sel (a + i)

/-- one element of the honest item stream -/
inductive SItem
  | parent (node : Nat) (bytes : List UInt8)
  | leaf (startChunk : Nat) (bytes : List UInt8)
deriving Repr, DecidableEq, BEq

/--
The honest encoding of the selection `sel` of blob `d` at block size `bs`, as items, for the
interval of height `h` and index `j` (chunks `[j·2^h, (j+1)·2^h) ∩ [0, n)`):
nothing if the selection misses the interval; the chunk for a single chunk; otherwise the
hash pair (omitted iff the interval is completely selected and has at most `2^bs` chunks)
followed by the encodings of the two halves.  Leaves inside a fully selected group are
merged into one leaf item by `mergeLeaves`.
-/
def itemsI (hf : HashFns H) (d : List UInt8) (n bs : Nat) (sel : Nat → Bool) : Nat → Nat → List SItem
  | 0, j => if sel j then [.leaf j (slice d j (j + 1))] else []
  | h + 1, j =>
    let start := j * 2 ^ (h + 1)
    let mid := start + 2 ^ h
    let stop := min ((j + 1) * 2 ^ (h + 1)) n
    if !anySel sel start stop then []
    else if mid ≥ n then itemsI hf d n bs sel h (2 * j)
    else if allSel sel start stop && decide (h + 1 ≤ bs) then [.leaf start (slice d start stop)]
    else
      .parent (nodeOf j h) (hf.toBytes (cv hf d start mid false) ++ hf.toBytes (cv hf d mid stop false))
        :: (itemsI hf d n bs sel h (2 * j) ++ itemsI hf d n bs sel h (2 * j + 1))

def SItem.bytes : SItem → List UInt8
  | .parent _ b => b
  | .leaf _ b => b

/-- `Spec.items`: the honest item stream of query `q` -/
def items (hf : HashFns H) (d : List UInt8) (bs : Nat) (q : Ranges) : List SItem :=
  let n := nChunks d.length
  itemsI hf d n bs (selected d.length q) (log2ceil 64 n) 0

/-- `Spec.encode`: the honest encoding -/
def encode (hf : HashFns H) (d : List UInt8) (bs : Nat) (q : Ranges) : List UInt8 :=
  (items hf d bs q).flatMap SItem.bytes

end Bao.Spec
