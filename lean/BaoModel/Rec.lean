import BaoModel.Hash
import BaoModel.Iter

/-!
# L4: recursive sub-group encoder (`src/rec.rs`, `src/io/mixed.rs`)

`encode_selected_rec` and `traverse_selected_rec`, written as structural
recursion on a level bound `L` with `data.length ≤ 2^L * 1024` (the Rust code
recomputes `chunks.next_power_of_two()` at every call; skipping a level whose
left half already holds all the data is the same thing).  The back-filling of
the 64 placeholder bytes is not observable; the pair is emitted in place.
-/

namespace Bao

/-- wire items (`BaoContentItem`, and the `Parent` / `Leaf` cases of `EncodedItem`) -/
inductive Item (H : Type)
  | parent (node : Nat) (l r : H)
  | leaf (offset : Nat) (data : List UInt8)
deriving Repr, DecidableEq, BEq

/-- `encode_selected_rec(start_chunk, data, is_root, query, min_level, emit_data, res)`:
returns the hash and the bytes appended to `res` -/
def encodeSelectedRec (hf : HashFns H) :
    Nat → Nat → List UInt8 → Bool → Ranges → Nat → Bool → H × List UInt8
  | 0, start, data, isRoot, query, _, emitData =>
    (hashSubtree hf start data isRoot, if emitData && !query.isEmpty then data else [])
  | L + 1, start, data, isRoot, query, minLevel, emitData =>
    if data.length ≤ chunkLen then
      (hashSubtree hf start data isRoot, if emitData && !query.isEmpty then data else [])
    else if data.length ≤ 2 ^ L * chunkLen then
      encodeSelectedRec hf L start data isRoot query minLevel emitData
    else
      let level := L
      let mid := 2 ^ L
      let midChunk := start + mid
      let (lr, rr) := Ranges.splitInner query start midChunk
      let full := Ranges.isAll query
      let emitParent := !query.isEmpty && (!full || decide (level ≥ minLevel))
      let (lh, lout) := encodeSelectedRec hf L start (data.take (mid * chunkLen)) false lr minLevel emitData
      let (rh, rout) := encodeSelectedRec hf L midChunk (data.drop (mid * chunkLen)) false rr minLevel emitData
      (hf.parentCv lh rh isRoot,
       (if emitParent then hf.toBytes lh ++ hf.toBytes rh else []) ++ lout ++ rout)

/-- `traverse_selected_rec` (`mixed.rs`): same recursion, emitting items; parents inside a
chunk group are labelled `TreeNode(0)` by the code -/
def traverseSelectedRec (hf : HashFns H) :
    Nat → Nat → List UInt8 → Bool → Ranges → Nat → Bool → H × List (Item H)
  | 0, start, data, isRoot, query, _, emitData =>
    (hashSubtree hf start data isRoot,
      if emitData && !query.isEmpty then [.leaf (toBytes start) data] else [])
  | L + 1, start, data, isRoot, query, minLevel, emitData =>
    if data.length ≤ chunkLen then
      (hashSubtree hf start data isRoot,
        if emitData && !query.isEmpty then [.leaf (toBytes start) data] else [])
    else if data.length ≤ 2 ^ L * chunkLen then
      traverseSelectedRec hf L start data isRoot query minLevel emitData
    else
      let level := L
      let mid := 2 ^ L
      let midChunk := start + mid
      let (lr, rr) := Ranges.splitInner query start midChunk
      let full := Ranges.isAll query
      let emitParent := !query.isEmpty && (!full || decide (level ≥ minLevel))
      let (lh, lout) := traverseSelectedRec hf L start (data.take (mid * chunkLen)) false lr minLevel emitData
      let (rh, rout) := traverseSelectedRec hf L midChunk (data.drop (mid * chunkLen)) false rr minLevel emitData
      (hf.parentCv lh rh isRoot,
       (if emitParent then [Item.parent 0 lh rh] else []) ++ lout ++ rout)

/-- level bound used at the call sites (a chunk group has at most `2^bs` chunks, `bs ≤ 63`) -/
def recFuel : Nat := 64

end Bao
