import BaoModel.Codec

/-!
# validators (`sync::valid_ranges`, `sync::valid_outboard_ranges`, and the fsm twins)
and the item-stream traversal of `src/io/mixed.rs`
-/

namespace Bao

inductive ValEnd
  | ok
  | err (e : IoErr)
  | panic
deriving Repr, DecidableEq, BEq

/-- the items a validator yields: chunk ranges, then possibly one error -/
structure ValRun where
  yields : List (Nat × Nat)
  terminal : ValEnd
deriving Repr, DecidableEq, BEq

/-- `yield_if_valid` -/
def yieldIfValid (hf : HashFns H) [BEq H] (data : List UInt8) (s e : Nat) (hash : H) (isRoot : Bool) :
    Except IoErr (List (Nat × Nat)) :=
  match readExactAt data s (e - s) with
  | .error err => .error err
  | .ok tmp =>
    let actual := hashSubtree hf (fullChunksOf s) tmp isRoot
    if actual == hash then .ok [(fullChunksOf s, chunksOf e)] else .ok []

/-- sequencing of two validator runs -/
def ValRun.andThen (a : ValRun) (b : Unit → ValRun) : ValRun :=
  match a.terminal with
  | .ok => let r := b (); ⟨a.yields ++ r.yields, r.terminal⟩
  | _ => a

/-- `RecursiveDataValidator::validate_rec` (`withData = true`) and
`RecursiveOutboardValidator::validate_rec` (`withData = false`); `fuel` > level of `shifted` -/
def validateRec (hf : HashFns H) [BEq H] (fl : Flavour) (withData : Bool) (ob : Store H)
    (data : List UInt8) (filled : Nat) :
    Nat → H → Nat → Bool → Ranges → ValRun
  | 0, _, _, _, _ => ⟨[], .panic⟩
  | fuel + 1, parentHash, shifted, isRoot, ranges =>
    if ranges.isEmpty then ⟨[], .ok⟩
    else
      let tree := ob.tree
      let node := Node.subBs shifted tree.bs
      let (l, m, r) := tree.leafByteRanges3 node
      let yieldRange (s e : Nat) (h : H) (root : Bool) : ValRun :=
        if withData then
          match yieldIfValid hf data s e h root with
          | .error err => ⟨[], .err err⟩
          | .ok ys => ⟨ys, .ok⟩
        else ⟨[(fullChunksOf s, chunksOf e)], .ok⟩
      if !tree.isRelevant node then yieldRange l r parentHash isRoot
      else
        match ob.load hf fl node with
        | .err e => ⟨[], .err e⟩
        | .panic => ⟨[], .panic⟩
        | .ok none => ⟨[], .ok⟩
        | .ok (some (lh, rh)) =>
          let actual := hf.parentCv lh rh isRoot
          if actual != parentHash then ⟨[], .ok⟩
          else
            let (lr, rr) := Ranges.splitNode ranges node
            if Node.isLeaf shifted then
              (if !lr.isEmpty then yieldRange l m lh false else ⟨[], .ok⟩).andThen fun _ =>
                (if !rr.isEmpty then yieldRange m r rh false else ⟨[], .ok⟩)
            else
              match Node.leftChild shifted, Node.rightDescendant shifted filled with
              | some left, some right =>
                (validateRec hf fl withData ob data filled fuel lh left false lr).andThen fun _ =>
                  validateRec hf fl withData ob data filled fuel rh right false rr
              | _, _ => ⟨[], .panic⟩

/-- `valid_ranges(outboard, data, ranges)` -/
def validRanges (hf : HashFns H) [BEq H] (fl : Flavour) (ob : Store H) (data : List UInt8)
    (ranges : Ranges) : ValRun :=
  let tree := ob.tree
  if tree.blocks == 1 then
    match readExactAt data 0 tree.size with
    | .error e => ⟨[], .err e⟩
    | .ok tmp =>
      if hashSubtree hf 0 tmp true == ob.root then ⟨[(0, tree.chunks)], .ok⟩ else ⟨[], .ok⟩
  else
    let ranges := Ranges.truncate ranges tree.size
    let (root, filled) := tree.shifted
    validateRec hf fl true ob data filled 65 ob.root root true ranges

/-- `valid_outboard_ranges(outboard, ranges)` -/
def validOutboardRanges (hf : HashFns H) [BEq H] (fl : Flavour) (ob : Store H) (ranges : Ranges) :
    ValRun :=
  let tree := ob.tree
  if tree.blocks == 1 then ⟨[(0, tree.chunks)], .ok⟩
  else
    let ranges := Ranges.truncate ranges tree.size
    let (root, filled) := tree.shifted
    validateRec hf fl false ob [] filled 65 ob.root root true ranges

/-! ## `mixed::traverse_ranges_validated` -/

/-- `EncodedItem` -/
inductive EncodedItem (H : Type)
  | size (n : Nat)
  | parent (node : Nat) (l r : H)
  | leaf (offset : Nat) (data : List UInt8)
  | error (e : EncodeError)
  | done
deriving Repr, DecidableEq, BEq

def Item.toEncoded : Item H → EncodedItem H
  | .parent n l r => .parent n l r
  | .leaf o d => .leaf o d

/-- loop of `traverse_ranges_validated_impl`; `panic = true` in the result means a Rust panic -/
def traverseLoop (hf : HashFns H) [BEq H] (data : List UInt8) (ob : Store H) :
    List Chunk → List H → List (EncodedItem H) → List (EncodedItem H) × EncEnd
  | [], _, out => (out, .ok)
  | .parent node isRoot left right _ :: plan, stack, out =>
    match ob.load hf .sync node with
    | .err e => (out, .err (.io e))
    | .panic => (out, .panic)
    | .ok none => (out, .panic)
    | .ok (some (l, r)) =>
      let actual := hf.parentCv l r isRoot
      match stack with
      | [] => (out, .panic)
      | expected :: stack =>
        if actual != expected then (out, .err (.parentHashMismatch node))
        else
          let stack := if right then r :: stack else stack
          let stack := if left then l :: stack else stack
          traverseLoop hf data ob plan stack (out ++ [.parent node l r])
  | .leaf start size isRoot ranges :: plan, stack, out =>
    match stack with
    | [] => (out, .panic)
    | expected :: stack =>
      match readExactAt data (toBytes start) size with
      | .error e => (out, .err (.io e))
      | .ok buf =>
        if !Ranges.isAll ranges then
          let (actual, items) := traverseSelectedRec hf recFuel start buf isRoot ranges ob.tree.bs true
          if actual != expected then (out, .err (.leafHashMismatch start))
          else traverseLoop hf data ob plan stack (out ++ items.map Item.toEncoded)
        else
          let actual := hashSubtree hf start buf isRoot
          if actual != expected then (out, .err (.leafHashMismatch start))
          else traverseLoop hf data ob plan stack (out ++ [.leaf (toBytes start) buf])

/-- `traverse_ranges_validated` with a sender that never fails: the items sent; `none` = panic -/
def traverseRangesValidated (hf : HashFns H) [BEq H] (data : List UInt8) (ob : Store H)
    (ranges : Ranges) : Option (List (EncodedItem H)) :=
  let first : List (EncodedItem H) := [.size ob.tree.size]
  if ranges.isEmpty then some (first ++ [.done])
  else
    let ranges := Ranges.truncate ranges ob.tree.size
    match ob.tree.prePartialChunks ranges 0 with
    | none => none
    | some plan =>
      match traverseLoop hf data ob plan [ob.root] [] with
      | (items, .ok) => some (first ++ items ++ [.done])
      | (items, .err e) => some (first ++ items ++ [.error e])
      | (_, .panic) => none

/-- bytes of an item stream: what the byte encoders would have written -/
def EncodedItem.flatten (hf : HashFns H) : EncodedItem H → List UInt8
  | .parent _ l r => hf.toBytes l ++ hf.toBytes r
  | .leaf _ d => d
  | _ => []

end Bao
