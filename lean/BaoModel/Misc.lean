import BaoModel.Store

/-!
# Small public helpers around the core

`ChunkNum::chunk_group_end`, `BlockSize::from_bytes` (`src/tree.rs`), the texts of
`io::Error::from(DecodeError)` / `io::Error::from(EncodeError)` (`src/io/error.rs`) and the `Display` / `Debug`
impls of the number types.  (Kept apart from `Tree.lean` so that the proof files do not depend on it.)
-/

namespace Bao

/-- `ChunkNum::chunk_group_end` (`u64`: the final `<<` drops what does not fit into 64 bits) -/
def chunkGroupEnd (e bs : Nat) : Nat :=
  let part := if e % 2 ^ bs ≠ 0 then 1 else 0
  ((e / 2 ^ bs + part) * 2 ^ bs) % 2 ^ 64

/-- `BlockSize::from_bytes`: `Some(log2 bytes - 10)` for powers of two from 1024 on -/
def blockSizeFromBytes (bytes : Nat) : Option Nat :=
  if popcount bytes ≠ 1 then none
  else if bytes < 1024 then none
  else some (Nat.log2 bytes - 10)

/-- `ChunkNum::to_bytes` on `u64` (`<< 10` drops the high bits) -/
def toBytes64 (c : Nat) : Nat := (c * 1024) % 2 ^ 64

/-- message of `io::Error::from(DecodeError)` for the variants that build one -/
def DecodeError.ioText : DecodeError → String
  | .parentHashMismatch n => s!"parent hash mismatch (level {Node.level n}, block {Node.mid n})"
  | .leafHashMismatch c => s!"leaf hash mismatch (offset {toBytes64 c})"
  | .leafNotFound c => s!"LeafNotFound({c})"
  | .parentNotFound n => s!"ParentNotFound(TreeNode({n}))"
  | .io _ => "boom"

/-- message of `io::Error::from(EncodeError)` -/
def EncodeError.ioText : EncodeError → String
  | .parentHashMismatch n => s!"parent hash mismatch (level {Node.level n}, block {Node.mid n})"
  | .leafHashMismatch c => s!"leaf hash mismatch at {toBytes64 c}"
  | .parentWrite n => s!"parent write failed (level {Node.level n}, block {Node.mid n})"
  | .leafWrite c => s!"leaf write failed at {toBytes64 c}"
  | .sizeMismatch => "size mismatch"
  | .io _ => "boom"

end Bao
