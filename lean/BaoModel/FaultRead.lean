import BaoModel.Codec

/-!
# `decode_ranges` with ONE failing read of the stream (driver operation `decrt`)

`sync::decode_ranges` / `fsm::decode_ranges` run on a stream reader whose `k`-th read CALL fails
once with an io error.  The decoders of `Codec.lean` are repeated here with a counter of the read
calls made on the stream threaded through; everything else is unchanged.

Read calls (plain in-memory stream below the failing wrapper, as in the harness):
* fsm: every plan item makes exactly one call (`read::<64>()` for a parent,
  `read_bytes_exact(size)` → one `read_bytes(size)` for a leaf), also a leaf of size 0;
* sync: a parent is `read_exact` of 64 bytes, a leaf `read_exact` of `size` bytes.  std's
  `read_exact` loops over `read` while the buffer is not full: NO call for an empty buffer (the
  single leaf of the empty blob), ONE call when the stream holds enough bytes or is at its end
  (`Ok(0)` → `UnexpectedEof`), and TWO calls when the stream holds some but not enough bytes (the
  first call returns the partial bytes, the second finds the end).

A failing call returns the injected error instead of data; the decoder maps it with
`maybe_parent_not_found` / `maybe_leaf_not_found` (`UnexpectedEof` → the not-found variants,
anything else → `Io(err)`) and `decode_ranges` returns at once (`item?`).
-/

namespace Bao

/-- the `k`-th read call (0-based) on the stream fails with `err` -/
structure ReadFault where
  k : Nat
  err : IoErr
deriving Repr, DecidableEq

/-- does the `c`-th read call fail? -/
def ReadFault.hits (f : Option ReadFault) (c : Nat) : Option IoErr :=
  match f with
  | some ⟨k, e⟩ => if k == c then some e else none
  | none => none

/-- `read_exact` (sync) / `read::<N>()`, `read_bytes_exact(n)` (fsm) of `n` bytes on the plain
stream `s` behind the failing wrapper; `c` = read calls made so far.  Returns the result and the
number of read calls made afterwards. -/
def readExactR (fl : Flavour) (f : Option ReadFault) (s : List UInt8) (n c : Nat) :
    Except IoErr (List UInt8 × List UInt8) × Nat :=
  -- std's `read_exact` on an empty buffer makes no call at all
  if fl == .sync && n == 0 then (.ok ([], s), c)
  else
    match ReadFault.hits f c with
    | some e => (.error e, c + 1)
    | none =>
      if n ≤ s.length then (.ok (s.take n, s.drop n), c + 1)
      else if fl == .sync && !s.isEmpty then
        -- sync: the first call returned the `s.length < n` bytes left, `read_exact` calls again
        match ReadFault.hits f (c + 1) with
        | some e => (.error e, c + 2)
        | none => (.error ⟨.unexpectedEof, false⟩, c + 2)
      else (.error ⟨.unexpectedEof, false⟩, c + 1)

/-- `DecodeResponseIter::next` (sync) with the read counter `c` -/
def Dec.nextSyncR (hf : HashFns H) [BEq H] (f : Option ReadFault) (d : Dec H) (c : Nat) :
    DecNext H (Dec H × Nat) :=
  match Response.next d.iter with
  | .done => .done (d, c)
  | .panic => .panic
  | .item (.parent node isRoot left right _) iter =>
    match readExactR .sync f d.encoded 64 c with
    | (.error e, c) => .err (DecodeError.maybeParentNotFound e node) ({ d with iter }, c)
    | (.ok (buf, rest), c) =>
      let (l, r) := parsePair hf buf
      match d.stack with
      | [] => .panic
      | parentHash :: stack =>
        let actual := hf.parentCv l r isRoot
        if parentHash != actual then
          .err (.parentHashMismatch node) ({ d with iter, stack, encoded := rest }, c)
        else
          let stack := if right then r :: stack else stack
          let stack := if left then l :: stack else stack
          .item (.parent node l r) ({ d with iter, stack, encoded := rest }, c)
  | .item (.leaf start size isRoot _) iter =>
    match readExactR .sync f d.encoded size c with
    | (.error e, c) => .err (DecodeError.maybeLeafNotFound e start) ({ d with iter }, c)
    | (.ok (buf, rest), c) =>
      let actual := hashSubtree hf start buf isRoot
      match d.stack with
      | [] => .panic
      | leafHash :: stack =>
        if leafHash != actual then
          .err (.leafHashMismatch start) ({ d with iter, stack, encoded := rest }, c)
        else
          .item (.leaf (toBytes start) buf) ({ d with iter, stack, encoded := rest }, c)

/-- `ResponseDecoder::next` (fsm) with the read counter `c` -/
def Dec.nextFsmR (hf : HashFns H) [BEq H] (f : Option ReadFault) (d : Dec H) (c : Nat) :
    DecNext H (Dec H × Nat) :=
  match Response.next d.iter with
  | .done => .done (d, c)
  | .panic => .panic
  | .item (.parent node isRoot left right _) iter =>
    match readExactR .fsm f d.encoded 64 c with
    | (.error e, c) => .err (DecodeError.maybeParentNotFound e node) ({ d with iter }, c)
    | (.ok (buf, rest), c) =>
      let (l, r) := parsePair hf buf
      match d.stack with
      | [] => .panic
      | parentHash :: stack =>
        let actual := hf.parentCv l r isRoot
        let stack := if right then r :: stack else stack
        let stack := if left then l :: stack else stack
        if parentHash != actual then
          .err (.parentHashMismatch node) ({ d with iter, stack, encoded := rest }, c)
        else
          .item (.parent node l r) ({ d with iter, stack, encoded := rest }, c)
  | .item (.leaf start size isRoot _) iter =>
    match readExactR .fsm f d.encoded size c with
    | (.error e, c) => .err (DecodeError.maybeLeafNotFound e start) ({ d with iter }, c)
    | (.ok (buf, rest), c) =>
      match d.stack with
      | [] => .panic
      | leafHash :: stack =>
        let actual := hashSubtree hf start buf isRoot
        if leafHash != actual then
          .err (.leafHashMismatch start) ({ d with iter, stack, encoded := rest }, c)
        else
          .item (.leaf (toBytes start) buf) ({ d with iter, stack, encoded := rest }, c)

/-- one decoder step with the read counter: the new state comes with the new counter -/
def Dec.nextR (hf : HashFns H) [BEq H] (fl : Flavour) (f : Option ReadFault) (d : Dec H) (c : Nat) :
    DecNext H (Dec H × Nat) :=
  match fl with
  | .sync => d.nextSyncR hf f c
  | .fsm => d.nextFsmR hf f c

/-- the loop of `decode_ranges` (as `decodeRangesAux`) with the read counter `c` -/
def decodeRangesRAux (hf : HashFns H) [BEq H] (fl : Flavour) (tree : Tree) (f : Option ReadFault) :
    Nat → Dec H → Nat → Sink H → List (Nat × Nat) → List Nat → DecodeRangesRun H
  | 0, d, _, sink, ws, ss => ⟨sink, .panic, d.encoded, ws.reverse, ss.reverse⟩
  | fuel + 1, d, c, sink, ws, ss =>
    match d.nextR hf fl f c with
    | .done (d', _) => ⟨sink, .done, d'.encoded, ws.reverse, ss.reverse⟩
    | .err e (d', _) => ⟨sink, .err e, d'.encoded, ws.reverse, ss.reverse⟩
    | .panic => ⟨sink, .panic, d.encoded, ws.reverse, ss.reverse⟩
    | .item (.parent node l r) (d', c') =>
      if tree.isRelevant node then
        match sink.ob.save hf node (l, r) with
        | .ok ob => decodeRangesRAux hf fl tree f fuel d' c' { sink with ob } ws (node :: ss)
        | .err e => ⟨sink, .err (.io e), d'.encoded, ws.reverse, (node :: ss).reverse⟩
        | .panic => ⟨sink, .panic, d'.encoded, ws.reverse, (node :: ss).reverse⟩
      else decodeRangesRAux hf fl tree f fuel d' c' sink ws ss
    | .item (.leaf off data) (d', c') =>
      decodeRangesRAux hf fl tree f fuel d' c'
        { sink with target := writeAt sink.target off data } ((off, data.length) :: ws) ss

/-- `sync::decode_ranges` / `fsm::decode_ranges` on a stream whose `f.k`-th read call fails with
`f.err` (`none`: no failing call) -/
def decodeRangesR (hf : HashFns H) [BEq H] (fl : Flavour) (encoded : List UInt8) (ranges : Ranges)
    (sink : Sink H) (f : Option ReadFault) : DecodeRangesRun H :=
  let tree := sink.ob.tree
  let d := Dec.new sink.ob.root tree ranges encoded
  decodeRangesRAux hf fl tree f (PrePartial.fuelFor d.iter.tree + 1) d 0 sink [] []

/-! ## the read calls of the fault-free run (instrumentation, used to say where a fault lands) -/

/-- one read call on the stream: made for plan item number `item`, whose bytes start at offset
`off` of the stream; `chunk` is the plan item (without ranges) -/
structure ReadCall where
  item : Nat
  off : Nat
  chunk : Chunk
deriving Repr, DecidableEq

/-- the error `decode_ranges` reports when this call fails with `e` -/
def ReadCall.fail (rc : ReadCall) (e : IoErr) : DecodeError :=
  match rc.chunk with
  | .parent node .. => DecodeError.maybeParentNotFound e node
  | .leaf start .. => DecodeError.maybeLeafNotFound e start

/-- number of read calls a fault-free read of `n` bytes makes on the stream `s` -/
def readCallsOf (fl : Flavour) (s : List UInt8) (n : Nat) : Nat :=
  if fl == .sync && n == 0 then 0
  else if n ≤ s.length then 1
  else if fl == .sync && !s.isEmpty then 2
  else 1

/-- twin of `decodeRangesAux`: the read calls made, in order (`j` items done, `off` bytes read) -/
def readCallsAux (hf : HashFns H) [BEq H] (fl : Flavour) (tree : Tree) :
    Nat → Dec H → Store H → Nat → Nat → List ReadCall
  | 0, _, _, _, _ => []
  | fuel + 1, d, ob, j, off =>
    match Response.next d.iter with
    | .item c _ =>
      List.replicate (readCallsOf fl d.encoded c.size) ⟨j, off, c⟩ ++
      (match d.next hf fl with
       | .item (.parent node l r) d' =>
         if tree.isRelevant node then
           match ob.save hf node (l, r) with
           | .ok ob => readCallsAux hf fl tree fuel d' ob (j + 1) (off + c.size)
           | _ => []
         else readCallsAux hf fl tree fuel d' ob (j + 1) (off + c.size)
       | .item (.leaf _ _) d' => readCallsAux hf fl tree fuel d' ob (j + 1) (off + c.size)
       | _ => [])
    | _ => []

/-- the read calls `decodeRanges hf fl encoded ranges sink` makes on the stream, in order -/
def readCalls (hf : HashFns H) [BEq H] (fl : Flavour) (encoded : List UInt8) (ranges : Ranges)
    (sink : Sink H) : List ReadCall :=
  let tree := sink.ob.tree
  let d := Dec.new sink.ob.root tree ranges encoded
  readCallsAux hf fl tree (PrePartial.fuelFor d.iter.tree + 1) d sink.ob 0 0

end Bao
