/-!
# Executable BLAKE3 (hash mode), used as the *real* instance of `HashFns`

Only what bao-tree needs: the chaining value of a single chunk (with chunk
counter and optional ROOT flag) and of a parent node.  No theorem unfolds this
file; it is validated differentially against the `blake3` crate on every run.
-/

namespace Bao.Blake3

def IV : Array UInt32 := #[0x6A09E667, 0xBB67AE85, 0x3C6EF372, 0xA54FF53A,
                           0x510E527F, 0x9B05688C, 0x1F83D9AB, 0x5BE0CD19]

def MSG_PERMUTATION : Array Nat := #[2, 6, 3, 10, 7, 0, 4, 13, 1, 11, 12, 5, 9, 14, 15, 8]

def CHUNK_START : UInt32 := 1
def CHUNK_END : UInt32 := 2
def PARENT : UInt32 := 4
def ROOT : UInt32 := 8

@[inline] def rotr (x : UInt32) (n : UInt32) : UInt32 := (x >>> n) ||| (x <<< (32 - n))

@[inline] def g (s : Array UInt32) (a b c d : Nat) (mx my : UInt32) : Array UInt32 :=
  let sa := s[a]! + s[b]! + mx
  let sd := rotr (s[d]! ^^^ sa) 16
  let sc := s[c]! + sd
  let sb := rotr (s[b]! ^^^ sc) 12
  let sa := sa + sb + my
  let sd := rotr (sd ^^^ sa) 8
  let sc := sc + sd
  let sb := rotr (sb ^^^ sc) 7
  (((s.set! a sa).set! b sb).set! c sc).set! d sd

def round (s : Array UInt32) (m : Array UInt32) : Array UInt32 :=
  let s := g s 0 4 8 12 m[0]! m[1]!
  let s := g s 1 5 9 13 m[2]! m[3]!
  let s := g s 2 6 10 14 m[4]! m[5]!
  let s := g s 3 7 11 15 m[6]! m[7]!
  let s := g s 0 5 10 15 m[8]! m[9]!
  let s := g s 1 6 11 12 m[10]! m[11]!
  let s := g s 2 7 8 13 m[12]! m[13]!
  let s := g s 3 4 9 14 m[14]! m[15]!
  s

def permute (m : Array UInt32) : Array UInt32 :=
  MSG_PERMUTATION.map (fun i => m[i]!)

/-- the compression function; returns the first 8 output words (the chaining value) -/
def compress (cv : Array UInt32) (m : Array UInt32) (counter : UInt64) (blockLen flags : UInt32) :
    Array UInt32 := Id.run do
  let mut s : Array UInt32 := cv ++ #[IV[0]!, IV[1]!, IV[2]!, IV[3]!,
    counter.toUInt32, (counter >>> 32).toUInt32, blockLen, flags]
  let mut m := m
  for i in [0:7] do
    s := round s m
    if i < 6 then m := permute m
  let mut out : Array UInt32 := Array.mkEmpty 8
  for i in [0:8] do
    out := out.push (s[i]! ^^^ s[i+8]!)
  return out

/-- 16 little-endian words from (at most 64) bytes starting at `off`, zero padded -/
def wordsOfBlock (b : ByteArray) (off len : Nat) : Array UInt32 := Id.run do
  let mut ws : Array UInt32 := Array.mkEmpty 16
  for w in [0:16] do
    let mut x : UInt32 := 0
    for k in [0:4] do
      let i := 4 * w + k
      if i < len then
        x := x ||| ((b.get! (off + i)).toUInt32 <<< (8 * k).toUInt32)
    ws := ws.push x
  return ws

def bytesOfWords (ws : Array UInt32) : List UInt8 :=
  ws.toList.flatMap fun (w : UInt32) =>
    [w.toUInt8, (w >>> 8).toUInt8, (w >>> 16).toUInt8, (w >>> 24).toUInt8]

def wordsOfBytes32 (b : List UInt8) : Array UInt32 :=
  wordsOfBlock (ByteArray.mk b.toArray) 0 32 |>.extract 0 8

/-- chaining value of one chunk (`data.size ≤ 1024`) -/
def chunkCvWords (counter : Nat) (data : ByteArray) (isRoot : Bool) : Array UInt32 := Id.run do
  let n := data.size
  let nblocks := if n = 0 then 1 else (n + 63) / 64
  let mut cv := IV
  for i in [0:nblocks] do
    let off := 64 * i
    let len := min 64 (n - off)
    let mut flags : UInt32 := 0
    if i = 0 then flags := flags ||| CHUNK_START
    if i + 1 = nblocks then
      flags := flags ||| CHUNK_END
      if isRoot then flags := flags ||| ROOT
    cv := compress cv (wordsOfBlock data off len) counter.toUInt64 len.toUInt32 flags
  return cv

/-- `chunkCv` of the real instance: 32 bytes -/
def chunkCv (counter : Nat) (data : List UInt8) (isRoot : Bool) : List UInt8 :=
  bytesOfWords (chunkCvWords counter (ByteArray.mk data.toArray) isRoot)

/-- `parentCv` of the real instance -/
def parentCv (l r : List UInt8) (isRoot : Bool) : List UInt8 :=
  let m := wordsOfBytes32 l ++ wordsOfBytes32 r
  let flags := if isRoot then PARENT ||| ROOT else PARENT
  bytesOfWords (compress IV m 0 64 flags)

end Bao.Blake3
