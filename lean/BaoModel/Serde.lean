import BaoModel.Store

/-!
# L7: wire values and their serialisation in two format classes (C19)

The serde impls of the crate (derived ones per serde's documented expansion, the hand-written
`Parent` impl of `src/io/mod.rs` and `io_error_serde` of `src/lib.rs`) composed with
* postcard (compact, length-prefixed, not self-describing): varint integers, `seq` = varint
  length + elements, arrays / tuples / structs = elements only, enum = varint variant index;
* serde_json (self-describing, compact output of `to_string`): decimal numbers, arrays,
  objects, externally tagged enums, strings with serde_json's escapes.
Byte strings are `List UInt8`; a Rust `String` is its UTF-8 bytes.
-/

namespace Bao.Serde

/-- `Parent` -/
structure ParentV where
  node : Nat
  l : List UInt8
  r : List UInt8
deriving Repr, DecidableEq, BEq

/-- `Leaf` -/
structure LeafV where
  offset : Nat
  data : List UInt8
deriving Repr, DecidableEq, BEq

/-- `EncodeError`; `io` carries the string produced by `io_error_serde::serialize`,
`format!("{:?}:{}", kind, error)` -/
inductive EncErrV
  | parentHashMismatch (n : Nat)
  | leafHashMismatch (c : Nat)
  | parentWrite (n : Nat)
  | leafWrite (c : Nat)
  | sizeMismatch
  | io (text : List UInt8)
deriving Repr, DecidableEq, BEq

/-- `BaoContentItem` -/
inductive ContentV
  | parent (p : ParentV)
  | leaf (l : LeafV)
deriving Repr, DecidableEq, BEq

/-- `EncodedItem` -/
inductive EncItemV
  | size (n : Nat)
  | parent (p : ParentV)
  | leaf (l : LeafV)
  | error (e : EncErrV)
  | done
deriving Repr, DecidableEq, BEq

/-! ## postcard -/

/-- LEB128 varint of a u64 -/
def varintAux : Nat → Nat → List UInt8
  | 0, _ => []
  | fuel + 1, n =>
    if n < 128 then [UInt8.ofNat n] else UInt8.ofNat (n % 128 + 128) :: varintAux fuel (n / 128)

def varint (n : Nat) : List UInt8 := varintAux 10 n

/-- read a varint of at most `fuel` bytes -/
def readVarintAux : Nat → List UInt8 → Nat → Nat → Option (Nat × List UInt8)
  | 0, _, _, _ => none
  | _ + 1, [], _, _ => none
  | fuel + 1, b :: rest, shift, acc =>
    if b.toNat < 128 then some (acc + b.toNat * 2 ^ shift, rest)
    else readVarintAux fuel rest (shift + 7) (acc + (b.toNat - 128) * 2 ^ shift)

def readVarint (bs : List UInt8) : Option (Nat × List UInt8) := readVarintAux 10 bs 0 0

def takeN (n : Nat) (bs : List UInt8) : Option (List UInt8 × List UInt8) :=
  if n ≤ bs.length then some (bs.take n, bs.drop n) else none

/-- `Parent::serialize`: `serialize_seq(Some(3))`, then node, left, right (arrays are tuples) -/
def pcParent (p : ParentV) : List UInt8 := varint 3 ++ varint p.node ++ p.l ++ p.r

/-- `Parent::deserialize` via `deserialize_seq`: the announced length bounds `next_element` -/
def pcReadParent (bs : List UInt8) : Option (ParentV × List UInt8) := do
  let (len, bs) ← readVarint bs
  if len < 3 then none else
  let (node, bs) ← readVarint bs
  let (l, bs) ← takeN 32 bs
  let (r, bs) ← takeN 32 bs
  -- postcard does not consume unread announced elements; the visitor stops after three
  pure (⟨node, l, r⟩, bs)

def pcLeaf (l : LeafV) : List UInt8 := varint l.offset ++ varint l.data.length ++ l.data

def pcReadLeaf (bs : List UInt8) : Option (LeafV × List UInt8) := do
  let (off, bs) ← readVarint bs
  let (len, bs) ← readVarint bs
  let (d, bs) ← takeN len bs
  pure (⟨off, d⟩, bs)

def pcEncErr : EncErrV → List UInt8
  | .parentHashMismatch n => varint 0 ++ varint n
  | .leafHashMismatch c => varint 1 ++ varint c
  | .parentWrite n => varint 2 ++ varint n
  | .leafWrite c => varint 3 ++ varint c
  | .sizeMismatch => varint 4
  | .io t => varint 5 ++ varint t.length ++ t

def pcReadEncErr (bs : List UInt8) : Option (EncErrV × List UInt8) := do
  let (idx, bs) ← readVarint bs
  match idx with
  | 0 => do let (n, bs) ← readVarint bs; pure (.parentHashMismatch n, bs)
  | 1 => do let (n, bs) ← readVarint bs; pure (.leafHashMismatch n, bs)
  | 2 => do let (n, bs) ← readVarint bs; pure (.parentWrite n, bs)
  | 3 => do let (n, bs) ← readVarint bs; pure (.leafWrite n, bs)
  | 4 => pure (.sizeMismatch, bs)
  | 5 => do
    let (len, bs) ← readVarint bs
    let (t, bs) ← takeN len bs
    pure (.io t, bs)
  | _ => none

def pcContent : ContentV → List UInt8
  | .parent p => varint 0 ++ pcParent p
  | .leaf l => varint 1 ++ pcLeaf l

def pcReadContent (bs : List UInt8) : Option (ContentV × List UInt8) := do
  let (idx, bs) ← readVarint bs
  match idx with
  | 0 => do let (p, bs) ← pcReadParent bs; pure (.parent p, bs)
  | 1 => do let (l, bs) ← pcReadLeaf bs; pure (.leaf l, bs)
  | _ => none

def pcEncItem : EncItemV → List UInt8
  | .size n => varint 0 ++ varint n
  | .parent p => varint 1 ++ pcParent p
  | .leaf l => varint 2 ++ pcLeaf l
  | .error e => varint 3 ++ pcEncErr e
  | .done => varint 4

def pcReadEncItem (bs : List UInt8) : Option (EncItemV × List UInt8) := do
  let (idx, bs) ← readVarint bs
  match idx with
  | 0 => do let (n, bs) ← readVarint bs; pure (.size n, bs)
  | 1 => do let (p, bs) ← pcReadParent bs; pure (.parent p, bs)
  | 2 => do let (l, bs) ← pcReadLeaf bs; pure (.leaf l, bs)
  | 3 => do let (e, bs) ← pcReadEncErr bs; pure (.error e, bs)
  | 4 => pure (.done, bs)
  | _ => none

/-! ## JSON (compact, as `serde_json::to_string` writes it) -/

def ch (c : Char) : UInt8 := UInt8.ofNat c.toNat
def str (s : String) : List UInt8 := s.toList.map ch

/-- decimal digits of a number -/
def digitsAux : Nat → Nat → List UInt8 → List UInt8
  | 0, _, acc => acc
  | fuel + 1, n, acc =>
    let acc := UInt8.ofNat (48 + n % 10) :: acc
    if n < 10 then acc else digitsAux fuel (n / 10) acc

def jsNat (n : Nat) : List UInt8 := digitsAux 20 n []

/-- read a maximal run of digits (at least one) -/
def readDigitsAux : Nat → List UInt8 → Nat → Bool → Option (Nat × List UInt8)
  | 0, _, _, _ => none
  | fuel + 1, bs, acc, seen =>
    match bs with
    | b :: rest =>
      if 48 ≤ b.toNat ∧ b.toNat ≤ 57 then readDigitsAux fuel rest (acc * 10 + (b.toNat - 48)) true
      else if seen then some (acc, bs) else none
    | [] => if seen then some (acc, []) else none

def jsReadNat (bs : List UInt8) : Option (Nat × List UInt8) := readDigitsAux 21 bs 0 false

/-- expect a literal prefix -/
def expect (lit : List UInt8) (bs : List UInt8) : Option (List UInt8) :=
  if bs.take lit.length == lit then some (bs.drop lit.length) else none

/-- a byte array `[1,2,3]` -/
def jsBytes (b : List UInt8) : List UInt8 :=
  str "[" ++ (match b with
    | [] => []
    | x :: rest => jsNat x.toNat ++ rest.flatMap fun y => str "," ++ jsNat y.toNat) ++ str "]"

/-- read the elements of a byte array after `[` until `]` -/
def jsReadBytesAux : Nat → List UInt8 → List UInt8 → Option (List UInt8 × List UInt8)
  | 0, _, _ => none
  | fuel + 1, bs, acc =>
    match jsReadNat bs with
    | none => none
    | some (v, rest) =>
      if v ≥ 256 then none else
      match rest with
      | 44 :: rest' => jsReadBytesAux fuel rest' (UInt8.ofNat v :: acc)   -- ','
      | 93 :: rest' => some ((UInt8.ofNat v :: acc).reverse, rest')        -- ']'
      | _ => none

def jsReadBytes (bs : List UInt8) : Option (List UInt8 × List UInt8) :=
  match bs with
  | 91 :: 93 :: rest => some ([], rest)
  | 91 :: rest => jsReadBytesAux (rest.length + 1) rest []
  | _ => none

def hexd (n : Nat) : UInt8 := if n < 10 then UInt8.ofNat (48 + n) else UInt8.ofNat (87 + n)

/-- serde_json string escaping, byte level (non-ASCII bytes pass through) -/
def jsEscape (b : UInt8) : List UInt8 :=
  if b == 34 then str "\\\""
  else if b == 92 then str "\\\\"
  else if b == 8 then str "\\b"
  else if b == 12 then str "\\f"
  else if b == 10 then str "\\n"
  else if b == 13 then str "\\r"
  else if b == 9 then str "\\t"
  else if b.toNat < 32 then str "\\u00" ++ [hexd (b.toNat / 16), hexd (b.toNat % 16)]
  else [b]

def jsString (t : List UInt8) : List UInt8 := str "\"" ++ t.flatMap jsEscape ++ str "\""

def unhex (b : UInt8) : Option Nat :=
  if 48 ≤ b.toNat ∧ b.toNat ≤ 57 then some (b.toNat - 48)
  else if 97 ≤ b.toNat ∧ b.toNat ≤ 102 then some (b.toNat - 87)
  else none

/-- read string contents after the opening quote -/
def jsReadStringAux : Nat → List UInt8 → List UInt8 → Option (List UInt8 × List UInt8)
  | 0, _, _ => none
  | fuel + 1, bs, acc =>
    match bs with
    | [] => none
    | 34 :: rest => some (acc.reverse, rest)
    | 92 :: e :: rest =>
      if e == 34 then jsReadStringAux fuel rest (34 :: acc)
      else if e == 92 then jsReadStringAux fuel rest (92 :: acc)
      else if e == 98 then jsReadStringAux fuel rest (8 :: acc)
      else if e == 102 then jsReadStringAux fuel rest (12 :: acc)
      else if e == 110 then jsReadStringAux fuel rest (10 :: acc)
      else if e == 114 then jsReadStringAux fuel rest (13 :: acc)
      else if e == 116 then jsReadStringAux fuel rest (9 :: acc)
      else if e == 117 then
        match rest with
        | 48 :: 48 :: h :: l :: rest' =>
          match unhex h, unhex l with
          | some h, some l => jsReadStringAux fuel rest' (UInt8.ofNat (16 * h + l) :: acc)
          | _, _ => none
        | _ => none
      else none
    | b :: rest => if b.toNat < 32 then none else jsReadStringAux fuel rest (b :: acc)

def jsReadString (bs : List UInt8) : Option (List UInt8 × List UInt8) :=
  match bs with
  | 34 :: rest => jsReadStringAux (rest.length + 1) rest []
  | _ => none

def jsParent (p : ParentV) : List UInt8 :=
  str "[" ++ jsNat p.node ++ str "," ++ jsBytes p.l ++ str "," ++ jsBytes p.r ++ str "]"

def jsReadParent (bs : List UInt8) : Option (ParentV × List UInt8) := do
  let bs ← expect (str "[") bs
  let (node, bs) ← jsReadNat bs
  let bs ← expect (str ",") bs
  let (l, bs) ← jsReadBytes bs
  let bs ← expect (str ",") bs
  let (r, bs) ← jsReadBytes bs
  let bs ← expect (str "]") bs
  if l.length == 32 && r.length == 32 then pure (⟨node, l, r⟩, bs) else none

def jsLeaf (l : LeafV) : List UInt8 :=
  str "{\"offset\":" ++ jsNat l.offset ++ str ",\"data\":" ++ jsBytes l.data ++ str "}"

def jsReadLeaf (bs : List UInt8) : Option (LeafV × List UInt8) := do
  let bs ← expect (str "{\"offset\":") bs
  let (off, bs) ← jsReadNat bs
  let bs ← expect (str ",\"data\":") bs
  let (d, bs) ← jsReadBytes bs
  let bs ← expect (str "}") bs
  pure (⟨off, d⟩, bs)

def jsTagged (tag : String) (body : List UInt8) : List UInt8 :=
  str "{\"" ++ str tag ++ str "\":" ++ body ++ str "}"

def jsEncErr : EncErrV → List UInt8
  | .parentHashMismatch n => jsTagged "ParentHashMismatch" (jsNat n)
  | .leafHashMismatch c => jsTagged "LeafHashMismatch" (jsNat c)
  | .parentWrite n => jsTagged "ParentWrite" (jsNat n)
  | .leafWrite c => jsTagged "LeafWrite" (jsNat c)
  | .sizeMismatch => str "\"SizeMismatch\""
  | .io t => jsTagged "Io" (jsString t)

def jsReadTaggedNat (tag : String) (bs : List UInt8) : Option (Nat × List UInt8) := do
  let bs ← expect (str "{\"" ++ str tag ++ str "\":") bs
  let (n, bs) ← jsReadNat bs
  let bs ← expect (str "}") bs
  pure (n, bs)

def jsReadEncErr (bs : List UInt8) : Option (EncErrV × List UInt8) :=
  match jsReadTaggedNat "ParentHashMismatch" bs with
  | some (n, r) => some (.parentHashMismatch n, r)
  | none =>
  match jsReadTaggedNat "LeafHashMismatch" bs with
  | some (n, r) => some (.leafHashMismatch n, r)
  | none =>
  match jsReadTaggedNat "ParentWrite" bs with
  | some (n, r) => some (.parentWrite n, r)
  | none =>
  match jsReadTaggedNat "LeafWrite" bs with
  | some (n, r) => some (.leafWrite n, r)
  | none =>
  match expect (str "\"SizeMismatch\"") bs with
  | some r => some (.sizeMismatch, r)
  | none => do
    let bs ← expect (str "{\"Io\":") bs
    let (t, bs) ← jsReadString bs
    let bs ← expect (str "}") bs
    pure (.io t, bs)

def jsContent : ContentV → List UInt8
  | .parent p => jsTagged "Parent" (jsParent p)
  | .leaf l => jsTagged "Leaf" (jsLeaf l)

def jsReadContent (bs : List UInt8) : Option (ContentV × List UInt8) :=
  match expect (str "{\"Parent\":") bs with
  | some bs => do
    let (p, bs) ← jsReadParent bs
    let bs ← expect (str "}") bs
    pure (.parent p, bs)
  | none => do
    let bs ← expect (str "{\"Leaf\":") bs
    let (l, bs) ← jsReadLeaf bs
    let bs ← expect (str "}") bs
    pure (.leaf l, bs)

def jsEncItem : EncItemV → List UInt8
  | .size n => jsTagged "Size" (jsNat n)
  | .parent p => jsTagged "Parent" (jsParent p)
  | .leaf l => jsTagged "Leaf" (jsLeaf l)
  | .error e => jsTagged "Error" (jsEncErr e)
  | .done => str "\"Done\""

def jsReadEncItem (bs : List UInt8) : Option (EncItemV × List UInt8) :=
  match jsReadTaggedNat "Size" bs with
  | some (n, r) => some (.size n, r)
  | none =>
  match expect (str "{\"Parent\":") bs with
  | some bs => do
    let (p, bs) ← jsReadParent bs
    let bs ← expect (str "}") bs
    pure (.parent p, bs)
  | none =>
  match expect (str "{\"Leaf\":") bs with
  | some bs => do
    let (l, bs) ← jsReadLeaf bs
    let bs ← expect (str "}") bs
    pure (.leaf l, bs)
  | none =>
  match expect (str "{\"Error\":") bs with
  | some bs => do
    let (e, bs) ← jsReadEncErr bs
    let bs ← expect (str "}") bs
    pure (.error e, bs)
  | none => do
    let bs ← expect (str "\"Done\"") bs
    pure (.done, bs)

/-- the text `io_error_serde::serialize` produces: `format!("{:?}:{}", kind, error)` -/
def ioErrorText (kindDebug : List UInt8) (msg : List UInt8) : List UInt8 := kindDebug ++ [58] ++ msg

end Bao.Serde
