import BaoModel.Validate

/-!
# Line protocol helpers shared by all driver operations

Canonical text forms.  The Rust harness (`harness/src/canon.rs`) produces the
same strings from the real implementation's values.
-/

namespace Bao.Proto

def optNat : Option Nat → String
  | none => "-"
  | some n => toString n

def bool01 (b : Bool) : String := if b then "1" else "0"

def pair (p : Nat × Nat) : String := s!"{p.1}:{p.2}"

def natList (l : List Nat) : String :=
  if l.isEmpty then "-" else ",".intercalate (l.map toString)

def parseNatList (s : String) : Option (List Nat) :=
  if s == "-" then some [] else (s.splitOn ",").mapM (·.toNat?)

def hexDigit (n : Nat) : Char :=
  if n < 10 then Char.ofNat (48 + n) else Char.ofNat (87 + n)

def hex (bs : List UInt8) : String :=
  if bs.isEmpty then "-" else
  String.ofList (bs.flatMap fun b => [hexDigit (b.toNat / 16), hexDigit (b.toNat % 16)])

def hexVal (c : Char) : Option Nat :=
  if '0' ≤ c ∧ c ≤ '9' then some (c.toNat - 48)
  else if 'a' ≤ c ∧ c ≤ 'f' then some (c.toNat - 87)
  else none

def parseHexAux : List Char → List UInt8 → Option (List UInt8)
  | [], acc => some acc.reverse
  | [_], _ => none
  | a :: b :: rest, acc =>
    match hexVal a, hexVal b with
    | some x, some y => parseHexAux rest (UInt8.ofNat (16 * x + y) :: acc)
    | _, _ => none

def parseHex (s : String) : Option (List UInt8) :=
  if s == "-" then some [] else parseHexAux s.toList []

/-- FNV-1a, 64 bit -/
def fnv (bs : List UInt8) : UInt64 :=
  bs.foldl (fun h b => (h ^^^ b.toUInt64) * 1099511628211) 14695981039346656037

/-- digest form of a byte string: `len:fnv` -/
def dig (bs : List UInt8) : String := s!"{bs.length}:{(fnv bs).toNat}"

/-- splitmix64 step: (next state, output) -/
def splitmix (s : UInt64) : UInt64 × UInt64 :=
  let s := s + 0x9E3779B97F4A7C15
  let z := s
  let z := (z ^^^ (z >>> 30)) * 0xBF58476D1CE4E5B9
  let z := (z ^^^ (z >>> 27)) * 0x94D049BB133111EB
  (s, z ^^^ (z >>> 31))

/-- pseudo random bytes: byte `i` is the low byte of the `i/8`-th splitmix output shifted -/
def randBytes (seed : Nat) (n : Nat) : List UInt8 := Id.run do
  let mut out : Array UInt8 := Array.mkEmpty n
  let mut s : UInt64 := seed.toUInt64
  let mut cur : UInt64 := 0
  for i in [0:n] do
    if i % 8 == 0 then
      let (s', z) := splitmix s
      s := s'
      cur := z
    out := out.push (cur >>> (8 * (i % 8)).toUInt64).toUInt8
  return out.toList

/-- blob descriptor → bytes.
`idx:N` chunk-index fill (like the crate's tests), `const:B:N`, `rnd:SEED:N`,
`rep:SEED:N` (every chunk is one of two fixed random chunks, chosen by bit `i` of SEED),
`hex:...` literal -/
def blob (desc : String) : Option (List UInt8) :=
  match desc.splitOn ":" with
  | ["idx", n] => n.toNat?.map fun n =>
      (List.range n).map fun i => UInt8.ofNat ((i / 1024) % 256)
  | ["const", b, n] => do
      let b ← b.toNat?; let n ← n.toNat?
      pure (List.replicate n (UInt8.ofNat b))
  | ["rnd", seed, n] => do
      let seed ← seed.toNat?; let n ← n.toNat?
      pure (randBytes seed n)
  | ["rep", seed, n] => do
      let seed ← seed.toNat?; let n ← n.toNat?
      let a := (randBytes 1 1024).toArray
      let b := (randBytes 2 1024).toArray
      pure ((List.range n).map fun i =>
        if (seed >>> ((i / 1024) % 64)) % 2 == 0 then a[i % 1024]! else b[i % 1024]!)
  | ["hex", h] => parseHex h
  | _ => none

def chunkStr : Chunk → String
  | .parent node isRoot l r rs => s!"P{node}/{bool01 isRoot}{bool01 l}{bool01 r}/{natList rs}"
  | .leaf start size isRoot rs => s!"L{start}/{size}/{bool01 isRoot}/{natList rs}"

def planStr (p : Option (List Chunk)) : String :=
  match p with
  | none => "panic"
  | some [] => "-"
  | some l => " ".intercalate (l.map chunkStr)

def ioKindStr : IoKind → String
  | .unexpectedEof => "UnexpectedEof"
  | .other => "Other"
  | .connectionReset => "ConnectionReset"
  | .writeZero => "WriteZero"
  | .invalidInput => "InvalidInput"
  | .invalidData => "InvalidData"

def ioErrStr (e : IoErr) : String := s!"Io({ioKindStr e.kind}{if e.injected then "*" else ""})"

def decErrStr : DecodeError → String
  | .parentNotFound n => s!"ParentNotFound({n})"
  | .leafNotFound c => s!"LeafNotFound({c})"
  | .parentHashMismatch n => s!"ParentHashMismatch({n})"
  | .leafHashMismatch c => s!"LeafHashMismatch({c})"
  | .io e => ioErrStr e

def encErrStr : EncodeError → String
  | .parentHashMismatch n => s!"ParentHashMismatch({n})"
  | .leafHashMismatch c => s!"LeafHashMismatch({c})"
  | .parentWrite n => s!"ParentWrite({n})"
  | .leafWrite c => s!"LeafWrite({c})"
  | .sizeMismatch => "SizeMismatch"
  | .io e => ioErrStr e

def decEndStr : DecEnd → String
  | .done => "Done"
  | .err e => decErrStr e
  | .panic => "panic"

def encEndStr : EncEnd → String
  | .ok => "Ok"
  | .err e => encErrStr e
  | .panic => "panic"

def itemStr : Item (List UInt8) → String
  | .parent n l r => s!"P{n}/{dig (l ++ r)}"
  | .leaf o d => s!"L{o}/{dig d}"

def itemsStr (l : List (Item (List UInt8))) : String :=
  if l.isEmpty then "-" else " ".intercalate (l.map itemStr)

def storeKind? : String → Option StoreKind
  | "preIo" => some .preIo | "postIo" => some .postIo | "preMem" => some .preMem
  | "postMem" => some .postMem | "empty" => some .empty | _ => none

def flavour? : String → Option Flavour
  | "sync" => some .sync | "fsm" => some .fsm | _ => none

def kindStr : StoreKind → String
  | .preMem => "preMem" | .postMem => "postMem" | .preIo => "preIo" | .postIo => "postIo" | .empty => "empty"

end Bao.Proto
