import BaoModel.Rec

/-!
# L6 / L7: errors, results and the five outboard stores

`src/io/error.rs`, `src/io/outboard.rs`, and the `Outboard` / `OutboardMut`
impls of `src/io/sync.rs` and `src/io/fsm.rs`.
-/

namespace Bao

/-- the `io::ErrorKind`s that occur -/
inductive IoKind
  | unexpectedEof | other | connectionReset | writeZero | invalidInput | invalidData
deriving Repr, DecidableEq, BEq

/-- an `io::Error`: its kind and whether it is the error injected by a fault script -/
structure IoErr where
  kind : IoKind
  injected : Bool := false
deriving Repr, DecidableEq, BEq

/-- `DecodeError` -/
inductive DecodeError
  | parentNotFound (node : Nat)
  | leafNotFound (chunk : Nat)
  | parentHashMismatch (node : Nat)
  | leafHashMismatch (chunk : Nat)
  | io (e : IoErr)
deriving Repr, DecidableEq, BEq

/-- `EncodeError` -/
inductive EncodeError
  | parentHashMismatch (node : Nat)
  | leafHashMismatch (chunk : Nat)
  | parentWrite (node : Nat)
  | leafWrite (chunk : Nat)
  | sizeMismatch
  | io (e : IoErr)
deriving Repr, DecidableEq, BEq

/-- `DecodeError::maybe_parent_not_found` -/
def DecodeError.maybeParentNotFound (e : IoErr) (node : Nat) : DecodeError :=
  if e.kind == .unexpectedEof then .parentNotFound node else .io e

/-- `DecodeError::maybe_leaf_not_found` -/
def DecodeError.maybeLeafNotFound (e : IoErr) (chunk : Nat) : DecodeError :=
  if e.kind == .unexpectedEof then .leafNotFound chunk else .io e

/-- `EncodeError::maybe_parent_write` -/
def EncodeError.maybeParentWrite (e : IoErr) (node : Nat) : EncodeError :=
  if e.kind == .connectionReset then .parentWrite node else .io e

/-- `EncodeError::maybe_leaf_write` -/
def EncodeError.maybeLeafWrite (e : IoErr) (chunk : Nat) : EncodeError :=
  if e.kind == .connectionReset then .leafWrite chunk else .io e

/-- kind of `io::Error::from(DecodeError)` -/
def DecodeError.toIoKind : DecodeError → IoKind
  | .io e => e.kind
  | .parentHashMismatch _ => .invalidData
  | .leafHashMismatch _ => .invalidData
  | .leafNotFound _ => .unexpectedEof
  | .parentNotFound _ => .unexpectedEof

/-- kind of `io::Error::from(EncodeError)` -/
def EncodeError.toIoKind : EncodeError → IoKind
  | .io e => e.kind
  | .parentHashMismatch _ => .invalidData
  | .leafHashMismatch _ => .invalidData
  | .parentWrite _ => .connectionReset
  | .leafWrite _ => .connectionReset
  | .sizeMismatch => .invalidData

/-- outcome of an operation: value, error, or a Rust panic -/
inductive Res (ε α : Type)
  | ok (a : α)
  | err (e : ε)
  | panic
deriving Repr, DecidableEq, BEq

/-- the five outboard types of `src/io/outboard.rs` -/
inductive StoreKind | preIo | postIo | preMem | postMem | empty
deriving Repr, DecidableEq, BEq

/-- which trait family is used: `io::sync` or `io::fsm` -/
inductive Flavour | sync | fsm
deriving Repr, DecidableEq, BEq

/-- an outboard value: `root`, `tree`, `data` (`Vec<u8>`; unused for `EmptyOutboard`) -/
structure Store (H : Type) where
  kind : StoreKind
  root : H
  tree : Tree
  data : List UInt8
deriving Repr

/-- 32 zero bytes -/
def zeros32 : List UInt8 := List.replicate 32 0

/-- `parse_hash_pair` -/
def parsePair (hf : HashFns H) (b : List UInt8) : H × H :=
  (hf.ofBytes (b.take 32), hf.ofBytes ((b.drop 32).take 32))

/-- slot (in units of 64 bytes) of a node in a store, `none` = not stored -/
def Store.slot (s : Store H) (node : Nat) : Option Nat :=
  match s.kind with
  | .preIo | .preMem => s.tree.preOrderOffset node
  | .postIo | .postMem => (s.tree.postOrderOffset node).map (·.value)
  | .empty => if s.tree.isRelevant node then some 0 else none

/-- `Outboard::load` -/
def Store.load (hf : HashFns H) (fl : Flavour) (s : Store H) (node : Nat) :
    Res IoErr (Option (H × H)) :=
  match s.kind with
  | .empty =>
    .ok (if s.tree.isRelevant node then some (hf.ofBytes zeros32, hf.ofBytes zeros32) else none)
  | .preMem | .postMem =>
    match s.slot node with
    | none => .ok none
    | some k =>
      if k * 64 + 64 ≤ s.data.length then .ok (some (parsePair hf ((s.data.drop (k * 64)).take 64)))
      else .panic   -- slice index out of range
  | .preIo | .postIo =>
    match s.slot node with
    | none => .ok none
    | some k =>
      if k * 64 + 64 ≤ s.data.length then .ok (some (parsePair hf ((s.data.drop (k * 64)).take 64)))
      else
        match fl with
        | .sync => .err ⟨.unexpectedEof, false⟩     -- `read_exact_at` on a short backing
        | .fsm => .ok (some (hf.ofBytes zeros32, hf.ofBytes zeros32))  -- short read → zero pair

/-- overwrite `bytes` at `off`, zero-extending a `Vec<u8>` backing like `WriteAt for Vec<u8>` -/
def writeAt (data : List UInt8) (off : Nat) (bytes : List UInt8) : List UInt8 :=
  let data := if data.length < off then data ++ List.replicate (off - data.length) 0 else data
  data.take off ++ bytes ++ data.drop (off + bytes.length)

/-- `OutboardMut::save` -/
def Store.save (hf : HashFns H) (s : Store H) (node : Nat) (pair : H × H) : Res IoErr (Store H) :=
  let bytes := hf.toBytes pair.1 ++ hf.toBytes pair.2
  match s.kind with
  | .empty =>
    if s.tree.isRelevant node then .ok s else .err ⟨.invalidInput, false⟩
  | .preMem | .postMem =>
    match s.slot node with
    | none => .err ⟨.invalidInput, false⟩
    | some k =>
      if k * 64 + 64 ≤ s.data.length then .ok { s with data := writeAt s.data (k * 64) bytes }
      else .panic
  | .preIo | .postIo =>
    match s.slot node with
    | none => .ok s
    | some k => .ok { s with data := writeAt s.data (k * 64) bytes }

end Bao
