import BaoModel.Proto
import BaoModel.Spec

/-!
# Driver operations, part 1: numbers, geometry, range sets, plans

Each operation maps the argument tokens and the implementation's output to
`(model output, spec failure, nontrivial)`.
-/

namespace Bao.Ops
open Bao.Proto

structure Verdict where
  model : String
  /-- `none` = the implementation's output satisfies the executable specification -/
  specFail : Option String := none
  nontrivial : Bool := true

def bad (msg : String) : Verdict := { model := s!"bad-op {msg}", specFail := some "bad-op", nontrivial := false }

def digNats (l : List Nat) : String := dig (natList l).toUTF8.toList

/-- `node x`: every public `TreeNode` method -/
def nodeStr (x : Nat) : String :=
  let o := optNat
  " ".intercalate [
    toString (Node.level x), toString (Node.mid x), bool01 (Node.isLeaf x),
    o (Node.leftChild x), o (Node.rightChild x), o (Node.parent x),
    toString (Node.countBelow x), o (Node.nextLeftAncestor x),
    pair (Node.nodeRange x), pair (Node.chunkRange x), toString (Node.rightCount x),
    toString (Node.postOrderOffset x), pair (Node.postOrderRange x)]

/-- the same from the `(k, L)` specification -/
def nodeSpecStr (x : Nat) : String :=
  let L := Spec.levelOf x
  let k := Spec.indexOf x
  let o := optNat
  let lc := if L = 0 then none else some (Spec.nodeOf (2 * k) (L - 1))
  let rc := if L = 0 then none else some (Spec.nodeOf (2 * k + 1) (L - 1))
  let par := if L = 63 then none else some (Spec.nodeOf (k / 2) (L + 1))
  let below := 2 ^ (L + 1) - 2
  let nla := if k = 0 then none else
    -- next left ancestor: clear the lowest set bit of x+1
    let y := x + 1
    some (y - 2 ^ L - 1)
  let nr := (Spec.startOf k L, Spec.startOf k L + 2 ^ (L + 1) - 1)
  let cr := (Spec.startOf k L, Spec.endOf k L)
  let rcnt := Spec.popc 64 (x + 1) - 1
  -- post-order index in a complete tree: nodes before = all nodes of complete subtrees to
  -- the left (start - popcount start) + nodes below
  let s := Spec.startOf k L
  let poo := below + (s - Spec.popc 64 s)
  " ".intercalate [
    toString L, toString (x + 1), bool01 (L == 0), o lc, o rc, o par,
    toString below, o nla, pair nr, pair cr, toString rcnt, toString poo,
    pair (poo - below, poo + 1)]

def opNode (args : List String) (impl : String) : Verdict :=
  match args with
  | [x] => match x.toNat? with
    | some x =>
      let spec := nodeSpecStr x
      { model := nodeStr x, specFail := if impl == spec then none else some s!"spec={spec}",
        nontrivial := true }
    | none => bad "node"
  | _ => bad "node"

def opNodeBs (args : List String) (impl : String) : Verdict :=
  match args.mapM (·.toNat?) with
  | some [x, n] =>
    let m := s!"{Node.subBs x n} {optNat (Node.addBs x n)}"
    let L := Spec.levelOf x
    let k := Spec.indexOf x
    let sub := Spec.nodeOf k (L + n)
    let add := if L ≥ n then some (Spec.nodeOf k (L - n)) else none
    let spec := s!"{sub} {optNat add}"
    { model := m, specFail := if impl == spec then none else some s!"spec={spec}" }
  | _ => bad "nodebs"

/-- `noderp x len`: restricted parent; spec: the nearest ancestor with id `< len` -/
def opNodeRp (args : List String) (impl : String) : Verdict :=
  match args.mapM (·.toNat?) with
  | some [x, len] =>
    let rp := Node.restrictedParent x len
    -- spec: walk up the complete tree in (k, L) coordinates
    let rec up : Nat → Nat → Nat → Option Nat
      | 0, _, _ => none
      | fuel + 1, k, L =>
        if L ≥ 63 then none else
        let p := Spec.nodeOf (k / 2) (L + 1)
        if p < len then some p else up fuel (k / 2) (L + 1)
    let spec := optNat (up 64 (Spec.indexOf x) (Spec.levelOf x))
    { model := optNat rp, specFail := if impl == spec then none else some s!"spec={spec}" }
  | _ => bad "noderp"

def postOffStr : Option Tree.PostOffset → String
  | none => "-"
  | some (.stable n) => s!"S{n}"
  | some (.unstable n) => s!"U{n}"

/-- `tree size bs`: geometry and node iterators -/
def opTree (args : List String) (impl : String) : Verdict :=
  match args.mapM (·.toNat?) with
  | some [size, bs] =>
    let t : Tree := ⟨size, bs⟩
    let pre := t.preOrderNodesIter
    let post := t.postOrderNodesIter
    let m := s!"{t.root} {t.blocks} {t.chunks} {t.outboardSize} {digNats pre} {digNats post}"
    -- spec: the iterators enumerate the persisted nodes in recursive order; when the number of
    -- blocks is odd they also visit the half-filled last leaf (last in pre-order; in post-order
    -- directly before the unstable right spine above it)
    let sblocks := Spec.nBlocks size bs
    let spre := Spec.persistedPre size bs
    let spost := Spec.persistedPost size bs
    let half := Node.subBs (sblocks - 1) bs
    let hasHalf := sblocks % 2 == 1
    let spreH := if hasHalf then spre ++ [half] else spre
    -- ancestors of the half leaf form the suffix of the post-order list
    let spostH :=
      if hasHalf then
        let isAnc (x : Nat) : Bool :=
          let r := Node.chunkRange x
          decide (r.1 ≤ (Node.chunkRange half).1 ∧ (Node.chunkRange half).1 < r.2)
        let suffix := (spost.reverse.takeWhile isAnc).reverse
        spost.take (spost.length - suffix.length) ++ [half] ++ suffix
      else spost
    let sf : Option String :=
      match impl.splitOn " " with
      | [_, blocks, chunks, obsize, preD, postD] =>
        if blocks != toString sblocks then some s!"blocks spec={sblocks}"
        else if chunks != toString ((size + 1023) / 1024) then some "chunks"
        else if obsize != toString ((sblocks - 1) * 64) then some "outboard size"
        else if preD != digNats spreH then some "pre-order iterator differs from recursive spec"
        else if postD != digNats spostH then some "post-order iterator differs from recursive spec"
        else none
      | _ => some "malformed"
    { model := m, specFail := sf, nontrivial := sblocks > 1 }
  | _ => bad "tree"

/-- `treeoff size bs id0 count`: offsets of the node ids `id0 .. id0+count` -/
def opTreeOff (args : List String) (impl : String) : Verdict :=
  match args.mapM (·.toNat?) with
  | some [size, bs, id0, count] =>
    let t : Tree := ⟨size, bs⟩
    let ids := (List.range count).map (· + id0)
    let m := " ".intercalate (ids.map fun x =>
      s!"{optNat (t.preOrderOffset x)}/{postOffStr (t.postOrderOffset x)}")
    -- spec: offset = index in the recursive traversal of persisted nodes; none otherwise;
    -- stable iff the whole subtree lies inside the blob
    let spec := " ".intercalate (ids.map fun x =>
      let L := Spec.levelOf x
      let k := Spec.indexOf x
      let pre := Spec.preIndex size bs x
      let post := Spec.postIndex size bs x
      let stable := Spec.endOf k L * 1024 ≤ size
      let postS := match post with
        | none =>
          -- nodes outside the tree but of level ≥ bs whose subtree is inside the blob cannot
          -- exist; nodes beyond the blob: the code may still return a value (not claimed)
          "-"
        | some i => if stable then s!"S{i}" else s!"U{i}"
      s!"{optNat pre}/{postS}")
    -- only compare on ids that are nodes of the tree or have level < bs
    let implT := impl.splitOn " "
    let specT := spec.splitOn " "
    let n := Spec.nChunks size
    -- the property speaks about the nodes *of the tree*: existing nodes (mid inside the blob)
    -- and the half-filled last leaf of the shifted tree
    let sblocks := Spec.nBlocks size bs
    let halfLeaf := Node.subBs (sblocks - 1) bs
    let relevant (x : Nat) : Bool :=
      let L := Spec.levelOf x
      let k := Spec.indexOf x
      Spec.midOf k L < n || (sblocks % 2 == 1 && x == halfLeaf)
    let bads := (List.zip ids (List.zip implT specT)).filter fun (x, (a, b)) => relevant x && a != b
    let sf := match bads with
      | [] => if implT.length == ids.length then none else some "malformed"
      | (x, (a, b)) :: _ => some s!"node {x}: impl {a} spec {b}"
    { model := m, specFail := sf, nontrivial := Spec.nBlocks size bs > 1 }
  | _ => bad "treeoff"

/-- `split ranges node` -/
def opSplit (args : List String) (_impl : String) : Verdict :=
  match args with
  | [rs, node] =>
    match parseNatList rs, node.toNat? with
    | some rs, some node =>
      let (a, b) := Ranges.splitNode rs node
      { model := s!"{natList a} {natList b}" }
    | _, _ => bad "split"
  | _ => bad "split"

/-- `trunc ranges size`: `truncate_ranges`; spec: same selected set, idempotent (on impl output) -/
def opTrunc (args : List String) (impl : String) : Verdict :=
  match args with
  | [rs, size] =>
    match parseNatList rs, size.toNat? with
    | some rs, some size =>
      let t := Ranges.truncate rs size
      let sf : Option String :=
        match parseNatList impl with
        | none => some "malformed"
        | some it =>
          let n := Spec.nChunks size
          let selEq := (List.range (n + 2)).all fun c => Spec.selected size it c == Spec.selected size rs c
          if !Ranges.WF it then some "not strictly sorted"
          else if !selEq then some "selected set changed"
          else if Ranges.truncate it size != it then some "not idempotent (model truncate on impl output)"
          else none
      { model := natList t, specFail := sf, nontrivial := !rs.isEmpty }
    | _, _ => bad "trunc"
  | _ => bad "trunc"

/-- membership in a range set given by boundaries, over the universe `[0, 2^64)` -/
def mem (rs : List Nat) (x : Nat) : Bool := Ranges.contains rs x

/-- `round kind ranges bs`; spec: pointwise set equalities on probe points -/
def opRound (args : List String) (impl : String) : Verdict :=
  match args with
  | [kind, rs, bs] =>
    match parseNatList rs, bs.toNat? with
    | some rs, some bs =>
      let m := match kind with
        | "chunks" => natList (Ranges.roundUpToChunks rs)
        | "groups" => natList (Ranges.roundUpToChunkGroups rs bs)
        | "full" => natList (Ranges.fullChunkGroups rs bs)
        | _ => "bad-kind"
      let sf : Option String :=
        if impl == "panic" then some "panic" else
        match parseNatList impl with
        | none => some "malformed"
        | some out =>
          if !Ranges.WF out then some "not strictly sorted" else
          -- probe units: every unit (chunk / group) that contains or neighbours a boundary
          let g := if kind == "chunks" then 1024 else 2 ^ bs
          let units := (rs ++ out.map (· * (if kind == "chunks" then 1024 else 1))).flatMap fun b =>
            let u := b / g
            [u - 1, u, u + 1]
          let lastUnit := (U64 - 1) / g
          let units := (lastUnit :: units).filter (· ≤ lastUnit)
          -- exact evaluation of "unit u meets / is inside rs" from the boundary list
          let lo (u : Nat) := u * g
          let hi (u : Nat) := min ((u + 1) * g) U64   -- exclusive
          let meets (u : Nat) : Bool :=
            mem rs (lo u) || rs.any fun b => lo u < b && b < hi u && mem rs b
          let inside (u : Nat) : Bool :=
            mem rs (lo u) && !(rs.any fun b => lo u < b && b < hi u)
          let want (u : Nat) : Bool := if kind == "full" then inside u else meets u
          -- the output is in chunk units; unit u covers chunks [u*g', (u+1)*g') with g' = g or 1
          let outHas (u : Nat) : Bool :=
            if kind == "chunks" then mem out u
            else
              let a := mem out (lo u)
              let uniform := !(out.any fun b => lo u < b && b < hi u)
              a && uniform
          let outAny (u : Nat) : Bool :=
            if kind == "chunks" then mem out u
            else mem out (lo u) || out.any fun b => lo u < b && b < hi u && mem out b
          match units.find? fun u => want u != outHas u || outHas u != outAny u with
          | none => none
          | some u => some s!"unit {u}: want {want u} got {outHas u}/{outAny u}"
      { model := m, specFail := sf, nontrivial := !rs.isEmpty }
    | _, _ => bad "round"
  | _ => bad "round"

/-- parse one plan item of the canonical form -/
def parseChunk (t : String) : Option Chunk :=
  match ((t.drop 1).toString.splitOn "/") with
  | [node, flags, rs] =>
    if t.startsWith "P" then
      match node.toNat?, flags.toList, parseNatList rs with
      | some node, [r, l, rr], some rs => some (.parent node (r == '1') (l == '1') (rr == '1') rs)
      | _, _, _ => none
    else none
  | [start, size, root, rs] =>
    if t.startsWith "L" then
      match start.toNat?, size.toNat?, parseNatList rs with
      | some start, some size, some rs => some (.leaf start size (root == "1") rs)
      | _, _, _ => none
    else none
  | _ => none

def parsePlan (s : String) : Option (List Chunk) :=
  if s == "-" then some [] else (s.splitOn " ").mapM parseChunk

/-- well-formedness of a pre-order plan for query `q` on `(size, bs)` with minimum level `ml`
(`unitLog` = log2 of the largest leaf unit, `respPlan` = response plan: leaves are chunks or
fully selected groups) -/
def planPreWF (size bs ml : Nat) (q : Ranges) (plan : List Chunk) : Option String :=
  let n := Spec.nChunks size
  let sel := fun c => Spec.selected size q c
  if (List.range n).all (fun c => !sel c) then
    (if plan.isEmpty then none else some "empty selection but non-empty plan")
  else
  -- 1. stack discipline
  let stackEnd := plan.foldl (fun (h : Option Nat) c =>
    match h with
    | none => none
    | some h =>
      if h == 0 then none else
      match c with
      | .parent _ _ l r _ => some (h - 1 + (if l then 1 else 0) + (if r then 1 else 0))
      | .leaf .. => some (h - 1)) (some 1)
  if stackEnd != some 0 then some s!"hash stack: {repr stackEnd}" else
  -- 2. root flag exactly on the first item
  let rootFlags := plan.map fun c => match c with | .parent _ r _ _ _ => r | .leaf _ _ r _ => r
  if rootFlags != (true :: List.replicate (plan.length - 1) false) then some "root flag" else
  -- 3. leaves increasing, disjoint, inside the blob
  let leaves := plan.filterMap fun c => match c with | .leaf s z _ _ => some (s, z) | _ => none
  let rec incr : List (Nat × Nat) → Bool
    | (s1, z1) :: (s2, z2) :: rest => decide (s1 + (z1 + 1023) / 1024 ≤ s2) && decide (z1 > 0) && incr ((s2, z2) :: rest)
    | _ => true
  if !incr leaves then some "leaves not increasing / overlapping" else
  if !(leaves.all fun (s, z) => s * 1024 + z ≤ size && (z > 0 || size == 0)) then some "leaf outside the blob" else
  -- 4. coverage: every selected chunk is in a leaf; every leaf holds a selected chunk;
  --    leaves are aligned units of at most 2^max(bs, ml) chunks; bigger than a group only if fully selected
  let covered (c : Nat) : Bool := leaves.any fun (s, z) => s ≤ c && c * 1024 < s * 1024 + max z 1
  if !((List.range n).all fun c => !sel c || covered c) then some "a selected chunk is not covered" else
  let unit := 2 ^ max bs ml
  let leafOk := leaves.all fun (s, z) =>
    let cnt := max 1 ((z + 1023) / 1024)
    let hasSel := (List.range cnt).any fun i => sel (s + i)
    let allSel := (List.range cnt).all fun i => sel (s + i)
    let aligned := (List.range 64).any fun h => cnt ≤ 2 ^ h && s % 2 ^ h == 0 && 2 ^ h ≤ unit
    hasSel && aligned && (cnt ≤ 2 ^ bs || allSel)
  if !leafOk then some "a leaf is not an aligned unit touched by the selection" else
  -- 5. parents: flags say which halves the selection meets; following items stay inside the node
  let parentsOk := plan.all fun c =>
    match c with
    | .parent node _ l r _ =>
      let cr := Node.chunkRange node
      let mid := Node.mid node
      let meetL := (List.range (mid - cr.1)).any fun i => sel (cr.1 + i)
      let meetR := (List.range (min cr.2 n - mid)).any fun i => sel (mid + i)
      l == meetL && r == meetR && decide (mid < n)
    | _ => true
  if !parentsOk then some "parent flags" else none

/-- well-formedness of the post-order plan of `(size, bs)` -/
def planPostWF (size bs : Nat) (plan : List Chunk) : Option String :=
  let g := 2 ^ bs * 1024
  let blocks := Spec.nBlocks size bs
  let leaves := plan.filterMap fun c => match c with | .leaf s z _ _ => some (s, z) | _ => none
  let wantLeaves := (List.range blocks).map fun i => (i * 2 ^ bs, min g (size - i * g))
  if leaves != wantLeaves then some "leaves do not tile the blob" else
  let stackEnd := plan.foldl (fun (h : Option Nat) c =>
    match h with
    | none => none
    | some h =>
      match c with
      | .parent .. => if h < 2 then none else some (h - 1)
      | .leaf .. => some (h + 1)) (some 0)
  if stackEnd != some 1 then some s!"hash stack: {repr stackEnd}" else
  let rootFlags := plan.map fun c => match c with | .parent _ r _ _ _ => r | .leaf _ _ r _ => r
  if rootFlags != (List.replicate (plan.length - 1) false ++ [true]) then some "root flag" else
  let parents := plan.filterMap fun c => match c with | .parent node _ _ _ _ => some node | _ => none
  if parents != Spec.persistedPost size bs then some "parents are not the persisted nodes in post-order" else
  -- "its left/right flags say which children follow": in the post-order plan of the whole blob every parent
  -- has both of its subtrees in the plan (just before it)
  if plan.any (fun c => match c with | .parent _ _ l r _ => !(l && r) | _ => false) then
    some "a parent of the post-order plan does not flag both children"
  else
  -- "every parent comes after its subtree": walking the plan with a stack of chunk spans, a parent must find the
  -- spans of its two subtrees on top - adjacent, meeting exactly at the node's middle chunk - and replaces them
  -- by their union
  let spans := plan.foldl (fun (st : Option (List (Nat × Nat))) c =>
    match st with
    | none => none
    | some st =>
      match c with
      | .leaf s z _ _ => some ((s, s + max 1 ((z + 1023) / 1024)) :: st)
      | .parent node _ _ _ _ =>
        match st with
        | (rs, re) :: (ls, le) :: rest =>
          if le == rs && rs == Node.mid node then some ((ls, re) :: rest) else none
        | _ => none) (some [])
  if spans.isNone then some "a parent does not come right after its two subtrees" else none

/-- `plan size bs minLevel ranges` (pre-order partial), `rplan size bs ranges` (response),
`pplan size bs` (post-order) -/
def opPlan (args : List String) (impl : String) : Verdict :=
  match args with
  | [size, bs, ml, rs] =>
    match size.toNat?, bs.toNat?, ml.toNat?, parseNatList rs with
    | some size, some bs, some ml, some rs =>
      let sf := match parsePlan impl with
        | none => some "malformed / panic"
        | some p => if Spec.nChunks size > 4096 then none else planPreWF size bs ml rs p
      { model := planStr ((⟨size, bs⟩ : Tree).prePartialChunks rs ml), specFail := sf }
    | _, _, _, _ => bad "plan"
  | _ => bad "plan"

def opRPlan (args : List String) (impl : String) : Verdict :=
  match args with
  | [size, bs, rs] =>
    match size.toNat?, bs.toNat?, parseNatList rs with
    | some size, some bs, some rs =>
      let sf := match parsePlan impl with
        | none => some "malformed / panic"
        | some p => if Spec.nChunks size > 4096 then none else planPreWF size 0 bs rs p
      { model := planStr ((⟨size, bs⟩ : Tree).responseChunks rs), specFail := sf }
    | _, _, _ => bad "rplan"
  | _ => bad "rplan"

def opPPlan (args : List String) (impl : String) : Verdict :=
  match args.mapM (·.toNat?) with
  | some [size, bs] =>
    let sf := match parsePlan impl with
      | none => some "malformed / panic"
      | some p => planPostWF size bs p
    { model := planStr (some (⟨size, bs⟩ : Tree).postOrderChunks), specFail := sf }
  | _ => bad "pplan"

end Bao.Ops
