import BaoModel.Blake3

/-!
# The hash abstraction

The model is parametric in the two BLAKE3 primitives the crate uses and in the
32-byte wire representation of a hash.  Theorems quantify over every `HashFns`;
the driver instantiates it with the executable BLAKE3 of `Blake3.lean`.
-/

namespace Bao

structure HashFns (H : Type) where
  /-- chaining value of one chunk: chunk counter, at most 1024 bytes, ROOT flag -/
  chunkCv  : Nat → List UInt8 → Bool → H
  /-- chaining value of a parent: left, right, ROOT flag -/
  parentCv : H → H → Bool → H
  /-- `blake3::Hash::from([u8;32])` (the argument has 32 bytes at every call site) -/
  ofBytes  : List UInt8 → H
  /-- `Hash::as_bytes` -/
  toBytes  : H → List UInt8

/-- the real instance: a hash is its 32 bytes -/
def realHash : HashFns (List UInt8) where
  chunkCv := Blake3.chunkCv
  parentCv := Blake3.parentCv
  ofBytes := id
  toBytes := id

/-- bytes per BLAKE3 chunk -/
def chunkLen : Nat := 1024

/--
`hash_subtree(start_chunk, data, is_root)` for `data.length ≤ 2^L * 1024`:
the BLAKE3 tree hash of `data` placed at chunk `start`.  Structural recursion on
the level bound `L`: a subtree whose data fits in the left half is the left half.
-/
def cvLevel (hf : HashFns H) : Nat → Nat → List UInt8 → Bool → H
  | 0, start, data, isRoot => hf.chunkCv start data isRoot
  | L + 1, start, data, isRoot =>
    if data.length ≤ 2 ^ L * chunkLen then cvLevel hf L start data isRoot
    else
      hf.parentCv
        (cvLevel hf L start (data.take (2 ^ L * chunkLen)) false)
        (cvLevel hf L (start + 2 ^ L) (data.drop (2 ^ L * chunkLen)) false)
        isRoot

/-- `hash_subtree` (any length below `2^64 * 1024` bytes) -/
def hashSubtree (hf : HashFns H) (start : Nat) (data : List UInt8) (isRoot : Bool) : H :=
  cvLevel hf 64 start data isRoot

end Bao
