import BaoModel.Ops1

/-!
# Driver operations, part 2: outboards, encoders, decoders (real BLAKE3 instance)
-/

namespace Bao.Ops
open Bao.Proto

abbrev HB := List UInt8
def hf : HashFns HB := realHash

def zerosN (n : Nat) : List UInt8 := List.replicate n 0
def staleN (n : Nat) : List UInt8 := (List.range n).map fun i => UInt8.ofNat ((i * 7 + 3) % 256)

def isPostKind : StoreKind → Bool
  | .postIo | .postMem => true
  | _ => false

/-- intact store of a blob for a store kind (model-computed) -/
def intactStore (kind : StoreKind) (d : List UInt8) (bs : Nat) : Store HB :=
  let tree : Tree := ⟨d.length, bs⟩
  if isPostKind kind then
    let r := outboardPostOrder hf d tree
    { kind, root := (match r.res with | .ok h => h | _ => []), tree, data := r.sink }
  else
    let r := outboard hf d tree { kind := .preMem, root := [], tree, data := zerosN tree.outboardSize }
    { kind, root := (match r.res with | .ok h => h | _ => []), tree, data := r.sink.data }

def resHashStr : Res IoErr HB → String
  | .ok h => hex h
  | .err e => ioErrStr e
  | .panic => "panic"

/-- `ob blob bs entry` -/
def opOb (args : List String) (impl : String) : Verdict :=
  match args with
  | [b, bs, entry0] =>
    -- `+t<m>`: the data reader hands out at most m bytes per call; nothing may depend on that
    -- `+p<k>`: the reader is handed to `create` positioned at byte k; `create` rewinds it
    let entry := (entry0.splitOn "+").head!
    match blob b, bs.toNat? with
    | some d, some bs =>
      let tree : Tree := ⟨d.length, bs⟩
      let obsize := tree.outboardSize
      let mk (kind : StoreKind) (init : List UInt8) : Store HB := { kind, root := [], tree, data := init }
      let viaStore (kind : StoreKind) (init : List UInt8) : String × List UInt8 :=
        let r := outboard hf d tree (mk kind init)
        (resHashStr r.res, r.sink.data)
      let viaWriter : String × List UInt8 :=
        let r := outboardPostOrder hf d tree
        (resHashStr r.res, r.sink)
      let res : Option (String × List UInt8 × Bool) :=   -- (root, ob bytes, is pre-order)
        match entry with
        | "sync-create-preMem" => let r := viaStore .preMem (zerosN obsize); some (r.1, r.2, true)
        | "sync-create-postMem" | "sync-post-order" | "fsm-post-order" => let r := viaWriter; some (r.1, r.2, false)
        | "sync-sized-preIo" | "fsm-sized-preIo" | "sync-create-preIo" | "fsm-create-preIo" => let r := viaStore .preIo []; some (r.1, r.2, true)
        | "sync-sized-postIo" | "fsm-sized-postIo" | "sync-create-postIo" | "fsm-create-postIo" => let r := viaStore .postIo []; some (r.1, r.2, false)
        | "sync-init-preIo" | "fsm-init-preIo" => let r := viaStore .preIo (staleN obsize); some (r.1, r.2, true)
        | "sync-init-postIo" | "fsm-init-postIo" => let r := viaStore .postIo (staleN obsize); some (r.1, r.2, false)
        | e =>
          let k := if e.startsWith "sync-outboard-" then (e.drop 14).toString
                   else if e.startsWith "fsm-outboard-" then (e.drop 13).toString else ""
          match storeKind? k with
          | some kind =>
            let r := viaStore kind (staleN obsize)
            some (r.1, r.2, !isPostKind kind)
          | none => none
      match res with
      | none => bad "ob entry"
      | some (rootS, obBytes, isPre) =>
        let b3 := hex (hashSubtree hf 0 d true)
        let baoOb := if bs == 0 then dig (Spec.preOutboard hf d 0) else "-"
        let m := s!"{rootS} {dig obBytes} {b3} {baoOb}"
        let isEmptyKind := entry.endsWith "-empty"
        let sf : Option String :=
          match impl.splitOn " " with
          | [r, ob, ib3, ibao] =>
            let specOb := if isEmptyKind then staleN obsize
              else if isPre then Spec.preOutboard hf d bs else Spec.postOutboard hf d bs
            if r != ib3 then some "root differs from blake3::hash(data)"
            else if r != hex (Spec.root hf d) then some "root differs from Spec.root"
            else if ob != dig specOb then some s!"outboard bytes differ from Spec pre/postOutboard ({dig specOb})"
            else if specOb.length != (Spec.nBlocks d.length bs - 1) * 64 then some "outboard size"
            else if bs == 0 && isPre && !isEmptyKind && ob != ibao then some "differs from bao crate outboard"
            else none
          | _ => some "malformed"
        { model := m, specFail := sf, nontrivial := Spec.nBlocks d.length bs > 1 }
    | _, _ => bad "ob"
  | _ => bad "ob"

/-- apply `d<pos>^<xor>` / `o<pos>^<xor>` corruptions -/
def applyCorruption (spec : String) (d ob : List UInt8) : Option (List UInt8 × List UInt8) :=
  if spec == "-" then some (d, ob) else
  (spec.splitOn ",").foldlM (fun (acc : List UInt8 × List UInt8) c =>
    if c.startsWith "Td" then (c.drop 2).toString.toNat?.map fun len => (acc.1.take len, acc.2) else
    let which := c.take 1 |>.toString
    match ((c.drop 1).toString.splitOn "^").mapM (·.toNat?) with
    | some [pos, x] =>
      let flip (l : List UInt8) : List UInt8 :=
        if pos < l.length then l.set pos (l[pos]! ^^^ UInt8.ofNat x) else l
      if which == "d" then some (flip acc.1, acc.2) else some (acc.1, flip acc.2)
    | _ => none) (d, ob)

/-- positions a query depends on: data bytes of touched groups, stored slots of plan parents -/
def encDeps (tree : Tree) (kind : StoreKind) (ranges : Ranges) : Option (List (Nat × Nat) × List (Nat × Nat)) :=
  let ranges := Ranges.truncate ranges tree.size
  (tree.prePartialChunks ranges 0).map fun plan =>
    let st : Store HB := { kind, root := [], tree, data := [] }
    plan.foldl (fun (acc : List (Nat × Nat) × List (Nat × Nat)) c =>
      match c with
      | .leaf start size _ _ => ((toBytes start, toBytes start + size) :: acc.1, acc.2)
      | .parent node _ _ _ _ =>
        match st.slot node with
        | some k => (acc.1, (k * 64, k * 64 + 64) :: acc.2)
        | none => acc) ([], [])

/-- `enc blob bs store flavour plain|val ranges corruption` -/
def opEnc (args : List String) (impl : String) : Verdict :=
  match args with
  | [b, bs, kind, fl, mode, rs, cor] =>
    -- `syncw<k>`: a sink that accepts at most k bytes per write call; nothing may depend on that
    let fl := if fl.startsWith "syncw" then "sync" else fl
    match blob b, bs.toNat?, storeKind? kind, parseNatList rs with
    | some d, some bs, some kind, some ranges =>
      let st0 := intactStore kind d bs
      match applyCorruption cor d st0.data with
      | none => bad "corruption"
      | some (d', ob') =>
        let st := { st0 with data := ob' }
        let honest := Spec.encode hf d bs ranges
        let (m, isMixed) : String × Bool :=
          if fl == "mixed" then
            match traverseRangesValidated hf d' st ranges with
            | none => ("panic", true)
            | some items =>
              let flat := items.flatMap (EncodedItem.flatten hf)
              let term := match items.getLast? with
                | some .done => "Ok"
                | some (.error e) => encErrStr e
                | _ => "none"
              (s!"{term} {dig flat} framing=1", true)
          else
            let f := if fl == "fsm" then Flavour.fsm else Flavour.sync
            let r := if mode == "val" then encodeRangesValidated hf f d' st ranges else encodeRanges hf f d' st ranges
            (s!"{encEndStr r.terminal} {dig r.out}", false)
        -- spec verdict on the implementation's output
        let toks := impl.splitOn " "
        let sf : Option String :=
          match toks with
          | term :: dg :: rest =>
            match (dg.splitOn ":").mapM (·.toNat?) with
            | some [len, _] =>
              let intact := cor == "-"
              let validated := mode == "val" || fl == "mixed"
              if term == "panic" then some "panic"
              else if isMixed && rest != ["framing=1"] then some "item stream not framed by Size … Done|Error"
              else if intact then
                if term != "Ok" then some s!"intact store: {term}"
                else if dg != dig honest then some s!"differs from Spec.encode ({dig honest})"
                else none
              else if validated then
                -- corrupted store: emitted bytes are a prefix of the honest encoding;
                -- Ok only with the complete honest encoding; error iff a dependency is hit
                if dg != dig (honest.take len) || len > honest.length then some "emitted bytes are not a prefix of the honest encoding"
                else if term == "Ok" && len != honest.length then some "Ok with incomplete output"
                else
                  let truncAt : Option Nat := (cor.splitOn ",").findSome? fun c =>
                    if c.startsWith "Td" then (c.drop 2).toString.toNat? else none
                  let hit : Bool := match encDeps ⟨d.length, bs⟩ kind ranges with
                    | none => false
                    | some (dd, od) =>
                      -- a dependency is hit iff the byte actually differs after ALL listed corruptions
                      -- (the same position may be listed twice and cancel out)
                      (cor.splitOn ",").any fun c =>
                        let which := c.take 1 |>.toString
                        match ((c.drop 1).toString.splitOn "^").mapM (·.toNat?) with
                        | some [pos, _] =>
                          (if which == "d" then pos < d.length && d'[pos]? != d[pos]? && dd.any fun (a, e) => a ≤ pos && pos < e
                           else (kind != .empty) && ob'[pos]? != st0.data[pos]? && od.any fun (a, e) => a ≤ pos && pos < e)
                        | _ => false
                  let cutHit : Bool := match truncAt, encDeps ⟨d.length, bs⟩ kind ranges with
                    | some len, some (dd, _) => dd.any fun (_, e) => e > len
                    | _, _ => false
                  if cutHit && !hit then
                    (if term.startsWith "Io(UnexpectedEof" then none else some s!"data store too short but reported as {term}")
                  else if cutHit then
                    (if term == "Ok" then some "short data store but Ok" else none)
                  else
                  if hit && term == "Ok" then some "corrupted dependency but Ok"
                  else if hit && !(term.startsWith "ParentHashMismatch" || term.startsWith "LeafHashMismatch") then some s!"corrupted dependency reported as {term}"
                  else if !hit && term != "Ok" then some s!"no dependency corrupted but {term}"
                  else none
              else none
            | _ => some "malformed"
          | _ => some "malformed"
        { model := m, specFail := sf, nontrivial := !honest.isEmpty }
    | _, _, _, _ => bad "enc"
  | _ => bad "enc"

/-- honest validated encodings of the listed sources (model side) -/
def buildSources (sources : String) : Option (List (List UInt8)) :=
  if sources == "-" then some [] else
  (sources.splitOn ";").mapM fun s =>
    match s.splitOn "/" with
    | [b, bs, rs] => do
      let d ← blob b; let bs ← bs.toNat?; let rs ← parseNatList rs
      let st := intactStore .preMem d bs
      pure (encodeRangesValidated hf .sync d st rs).out
    | _ => none

def buildStream (srcs : List (List UInt8)) (expr : String) : Option (List UInt8) :=
  match expr.splitOn "~" with
  | [] => none
  | segs :: muts => do
    let base ← (if segs == "-" then some [] else
      (segs.splitOn "+").foldlM (fun (acc : List UInt8) seg =>
        if seg.startsWith "x" then (parseHex (seg.drop 1).toString).map (acc ++ ·)
        else match seg.splitOn ":" with
          | [k, a, b] => do
            let k ← k.toNat?; let a ← a.toNat?
            let src ← srcs[k]?
            let b ← (if b == "$" then some src.length else b.toNat?)
            let a := min a src.length
            let b := max (min b src.length) a
            pure (acc ++ (src.drop a).take (b - a))
          | _ => none) [])
    muts.foldlM (fun (acc : List UInt8) m =>
      match (m.splitOn "^").mapM (·.toNat?) with
      | some [pos, x] => some (if pos < acc.length then acc.set pos (acc[pos]! ^^^ UInt8.ofNat x) else acc)
      | _ => none) base

def srcDigs (srcs : List (List UInt8)) : String :=
  if srcs.isEmpty then "-" else ";".intercalate (srcs.map dig)

/-- true pairs of every existing node of the bs=0 tree of `d`, as 64-byte strings -/
def allTruePairs (d : List UInt8) : List (Nat × List UInt8) :=
  (Spec.persistedPre d.length 0).map fun x => (x, Spec.pairBytes hf d x)

def ioKindOfTerm (t : String) : String :=
  if t.startsWith "ParentNotFound" || t.startsWith "LeafNotFound" then "UnexpectedEof"
  else if t.startsWith "ParentHashMismatch" || t.startsWith "LeafHashMismatch" then "InvalidData"
  else ""

/-- `dec flavour blob claimed bs ranges sources stream` -/
def opDec (args : List String) (impl : String) : Verdict :=
  match args with
  | [fl, b, claimed, bs, rs, sources, expr] =>
    match flavour? fl, blob b, claimed.toNat?, bs.toNat?, parseNatList rs, buildSources sources with
    | some fl, some d, some claimed, some bs, some ranges, some srcs =>
      match buildStream srcs expr with
      | none => bad "stream"
      | some stream =>
        let root := hashSubtree hf 0 d true
        let tree : Tree := ⟨claimed, bs⟩
        let run := decodeAll hf fl root tree ranges stream
        let term := match run.terminal with
          | .done => "Done"
          | .panic => "panic"
          | .err e => s!"{decErrStr e}>{ioKindStr e.toIoKind}"
        let restS := if run.terminal == .done then toString run.rest.length else "_"
        let m := s!"{itemsStr run.items} // {term} {restS} acc=1 src={srcDigs srcs}"
        -- ===== spec verdict on the implementation's output =====
        let sf : Option String :=
          match impl.splitOn " // " with
          | [itemsS, tail] =>
            let its := if itemsS == "-" then [] else itemsS.splitOn " "
            match tail.splitOn " " with
            | [iterm, irest, iacc, isrc] =>
              if isrc != s!"src={srcDigs srcs}" then some "source encodings differ between implementation and model"
              else if iterm.startsWith "panic" then some "decoder panicked"
              else if iacc != "acc=1" then some "accessor did not report root / tree at some step"
              else
                -- C01: every item is true
                let truePairs := allTruePairs d
                let badItem := its.find? fun it =>
                  match (it.drop 1).toString.splitOn "/" with
                  | [pos, dg] =>
                    match pos.toNat?, (dg.splitOn ":").mapM (·.toNat?) with
                    | some pos, some [len, _] =>
                      if it.startsWith "L" then
                        !(pos + len ≤ d.length && dg == dig ((d.drop pos).take len))
                      else
                        if claimed == d.length then
                          !(truePairs.any fun (x, pb) => x == pos && dig pb == dg)
                        else !(truePairs.any fun (_, pb) => dig pb == dg)
                    | _, _ => true
                  | _ => true
                match badItem with
                | some it => some s!"item {it} is not an item of the true blob"
                | none =>
                  let kindOk :=
                    match iterm.splitOn ">" with
                    | [t, k] => ioKindOfTerm t == "" || ioKindOfTerm t == k
                    | _ => iterm == "Done"
                  if !kindOk then some "io error kind of the decode error"
                  else
                    let n' := Spec.nChunks claimed
                    let selLast := Spec.selected claimed ranges (n' - 1)
                    if iterm == "Done" && selLast && claimed != d.length then
                      some "decode with a size-proof query completed for a wrong claimed size"
                    else
                      -- honest stream of the same geometry: C02 / C09 expectations
                      let sameGeom := claimed == d.length && sources == s!"{b}/{bs}/{rs}"
                      if !sameGeom then none else
                      let honestItems := Spec.items hf d bs ranges
                      let honest := honestItems.flatMap Spec.SItem.bytes
                      let itemLabel (i : Spec.SItem) (kind : String) : String := match i with
                        | .parent node _ => s!"Parent{kind}({node})"
                        | .leaf c _ => s!"Leaf{kind}({c})"
                      let itemStrS (i : Spec.SItem) : String := match i with
                        | .parent node bts => s!"P{node}/{dig bts}"
                        | .leaf c bts => s!"L{c * 1024}/{dig bts}"
                      -- the item containing byte position p, and the items before it
                      let rec locate (l : List Spec.SItem) (off p : Nat) (acc : List Spec.SItem) : List Spec.SItem × Option Spec.SItem :=
                        match l with
                        | [] => (acc.reverse, none)
                        | i :: rest => if p < off + i.bytes.length then (acc.reverse, some i) else locate rest (off + i.bytes.length) p (i :: acc)
                      let expectAt (p : Nat) (kind : String) : Option String :=
                        let (before, at_) := locate honestItems 0 p []
                        match at_ with
                        | none => none
                        | some i =>
                          let want := before.map itemStrS
                          if its != want then some s!"items before the fault differ: want {want.length} got {its.length}"
                          else if (iterm.splitOn ">").head! != itemLabel i kind then some s!"fault reported as {iterm}, expected {itemLabel i kind}"
                          else none
                      if expr == "0:0:$" then
                        if iterm != "Done" then some s!"honest stream rejected: {iterm}"
                        else if irest != "0" then some "honest stream not consumed exactly"
                        else if its != honestItems.map itemStrS then some "items differ from Spec.items"
                        else none
                      else match expr.splitOn ":" with
                        | ["0", "0", k] =>
                          match k.toNat? with
                          | some k => if k < honest.length then expectAt k "NotFound" else none
                          | none => none
                        | _ =>
                          match expr.splitOn "~" with
                          | ["0:0:$", mu] =>
                            match (mu.splitOn "^").mapM (·.toNat?) with
                            | some [p, x] => if x % 256 != 0 && p < honest.length then expectAt p "HashMismatch" else none
                            | _ => none
                          | _ => none
            | _ => some "malformed"
          | _ => some "malformed"
        { model := m, specFail := sf, nontrivial := !stream.isEmpty }
    | _, _, _, _, _, _ => bad "dec"
  | _ => bad "dec"

/-- `decr flavour sink blob bs ranges sources stream fill` -/
def opDecr (args : List String) (impl : String) : Verdict :=
  -- optional 9th argument `c<size>`: the receiver's outboard claims this size
  let (args, claimedArg) : List String × Option Nat := match args with
    | [a, b, c, d, e, f, g, h, cl] => ([a, b, c, d, e, f, g, h], (cl.drop 1).toString.toNat?)
    | _ => (args, none)
  match args with
  | [fl, kind, b, bs, rs, sources, expr, fill] =>
    match flavour? fl, storeKind? kind, blob b, bs.toNat?, parseNatList rs, buildSources sources, fill.toNat? with
    | some fl, some kind, some d, some bs, some ranges, some srcs, some fill =>
      match buildStream srcs expr with
      | none => bad "stream"
      | some stream =>
        let root := hashSubtree hf 0 d true
        let claimed := claimedArg.getD d.length
        let tree : Tree := ⟨claimed, bs⟩
        let ob0 := List.replicate tree.outboardSize (UInt8.ofNat 0xAA)
        let target0 := List.replicate (max d.length (min claimed (2 ^ 20))) (UInt8.ofNat fill)
        let sink : Sink HB := { ob := { kind, root, tree, data := ob0 }, target := target0 }
        let run := decodeRanges hf fl stream ranges sink
        let term := match run.terminal with
          | .done => "Done" | .panic => "panic" | .err e => decErrStr e
        let restS := if run.terminal == .done then toString run.rest.length else "_"
        let m := s!"{term} {dig run.sink.target} {dig run.sink.ob.data} src={srcDigs srcs} rest={restS}"
        -- an honest stream, possibly followed by trailing bytes `+x<hex>`
        let trailing : Option Nat :=
          if sources != s!"{b}/{bs}/{rs}" || claimed != d.length then none
          else if expr == "0:0:$" then some 0
          else if expr.startsWith "0:0:$+x" && !(expr.contains '~') then some (((expr.drop 7).toString.length) / 2)
          else none
        let sf : Option String :=
          match impl.splitOn " " with
          | [iterm, _itgt, _iob, isrc, irest] =>
            if isrc != s!"src={srcDigs srcs}" then some "source encodings differ"
            else if iterm == "panic" then some "decode_ranges panicked"
            else if iterm == "Done" && claimed != d.length && Spec.selected claimed ranges (Spec.nChunks claimed - 1) then
              some "decode_ranges with a size-proof query completed for a wrong claimed size"
            else
              match trailing with
              | some t =>
                if iterm != "Done" then some s!"honest stream rejected: {iterm}"
                else if irest != s!"rest={t}" then some s!"honest stream not consumed exactly: {irest}, expected rest={t}"
                else none
              | none => none
          | _ => some "malformed"
        -- target/outboard contents are judged through the model (agreement) and, for honest
        -- streams, by the C02 expectation below
        let sf := match sf with
          | some e => some e
          | none =>
            if trailing.isSome then
              -- expected final target: selected chunks hold blob bytes, everything else `fill`
              let n := Spec.nChunks d.length
              let selc := (List.range n).map fun c => Spec.selected d.length ranges c
              let expT := (d.zipIdx).map fun (x, i) =>
                if selc.getD (i / 1024) false then x else UInt8.ofNat fill
              let _ := n
              match impl.splitOn " " with
              | [_, itgt, _, _, _] => if itgt != dig expT then some "target differs from blob-on-selected / untouched-elsewhere" else none
              | _ => none
            else if sources == s!"{b}/{bs}/{rs}" && claimed == d.length then
              -- C09 at the level of the driver: an honest stream cut at byte k / with byte p altered must be
              -- answered with the TYPED error naming the item that contains that byte
              let honestItems := Spec.items hf d bs ranges
              let total := (honestItems.flatMap Spec.SItem.bytes).length
              let labelAt (p : Nat) (kindS : String) : Option String :=
                let rec go (l : List Spec.SItem) (off : Nat) : Option String :=
                  match l with
                  | [] => none
                  | i :: rest =>
                    if p < off + i.bytes.length then
                      some (match i with | .parent node _ => s!"Parent{kindS}({node})" | .leaf c _ => s!"Leaf{kindS}({c})")
                    else go rest (off + i.bytes.length)
                go honestItems 0
              let want : Option String :=
                match expr.splitOn ":" with
                | ["0", "0", k] => (k.toNat?).bind fun k => if k < total then labelAt k "NotFound" else none
                | _ =>
                  match expr.splitOn "~" with
                  | ["0:0:$", mu] =>
                    match (mu.splitOn "^").mapM (·.toNat?) with
                    | some [p, x] => if x % 256 != 0 && p < total then labelAt p "HashMismatch" else none
                    | _ => none
                  | _ => none
              match want, impl.splitOn " " with
              | some w, iterm :: _ => if iterm != w then some s!"decode_ranges answered the fault with {iterm}, expected {w}" else none
              | _, _ => none
            else none
        { model := m, specFail := sf, nontrivial := !stream.isEmpty }
    | _, _, _, _, _, _, _ => bad "decr"
  | _ => bad "decr"

/-- `encx blob bs store ranges corruption`: five encoder flavours; spec: they agree -/
def opEncX (args : List String) (impl : String) : Verdict :=
  match args with
  | [b, bs, kind, rs, cor] =>
    let flavours := [("sync", "val"), ("sync", "plain"), ("fsm", "val"), ("fsm", "plain"), ("mixed", "val")]
    let implParts := impl.splitOn " ; "
    if implParts.length != 5 then { model := "?", specFail := some "malformed" } else
    let vs := (flavours.zip implParts).map fun ((fl, mode), ip) => opEnc [b, bs, kind, fl, mode, rs, cor] ip
    let m := " ; ".intercalate (vs.map (·.model))
    let two (s : String) : String := " ".intercalate ((s.splitOn " ").take 2)
    let p := implParts.map two
    let sf : Option String :=
      match vs.findSome? (·.specFail) with
      | some e => some e
      | none =>
        if !(p[0]! == p[2]! && p[0]! == p[4]!) then some "validating encoders (sync / fsm / item stream) differ"
        else if p[1]! != p[3]! then some "plain encoders (sync / fsm) differ"
        else if cor == "-" && p[0]! != p[1]! then some "plain differs from validated on an intact store"
        else none
    { model := m, specFail := sf, nontrivial := vs.any (·.nontrivial) }
  | _ => bad "encx"

/-- `decx blob claimed bs ranges sources stream`: both decoders; spec: same items, same terminal -/
def opDecX (args : List String) (impl : String) : Verdict :=
  match args with
  | [b, claimed, bs, rs, sources, expr] =>
    let implParts := impl.splitOn " ; "
    if implParts.length != 2 then { model := "?", specFail := some "malformed" } else
    let vs := (["sync", "fsm"].zip implParts).map fun (fl, ip) => opDec [fl, b, claimed, bs, rs, sources, expr] ip
    let m := " ; ".intercalate (vs.map (·.model))
    let sf : Option String :=
      match vs.findSome? (·.specFail) with
      | some e => some e
      | none => if implParts[0]! != implParts[1]! then some "sync and fsm decoders differ" else none
    { model := m, specFail := sf, nontrivial := vs.any (·.nontrivial) }
  | _ => bad "decx"

/-- `baocmp blob start len`: block size 0, one byte range; spec: identical to the bao crate's slice -/
def opBaoCmp (args : List String) (impl : String) : Verdict :=
  match args with
  | [b, start, len] =>
    match blob b, start.toNat?, len.toNat? with
    | some d, some start, some len =>
      let byteRanges : List Nat := if len == 0 then [] else [start, start + len]
      let chunkRanges := Ranges.roundUpToChunks byteRanges
      let size := d.length
      let prefix8 : List UInt8 := (List.range 8).map fun i => UInt8.ofNat ((size >>> (8 * i)) % 256)
      let st := intactStore .preMem d 0
      let ours := prefix8 ++ (encodeRangesValidated hf .sync d st chunkRanges).out
      let m := s!"{natList chunkRanges} {dig ours} {dig ours} 1"
      let sf : Option String :=
        match impl.splitOn " " with
        | [_, o, ba, ok] =>
          if o != ba then some "encoding differs from bao::encode::SliceExtractor"
          else if ok != "1" then some "bao::decode::SliceDecoder rejects or returns other bytes"
          else if o != dig (prefix8 ++ Spec.encode hf d 0 chunkRanges) then some "differs from Spec.encode at block size 0"
          else none
        | _ => some "malformed"
      { model := m, specFail := sf, nontrivial := len > 0 }
    | _, _, _ => bad "baocmp"
  | _ => bad "baocmp"

/-- `obpre pattern seed n m bs flavour`: post-order outboards of a blob and of an extension -/
def opObPre (args : List String) (impl : String) : Verdict :=
  match args with
  | [pat, seed, n, m', bs, _fl] =>
    match blob s!"{pat}:{seed}:{m'}", n.toNat?, bs.toNat? with
    | some ext, some n, some bs =>
      let pre := ext.take n
      let a := (outboardPostOrder hf pre ⟨n, bs⟩).sink
      let b := (outboardPostOrder hf ext ⟨ext.length, bs⟩).sink
      let t : Tree := ⟨n, bs⟩
      let stable := (t.postOrderNodesIter.filter fun x =>
        match t.postOrderOffset x with | some (.stable _) => true | _ => false).length
      let rec lcp (fuel : Nat) (a b : List UInt8) (k : Nat) : Nat :=
        match fuel with
        | 0 => k
        | fuel + 1 =>
          if a.length ≥ 64 && b.length ≥ 64 && a.take 64 == b.take 64 then lcp fuel (a.drop 64) (b.drop 64) (k + 1) else k
      let l := lcp (a.length / 64 + 1) a b 0
      let t2 : Tree := ⟨ext.length, bs⟩
      let stable2 := (t2.postOrderNodesIter.filter fun x =>
        match t2.postOrderOffset x with | some (.stable _) => true | _ => false).length
      let m := s!"{a.length / 64} {stable} {l} {b.length / 64} {stable2}"
      let specStable2 := ((Spec.persistedPost ext.length bs).filter fun x =>
        Spec.endOf (Spec.indexOf x) (Spec.levelOf x) * 1024 ≤ ext.length).length
      -- spec: number of stable pairs = persisted nodes whose subtree lies inside the blob; they are a common prefix
      let specStable := ((Spec.persistedPost n bs).filter fun x =>
        Spec.endOf (Spec.indexOf x) (Spec.levelOf x) * 1024 ≤ n).length
      let sf : Option String :=
        match (impl.splitOn " ").mapM (·.toNat?) with
        | some [pairs, st, l, g, st2] =>
          if pairs != Spec.nBlocks n bs - 1 then some "number of pairs"
          else if st != specStable then some s!"stable count {st}, spec {specStable}"
          else if l < st then some s!"stable prefix of {st} pairs is not a prefix of the extension's outboard (common prefix {l})"
          else if st2 != specStable2 then some s!"stable count of the extension {st2}, spec {specStable2}"
          else if g < st2 then some s!"the extension's outboard (grown in place) has only {g} of its {st2} stable pairs right: cut after them it is not a prefix of the outboards of further extensions"
          else none
        | _ => some "malformed"
      { model := m, specFail := sf, nontrivial := specStable > 0 }
    | _, _, _ => bad "obpre"
  | _ => bad "obpre"

/-- `enc2 blob bs q1 q2` (q1, q2 select the same chunks); spec: identical bytes, cross decode succeeds -/
def opEnc2 (args : List String) (impl : String) : Verdict :=
  match args with
  | [b, bs, q1, q2] =>
    match blob b, bs.toNat?, parseNatList q1, parseNatList q2 with
    | some d, some bs, some q1, some q2 =>
      let st := intactStore .preMem d bs
      let e1 := (encodeRangesValidated hf .sync d st q1).out
      let e2 := (encodeRanges hf .fsm d st q2).out
      let tree : Tree := ⟨d.length, bs⟩
      let sink : Sink HB := { ob := { kind := .postMem, root := st.root, tree, data := zerosN tree.outboardSize }, target := zerosN d.length }
      let run := decodeRanges hf .sync e2 q1 sink
      let sink2 : Sink HB := { ob := { kind := .preMem, root := st.root, tree, data := zerosN tree.outboardSize }, target := zerosN d.length }
      let run2 := decodeRanges hf .fsm e1 q2 sink2
      -- all four byte encoders on both queries, compared with `e1`
      let encs (q : Ranges) : List (EncRun) :=
        [encodeRangesValidated hf .sync d st q, encodeRanges hf .sync d st q,
         encodeRangesValidated hf .fsm d st q, encodeRanges hf .fsm d st q]
      let sameS := String.join (((encs q1) ++ (encs q2)).map fun r => bool01 (r.terminal == .ok && r.out == e1))
      let run3 := decodeAll hf .sync st.root tree q1 e2
      let m := s!"{dig e1} {dig e2} {decEndStr run.terminal} {decEndStr run2.terminal} {sameS} {decEndStr run3.terminal}"
      let same := (List.range (Spec.nChunks d.length)).all fun c => Spec.selected d.length q1 c == Spec.selected d.length q2 c
      let sf : Option String :=
        if !same then none else
        match impl.splitOn " " with
        | [a, b', t, t2, sm, t3] =>
          if a != b' then some "equivalent queries encode differently"
          else if sm != "11111111" then some s!"equivalent queries: the eight encodings (sync/fsm x validating/plain x q1/q2) are not all equal: {sm}"
          else if t != "Done" then some s!"cross decode (sync, q1 on the encoding of q2): {t}"
          else if t2 != "Done" then some s!"cross decode (fsm, q2 on the encoding of q1): {t2}"
          else if t3 != "Done" then some s!"cross decode (sync decoder with a caller supplied buffer, q1 on the encoding of q2): {t3}"
          else none
        | _ => some "malformed"
      { model := m, specFail := sf, nontrivial := same && !e1.isEmpty }
    | _, _, _, _ => bad "enc2"
  | _ => bad "enc2"

end Bao.Ops
