/-!
# u64 arithmetic on `Nat`

The Rust code computes with `u64`.  The model computes with `Nat` and spells out
the places where a `u64` wraps (shifts, bitwise not, two's complement negation)
or panics in the dev profile (checked add / sub / mul, `none` here).

This file imports nothing (it is linked into the driver executable).
-/

namespace Bao

/-- `2^64` -/
def U64 : Nat := 18446744073709551616

/-- `u64::MAX` -/
def u64Max : Nat := 18446744073709551615

/-- `!x` on u64 -/
def not64 (x : Nat) : Nat := u64Max - x

/-- `x << n` on u64 (bits shifted out are lost; `n < 64` at every call site) -/
def shl64 (x n : Nat) : Nat := (x <<< n) % U64

/-- `-(x as i64) as u64` -/
def neg64 (x : Nat) : Nat := (U64 - x) % U64

/-- `u64::trailing_ones`, counting at most `fuel` bits -/
def trailingOnesAux : Nat → Nat → Nat
  | 0, _ => 0
  | fuel + 1, x => if x % 2 = 1 then trailingOnesAux fuel (x / 2) + 1 else 0

/-- `u64::trailing_ones` (64 bits) -/
def trailingOnes (x : Nat) : Nat := trailingOnesAux 64 x

/-- `u64::count_ones`, at most `fuel` bits -/
def popcountAux : Nat → Nat → Nat
  | 0, _ => 0
  | fuel + 1, x => x % 2 + popcountAux fuel (x / 2)

/-- `u64::count_ones` -/
def popcount (x : Nat) : Nat := popcountAux 64 x

/-- smallest power of two `≥ x` found by doubling `p` at most `fuel` times -/
def nextPow2Aux : Nat → Nat → Nat → Nat
  | 0, p, _ => p
  | fuel + 1, p, x => if x ≤ p then p else nextPow2Aux fuel (2 * p) x

/-- `u64::next_power_of_two` (for `x ≤ 2^63`; `0 ↦ 1`) -/
def nextPow2 (x : Nat) : Nat := nextPow2Aux 64 1 x

/-- `u64::div_ceil(2)` -/
def divCeil2 (x : Nat) : Nat := (x + 1) / 2

/-- checked `a + b` (dev profile: overflow panics) -/
def add? (a b : Nat) : Option Nat := if a + b < U64 then some (a + b) else none

/-- checked `a - b` -/
def sub? (a b : Nat) : Option Nat := if b ≤ a then some (a - b) else none

end Bao
