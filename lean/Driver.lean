import BaoModel.Ops5

open Bao Bao.Ops

def dispatch (op : String) (args : List String) (impl : String) : Verdict :=
  match op with
  | "node" => opNode args impl
  | "nodebs" => opNodeBs args impl
  | "noderp" => opNodeRp args impl
  | "tree" => opTree args impl
  | "treeoff" => opTreeOff args impl
  | "split" => opSplit args impl
  | "trunc" => opTrunc args impl
  | "round" => opRound args impl
  | "plan" => opPlan args impl
  | "rplan" => opRPlan args impl
  | "pplan" => opPPlan args impl
  | "ob" => opOb args impl
  | "enc" => opEnc args impl
  | "dec" => opDec args impl
  | "decr" => opDecr args impl
  | "encx" => opEncX args impl
  | "decx" => opDecX args impl
  | "baocmp" => opBaoCmp args impl
  | "obpre" => opObPre args impl
  | "enc2" => opEnc2 args impl
  | "valid" => opValid args impl
  | "flip" => opFlip args impl
  | "flipx" => opFlipX args impl
  | "glue" => opGlue args impl
  | "hist" => opHist args impl
  | "serde" => opSerde args impl
  | "fragdec" => opFragDec args impl
  | "fragdecr" => opFragDecr args impl
  | "fragob" => opFragOb args impl
  | "fragenc" => opFragEnc args impl
  | "faults" => opFaults args impl
  | "store" => opStore args impl
  | "flipz" => opFlipZ args impl
  | "decrt" => opDecrT args impl
  | "misc" => opMisc args impl
  | _ => bad s!"unknown op {op}"

/-- one input line `op arg ... | impl output` → one verdict line
`A|D  S|F  N|T  [model=…] [spec=…]` -/
def processLine (line : String) : String :=
  match line.splitOn " | " with
  | [lhs, impl] =>
    match lhs.splitOn " " with
    | op :: args =>
      let v := dispatch op args impl
      let a := if v.model == impl then "A" else "D"
      let s := if v.specFail.isNone then "S" else "F"
      let n := if v.nontrivial then "N" else "T"
      let detail := (if a == "D" then s!" model={v.model}" else "") ++
        (match v.specFail with | some r => s!" spec={r}" | none => "")
      s!"{a} {s} {n}{detail}"
    | [] => "D F T malformed"
  | _ => "D F T malformed-line"

partial def loop (h : IO.FS.Stream) (out : IO.FS.Stream) : IO Unit := do
  let line ← h.getLine
  if line.isEmpty then return ()
  let line := line.trimAsciiEnd.toString
  if line.isEmpty || line.startsWith "#" then
    loop h out
  else
    out.putStrLn (processLine line)
    loop h out

def main : IO Unit := do
  let stdin ← IO.getStdin
  let stdout ← IO.getStdout
  loop stdin stdout
