import BaoProofs.Lemmas.PlanPreCover

/-!
# The recursive pre-order plan: exact coverage

* `leaf_agree`: every leaf item of `planPre … L k rs` lies in the node's chunk range clipped to
  the blob, and the sub-query attached to the leaf selects the same chunks of the leaf's span
  as the node's query `rs`.
* `all_leaf_selected` (G): every chunk of a leaf whose attached ranges are "all" (in particular
  of every query leaf) is selected.
* `leaf_group_span` (D): without query leaves below the group level (`ml ≤ bs`) every leaf is
  one aligned chunk group clipped to the blob.
* `plan_cover_groups` (E): for `ml ≤ bs` the leaves of the public plan cover exactly the chunk
  groups the selection touches.
* `cover_exact_aux`, `plan_cover_exact` (F): for a block-size-0 tree and any `ml` (the response
  plan) every chunk of every leaf is selected; the leaves cover exactly the selected chunks.

All statements were first checked with `#eval` (sizes 0 … 20000, `bs ≤ 2`, `ml ≤ 4`, all
well-formed queries with at most four boundaries in `0..9`, all nodes `(k, L)`, `k < 5`, `L ≤ 3`).
-/

namespace Bao.PlanPre
open Bao Bao.Spec Bao.Bits

variable {size bs ml filled root : Nat}

/-! ## small facts -/

theorem midOf_eq_start_add (k L : Nat) : midOf k L = startOf k L + 2 ^ L := by
  rw [midOf_eq, startOf_eq]

theorem endOf_eq_mid_add (k L : Nat) : endOf k L = midOf k L + 2 ^ L := by
  rw [midOf_eq, endOf_eq]; omega

theorem startOf_mod (k bs : Nat) : startOf k bs % 2 ^ bs = 0 := by
  rw [startOf_eq, ← Nat.mul_assoc]
  exact Nat.mul_mod_left _ _

theorem midOf_mod (k bs : Nat) : midOf k bs % 2 ^ bs = 0 := by
  rw [midOf_eq, ← odd_mul]
  exact Nat.mul_mod_left _ _

theorem nChunks_le_of_le_toBytes {size m : Nat} (hm : 0 < m) (h : size ≤ toBytes m) :
    nChunks size ≤ m := by
  unfold toBytes at h; unfold nChunks; omega

theorem selected_all (size c : Nat) :
    Spec.selected size [0] c = decide (c < nChunks size) := by
  rw [Ranges.selected_eq_reachesPast, Ranges.contains_singleton]
  simp

theorem isAll_eq {x : Ranges} (h : Ranges.isAll x = true) : x = [0] := by
  simpa [Ranges.isAll] using h

theorem queryLeaf_all {L : Nat} {rs : Ranges} (h : queryLeaf bs ml L rs = true) : rs = [0] := by
  simp only [queryLeaf, Bool.and_eq_true] at h
  exact isAll_eq h.1

theorem queryLeaf_lt {L : Nat} {rs : Ranges} (h : queryLeaf bs ml L rs = true) : L + bs < ml := by
  simp only [queryLeaf, Bool.and_eq_true, decide_eq_true_eq] at h
  exact h.2

/-- two points of one aligned group -/
theorem div_eq_of_aligned {p s x : Nat} (hs : s % p = 0) (h1 : s ≤ x) (h2 : x < s + p) :
    x / p = s / p := by
  have hp : 0 < p := by omega
  obtain ⟨t, rfl⟩ := Nat.dvd_of_mod_eq_zero hs
  rw [Nat.mul_div_cancel_left _ hp]
  exact Nat.div_eq_of_lt_le (by rw [Nat.mul_comm]; exact h1)
    (by rw [Nat.add_mul, Nat.one_mul, Nat.mul_comm]; exact h2)

theorem aligned_of_div_eq {p s c : Nat} (hp : 0 < p) (hs : s % p = 0) (h : c / p = s / p) :
    s ≤ c ∧ c < s + p := by
  obtain ⟨t, rfl⟩ := Nat.dvd_of_mod_eq_zero hs
  rw [Nat.mul_div_cancel_left _ hp] at h
  have h1 := Nat.div_add_mod c p
  have h2 := Nat.mod_lt c hp
  rw [h] at h1
  omega

/-! ## the ranges attached to a leaf agree with the node's query -/

theorem nodeLeaf_agree (g : Geo size bs filled) {L k : Nat} {rs : Ranges}
    (hlt : nodeOf k L < filled) {s z : Nat} {r : Bool} {x : Ranges}
    (hm : Chunk.leaf s z r x ∈ [nodeLeaf size bs root L k rs]) :
    s = startOf k (L + bs) ∧
      s + max 1 (chunksOf z) = min (endOf k (L + bs)) (nChunks size) ∧ x = rs := by
  have hs : startOf k L < filled := Nat.lt_of_le_of_lt (startOf_le_nodeOf k L) hlt
  have hm := List.mem_singleton.1 hm
  simp only [nodeLeaf, Chunk.leaf.injEq] at hm
  obtain ⟨rfl, rfl, -, rfl⟩ := hm
  exact ⟨rfl, span_eq (g.start_strict hs) (startOf_lt_endOf k (L + bs)), rfl⟩

/-- membership in the item list of a chunk group, resolved -/
theorem mem_group {k : Nat} {rs : Ranges} {s z : Nat} {r : Bool} {x : Ranges}
    (hm : Chunk.leaf s z r x ∈ nodeParent bs root 0 k rs ::
      ((if (lq bs 0 k rs).isEmpty then [] else [leftLeaf bs k rs]) ++
       (if (rq bs 0 k rs).isEmpty then [] else [rightLeaf size bs k rs]))) :
    (s = startOf k bs ∧ z = toBytes (midOf k bs) - toBytes (startOf k bs) ∧
        x = (Ranges.splitInner rs (startOf k bs) (midOf k bs)).1 ∧ x ≠ []) ∨
    (s = midOf k bs ∧ z = min (toBytes (endOf k bs)) size - toBytes (midOf k bs) ∧
        x = (Ranges.splitInner rs (startOf k bs) (midOf k bs)).2 ∧ x ≠ []) := by
  simp only [List.mem_cons, List.mem_append] at hm
  rcases hm with hm | hm | hm
  · unfold nodeParent at hm; cases hm
  · by_cases hl : lq bs 0 k rs = []
    · rw [hl] at hm; simp at hm
    · rw [isEmpty_eq_false hl] at hm
      simp only [Bool.false_eq_true, if_false, List.mem_singleton, leftLeaf,
        Chunk.leaf.injEq] at hm
      obtain ⟨rfl, rfl, -, rfl⟩ := hm
      simp only [lq, Nat.zero_add] at hl ⊢
      exact Or.inl ⟨trivial, trivial, trivial, hl⟩
  · by_cases hr : rq bs 0 k rs = []
    · rw [hr] at hm; simp at hm
    · rw [isEmpty_eq_false hr] at hm
      simp only [Bool.false_eq_true, if_false, List.mem_singleton, rightLeaf,
        Chunk.leaf.injEq] at hm
      obtain ⟨rfl, rfl, -, rfl⟩ := hm
      simp only [rq, Nat.zero_add] at hr ⊢
      exact Or.inr ⟨trivial, trivial, trivial, hr⟩

theorem mem_inner {p : Chunk} {pl pr : List Chunk} {L k : Nat} {rs : Ranges} {s z : Nat}
    {r : Bool} {x : Ranges} (hp : p = nodeParent bs root L k rs)
    (hm : Chunk.leaf s z r x ∈ p :: (pl ++ pr)) :
    Chunk.leaf s z r x ∈ pl ∨ Chunk.leaf s z r x ∈ pr := by
  simp only [List.mem_cons, List.mem_append] at hm
  rcases hm with hm | hm | hm
  · rw [hp] at hm; unfold nodeParent at hm; cases hm
  · exact Or.inl hm
  · exact Or.inr hm

/-- every leaf lies in the node's range clipped to the blob, and its attached ranges select the
same chunks of its span as the node's query -/
theorem leaf_agree (g : Geo size bs filled) (L k : Nat) (rs : Ranges) :
    Ranges.WF rs = true →
    ∀ s z r x, Chunk.leaf s z r x ∈ planPre size bs ml filled root L k rs →
      startOf k (L + bs) ≤ s ∧
      s + max 1 (chunksOf z) ≤ min (endOf k (L + bs)) (nChunks size) ∧
      ∀ c, s ≤ c → c < s + max 1 (chunksOf z) →
        Spec.selected size x c = Spec.selected size rs c := by
  refine planPre_induct (size := size) (bs := bs) (ml := ml) (filled := filled) (root := root)
    (P := fun L k rs p => Ranges.WF rs = true →
      ∀ s z r x, Chunk.leaf s z r x ∈ p →
        startOf k (L + bs) ≤ s ∧
        s + max 1 (chunksOf z) ≤ min (endOf k (L + bs)) (nChunks size) ∧
        ∀ c, s ≤ c → c < s + max 1 (chunksOf z) →
          Spec.selected size x c = Spec.selected size rs c)
    ?_ ?_ ?_ ?_ ?_ ?_ ?_ L k rs
  · intro L k _ s z r x hm; cases hm
  · intro k rs _ _ _ s z r x hm; cases hm
  · -- skip
    intro L k rs _ _ ih hwf s z r x hm
    have hme := midOf_lt_endOf k (L + 1 + bs)
    obtain ⟨h1, h2, h3⟩ := ih hwf s z r x hm
    rw [child_ls] at h1; rw [child_le] at h2
    exact ⟨h1, by omega, h3⟩
  · -- query leaf
    intro L k rs _ hlt _ _ s z r x hm
    obtain ⟨rfl, h2, rfl⟩ := nodeLeaf_agree g hlt hm
    exact ⟨Nat.le_refl _, Nat.le_of_eq h2, fun _ _ _ => rfl⟩
  · -- half leaf
    intro k rs _ hlt _ _ _ s z r x hm
    obtain ⟨rfl, h2, rfl⟩ := nodeLeaf_agree g hlt hm
    exact ⟨Nat.le_refl _, Nat.le_of_eq h2, fun _ _ _ => rfl⟩
  · -- chunk group
    intro k rs _ _ _ hh hwf s z r x hm
    simp only [Nat.zero_add]
    have hmN : midOf k bs < nChunks size := lt_nChunks_of_toBytes_lt hh
    have hsm := startOf_lt_midOf k bs
    have hme := midOf_lt_endOf k bs
    rcases mem_group hm with ⟨rfl, rfl, rfl, -⟩ | ⟨rfl, rfl, rfl, -⟩
    · rw [span_full hsm]
      refine ⟨Nat.le_refl _, by omega, fun c h1 h2 => selected_left hwf h1 h2 hmN⟩
    · rw [span_eq (Or.inr hh) hme]
      refine ⟨by omega, Nat.le_refl _, fun c h1 _ => selected_right hwf h1⟩
  · -- inner node
    intro L k rs _ hlt _ ihl ihr hwf s z r x hm
    have hmN := g.mid_lt_nChunks hlt
    have hsm := startOf_lt_midOf k (L + 1 + bs)
    have hme := midOf_lt_endOf k (L + 1 + bs)
    have hwfs := C14.splitInner_wf (startOf k (L + 1 + bs)) (midOf k (L + 1 + bs)) hwf
    rcases mem_inner rfl hm with hm | hm
    · obtain ⟨h1, h2, h3⟩ := ihl hwfs.1 s z r x hm
      rw [child_ls] at h1; rw [child_le] at h2
      refine ⟨h1, by omega, fun c hc1 hc2 => ?_⟩
      rw [h3 c hc1 hc2]; unfold lq
      exact selected_left hwf (by omega) (by omega) hmN
    · obtain ⟨h1, h2, h3⟩ := ihr hwfs.2 s z r x hm
      rw [child_rs] at h1; rw [child_re] at h2
      refine ⟨by omega, h2, fun c hc1 hc2 => ?_⟩
      rw [h3 c hc1 hc2]; unfold rq
      exact selected_right hwf (by omega)

/-- (G) every chunk of a leaf whose attached ranges are "all" — in particular of every query
leaf — is selected -/
theorem all_leaf_selected (g : Geo size bs filled) (L k : Nat) (rs : Ranges)
    (hwf : Ranges.WF rs = true) :
    ∀ s z r x, Chunk.leaf s z r x ∈ planPre size bs ml filled root L k rs →
      Ranges.isAll x = true →
      ∀ c, s ≤ c → c < s + max 1 (chunksOf z) → Spec.selected size rs c = true := by
  intro s z r x hm hx c h1 h2
  obtain ⟨_, h4, h5⟩ := leaf_agree g L k rs hwf s z r x hm
  rw [← h5 c h1 h2, isAll_eq hx, selected_all]
  simp only [decide_eq_true_eq]; omega

/-! ## (D) leaf granularity without query leaves below the group level -/

/-- (D) for `ml ≤ bs` every leaf is one aligned chunk group clipped to the blob -/
theorem leaf_group_span (g : Geo size bs filled) (hml : ml ≤ bs) (L k : Nat) (rs : Ranges) :
    ∀ s z r x, Chunk.leaf s z r x ∈ planPre size bs ml filled root L k rs →
      s % 2 ^ bs = 0 ∧ s + max 1 (chunksOf z) = min (s + 2 ^ bs) (Spec.nChunks size) := by
  refine planPre_induct (size := size) (bs := bs) (ml := ml) (filled := filled) (root := root)
    (P := fun _ _ _ p => ∀ s z r x, Chunk.leaf s z r x ∈ p →
      s % 2 ^ bs = 0 ∧ s + max 1 (chunksOf z) = min (s + 2 ^ bs) (Spec.nChunks size))
    ?_ ?_ ?_ ?_ ?_ ?_ ?_ L k rs
  · intro L k s z r x hm; cases hm
  · intro k rs _ _ s z r x hm; cases hm
  · intro L k rs _ _ ih; exact ih
  · -- query leaf: impossible
    intro L k rs _ _ hq
    have := queryLeaf_lt hq
    omega
  · -- half leaf
    intro k rs _ hlt _ hh s z r x hm
    obtain ⟨rfl, h2, -⟩ := nodeLeaf_agree g hlt hm
    simp only [Nat.zero_add] at h2 ⊢
    have hp := two_pow_pos' bs
    have h3 := midOf_eq_start_add k bs
    have h4 := endOf_eq_mid_add k bs
    have h5 := nChunks_le_of_le_toBytes (by omega) hh
    exact ⟨startOf_mod k bs, by omega⟩
  · -- chunk group
    intro k rs _ _ _ hh s z r x hm
    have hmN : midOf k bs < nChunks size := lt_nChunks_of_toBytes_lt hh
    have hsm := startOf_lt_midOf k bs
    have hme := midOf_lt_endOf k bs
    have h3 := midOf_eq_start_add k bs
    have h4 := endOf_eq_mid_add k bs
    rcases mem_group hm with ⟨rfl, rfl, -, -⟩ | ⟨rfl, rfl, -, -⟩
    · rw [span_full hsm]
      exact ⟨startOf_mod k bs, by omega⟩
    · rw [span_eq (Or.inr hh) hme]
      exact ⟨midOf_mod k bs, by omega⟩
  · -- inner node
    intro L k rs _ _ _ ihl ihr s z r x hm
    rcases mem_inner rfl hm with hm | hm
    · exact ihl s z r x hm
    · exact ihr s z r x hm

/-! ## (E) group-exact coverage of the public plan -/

/-- (E) for `ml ≤ bs` the leaves cover exactly the chunk groups the selection touches -/
theorem plan_cover_groups (size bs ml : Nat) (hs : size ≤ 2 ^ 63) (hbs : bs ≤ 10) (hml : ml ≤ bs)
    (q : Ranges) (hwf : Ranges.WF q = true) (c : Nat) (hc : c < Spec.nChunks size) :
    covered (plan ⟨size, bs⟩ ml q) c ↔
      ∃ x, x / 2 ^ bs = c / 2 ^ bs ∧ Spec.selected size q x = true := by
  have g := shifted_geo size bs hs hbs
  have hp := two_pow_pos' bs
  constructor
  · rintro ⟨s, z, r, x, hm, h1, h2⟩
    obtain ⟨hal, hspan⟩ := leaf_group_span g hml (rootLevel ⟨size, bs⟩) 0 q s z r x hm
    obtain ⟨y, hy1, hy2, hy3⟩ := plan_cover_sound size bs ml hs hbs q hwf s z r x hm
    refine ⟨y, ?_, hy3⟩
    rw [div_eq_of_aligned hal hy1 (by omega), div_eq_of_aligned hal h1 (by omega)]
  · rintro ⟨y, hy1, hy2⟩
    obtain ⟨s, z, r, x, hm, h1, h2⟩ := plan_cover_complete size bs ml hs hbs q hwf y hy2
    obtain ⟨hal, hspan⟩ := leaf_group_span g hml (rootLevel ⟨size, bs⟩) 0 q s z r x hm
    have h3 := div_eq_of_aligned hal h1 (by omega)
    have h4 := aligned_of_div_eq hp hal (by rw [← hy1, h3])
    exact ⟨s, z, r, x, hm, h4.1, by omega⟩

/-! ## (F) chunk-exact coverage for block size 0 -/

theorem midOf_zero_eq (k : Nat) : midOf k 0 = startOf k 0 + 1 := by
  rw [midOf_eq_start_add]

theorem endOf_zero_eq (k : Nat) : endOf k 0 = midOf k 0 + 1 := by
  rw [endOf_eq_mid_add]

/-- (F) block size 0, any `ml`: every chunk of every leaf is selected -/
theorem cover_exact_aux (g : Geo size 0 filled) (L k : Nat) (rs : Ranges)
    (hwf : Ranges.WF rs = true) (ht : Tight rs (startOf k (L + 0)))
    (hb : Bounded size rs (endOf k (L + 0))) :
    ∀ s z r x, Chunk.leaf s z r x ∈ planPre size 0 ml filled root L k rs →
      ∀ c, s ≤ c → c < s + max 1 (chunksOf z) → Spec.selected size rs c = true := by
  revert hwf ht hb
  refine planPre_induct (size := size) (bs := 0) (ml := ml) (filled := filled) (root := root)
    (P := fun L k rs p => Ranges.WF rs = true → Tight rs (startOf k (L + 0)) →
      Bounded size rs (endOf k (L + 0)) →
      ∀ s z r x, Chunk.leaf s z r x ∈ p →
        ∀ c, s ≤ c → c < s + max 1 (chunksOf z) → Spec.selected size rs c = true)
    ?_ ?_ ?_ ?_ ?_ ?_ ?_ L k rs
  · intro L k _ _ _ s z r x hm; cases hm
  · intro k rs _ _ _ _ _ s z r x hm; cases hm
  · -- skip
    intro L k rs _ hge ih hwf ht _ s z r x hm
    exact ih hwf (by rw [child_ls]; exact ht)
      (Or.inl (by rw [child_le]; exact g.skip_mid_ge hge)) s z r x hm
  · -- query leaf: the query is "all"
    intro L k rs _ hlt hq _ _ _ s z r x hm c h1 h2
    obtain ⟨rfl, h3, -⟩ := nodeLeaf_agree g hlt hm
    rw [queryLeaf_all hq, selected_all]
    simp only [decide_eq_true_eq]; omega
  · -- half leaf: a single chunk
    intro k rs hne hlt _ hh hwf ht hb s z r x hm c h1 h2
    have hs : startOf k 0 < filled := Nat.lt_of_le_of_lt (startOf_le_nodeOf k 0) hlt
    obtain ⟨rfl, h3, -⟩ := nodeLeaf_agree g hlt hm
    obtain ⟨c0, h4, h5, h6⟩ := leaf_witness hwf hne ht hb (startOf_lt_endOf k (0 + 0))
      (g.start_lt_nChunks hs)
    simp only [Nat.zero_add] at *
    have h7 := midOf_zero_eq k
    have h8 := nChunks_le_of_le_toBytes (by omega) hh
    have : c = c0 := by omega
    rw [this]; exact h6
  · -- chunk group: two single chunks
    intro k rs _ _ _ hh hwf ht hb s z r x hm c h1 h2
    simp only [Nat.zero_add] at ht hb ⊢
    have hmN : midOf k 0 < nChunks size := lt_nChunks_of_toBytes_lt hh
    have hsm := startOf_lt_midOf k 0
    have hme := midOf_lt_endOf k 0
    have h7 := midOf_zero_eq k
    have h8 := endOf_zero_eq k
    have hwfs := C14.splitInner_wf (startOf k 0) (midOf k 0) hwf
    rcases mem_group hm with ⟨rfl, rfl, rfl, hl⟩ | ⟨rfl, rfl, rfl, hr⟩
    · rw [span_full hsm] at h2
      obtain ⟨c0, h4, h5, h6⟩ := leaf_witness (size := size) hwfs.1 hl (tight_left (midOf k 0) ht)
        (Or.inr (left_lt_mid rs (startOf k 0) (by omega))) hsm (by omega)
      have : c = c0 := by omega
      rw [this, ← selected_left hwf h4 (by omega) hmN]; exact h6
    · rw [span_eq (Or.inr hh) hme] at h2
      obtain ⟨c0, h4, h5, h6⟩ := leaf_witness hwfs.2 hr
        (tight_right hwf (startOf k 0) (midOf k 0))
        (bounded_right hwf (startOf k 0) (midOf k 0) (by omega) hb) hme hmN
      have : c = c0 := by omega
      rw [this, ← selected_right hwf h4]; exact h6
  · -- inner node
    intro L k rs _ hlt _ ihl ihr hwf ht hb s z r x hm c h1 h2
    have hmN := g.mid_lt_nChunks hlt
    have hsm := startOf_lt_midOf k (L + 1 + 0)
    have hme := midOf_lt_endOf k (L + 1 + 0)
    have hwfs := C14.splitInner_wf (startOf k (L + 1 + 0)) (midOf k (L + 1 + 0)) hwf
    rcases mem_inner rfl hm with hm | hm
    · obtain ⟨h3, h4, -⟩ := leaf_agree g L (2 * k) _ hwfs.1 s z r x hm
      rw [child_ls] at h3; rw [child_le] at h4
      have := ihl hwfs.1 (by rw [child_ls]; exact tight_left _ ht)
        (Or.inr (by rw [child_le]; exact left_lt_mid rs _ (by omega))) s z r x hm c h1 h2
      unfold lq at this
      rwa [selected_left hwf (by omega) (by omega) hmN] at this
    · obtain ⟨h3, h4, -⟩ := leaf_agree g L (2 * k + 1) _ hwfs.2 s z r x hm
      rw [child_rs] at h3; rw [child_re] at h4
      have := ihr hwfs.2 (by rw [child_rs]; exact tight_right hwf _ _)
        (by rw [child_re]; exact bounded_right hwf _ _ (by omega) hb) s z r x hm c h1 h2
      unfold rq at this
      rwa [selected_right hwf (by omega)] at this

/-- (F) the response plan (block size 0, any `ml`, size ≤ 2^63): the leaves cover exactly the
selected chunks -/
theorem plan_cover_exact (size ml : Nat) (hs : size ≤ 2 ^ 63) (q : Ranges)
    (hwf : Ranges.WF q = true) (c : Nat) :
    covered (plan ⟨size, 0⟩ ml q) c ↔ Spec.selected size q c = true := by
  constructor
  · rintro ⟨s, z, r, x, hm, h1, h2⟩
    exact cover_exact_aux (shifted_geo size 0 hs (by omega)) (rootLevel ⟨size, 0⟩) 0 q hwf
      (by rw [startOf_zero_left]; exact tight_zero hwf)
      (Or.inl (rootLevel_covers size 0 hs)) s z r x hm c h1 h2
  · exact plan_cover_complete size 0 ml hs (by omega) q hwf c

/-- (G) for the public plan -/
theorem plan_all_leaf_selected (size bs ml : Nat) (hs : size ≤ 2 ^ 63) (hbs : bs ≤ 10)
    (q : Ranges) (hwf : Ranges.WF q = true) :
    ∀ s z r x, Chunk.leaf s z r x ∈ plan ⟨size, bs⟩ ml q → Ranges.isAll x = true →
      ∀ c, s ≤ c → c < s + max 1 (chunksOf z) → Spec.selected size q c = true :=
  all_leaf_selected (shifted_geo size bs hs hbs) (rootLevel ⟨size, bs⟩) 0 q hwf

/-! ## group-exact coverage for every `min_full_level` -/

theorem startOf_mod_shift (k L bs : Nat) : startOf k (L + bs) % 2 ^ bs = 0 := by
  unfold startOf
  rw [show L + bs + 1 = L + 1 + bs by omega, Nat.pow_add, ← Nat.mul_assoc]
  exact Nat.mul_mod_left _ _

theorem endOf_mod_shift (k L bs : Nat) : endOf k (L + bs) % 2 ^ bs = 0 := by
  rw [Offsets.endOf_shift]
  exact Nat.mul_mod_left _ _

theorem queryLeaf_isAll {L : Nat} {rs : Ranges} (h : queryLeaf bs ml L rs = true) :
    Ranges.isAll rs = true := by
  simp only [queryLeaf, Bool.and_eq_true] at h
  exact h.1

/-- a point in the group of a point of an aligned interval lies in the interval -/
theorem group_in_aligned {p s e x c : Nat} (hp : 0 < p) (hs : s % p = 0) (he : e % p = 0)
    (h1 : s ≤ x) (h2 : x < e) (h : c / p = x / p) : s ≤ c ∧ c < e := by
  obtain ⟨a, rfl⟩ := Nat.dvd_of_mod_eq_zero hs
  obtain ⟨b, rfl⟩ := Nat.dvd_of_mod_eq_zero he
  have h3 : a ≤ x / p := (Nat.le_div_iff_mul_le hp).2 (by rw [Nat.mul_comm]; exact h1)
  have h4 : x / p < b := Nat.div_lt_of_lt_mul h2
  have h5 := Nat.div_add_mod c p
  have h6 := Nat.mod_lt c hp
  rw [h] at h5
  have h7 : p * a ≤ p * (x / p) := Nat.mul_le_mul_left p h3
  have h8 : p * (x / p + 1) ≤ p * b := Nat.mul_le_mul_left p h4
  rw [Nat.mul_add, Nat.mul_one] at h8
  omega

/-- every leaf span is a non-empty union of whole chunk groups clipped to the blob; a leaf that
is not "all" is a single group -/
theorem leaf_aligned_span (g : Geo size bs filled) (L k : Nat) (rs : Ranges) :
    ∀ s z r x, Chunk.leaf s z r x ∈ planPre size bs ml filled root L k rs →
      s % 2 ^ bs = 0 ∧ ∃ e', e' % 2 ^ bs = 0 ∧ s < e' ∧
        s + max 1 (chunksOf z) = min e' (Spec.nChunks size) ∧
        (Ranges.isAll x = true ∨ e' = s + 2 ^ bs) := by
  refine planPre_induct (size := size) (bs := bs) (ml := ml) (filled := filled) (root := root)
    (P := fun _ _ _ p => ∀ s z r x, Chunk.leaf s z r x ∈ p →
      s % 2 ^ bs = 0 ∧ ∃ e', e' % 2 ^ bs = 0 ∧ s < e' ∧
        s + max 1 (chunksOf z) = min e' (Spec.nChunks size) ∧
        (Ranges.isAll x = true ∨ e' = s + 2 ^ bs))
    ?_ ?_ ?_ ?_ ?_ ?_ ?_ L k rs
  · intro L k s z r x hm; cases hm
  · intro k rs _ _ s z r x hm; cases hm
  · intro L k rs _ _ ih; exact ih
  · -- query leaf: the whole node, "all"
    intro L k rs _ hlt hq s z r x hm
    obtain ⟨rfl, h2, rfl⟩ := nodeLeaf_agree g hlt hm
    exact ⟨startOf_mod_shift k L bs, endOf k (L + bs), endOf_mod_shift k L bs,
      startOf_lt_endOf k (L + bs), h2, Or.inl (queryLeaf_isAll hq)⟩
  · -- half leaf: one group
    intro k rs _ hlt _ hh s z r x hm
    obtain ⟨rfl, h2, -⟩ := nodeLeaf_agree g hlt hm
    simp only [Nat.zero_add] at h2 ⊢
    have hp := two_pow_pos' bs
    have hsm := startOf_lt_midOf k bs
    have h3 := midOf_eq_start_add k bs
    have h4 := endOf_eq_mid_add k bs
    have h5 := nChunks_le_of_le_toBytes (by omega) hh
    exact ⟨startOf_mod k bs, midOf k bs, midOf_mod k bs, hsm, by omega, Or.inr h3⟩
  · -- chunk group
    intro k rs _ _ _ hh s z r x hm
    have hmN : midOf k bs < nChunks size := lt_nChunks_of_toBytes_lt hh
    have hsm := startOf_lt_midOf k bs
    have hme := midOf_lt_endOf k bs
    have h3 := midOf_eq_start_add k bs
    have h4 := endOf_eq_mid_add k bs
    rcases mem_group hm with ⟨rfl, rfl, -, -⟩ | ⟨rfl, rfl, -, -⟩
    · rw [span_full hsm]
      exact ⟨startOf_mod k bs, midOf k bs, midOf_mod k bs, hsm, by omega, Or.inr h3⟩
    · rw [span_eq (Or.inr hh) hme]
      refine ⟨midOf_mod k bs, endOf k bs, ?_, hme, rfl, Or.inr h4⟩
      rw [h4, Nat.add_mod_right]; exact midOf_mod k bs
  · -- inner node
    intro L k rs _ _ _ ihl ihr s z r x hm
    rcases mem_inner rfl hm with hm | hm
    · exact ihl s z r x hm
    · exact ihr s z r x hm

/-- group-exact coverage for EVERY `min_full_level`: the leaves of the public plan cover exactly
the chunk groups the selection touches -/
theorem plan_cover_groups_any (size bs ml : Nat) (hs : size ≤ 2 ^ 63) (hbs : bs ≤ 10)
    (q : Ranges) (hwf : Ranges.WF q = true) (c : Nat) (hc : c < Spec.nChunks size) :
    covered (plan ⟨size, bs⟩ ml q) c ↔
      ∃ x, x / 2 ^ bs = c / 2 ^ bs ∧ Spec.selected size q x = true := by
  have g := shifted_geo size bs hs hbs
  have hp := two_pow_pos' bs
  constructor
  · rintro ⟨s, z, r, x, hm, h1, h2⟩
    obtain ⟨hal, e', _, _, hspan, hor⟩ :=
      leaf_aligned_span g (rootLevel ⟨size, bs⟩) 0 q s z r x hm
    rcases hor with hall | he
    · exact ⟨c, rfl, plan_all_leaf_selected size bs ml hs hbs q hwf s z r x hm hall c h1 h2⟩
    · obtain ⟨y, hy1, hy2, hy3⟩ := plan_cover_sound size bs ml hs hbs q hwf s z r x hm
      refine ⟨y, ?_, hy3⟩
      rw [div_eq_of_aligned hal hy1 (by omega), div_eq_of_aligned hal h1 (by omega)]
  · rintro ⟨y, hy1, hy2⟩
    obtain ⟨s, z, r, x, hm, h1, h2⟩ := plan_cover_complete size bs ml hs hbs q hwf y hy2
    obtain ⟨hal, e', hal', _, hspan, _⟩ :=
      leaf_aligned_span g (rootLevel ⟨size, bs⟩) 0 q s z r x hm
    have h4 := group_in_aligned hp hal hal' h1 (by omega) hy1.symm
    exact ⟨s, z, r, x, hm, h4.1, by omega⟩

/-- non-vacuity of (E)/(F): hypotheses met by `size = 5000`, `bs = 1`, `ml = 0`, `q = [1, 2]`,
`c = 0` (chunk 1 is selected and lies in the group of chunk 0) -/
example : (5000 : Nat) ≤ 2 ^ 63 ∧ (1 : Nat) ≤ 10 ∧ (0 : Nat) ≤ 1 ∧ Ranges.WF [1, 2] = true ∧
    0 < Spec.nChunks 5000 ∧ 1 / 2 ^ 1 = 0 / 2 ^ 1 ∧ Spec.selected 5000 [1, 2] 1 = true := by
  decide

/-
## Status

Proved (axioms ⊆ {propext, Classical.choice, Quot.sound}):
  leaf_agree              every leaf lies in the node's range clipped to the blob and its attached
                          ranges select the same chunks of its span as the node's query (needs WF)
  all_leaf_selected  (G)  leaf with `isAll x` (e.g. a query leaf): every chunk of it is selected
  plan_all_leaf_selected  (G) for the public plan
  leaf_group_span    (D)  as stated
  plan_cover_groups  (E)  as stated
  cover_exact_aux    (F)  as stated (with `L + 0`)
  plan_cover_exact   (F)  as stated
  leaf_aligned_span       every leaf span is `[s, min e' N)` with `s`, `e'` group-aligned; a leaf
                          that is not "all" is a single group (any `ml`)
  plan_cover_groups_any   (E) without the hypothesis `ml ≤ bs`
Partial: none.  OPEN: none.
-/

end Bao.PlanPre
