import BaoProofs.Lemmas.SpecFaultsR

/-!
# A false alarm of the `faults` machinery: `encv-*` on the `EmptyOutboard`

SLOW FILE (about 3 minutes): `cx_terminal` evaluates the executable BLAKE3 in the kernel
(`decide +kernel`; two chunks and one parent).  Nothing imports this file.

`faults encv-sync/const:0:1025/0/empty/0 1`: the skeleton `opTrace` lists the calls of the whole plan
(load 0, write, read chunk 0, write, read chunk 1, write), but the validating encoder on an
`EmptyOutboard` (every pair is zero) stops after the first `load` with `ParentHashMismatch(0)`: no
fault on `data` or `w`, and no fault on the second … `ob` call is reached, the twin prints its
fault-free terminal `ParentHashMismatch(0)` for them, and the verdict rejects that token of the
model's own report ("fault reported as hash mismatch").  `opFaults` does not compare the encoder twin
with the skeleton (`faultCalls` is `none` for `enc*`), so `twinOk` does not catch this.
The case generator (`harness/src/gen3.rs`, C10) takes the store of every operation but `decr-*` from
`STORES = [preMem, postMem, preIo, postIo]`: it never emits this case.

`#eval` on the model (`lake env lean`):
`(opFaults ["encv-sync/const:1:3000/0/empty/0", "1"] m).specFail` for the model's own line `m` is
`some "data@0[read_at_0_1024] Other=P: fault reported as hash mismatch"`.
-/

namespace Bao.SpecFaults
open Bao Bao.Ops Bao.Proto Bao.SpecIndex Bao.SpecOb Bao.SpecSerde

set_option maxRecDepth 100000

/-- 1025 zero bytes: two chunks, one parent -/
def cxData : List UInt8 := List.replicate 1025 0

/-- the skeleton has a first event on `data` -/
theorem cx_event : ((opTrace "encv-sync" cxData 0 .empty [0]).map fun tr =>
    ((tr.filter (·.obj == "data"))[0]?).map (·.label)) = some (some "read_at_0_1024") := by
  decide +kernel

/-- … but a fault on it is not reached: the twin ends with the hash mismatch of the root pair -/
theorem cx_terminal :
    (encodeRangesF hf .sync true cxData (intactStore .empty cxData 0) [0]
      (some ⟨.data, 0, .other⟩)).terminal = .err (.parentHashMismatch 0) := by
  decide +kernel

/-- the raw terminal the model prints for that event and the kind `Other` -/
theorem cx_raw (e : Ev) :
    twinRes "encv-sync" cxData 0 .empty [0] "data" e 0 "Other" = numRes "ParentHashMismatch" 0 := by
  unfold twinRes
  rw [if_pos (by swdec), if_neg (by rw [endsWith_eq_decide]; decide),
    show ("encv-sync" : String).startsWith "encv" = true from by swdec,
    show encObjOf "data" = EncObj.data from by decide, show ioKindOf "Other" = IoKind.other from rfl,
    cx_terminal]
  rfl

/-- the verdict rejects the token the model prints -/
theorem cx_token (part : String) (e : Ev) :
    (tokVerdict part (tokOf "encv-sync" cxData 0 .empty [0] "data" e 0 "Other")).isSome = true := by
  have : tokOf "encv-sync" cxData 0 .empty [0] "data" e 0 "Other"
      = "Other" ++ "=" ++ numRes "ParentHashMismatch" 0 ++ "/a0/p1" := by
    show "Other" ++ "=" ++ resOf "encv-sync" cxData 0 .empty [0] "data" e 0 "Other" ++ "/a0/p1" = _
    unfold resOf
    rw [show evalKind "Other" = "Other" from by decide, cx_raw]
    rfl
  rw [this]
  exact tokVerdict_rejects_mismatch part "Other" 0 (noCh_lit _ _ (by decide))

end Bao.SpecFaults
