import Mathlib.Data.Fintype.Pigeonhole
import Mathlib.Data.Finite.Prod
import BaoProofs.Lemmas.HashCF

/-!
# `CollisionFree` + faithful 32-byte wire format is unsatisfiable

A remark for everyone stating theorems over `HashFns`: do not assume the global `CollisionFree hf`
together with `∀ h, ofBytes (toBytes h) = h` and `∀ h, |toBytes h| = 32` — the conjunction is
false for every `hf` (pigeonhole), so such a theorem is vacuous.  Use `CollisionFree` alone (C01,
C05, C07 do), or a collision freeness localised to the finitely many hash inputs of the runs.
-/

namespace Bao

theorem finite_uint8 : Finite UInt8 :=
  Finite.of_injective (fun u : UInt8 => (⟨u.toNat, u.toNat_lt⟩ : Fin 256)) (by
    intro a b h
    have : a.toNat = b.toNat := congrArg Fin.val h
    exact UInt8.toNat_inj.1 this)

/-- The global `CollisionFree` is incompatible with a faithful 32-byte wire format: the three
hypotheses together are unsatisfiable (a pigeonhole argument), so no theorem should assume all
three. -/
theorem collisionFree_wire_unsat {H : Type} (hf : HashFns H) (cf : CollisionFree hf)
    (hrt : ∀ h, hf.ofBytes (hf.toBytes h) = h) (h32 : ∀ h, (hf.toBytes h).length = 32) : False := by
  have := finite_uint8
  let f : Nat → (Fin 32 → UInt8) := fun c i => (hf.toBytes (hf.chunkCv c [] false)).getD i.1 0
  obtain ⟨x, y, hne, heq⟩ := Finite.exists_ne_map_eq_of_infinite f
  apply hne
  have hb : hf.toBytes (hf.chunkCv x [] false) = hf.toBytes (hf.chunkCv y [] false) := by
    apply List.ext_getElem
    · rw [h32, h32]
    · intro i h1 h2
      have hi : i < 32 := by rw [h32] at h1; exact h1
      have := congrFun heq ⟨i, hi⟩
      simp only [f, List.getD_eq_getElem?_getD, List.getElem?_eq_getElem h1,
        List.getElem?_eq_getElem h2, Option.getD_some] at this
      exact this
  have hh : hf.chunkCv x [] false = hf.chunkCv y [] false := by
    rw [← hrt (hf.chunkCv x [] false), hb, hrt]
  exact (cf.chunk_inj hh).1

end Bao
