import BaoModel.Hash

/-!
# Collision freedom of the hash abstraction and what it gives for `hashSubtree`

`CollisionFree hf`: the two primitives `chunkCv` / `parentCv`, seen as ONE function on the
tagged union of their inputs, are injective (each injective in all arguments, ranges disjoint).

Consequences proved here (all for an arbitrary `hf`):

* `cvLevel_mono`     – the level bound of `cvLevel` is irrelevant once the data fits
* `hashSubtree_chunk`, `hashSubtree_parent`, `hashSubtree_shape` – one unfolding step of the tree hash
* `cv_inj`           – `hashSubtree` is injective in (start chunk, data, root flag).  No length
                       bound on the data is needed (the bounded form asked for is `cv_inj_bounded`).
* `termHash_cf`      – the free term algebra is a collision free instance (satisfiability)
-/

namespace Bao

/-- an input of one of the two hash primitives -/
inductive HashIn (H : Type)
  | chunk (c : Nat) (b : List UInt8) (r : Bool)
  | parent (l r : H) (f : Bool)

/-- the two primitives as one function -/
def HashFns.eval (hf : HashFns H) : HashIn H → H
  | .chunk c b r => hf.chunkCv c b r
  | .parent l r f => hf.parentCv l r f

/-- `Function.Injective hf.eval` -/
def CollisionFree (hf : HashFns H) : Prop := ∀ x y : HashIn H, hf.eval x = hf.eval y → x = y

section
variable {H : Type} {hf : HashFns H}

theorem CollisionFree.chunk_inj (cf : CollisionFree hf) {c₁ c₂ : Nat} {b₁ b₂ : List UInt8}
    {r₁ r₂ : Bool} (h : hf.chunkCv c₁ b₁ r₁ = hf.chunkCv c₂ b₂ r₂) :
    c₁ = c₂ ∧ b₁ = b₂ ∧ r₁ = r₂ := by
  have := cf (.chunk c₁ b₁ r₁) (.chunk c₂ b₂ r₂) h
  injection this with h1 h2 h3
  exact ⟨h1, h2, h3⟩

theorem CollisionFree.parent_inj (cf : CollisionFree hf) {l₁ l₂ r₁ r₂ : H} {f₁ f₂ : Bool}
    (h : hf.parentCv l₁ r₁ f₁ = hf.parentCv l₂ r₂ f₂) : l₁ = l₂ ∧ r₁ = r₂ ∧ f₁ = f₂ := by
  have := cf (.parent l₁ r₁ f₁) (.parent l₂ r₂ f₂) h
  injection this with h1 h2 h3
  exact ⟨h1, h2, h3⟩

theorem CollisionFree.chunk_ne_parent (cf : CollisionFree hf) {c : Nat} {b : List UInt8}
    {r : Bool} {l₂ r₂ : H} {f₂ : Bool} (h : hf.chunkCv c b r = hf.parentCv l₂ r₂ f₂) : False := by
  have := cf (.chunk c b r) (.parent l₂ r₂ f₂) h
  injection this

/-! ## unfolding `cvLevel` -/

theorem cvLevel_zero (c : Nat) (b : List UInt8) (r : Bool) :
    cvLevel hf 0 c b r = hf.chunkCv c b r := rfl

theorem cvLevel_succ_le {L : Nat} {b : List UInt8} (h : b.length ≤ 2 ^ L * 1024) (c : Nat)
    (r : Bool) : cvLevel hf (L + 1) c b r = cvLevel hf L c b r := by
  simp [cvLevel, chunkLen, h]

theorem cvLevel_succ_gt {L : Nat} {b : List UInt8} (h : 2 ^ L * 1024 < b.length) (c : Nat)
    (r : Bool) :
    cvLevel hf (L + 1) c b r =
      hf.parentCv (cvLevel hf L c (b.take (2 ^ L * 1024)) false)
        (cvLevel hf L (c + 2 ^ L) (b.drop (2 ^ L * 1024)) false) r := by
  have : ¬ b.length ≤ 2 ^ L * 1024 := by omega
  simp [cvLevel, chunkLen, this]

theorem cvLevel_add {L : Nat} {b : List UInt8} (h : b.length ≤ 2 ^ L * 1024) (c : Nat)
    (r : Bool) (k : Nat) : cvLevel hf (L + k) c b r = cvLevel hf L c b r := by
  induction k with
  | zero => rfl
  | succ k ih =>
    have hp : 2 ^ L ≤ 2 ^ (L + k) := Nat.pow_le_pow_right (by decide) (by omega)
    have : b.length ≤ 2 ^ (L + k) * 1024 := Nat.le_trans h (Nat.mul_le_mul_right 1024 hp)
    rw [← Nat.add_assoc, cvLevel_succ_le this, ih]

/-- level irrelevance: data that fits level `L` hashes the same at every level `L' ≥ L` -/
theorem cvLevel_mono {L L' : Nat} {b : List UInt8} (h : b.length ≤ 2 ^ L * 1024) (hL : L ≤ L')
    (c : Nat) (r : Bool) : cvLevel hf L' c b r = cvLevel hf L c b r := by
  obtain ⟨k, rfl⟩ : ∃ k, L' = L + k := ⟨L' - L, by omega⟩
  exact cvLevel_add h c r k

theorem hashSubtree_eq_cvLevel {L : Nat} {b : List UInt8} (h : b.length ≤ 2 ^ L * 1024)
    (hL : L ≤ 64) (c : Nat) (r : Bool) : hashSubtree hf c b r = cvLevel hf L c b r :=
  cvLevel_mono h hL c r

/-- a single chunk -/
theorem hashSubtree_chunk {b : List UInt8} (h : b.length ≤ 1024) (c : Nat) (r : Bool) :
    hashSubtree hf c b r = hf.chunkCv c b r := by
  rw [hashSubtree_eq_cvLevel (L := 0) (by simpa using h) (by decide)]
  rfl

private theorem take_len_le (b : List UInt8) (n : Nat) : (b.take n).length ≤ n := by
  simp [List.length_take]; omega

private theorem pow_succ_1024 (L : Nat) : 2 ^ (L + 1) * 1024 = 2 ^ L * 1024 + 2 ^ L * 1024 := by
  rw [Nat.pow_succ]; omega

/-- one unfolding step at the level determined by the length, children at any level `≥ L` -/
theorem cvLevel_parent {L M N : Nat} {b : List UInt8} (h1 : 2 ^ L * 1024 < b.length)
    (h2 : b.length ≤ 2 ^ (L + 1) * 1024) (hM : L + 1 ≤ M) (hN : L ≤ N) (c : Nat) (r : Bool) :
    cvLevel hf M c b r =
      hf.parentCv (cvLevel hf N c (b.take (2 ^ L * 1024)) false)
        (cvLevel hf N (c + 2 ^ L) (b.drop (2 ^ L * 1024)) false) r := by
  rw [cvLevel_mono h2 hM, cvLevel_succ_gt h1]
  have hd : (b.drop (2 ^ L * 1024)).length ≤ 2 ^ L * 1024 := by
    rw [List.length_drop]; have := pow_succ_1024 L; omega
  rw [cvLevel_mono (take_len_le b _) hN, cvLevel_mono hd hN]

/-- the tree hash of more than one chunk is the parent of the hashes of its two halves, split
at the largest power of two (in chunks) strictly below the length -/
theorem hashSubtree_parent {L : Nat} {b : List UInt8} (h1 : 2 ^ L * 1024 < b.length)
    (h2 : b.length ≤ 2 ^ (L + 1) * 1024) (hL : L < 64) (c : Nat) (r : Bool) :
    hashSubtree hf c b r =
      hf.parentCv (hashSubtree hf c (b.take (2 ^ L * 1024)) false)
        (hashSubtree hf (c + 2 ^ L) (b.drop (2 ^ L * 1024)) false) r :=
  cvLevel_parent h1 h2 (by omega) (by omega) c r

/-- the level of a length: for `1024 < n ≤ 2^M * 1024` there is `L < M` with
`2^L * 1024 < n ≤ 2^(L+1) * 1024` -/
theorem exists_level {n : Nat} (h1 : 1024 < n) : ∀ {M : Nat}, n ≤ 2 ^ M * 1024 →
    ∃ L, L < M ∧ 2 ^ L * 1024 < n ∧ n ≤ 2 ^ (L + 1) * 1024 := by
  intro M
  induction M with
  | zero => intro h; simp at h; omega
  | succ M ih =>
    intro h
    by_cases hle : n ≤ 2 ^ M * 1024
    · obtain ⟨L, hL, h⟩ := ih hle
      exact ⟨L, by omega, h⟩
    · exact ⟨M, by omega, by omega, h⟩

/-- the level of a length is unique -/
theorem level_unique {n L L' : Nat} (h1 : 2 ^ L * 1024 < n) (h2 : n ≤ 2 ^ (L + 1) * 1024)
    (h1' : 2 ^ L' * 1024 < n) (h2' : n ≤ 2 ^ (L' + 1) * 1024) : L = L' := by
  apply Nat.le_antisymm
  · apply Nat.le_of_lt_succ
    apply (Nat.pow_lt_pow_iff_right (a := 2) (by decide)).1
    omega
  · apply Nat.le_of_lt_succ
    apply (Nat.pow_lt_pow_iff_right (a := 2) (by decide)).1
    omega

/-- shape of the tree hash of data that fits level `M`: a chunk hash or a parent hash -/
theorem cvLevel_shape {M : Nat} {b : List UInt8} (h : b.length ≤ 2 ^ M * 1024) (c : Nat)
    (r : Bool) :
    (b.length ≤ 1024 ∧ cvLevel hf M c b r = hf.chunkCv c b r) ∨
    (∃ L, L < M ∧ 2 ^ L * 1024 < b.length ∧ b.length ≤ 2 ^ (L + 1) * 1024 ∧
      cvLevel hf M c b r =
        hf.parentCv (cvLevel hf L c (b.take (2 ^ L * 1024)) false)
          (cvLevel hf L (c + 2 ^ L) (b.drop (2 ^ L * 1024)) false) r) := by
  by_cases h1 : b.length ≤ 1024
  · left
    refine ⟨h1, ?_⟩
    rw [cvLevel_mono (L := 0) (by simpa using h1) (Nat.zero_le _)]
    rfl
  · right
    obtain ⟨L, hL, ha, hb⟩ := exists_level (by omega) h
    exact ⟨L, hL, ha, hb, cvLevel_parent ha hb (by omega) (Nat.le_refl _) c r⟩

/-- shape of `hashSubtree` on data of at most `2^64` chunks -/
theorem hashSubtree_shape {b : List UInt8} (h : b.length ≤ 2 ^ 64 * 1024) (c : Nat) (r : Bool) :
    (b.length ≤ 1024 ∧ hashSubtree hf c b r = hf.chunkCv c b r) ∨
    (∃ L, L < 64 ∧ 2 ^ L * 1024 < b.length ∧ b.length ≤ 2 ^ (L + 1) * 1024 ∧
      hashSubtree hf c b r =
        hf.parentCv (hashSubtree hf c (b.take (2 ^ L * 1024)) false)
          (hashSubtree hf (c + 2 ^ L) (b.drop (2 ^ L * 1024)) false) r) := by
  by_cases h1 : b.length ≤ 1024
  · exact .inl ⟨h1, hashSubtree_chunk h1 c r⟩
  · right
    obtain ⟨L, hL, ha, hb⟩ := exists_level (by omega) h
    exact ⟨L, hL, ha, hb, hashSubtree_parent ha hb hL c r⟩

/-! ## injectivity of the tree hash -/

/-- `cvLevel hf L` is injective -/
def CvInj (hf : HashFns H) (L : Nat) : Prop :=
  ∀ (c₁ c₂ : Nat) (b₁ b₂ : List UInt8) (r₁ r₂ : Bool),
    cvLevel hf L c₁ b₁ r₁ = cvLevel hf L c₂ b₂ r₂ → c₁ = c₂ ∧ b₁ = b₂ ∧ r₁ = r₂

/-- a tree that fits the left half never collides with one that does not -/
private theorem cvInj_mixed (cf : CollisionFree hf) {L : Nat} (ih : CvInj hf L) {c₁ c₂ : Nat}
    {b₁ b₂ : List UInt8} {r₁ r₂ : Bool} (h1 : b₁.length ≤ 2 ^ L * 1024)
    (h2 : 2 ^ L * 1024 < b₂.length)
    (h : cvLevel hf L c₁ b₁ r₁ = cvLevel hf (L + 1) c₂ b₂ r₂) : False := by
  rw [cvLevel_succ_gt h2] at h
  rcases cvLevel_shape (hf := hf) h1 c₁ r₁ with ⟨_, e⟩ | ⟨L', hL', ha, _, e⟩
  · rw [e] at h
    exact cf.chunk_ne_parent h
  · rw [e] at h
    have hl := (cf.parent_inj h).1
    rw [← cvLevel_mono (L' := L) (take_len_le b₁ _) (by omega)] at hl
    have hb := (ih _ _ _ _ _ _ hl).2.1
    have hlen := congrArg List.length hb
    simp only [List.length_take] at hlen
    have hp : 2 ^ L' < 2 ^ L := Nat.pow_lt_pow_right (by decide) hL'
    generalize 2 ^ L' = p at *
    generalize 2 ^ L = q at *
    omega

theorem cvInj_all (cf : CollisionFree hf) : ∀ L, CvInj hf L := by
  intro L
  induction L with
  | zero =>
    intro c₁ c₂ b₁ b₂ r₁ r₂ h
    exact cf.chunk_inj h
  | succ L ih =>
    intro c₁ c₂ b₁ b₂ r₁ r₂ h
    by_cases h1 : b₁.length ≤ 2 ^ L * 1024 <;> by_cases h2 : b₂.length ≤ 2 ^ L * 1024
    · rw [cvLevel_succ_le h1, cvLevel_succ_le h2] at h
      exact ih _ _ _ _ _ _ h
    · rw [cvLevel_succ_le h1] at h
      exact (cvInj_mixed cf ih h1 (by omega) h).elim
    · rw [cvLevel_succ_le h2] at h
      exact (cvInj_mixed cf ih h2 (by omega) h.symm).elim
    · rw [cvLevel_succ_gt (by omega), cvLevel_succ_gt (by omega)] at h
      obtain ⟨hl, hr, hf'⟩ := cf.parent_inj h
      obtain ⟨hc, ht, _⟩ := ih _ _ _ _ _ _ hl
      obtain ⟨_, hd, _⟩ := ih _ _ _ _ _ _ hr
      refine ⟨hc, ?_, hf'⟩
      rw [← List.take_append_drop (2 ^ L * 1024) b₁, ← List.take_append_drop (2 ^ L * 1024) b₂,
        ht, hd]

/-- **the tree hash is injective**: equal subtree hashes mean equal position, equal data and equal
root flag.  (No bound on the data lengths is needed.) -/
theorem cv_inj (cf : CollisionFree hf) {c₁ c₂ : Nat} {b₁ b₂ : List UInt8} {r₁ r₂ : Bool}
    (h : hashSubtree hf c₁ b₁ r₁ = hashSubtree hf c₂ b₂ r₂) : c₁ = c₂ ∧ b₁ = b₂ ∧ r₁ = r₂ :=
  cvInj_all cf 64 _ _ _ _ _ _ h

/-- the form with the `2^64` chunk bounds -/
theorem cv_inj_bounded (cf : CollisionFree hf) {c₁ c₂ : Nat} {b₁ b₂ : List UInt8} {r₁ r₂ : Bool}
    (_ : b₁.length ≤ 2 ^ 64 * 1024) (_ : b₂.length ≤ 2 ^ 64 * 1024)
    (h : hashSubtree hf c₁ b₁ r₁ = hashSubtree hf c₂ b₂ r₂) : c₁ = c₂ ∧ b₁ = b₂ ∧ r₁ = r₂ :=
  cv_inj cf h

end

/-! ## a collision free instance: the free term algebra -/

/-- symbolic hashes -/
inductive Term
  | chunk (c : Nat) (b : List UInt8) (r : Bool)
  | parent (l r : Term) (f : Bool)
  | raw (b : List UInt8)
deriving DecidableEq

/-- hashing = building the term -/
def termHash : HashFns Term where
  chunkCv := Term.chunk
  parentCv := Term.parent
  ofBytes := Term.raw
  toBytes := fun _ => []

theorem termHash_cf : CollisionFree termHash := by
  intro x y h
  cases x <;> cases y <;> simp only [HashFns.eval, termHash] at h <;> first
    | (injection h with h1 h2 h3; subst h1 h2 h3; rfl)
    | (injection h)

end Bao
