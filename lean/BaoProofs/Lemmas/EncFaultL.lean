import BaoModel.Codec

/-!
# Lemmas for C10: the fault-aware encoders against their call log

`encodeLoopF` (model of `encode_ranges_validated` / `encode_ranges` with an injected io fault) is
related to

* `encodeLoopFL` – its instrumented twin: the same loop, which also returns the list of io calls
  (`EncEv`) it makes (`traceF_run`: the run component IS `encodeLoopF`);
* `replayT` – replaying a call log against a fault: the counters of the three objects are the
  numbers of calls made so far, the first call whose counter is hit fails
  (`traceF_replay`: every faulty run is the replay of the fault-free log);
* `splitCall o n log` – the log split at the `n`-th call on `o` (`replayT_some`: closed form of a
  replay).
-/

namespace Bao.EncFaultL

open Bao

variable {H : Type}

/-! ## call log -/

/-- one io call of an encoder: a `load` on the outboard, a positional read on the data source
(`start` chunk, `size` bytes), a write to the output stream (`isParent`/`label`: the item being
written - node of a parent, start chunk of a leaf - and the bytes) -/
inductive EncEv
  | ob (node : Nat)
  | data (start size : Nat)
  | w (isParent : Bool) (label : Nat) (bytes : List UInt8)
deriving Repr, DecidableEq

/-- the object a call is made on -/
def EncEv.obj : EncEv → EncObj
  | .ob _ => .ob
  | .data .. => .data
  | .w .. => .w

/-- the bytes a call appends to the output -/
def EncEv.bytes : EncEv → List UInt8
  | .w _ _ b => b
  | _ => []

/-- the output produced by a list of (successful) calls -/
def outOf : List EncEv → List UInt8
  | [] => []
  | e :: es => e.bytes ++ outOf es

/-- number of calls on `o` -/
def ncalls (o : EncObj) : List EncEv → Nat
  | [] => 0
  | e :: es => (if e.obj = o then 1 else 0) + ncalls o es

/-- the error reported when call `e` fails with an io error `err` -/
def evErr (fl : Flavour) (err : IoErr) : EncEv → EncodeError
  | .w p l _ => writeErr fl err p l
  | _ => .io err

/-- the counter of object `o` -/
def sel (o : EncObj) (nd no nw : Nat) : Nat :=
  match o with
  | .data => nd
  | .ob => no
  | .w => nw

theorem beq_obj (a b : EncObj) : (a == b) = decide (a = b) := by
  cases a <;> cases b <;> rfl

instance : LawfulBEq EncObj where
  eq_of_beq {a b} h := by rw [beq_obj] at h; exact of_decide_eq_true h
  rfl {a} := by rw [beq_obj]; exact decide_eq_true rfl

theorem hits_none (o : EncObj) (n : Nat) : EncFault.hits none o n = none := rfl

theorem hits_some (obj : EncObj) (k : Nat) (kind : IoKind) (o : EncObj) (n : Nat) :
    EncFault.hits (some ⟨obj, k, kind⟩) o n =
      if obj = o ∧ k = n then some ⟨kind, true⟩ else none := by
  simp [EncFault.hits]

/-! ## the instrumented twin of `encodeLoopF` -/

/-- `encodeLoopF` which also returns its io calls, in order; a call that fails (by injection or by
itself) is logged and is then the last one -/
def encodeLoopFL (hf : HashFns H) [BEq H] (fl : Flavour) (validate : Bool) (data : List UInt8)
    (ob : Store H) (fault : Option EncFault) :
    List Chunk → List H → List UInt8 → Nat → Nat → Nat → List EncEv × EncRun
  | [], _, out, _, _, _ => ([], ⟨out, .ok⟩)
  | .parent node isRoot left right _ :: plan, stack, out, nd, no, nw =>
    match EncFault.hits fault .ob no with
    | some e => ([.ob node], ⟨out, .err (.io e)⟩)
    | none =>
    match ob.load hf fl node with
    | .err e => ([.ob node], ⟨out, .err (.io e)⟩)
    | .panic => ([.ob node], ⟨out, .panic⟩)
    | .ok none => ([.ob node], ⟨out, .panic⟩)
    | .ok (some (l, r)) =>
      let cont (stack : List H) : List EncEv × EncRun :=
        match EncFault.hits fault .w nw with
        | some e => ([.ob node, .w true node (hf.toBytes l ++ hf.toBytes r)],
            ⟨out, .err (writeErr fl e true node)⟩)
        | none =>
          let r' := encodeLoopFL hf fl validate data ob fault plan stack
            (out ++ hf.toBytes l ++ hf.toBytes r) nd (no + 1) (nw + 1)
          (.ob node :: .w true node (hf.toBytes l ++ hf.toBytes r) :: r'.1, r'.2)
      if validate then
        match stack with
        | [] => ([.ob node], ⟨out, .panic⟩)
        | expected :: stack =>
          if hf.parentCv l r isRoot != expected then ([.ob node], ⟨out, .err (.parentHashMismatch node)⟩)
          else
            let stack := if right then r :: stack else stack
            let stack := if left then l :: stack else stack
            cont stack
      else cont stack
  | .leaf start size isRoot ranges :: plan, stack, out, nd, no, nw =>
    let go (stack : List H) (expected : Option H) : List EncEv × EncRun :=
      match EncFault.hits fault .data nd with
      | some e => ([.data start size], ⟨out, .err (.io e)⟩)
      | none =>
      match readExactAt data (toBytes start) size with
      | .error e => ([.data start size], ⟨out, .err (.io e)⟩)
      | .ok buf =>
        let (actual, toWrite) :=
          if !Ranges.isAll ranges then
            encodeSelectedRec hf recFuel start buf isRoot ranges ob.tree.bs true
          else (hashSubtree hf start buf isRoot, buf)
        if (match expected with | some e => actual != e | none => false) then
          ([.data start size], ⟨out, .err (.leafHashMismatch start)⟩)
        else
          match EncFault.hits fault .w nw with
          | some e => ([.data start size, .w false start toWrite], ⟨out, .err (writeErr fl e false start)⟩)
          | none =>
            let r' := encodeLoopFL hf fl validate data ob fault plan stack (out ++ toWrite)
              (nd + 1) no (nw + 1)
            (.data start size :: .w false start toWrite :: r'.1, r'.2)
    if validate then
      match stack with
      | [] => ([], ⟨out, .panic⟩)
      | expected :: stack => go stack (some expected)
    else go stack none

/-- the twin runs `encodeLoopF` -/
theorem traceF_run (hf : HashFns H) [BEq H] (fl : Flavour) (validate : Bool) (data : List UInt8)
    (ob : Store H) (fault : Option EncFault) (plan : List Chunk) :
    ∀ (stack : List H) (out : List UInt8) (nd no nw : Nat),
    (encodeLoopFL hf fl validate data ob fault plan stack out nd no nw).2 =
      encodeLoopF hf fl validate data ob fault plan stack out nd no nw := by
  induction plan with
  | nil => intros; rfl
  | cons c plan ih =>
    intro stack out nd no nw
    cases c with
    | parent node isRoot left right rs =>
      simp only [encodeLoopFL, encodeLoopF]
      cases EncFault.hits fault .ob no with
      | some e => rfl
      | none =>
        rcases ob.load hf fl node with (_ | ⟨l, r⟩) | e | _
        · rfl
        · cases validate with
          | false =>
            simp only [Bool.false_eq_true, if_false]
            cases EncFault.hits fault .w nw with
            | some e => rfl
            | none => exact ih ..
          | true =>
            simp only [if_true]
            cases stack with
            | nil => rfl
            | cons expected stack =>
              simp only []
              split
              · rfl
              · cases EncFault.hits fault .w nw with
                | some e => rfl
                | none => exact ih ..
        · rfl
        · rfl
    | leaf start size isRoot rs =>
      simp only [encodeLoopFL, encodeLoopF]
      cases validate with
      | false =>
        simp only [Bool.false_eq_true, if_false]
        cases EncFault.hits fault .data nd with
        | some e => rfl
        | none =>
          cases readExactAt data (toBytes start) size with
          | error e => rfl
          | ok buf =>
            simp only []
            cases EncFault.hits fault .w nw with
            | some e => rfl
            | none => exact ih ..
      | true =>
        simp only [if_true]
        cases stack with
        | nil => rfl
        | cons expected stack =>
          simp only []
          cases EncFault.hits fault .data nd with
          | some e => rfl
          | none =>
            cases readExactAt data (toBytes start) size with
            | error e => rfl
            | ok buf =>
              simp only []
              split <;>
              ( split
                · rfl
                · cases EncFault.hits fault .w nw with
                  | some e => rfl
                  | none => exact ih .. )

/-! ## replaying a log against a fault -/

/-- replay a call log (with the terminal `t` of the run that produced it) against a fault:
`nd no nw` are the numbers of calls made so far on data / outboard / writer; the first call whose
object and counter are hit fails (it is logged, nothing follows); otherwise the call is performed
(a write appends its bytes) and the counter of its object goes up by one -/
def replayT (fl : Flavour) (fault : Option EncFault) :
    List EncEv → EncEnd → List UInt8 → Nat → Nat → Nat → List EncEv × EncRun
  | [], t, out, _, _, _ => ([], ⟨out, t⟩)
  | e :: es, t, out, nd, no, nw =>
    match EncFault.hits fault e.obj (sel e.obj nd no nw) with
    | some err => ([e], ⟨out, .err (evErr fl err e)⟩)
    | none =>
      let r := match e with
        | .ob _ => replayT fl fault es t out nd (no + 1) nw
        | .data .. => replayT fl fault es t out (nd + 1) no nw
        | .w _ _ b => replayT fl fault es t (out ++ b) nd no (nw + 1)
      (e :: r.1, r.2)

/-- every run (faulty or not) is the replay of the fault-free log of the same loop state -/
theorem traceF_replay (hf : HashFns H) [BEq H] (fl : Flavour) (validate : Bool) (data : List UInt8)
    (ob : Store H) (fault : Option EncFault) (plan : List Chunk) :
    ∀ (stack : List H) (out : List UInt8) (nd no nw : Nat),
    encodeLoopFL hf fl validate data ob fault plan stack out nd no nw =
      replayT fl fault (encodeLoopFL hf fl validate data ob none plan stack out nd no nw).1
        (encodeLoopFL hf fl validate data ob none plan stack out nd no nw).2.terminal
        out nd no nw := by
  induction plan with
  | nil => intros; rfl
  | cons c plan ih =>
    intro stack out nd no nw
    cases c with
    | parent node isRoot left right rs =>
      simp only [encodeLoopFL, hits_none]
      rcases ob.load hf fl node with (_ | ⟨l, r⟩) | e | _
      · simp only [replayT, EncEv.obj, sel]
        cases EncFault.hits fault .ob no <;> rfl
      · cases validate with
        | false =>
          simp only [Bool.false_eq_true, if_false, replayT, EncEv.obj, sel]
          cases EncFault.hits fault .ob no with
          | some e => rfl
          | none =>
            simp only []
            cases EncFault.hits fault .w nw with
            | some e => rfl
            | none =>
              simp only []
              rw [ih]
              simp only [List.append_assoc]
        | true =>
          simp only [if_true]
          cases stack with
          | nil =>
            simp only [replayT, EncEv.obj, sel]
            cases EncFault.hits fault .ob no <;> rfl
          | cons expected stack =>
            simp only []
            by_cases hm : (hf.parentCv l r isRoot != expected) = true
            · simp only [if_pos hm, replayT, EncEv.obj, sel]
              cases EncFault.hits fault .ob no <;> rfl
            · simp only [if_neg hm, replayT, EncEv.obj, sel]
              cases EncFault.hits fault .ob no with
              | some e => rfl
              | none =>
                simp only []
                cases EncFault.hits fault .w nw with
                | some e => rfl
                | none =>
                  simp only []
                  rw [ih]
                  simp only [List.append_assoc]
      · simp only [replayT, EncEv.obj, sel]
        cases EncFault.hits fault .ob no <;> rfl
      · simp only [replayT, EncEv.obj, sel]
        cases EncFault.hits fault .ob no <;> rfl
    | leaf start size isRoot rs =>
      simp only [encodeLoopFL, hits_none]
      cases validate with
      | false =>
        simp only [Bool.false_eq_true, if_false]
        cases readExactAt data (toBytes start) size with
        | error e =>
          simp only [replayT, EncEv.obj, sel]
          cases EncFault.hits fault .data nd <;> rfl
        | ok buf =>
          simp only [replayT, EncEv.obj, sel]
          cases EncFault.hits fault .data nd with
          | some e => rfl
          | none =>
            simp only []
            cases EncFault.hits fault .w nw with
            | some e => rfl
            | none =>
              simp only []
              rw [ih]
      | true =>
        simp only [if_true]
        cases stack with
        | nil => rfl
        | cons expected stack =>
          simp only []
          cases readExactAt data (toBytes start) size with
          | error e =>
            simp only [replayT, EncEv.obj, sel]
            cases EncFault.hits fault .data nd <;> rfl
          | ok buf =>
            simp only []
            generalize (if (!Ranges.isAll rs) = true then
              encodeSelectedRec hf recFuel start buf isRoot rs ob.tree.bs true
              else (hashSubtree hf start buf isRoot, buf)) = p
            by_cases hm : (p.1 != expected) = true
            · simp only [if_pos hm, replayT, EncEv.obj, sel]
              cases EncFault.hits fault .data nd <;> rfl
            · simp only [if_neg hm, replayT, EncEv.obj, sel]
              cases EncFault.hits fault .data nd with
              | some e => rfl
              | none =>
                simp only []
                cases EncFault.hits fault .w nw with
                | some e => rfl
                | none =>
                  simp only []
                  rw [ih]

/-! ## closed form of a replay -/

/-- 1 if `e` is a call on `o` -/
def delta (o : EncObj) (e : EncEv) : Nat := if e.obj = o then 1 else 0

theorem ncalls_cons (o : EncObj) (e : EncEv) (es : List EncEv) :
    ncalls o (e :: es) = delta o e + ncalls o es := rfl

theorem ncalls_append (o : EncObj) (a b : List EncEv) :
    ncalls o (a ++ b) = ncalls o a + ncalls o b := by
  induction a with
  | nil => simp [ncalls]
  | cons e a ih => simp only [List.cons_append, ncalls, ih]; omega

theorem ncalls_eq_count (o : EncObj) (es : List EncEv) :
    ncalls o es = (es.map EncEv.obj).count o := by
  induction es with
  | nil => rfl
  | cons e es ih =>
    simp only [ncalls, List.map_cons, List.count_cons, ih, beq_iff_eq]
    omega

theorem outOf_append (a b : List EncEv) : outOf (a ++ b) = outOf a ++ outOf b := by
  induction a with
  | nil => rfl
  | cons e a ih => simp only [List.cons_append, outOf, ih, List.append_assoc]

theorem replayT_cons (fl : Flavour) (fault : Option EncFault) (e : EncEv) (es : List EncEv)
    (t : EncEnd) (out : List UInt8) (nd no nw : Nat) :
    replayT fl fault (e :: es) t out nd no nw =
      match EncFault.hits fault e.obj (sel e.obj nd no nw) with
      | some err => ([e], ⟨out, .err (evErr fl err e)⟩)
      | none =>
        (e :: (replayT fl fault es t (out ++ e.bytes) (nd + delta .data e) (no + delta .ob e)
            (nw + delta .w e)).1,
          (replayT fl fault es t (out ++ e.bytes) (nd + delta .data e) (no + delta .ob e)
            (nw + delta .w e)).2) := by
  cases e <;> simp [replayT, EncEv.bytes, delta, EncEv.obj]

theorem sel_bump (o : EncObj) (e : EncEv) (nd no nw : Nat) :
    sel o (nd + delta .data e) (no + delta .ob e) (nw + delta .w e) = sel o nd no nw + delta o e := by
  cases o <;> rfl

/-- without a fault every call is performed -/
theorem replayT_none (fl : Flavour) (es : List EncEv) (t : EncEnd) :
    ∀ (out : List UInt8) (nd no nw : Nat),
    replayT fl none es t out nd no nw = (es, ⟨out ++ outOf es, t⟩) := by
  induction es with
  | nil => intros; simp [replayT, outOf]
  | cons e es ih =>
    intro out nd no nw
    rw [replayT_cons, hits_none]
    simp only [ih, outOf, List.append_assoc]

/-- the log split at the `n`-th (0-based) call on `o`: the calls before it, the call, the rest -/
def splitCall (o : EncObj) : Nat → List EncEv → Option (List EncEv × EncEv × List EncEv)
  | _, [] => none
  | n, e :: es =>
    if e.obj = o then
      match n with
      | 0 => some ([], e, es)
      | n + 1 => (splitCall o n es).map fun p => (e :: p.1, p.2.1, p.2.2)
    else (splitCall o n es).map fun p => (e :: p.1, p.2.1, p.2.2)

theorem splitCall_some {o : EncObj} {es : List EncEv} :
    ∀ {n : Nat} {pre : List EncEv} {e : EncEv} {post : List EncEv},
    splitCall o n es = some (pre, e, post) →
    es = pre ++ e :: post ∧ e.obj = o ∧ ncalls o pre = n := by
  induction es with
  | nil => intro n pre e post h; simp [splitCall] at h
  | cons a es ih =>
    intro n pre e post h
    unfold splitCall at h
    by_cases ha : a.obj = o
    · rw [if_pos ha] at h
      cases n with
      | zero =>
        simp only [Option.some.injEq, Prod.mk.injEq] at h
        obtain ⟨rfl, rfl, rfl⟩ := h
        exact ⟨rfl, ha, rfl⟩
      | succ n =>
        simp only [Option.map_eq_some_iff, Prod.mk.injEq] at h
        obtain ⟨⟨p1, p2, p3⟩, hp, rfl, rfl, rfl⟩ := h
        obtain ⟨h1, h2, h3⟩ := ih hp
        refine ⟨by rw [h1]; rfl, h2, ?_⟩
        simp only [ncalls, if_pos ha, h3]; omega
    · rw [if_neg ha] at h
      simp only [Option.map_eq_some_iff, Prod.mk.injEq] at h
      obtain ⟨⟨p1, p2, p3⟩, hp, rfl, rfl, rfl⟩ := h
      obtain ⟨h1, h2, h3⟩ := ih hp
      refine ⟨by rw [h1]; rfl, h2, ?_⟩
      simp only [ncalls, if_neg ha, h3]; omega

theorem splitCall_none {o : EncObj} {es : List EncEv} :
    ∀ {n : Nat}, splitCall o n es = none ↔ ncalls o es ≤ n := by
  induction es with
  | nil => intro n; simp [splitCall, ncalls]
  | cons a es ih =>
    intro n
    unfold splitCall
    by_cases ha : a.obj = o
    · rw [if_pos ha]
      cases n with
      | zero => simp [ncalls, if_pos ha]
      | succ n =>
        simp only [Option.map_eq_none_iff, ih, ncalls, if_pos ha]; omega
    · rw [if_neg ha]
      simp only [Option.map_eq_none_iff, ih, ncalls, if_neg ha]; omega

/-- the split is the only decomposition of the log at the `n`-th call on `o` -/
theorem splitCall_of_decomp {o : EncObj} :
    ∀ {pre : List EncEv} {n : Nat} {e : EncEv} {post : List EncEv},
    e.obj = o → ncalls o pre = n → splitCall o n (pre ++ e :: post) = some (pre, e, post) := by
  intro pre
  induction pre with
  | nil =>
    intro n e post he hn
    simp only [ncalls] at hn
    subst hn
    simp [splitCall, he]
  | cons a pre ih =>
    intro n e post he hn
    simp only [List.cons_append]
    unfold splitCall
    by_cases ha : a.obj = o
    · rw [if_pos ha]
      simp only [ncalls, if_pos ha] at hn
      cases n with
      | zero => omega
      | succ n => simp only [ih he (by omega : ncalls o pre = n), Option.map_some]
    · rw [if_neg ha]
      simp only [ncalls, if_neg ha] at hn
      simp only [ih he (by omega : ncalls o pre = n), Option.map_some]

/-- a fault whose index is already behind the counter is never hit -/
theorem replayT_past (fl : Flavour) (o : EncObj) (k : Nat) (kind : IoKind) (es : List EncEv)
    (t : EncEnd) :
    ∀ (out : List UInt8) (nd no nw : Nat), k < sel o nd no nw →
    replayT fl (some ⟨o, k, kind⟩) es t out nd no nw = (es, ⟨out ++ outOf es, t⟩) := by
  induction es with
  | nil => intros; simp [replayT, outOf]
  | cons e es ih =>
    intro out nd no nw h
    rw [replayT_cons, hits_some]
    have : ¬ (o = e.obj ∧ k = sel e.obj nd no nw) := by
      rintro ⟨rfl, rfl⟩; omega
    rw [if_neg this]
    simp only []
    rw [ih _ _ _ _ (by rw [sel_bump]; omega)]
    simp only [outOf, List.append_assoc]

/-- closed form of a replay against the fault "the `k`-th call on `o` fails" -/
theorem replayT_some (fl : Flavour) (o : EncObj) (k : Nat) (kind : IoKind) (es : List EncEv)
    (t : EncEnd) :
    ∀ (out : List UInt8) (nd no nw : Nat), sel o nd no nw ≤ k →
    replayT fl (some ⟨o, k, kind⟩) es t out nd no nw =
      match splitCall o (k - sel o nd no nw) es with
      | some (pre, e, _) => (pre ++ [e], ⟨out ++ outOf pre, .err (evErr fl ⟨kind, true⟩ e)⟩)
      | none => (es, ⟨out ++ outOf es, t⟩) := by
  induction es with
  | nil => intros; simp [replayT, outOf, splitCall]
  | cons e es ih =>
    intro out nd no nw h
    rw [replayT_cons, hits_some]
    unfold splitCall
    by_cases he : e.obj = o
    · subst he
      rw [if_pos rfl]
      by_cases hk : k = sel e.obj nd no nw
      · rw [if_pos ⟨rfl, hk⟩, hk, Nat.sub_self]
        simp [outOf]
      · rw [if_neg (fun h => hk h.2)]
        have h1 : k - sel e.obj nd no nw = (k - (sel e.obj nd no nw + 1)) + 1 := by omega
        rw [h1]
        simp only []
        have hd : delta e.obj e = 1 := by simp [delta]
        rw [ih _ _ _ _ (by rw [sel_bump, hd]; omega), sel_bump, hd]
        cases splitCall e.obj (k - (sel e.obj nd no nw + 1)) es with
        | none => simp [outOf]
        | some p => simp [outOf]
    · rw [if_neg he, if_neg (fun h => he h.1.symm)]
      simp only []
      have hd : delta o e = 0 := by simp [delta, he]
      rw [ih _ _ _ _ (by rw [sel_bump, hd]; omega), sel_bump, hd, Nat.add_zero]
      cases splitCall o (k - sel o nd no nw) es with
      | none => simp [outOf]
      | some p => simp [outOf]

/-! ## without a fault: the plain encoders -/

theorem loopF_none_validated (hf : HashFns H) [BEq H] (fl : Flavour) (data : List UInt8)
    (ob : Store H) (plan : List Chunk) :
    ∀ (stack : List H) (out : List UInt8) (nd no nw : Nat),
    encodeLoopF hf fl true data ob none plan stack out nd no nw =
      encodeValidatedLoop hf fl data ob plan stack out := by
  induction plan with
  | nil => intros; rfl
  | cons c plan ih =>
    intro stack out nd no nw
    cases c with
    | parent node isRoot left right rs =>
      simp only [encodeLoopF, encodeValidatedLoop, hits_none, if_true]
      rcases ob.load hf fl node with (_ | ⟨l, r⟩) | e | _
      · rfl
      · cases stack with
        | nil => rfl
        | cons expected stack =>
          simp only []
          by_cases hm : (hf.parentCv l r isRoot != expected) = true
          · simp only [if_pos hm]
          · simp only [if_neg hm]
            exact ih ..
      · rfl
      · rfl
    | leaf start size isRoot rs =>
      simp only [encodeLoopF, encodeValidatedLoop, hits_none, if_true]
      cases stack with
      | nil => rfl
      | cons expected stack =>
        simp only []
        cases readExactAt data (toBytes start) size with
        | error e => rfl
        | ok buf =>
          simp only []
          generalize (if (!Ranges.isAll rs) = true then
            encodeSelectedRec hf recFuel start buf isRoot rs ob.tree.bs true
            else (hashSubtree hf start buf isRoot, buf)) = p
          by_cases hm : (p.1 != expected) = true
          · simp only [if_pos hm]
          · simp only [if_neg hm]
            exact ih ..

theorem loopF_none_plain (hf : HashFns H) [BEq H] (fl : Flavour) (data : List UInt8)
    (ob : Store H) (plan : List Chunk) :
    ∀ (stack : List H) (out : List UInt8) (nd no nw : Nat),
    encodeLoopF hf fl false data ob none plan stack out nd no nw =
      encodePlainLoop hf fl data ob plan out := by
  induction plan with
  | nil => intros; rfl
  | cons c plan ih =>
    intro stack out nd no nw
    cases c with
    | parent node isRoot left right rs =>
      simp only [encodeLoopF, encodePlainLoop, hits_none, Bool.false_eq_true, if_false]
      rcases ob.load hf fl node with (_ | ⟨l, r⟩) | e | _
      · rfl
      · exact ih ..
      · rfl
      · rfl
    | leaf start size isRoot rs =>
      simp only [encodeLoopF, encodePlainLoop, hits_none, Bool.false_eq_true, if_false]
      cases readExactAt data (toBytes start) size with
      | error e => rfl
      | ok buf =>
        simp only []
        by_cases hr : (!Ranges.isAll rs) = true
        · simp only [if_pos hr]; exact ih ..
        · simp only [if_neg hr]; exact ih ..

/-! ## the public entry points -/

/-- `encodeRangesF` with its call log -/
def encRunL (hf : HashFns H) [BEq H] (fl : Flavour) (validate : Bool) (data : List UInt8)
    (ob : Store H) (ranges : Ranges) (fault : Option EncFault) : List EncEv × EncRun :=
  if validate && fl == .sync && ranges.isEmpty then ([], ⟨[], .ok⟩)
  else
    let ranges := Ranges.truncate ranges ob.tree.size
    match ob.tree.prePartialChunks ranges 0 with
    | none => ([], ⟨[], .panic⟩)
    | some plan => encodeLoopFL hf fl validate data ob fault plan [ob.root] [] 0 0 0

/-- the io calls (with their arguments) of the fault-free run, in order -/
def encEvents (hf : HashFns H) [BEq H] (fl : Flavour) (validate : Bool) (data : List UInt8)
    (ob : Store H) (ranges : Ranges) : List EncEv :=
  (encRunL hf fl validate data ob ranges none).1

/-- the io calls of a run with a fault, in order (the failing call is the last one) -/
def encEventsF (hf : HashFns H) [BEq H] (fl : Flavour) (validate : Bool) (data : List UInt8)
    (ob : Store H) (ranges : Ranges) (fault : Option EncFault) : List EncEv :=
  (encRunL hf fl validate data ob ranges fault).1

/-- the call log of the fault-free run: which object each io call is made on -/
def encLog (hf : HashFns H) [BEq H] (fl : Flavour) (validate : Bool) (data : List UInt8)
    (ob : Store H) (ranges : Ranges) : List EncObj :=
  (encEvents hf fl validate data ob ranges).map EncEv.obj

theorem encRunL_run (hf : HashFns H) [BEq H] (fl : Flavour) (validate : Bool) (data : List UInt8)
    (ob : Store H) (q : Ranges) (fault : Option EncFault) :
    (encRunL hf fl validate data ob q fault).2 = encodeRangesF hf fl validate data ob q fault := by
  unfold encRunL encodeRangesF
  by_cases h : (validate && fl == .sync && q.isEmpty) = true
  · simp only [if_pos h]
  · simp only [if_neg h]
    cases ob.tree.prePartialChunks (Ranges.truncate q ob.tree.size) 0 with
    | none => rfl
    | some plan => exact traceF_run ..

theorem encRunL_replay (hf : HashFns H) [BEq H] (fl : Flavour) (validate : Bool)
    (data : List UInt8) (ob : Store H) (q : Ranges) (fault : Option EncFault) :
    encRunL hf fl validate data ob q fault =
      replayT fl fault (encEvents hf fl validate data ob q)
        (encodeRangesF hf fl validate data ob q none).terminal [] 0 0 0 := by
  rw [← encRunL_run]
  unfold encEvents encRunL
  by_cases h : (validate && fl == .sync && q.isEmpty) = true
  · simp only [if_pos h]; rfl
  · simp only [if_neg h]
    cases ob.tree.prePartialChunks (Ranges.truncate q ob.tree.size) 0 with
    | none => rfl
    | some plan => exact traceF_replay ..

/-! ## shape of a log: every write follows the call that fetched the item -/

/-- a log consists of `load node; write parent node` and `read start; write leaf start` pairs,
possibly ending with a lone `load` / `read` (a call that failed, a mismatch or a panic after it) -/
def paired : List EncEv → Bool
  | [] => true
  | [.ob _] => true
  | [.data ..] => true
  | .ob n :: .w p l _ :: es => p && n == l && paired es
  | .data s _ :: .w p l _ :: es => !p && s == l && paired es
  | _ => false

theorem traceF_paired (hf : HashFns H) [BEq H] (fl : Flavour) (validate : Bool) (data : List UInt8)
    (ob : Store H) (fault : Option EncFault) (plan : List Chunk) :
    ∀ (stack : List H) (out : List UInt8) (nd no nw : Nat),
    paired (encodeLoopFL hf fl validate data ob fault plan stack out nd no nw).1 = true := by
  induction plan with
  | nil => intros; rfl
  | cons c plan ih =>
    intro stack out nd no nw
    cases c with
    | parent node isRoot left right rs =>
      simp only [encodeLoopFL]
      cases EncFault.hits fault .ob no with
      | some e => rfl
      | none =>
        rcases ob.load hf fl node with (_ | ⟨l, r⟩) | e | _
        · rfl
        · cases validate with
          | false =>
            simp only [Bool.false_eq_true, if_false]
            cases EncFault.hits fault .w nw with
            | some e => simp [paired]
            | none => simp [paired, ih]
          | true =>
            simp only [if_true]
            cases stack with
            | nil => rfl
            | cons expected stack =>
              simp only []
              by_cases hm : (hf.parentCv l r isRoot != expected) = true
              · simp only [if_pos hm]; rfl
              · simp only [if_neg hm]
                cases EncFault.hits fault .w nw with
                | some e => simp [paired]
                | none => simp [paired, ih]
        · rfl
        · rfl
    | leaf start size isRoot rs =>
      simp only [encodeLoopFL]
      cases validate with
      | false =>
        simp only [Bool.false_eq_true, if_false]
        cases EncFault.hits fault .data nd with
        | some e => rfl
        | none =>
          cases readExactAt data (toBytes start) size with
          | error e => rfl
          | ok buf =>
            simp only []
            cases EncFault.hits fault .w nw with
            | some e => simp [paired]
            | none => simp [paired, ih]
      | true =>
        simp only [if_true]
        cases stack with
        | nil => rfl
        | cons expected stack =>
          simp only []
          cases EncFault.hits fault .data nd with
          | some e => rfl
          | none =>
            cases readExactAt data (toBytes start) size with
            | error e => rfl
            | ok buf =>
              simp only []
              generalize (if (!Ranges.isAll rs) = true then
                encodeSelectedRec hf recFuel start buf isRoot rs ob.tree.bs true
                else (hashSubtree hf start buf isRoot, buf)) = p
              by_cases hm : (p.1 != expected) = true
              · simp only [if_pos hm]; rfl
              · simp only [if_neg hm]
                cases EncFault.hits fault .w nw with
                | some e => simp [paired]
                | none => simp [paired, ih]

theorem encRunL_paired (hf : HashFns H) [BEq H] (fl : Flavour) (validate : Bool)
    (data : List UInt8) (ob : Store H) (q : Ranges) (fault : Option EncFault) :
    paired (encRunL hf fl validate data ob q fault).1 = true := by
  unfold encRunL
  by_cases h : (validate && fl == .sync && q.isEmpty) = true
  · simp only [if_pos h]; rfl
  · simp only [if_neg h]
    cases ob.tree.prePartialChunks (Ranges.truncate q ob.tree.size) 0 with
    | none => rfl
    | some plan => exact traceF_paired ..

/-- in a paired log the call before a write is the `load` / `read` of the item being written -/
theorem paired_before_w : ∀ {pre : List EncEv} {p : Bool} {l : Nat} {b : List UInt8}
    {post : List EncEv}, paired (pre ++ .w p l b :: post) = true →
    ∃ pre', (p = true ∧ pre = pre' ++ [.ob l]) ∨ (p = false ∧ ∃ size, pre = pre' ++ [.data l size])
  | [], p, l, b, post, h => by simp [paired] at h
  | [.ob n], p, l, b, post, h => by
    simp only [List.cons_append, List.nil_append, paired, Bool.and_eq_true, beq_iff_eq] at h
    exact ⟨[], Or.inl ⟨h.1.1, by rw [h.1.2]; rfl⟩⟩
  | [.data s z], p, l, b, post, h => by
    simp only [List.cons_append, List.nil_append, paired, Bool.and_eq_true, beq_iff_eq,
      Bool.not_eq_eq_eq_not, Bool.not_true] at h
    exact ⟨[], Or.inr ⟨h.1.1, z, by rw [h.1.2]; rfl⟩⟩
  | [.w ..], p, l, b, post, h => by simp [paired] at h
  | .ob n :: .w p' l' b' :: pre, p, l, b, post, h => by
    simp only [List.cons_append, paired, Bool.and_eq_true] at h
    obtain ⟨pre', hp⟩ := paired_before_w h.2
    refine ⟨.ob n :: .w p' l' b' :: pre', ?_⟩
    rcases hp with ⟨h1, h2⟩ | ⟨h1, z, h2⟩
    · exact Or.inl ⟨h1, by rw [h2]; rfl⟩
    · exact Or.inr ⟨h1, z, by rw [h2]; rfl⟩
  | .data s z :: .w p' l' b' :: pre, p, l, b, post, h => by
    simp only [List.cons_append, paired, Bool.and_eq_true] at h
    obtain ⟨pre', hp⟩ := paired_before_w h.2
    refine ⟨.data s z :: .w p' l' b' :: pre', ?_⟩
    rcases hp with ⟨h1, h2⟩ | ⟨h1, z', h2⟩
    · exact Or.inl ⟨h1, by rw [h2]; rfl⟩
    · exact Or.inr ⟨h1, z', by rw [h2]; rfl⟩
  | .ob _ :: .ob _ :: pre, p, l, b, post, h => by simp [paired] at h
  | .ob _ :: .data .. :: pre, p, l, b, post, h => by simp [paired] at h
  | .data .. :: .ob _ :: pre, p, l, b, post, h => by simp [paired] at h
  | .data .. :: .data .. :: pre, p, l, b, post, h => by simp [paired] at h
  | .w .. :: _ :: pre, p, l, b, post, h => by simp [paired] at h

/-! ## closed form of the public entry points -/

theorem sel_zero (o : EncObj) : sel o 0 0 0 = 0 := by cases o <;> rfl

/-- the fault-free run performs its whole log -/
theorem encRunL_none (hf : HashFns H) [BEq H] (fl : Flavour) (validate : Bool)
    (data : List UInt8) (ob : Store H) (q : Ranges) :
    encRunL hf fl validate data ob q none =
      (encEvents hf fl validate data ob q,
        ⟨outOf (encEvents hf fl validate data ob q),
          (encodeRangesF hf fl validate data ob q none).terminal⟩) := by
  rw [encRunL_replay, replayT_none, List.nil_append]

/-- the run with the fault "the `k`-th call on `obj` fails" is the fault-free run cut at that
call, if there is one -/
theorem encRunL_some (hf : HashFns H) [BEq H] (fl : Flavour) (validate : Bool)
    (data : List UInt8) (ob : Store H) (q : Ranges) (obj : EncObj) (k : Nat) (kind : IoKind) :
    encRunL hf fl validate data ob q (some ⟨obj, k, kind⟩) =
      match splitCall obj k (encEvents hf fl validate data ob q) with
      | some (pre, e, _) => (pre ++ [e], ⟨outOf pre, .err (evErr fl ⟨kind, true⟩ e)⟩)
      | none => encRunL hf fl validate data ob q none := by
  rw [encRunL_replay, replayT_some _ _ _ _ _ _ _ _ _ _ (by rw [sel_zero]; exact Nat.zero_le _),
    sel_zero, Nat.sub_zero, encRunL_none]
  simp only [List.nil_append]

/-- an injected fault is reported as an io error or as a write-failed error -/
theorem evErr_cases (fl : Flavour) (err : IoErr) (e : EncEv) :
    evErr fl err e = .io err ∨ (∃ n, evErr fl err e = .parentWrite n) ∨
      (∃ n, evErr fl err e = .leafWrite n) := by
  cases e with
  | ob n => exact Or.inl rfl
  | data s z => exact Or.inl rfl
  | w p l b =>
    cases fl with
    | sync => exact Or.inl rfl
    | fsm =>
      cases p with
      | true =>
        simp only [evErr, writeErr, EncodeError.maybeParentWrite, if_true]
        split
        · exact Or.inr (Or.inl ⟨_, rfl⟩)
        · exact Or.inl rfl
      | false =>
        simp only [evErr, writeErr, EncodeError.maybeLeafWrite, Bool.false_eq_true, if_false]
        split
        · exact Or.inr (Or.inr ⟨_, rfl⟩)
        · exact Or.inl rfl

theorem evErr_not_w (fl : Flavour) (err : IoErr) {e : EncEv} (h : e.obj ≠ .w) :
    evErr fl err e = .io err := by
  cases e with
  | ob n => rfl
  | data s z => rfl
  | w p l b => exact absurd rfl h

theorem beq_kind (a b : IoKind) : (a == b) = decide (a = b) := by
  cases a <;> cases b <;> rfl

theorem writeErr_fsm_reset (e : IoErr) (n : Nat) (h : e.kind = .connectionReset) :
    writeErr .fsm e true n = .parentWrite n ∧ writeErr .fsm e false n = .leafWrite n := by
  simp [writeErr, EncodeError.maybeParentWrite, EncodeError.maybeLeafWrite, beq_kind, h]

theorem writeErr_fsm_other (e : IoErr) (p : Bool) (n : Nat) (h : e.kind ≠ .connectionReset) :
    writeErr .fsm e p n = .io e := by
  cases p <;> simp [writeErr, EncodeError.maybeParentWrite, EncodeError.maybeLeafWrite, beq_kind, h]

end Bao.EncFaultL
