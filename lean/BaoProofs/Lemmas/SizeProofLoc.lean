import BaoProofs.Lemmas.SizeProof
import BaoProofs.Lemmas.C01InvLoc

/-!
# The size proof (C16) with a LOCAL collision freedom hypothesis

Twin of `Lemmas/SizeProof.lean`.  `CollisionFree hf` is replaced by `CollisionFreeOn hf S` for a
set `S` containing `trueEvals hf d` and the hash inputs of the item-yielding steps of the run.

* `checkEvals`, `runLEvals` – the inputs evaluated by the (successful) steps of the list machine
  `runL`;
* `runEvals_sup`  – they are all inputs of the model's decoder run (`runEvals`, either flavour);
* `SpineL`        – spine hashes with the honest root flag, whose evaluations are in `trueEvals`;
* `spine_node_loc`, `decode_size_proof_loc` – the spine argument with the local hypothesis.
-/

set_option maxRecDepth 8192

namespace Bao.DecodeSpec
open Bao Bao.Spec Bao.PlanPre Bao.Ranges Bao.Bits Bao.C01

variable {H : Type}

/-! ## the inputs evaluated by the list machine -/

/-- the inputs evaluated by the check of a plan item on the bytes `buf` -/
def checkEvals (hf : HashFns H) : Chunk → List UInt8 → List (HashIn H)
  | .parent _ isRoot _ _ _, buf => [.parent (parsePair hf buf).1 (parsePair hf buf).2 isRoot]
  | .leaf start _ isRoot _, buf => hashEvals hf start buf isRoot

/-- `evalsOf` is the `hashInputs` of `Lemmas/DecodeSpec.lean` -/
theorem evalsOf_eq_hashInputs (hf : HashFns H) (L c : Nat) (b : List UInt8) (r : Bool) :
    evalsOf hf L c b r = hashInputs hf L c b r := by
  induction L generalizing c b r with
  | zero => rfl
  | succ L ih => simp only [evalsOf, hashInputs, ih]

theorem checkEvals_eq_checkInputs (hf : HashFns H) (c : Chunk) (buf : List UInt8) :
    checkEvals hf c buf = checkInputs hf c buf := by
  cases c with
  | parent => rfl
  | leaf => simp only [checkEvals, checkInputs, hashEvals, evalsOf_eq_hashInputs]

theorem checkEvals_withoutRanges (hf : HashFns H) (c : Chunk) (b : List UInt8) :
    checkEvals hf c.withoutRanges b = checkEvals hf c b := by cases c <;> rfl

/-- the inputs evaluated by the item-yielding steps of `runL` -/
def runLEvals (hf : HashFns H) [BEq H] : List Chunk → List H → List UInt8 → List (HashIn H)
  | [], _, _ => []
  | c :: p, st, s =>
    match stepC hf c st s with
    | .item _ st' s' => checkEvals hf c (s.take c.size) ++ runLEvals hf p st' s'
    | .err _ _ => []
    | .panic _ => []

theorem runLEvals_cons_item {hf : HashFns H} [BEq H] {c : Chunk} {p : List Chunk} {st st' : List H}
    {s s' : List UInt8} {i : Item H} (h : stepC hf c st s = .item i st' s') :
    runLEvals hf (c :: p) st s = checkEvals hf c (s.take c.size) ++ runLEvals hf p st' s' := by
  simp only [runLEvals, h]

theorem runLEvals_append_ok {hf : HashFns H} [BEq H] (B : List Chunk) :
    ∀ (A : List Chunk) (st : List H) (s : List UInt8) (st1 : List H) (s1 : List UInt8),
      (runL hf A st s).fin = .ok st1 s1 →
      runLEvals hf (A ++ B) st s = runLEvals hf A st s ++ runLEvals hf B st1 s1 := by
  intro A
  induction A with
  | nil =>
    intro st s st1 s1 h
    simp only [runL_nil, End.ok.injEq] at h
    obtain ⟨rfl, rfl⟩ := h
    simp [runLEvals]
  | cons c A ih =>
    intro st s st1 s1 h
    obtain ⟨i, st2, s2, hstep, hrest, -⟩ := runL_cons_ok h
    rw [List.cons_append, runLEvals_cons_item hstep, runLEvals_cons_item hstep,
      ih st2 s2 st1 s1 hrest, List.append_assoc]

/-! ## the list machine's evaluations are evaluations of the model's decoder -/

section bridge
variable (hf : HashFns H) [BEq H]

/-- what `Dec.nextSync` evaluates when the iterator yields `c.withoutRanges` and the step yields
an item -/
theorem evalsSync_stepC (d : Dec H) (c : Chunk) (it' : PrePartial)
    (h : Response.next d.iter = .item c.withoutRanges it') {i : Item H} {st' : List H}
    {s' : List UInt8} (hsc : stepC hf c d.stack d.encoded = .item i st' s') :
    d.evalsSync hf = checkEvals hf c (d.encoded.take c.size) := by
  obtain ⟨hl, top, rest, hst, -, -, -, -⟩ := stepC_item hsc
  unfold Dec.evalsSync
  rw [h]
  cases c with
  | parent node isRoot left right rs =>
    simp only [Chunk.size] at hl
    simp only [Chunk.withoutRanges, Chunk.size, readExact, hl, if_true, hst, checkEvals]
  | leaf start size isRoot rs =>
    simp only [Chunk.size] at hl
    simp only [Chunk.withoutRanges, Chunk.size, readExact, hl, if_true, checkEvals]

theorem evalsFsm_stepC (d : Dec H) (c : Chunk) (it' : PrePartial)
    (h : Response.next d.iter = .item c.withoutRanges it') {i : Item H} {st' : List H}
    {s' : List UInt8} (hsc : stepC hf c d.stack d.encoded = .item i st' s') :
    d.evalsFsm hf = checkEvals hf c (d.encoded.take c.size) := by
  obtain ⟨hl, top, rest, hst, -, -, -, -⟩ := stepC_item hsc
  unfold Dec.evalsFsm
  rw [h]
  cases c with
  | parent node isRoot left right rs =>
    simp only [Chunk.size] at hl
    simp only [Chunk.withoutRanges, Chunk.size, readExact, hl, if_true, hst, checkEvals]
  | leaf start size isRoot rs =>
    simp only [Chunk.size] at hl
    simp only [Chunk.withoutRanges, Chunk.size, readExact, hl, if_true, hst, checkEvals]

theorem stepEvals_stepC (fl : Flavour) (d : Dec H) (c : Chunk) (it' : PrePartial)
    (h : Response.next d.iter = .item c.withoutRanges it') {i : Item H} {st' : List H}
    {s' : List UInt8} (hsc : stepC hf c d.stack d.encoded = .item i st' s') :
    d.stepEvals hf fl = checkEvals hf c (d.encoded.take c.size) := by
  cases fl
  · exact evalsSync_stepC hf d c it' h hsc
  · exact evalsFsm_stepC hf d c it' h hsc

/-- twin of `runAux_eq_runL`: every input of an item-yielding step of the list machine over the
pending plan is evaluated by the model's decoder run (either flavour) -/
theorem runEvalsAux_sup {size ml filled root : Nat} (g : Geo size 0 filled) (fl : Flavour)
    (fuel : Nat) :
    ∀ (stack : List (Nat × Ranges)) (buffer : List Chunk) (hst : List H) (enc : List UInt8)
      (hash : H), (∀ e ∈ stack, Valid filled e) →
      (pending size 0 ml filled root stack buffer).length < fuel →
      ∀ x ∈ runLEvals hf (pending size 0 ml filled root stack buffer) hst enc,
        x ∈ runEvalsAux hf fl fuel ⟨st size 0 ml filled root stack buffer, hst, enc, hash⟩ := by
  induction fuel with
  | zero => intro _ _ _ _ _ _ h; omega
  | succ n ih =>
    intro stack buffer hst enc hash hv hlen x hx
    rcases iter_next (ml := ml) (root := root) g stack buffer hv with
      ⟨he, -⟩ | ⟨c, stack', buf', hn, hv', he⟩
    · rw [he] at hx
      simp [runLEvals] at hx
    · have hr : Response.next (st size 0 ml filled root stack buffer)
          = .item c.withoutRanges (st size 0 ml filled root stack' buf') := by
        unfold Response.next; rw [hn]
      have hstep := nextSync_stepC hf
        ⟨st size 0 ml filled root stack buffer, hst, enc, hash⟩ c _ hr
      rw [he] at hx hlen
      simp only at hstep
      cases hsc : stepC hf c hst enc with
      | item i st' s' =>
        rw [hsc] at hstep
        simp only at hstep
        have hnext := DecSim.next_of_sync_item hf fl hstep
        have hev := stepEvals_stepC hf fl
          ⟨st size 0 ml filled root stack buffer, hst, enc, hash⟩ c _ hr hsc
        rw [runLEvals_cons_item hsc, List.mem_append] at hx
        unfold runEvalsAux
        rw [hnext, hev]
        rcases hx with hx | hx
        · exact List.mem_append_left _ hx
        · exact List.mem_append_right _
            (ih stack' buf' st' s' hash hv' (by simp only [List.length_cons] at hlen; omega) x hx)
      | err e s' => simp [runLEvals, hsc] at hx
      | panic s' => simp [runLEvals, hsc] at hx

theorem runLEvals_withoutRanges (p : List Chunk) (st : List H) (s : List UInt8) :
    runLEvals hf (p.map Chunk.withoutRanges) st s = runLEvals hf p st s := by
  induction p generalizing st s with
  | nil => rfl
  | cons c p ih =>
    simp only [List.map_cons, runLEvals, stepC_withoutRanges, checkEvals_withoutRanges]
    have hsz : c.withoutRanges.size = c.size := by cases c <;> rfl
    rw [hsz]
    cases stepC hf c st s <;> simp only [ih]

/-- **twin of `decodeAll_eq_runL`**: every input of an item-yielding step of the list machine over
the response plan is an input of the model's decoder run -/
theorem runEvals_sup (fl : Flavour) (root : H) (size bs : Nat) (q : Ranges) (s : List UInt8)
    (hs : size ≤ 2 ^ 63) :
    ∀ x ∈ runLEvals hf (plan ⟨size, 0⟩ bs (Ranges.truncate q size)) [root] s,
      x ∈ runEvals hf fl root ⟨size, bs⟩ q s := by
  have g := shifted_geo size 0 hs (by omega)
  obtain ⟨hh, hroot, hlt⟩ := rootLevel_spec size 0 hs
  generalize hq : Ranges.truncate q size = q'
  have hlen := plan_length_le ⟨size, 0⟩ bs q'
  unfold runEvals Dec.runEvals Dec.new
  simp only [hq]
  cases q' with
  | nil =>
    rw [plan_nil]
    intro x hx
    simp [runLEvals] at hx
  | cons a q'' =>
    have hv : ∀ e ∈ [((Tree.shifted ⟨size, 0⟩).1, a :: q'')],
        Valid (Tree.shifted ⟨size, 0⟩).2 e := by
      intro e he
      rw [List.mem_singleton] at he
      subst he
      exact ⟨by rw [hroot]; exact hlt, by simp⟩
    have hp : planId size 0 bs (Tree.shifted ⟨size, 0⟩).2 (Tree.shifted ⟨size, 0⟩).1
        ((Tree.shifted ⟨size, 0⟩).1, a :: q'') = plan ⟨size, 0⟩ bs (a :: q'') := by
      unfold plan
      conv => lhs; arg 6; arg 1; rw [hroot]
      exact planId_nodeOf g hlt _
    have hpend : pending size 0 bs (Tree.shifted ⟨size, 0⟩).2 (Tree.shifted ⟨size, 0⟩).1
        [((Tree.shifted ⟨size, 0⟩).1, a :: q'')] [] = plan ⟨size, 0⟩ bs (a :: q'') := by
      simp only [pending, List.nil_append, List.flatMap_cons, List.flatMap_nil, List.append_nil, hp]
    have := runEvalsAux_sup hf (ml := bs) (root := (Tree.shifted ⟨size, 0⟩).1) g fl
      (PrePartial.fuelFor ⟨size, 0⟩ + 1) [((Tree.shifted ⟨size, 0⟩).1, a :: q'')] [] [root] s root hv
      (by rw [hpend]; unfold PrePartial.fuelFor; omega)
    rw [hpend] at this
    exact this

end bridge

/-! ## spine hashes with the honest root flag -/

/-- `x` is the chaining value of a right-spine SUBTREE interval `[a, N)` of the true blob, with the
root flag the honest hashing uses for it -/
def SpineL (hf : HashFns H) (d : List UInt8) (x : H) : Prop :=
  ∃ a, Sub d a (nChunks d.length) ∧
    x = cv hf d a (nChunks d.length) (isRootIv d a (nChunks d.length))

theorem spineL_root (hf : HashFns H) (d : List UInt8) : SpineL hf d (Spec.root hf d) :=
  ⟨0, Sub.root d, by simp [isRootIv, Spec.root]⟩

theorem SpineL.toSpine {hf : HashFns H} {d : List UInt8} {x : H} (h : SpineL hf d x) :
    Spine hf d x := by
  obtain ⟨a, ⟨_, _, _, ha⟩, rfl⟩ := h
  exact ⟨a, _, ha, rfl⟩

/-- a spine hash that passes a parent check: the right child hash is a spine hash -/
theorem spine_parent_loc {hf : HashFns H} {d : List UInt8} {S : HashIn H → Prop}
    (cf : CollisionFreeOn hf S) (hT : ∀ x ∈ trueEvals hf d, S x)
    (hd : d.length ≤ 2 ^ 64 * 1024) {x l r : H} {flag : Bool} (hx : SpineL hf d x)
    (hS : S (.parent l r flag)) (h : x = hf.parentCv l r flag) : SpineL hf d r := by
  obtain ⟨a, hs, rfl⟩ := hx
  have hsub := trueEvals_sub (hf := hf) hd hs
  unfold Spec.cv at h
  have hlen : (slice d a (nChunks d.length)).length ≤ 2 ^ 64 * 1024 :=
    Nat.le_trans (C01.slice_length_le d a _) hd
  rcases hashEvals_shape (hf := hf) hlen a (isRootIv d a (nChunks d.length)) with
    ⟨_, e1, ee⟩ | ⟨L, hL, h1, h2, e1, ee⟩
  · rw [e1] at h
    exact (cf.chunk_ne_parent (hT _ (hsub _ (by rw [ee]; exact List.mem_singleton_self _))) hS
      h).elim
  · rw [e1] at h
    obtain ⟨-, hr, -⟩ :=
      cf.parent_inj (hT _ (hsub _ (by rw [ee]; exact List.mem_cons_self ..))) hS h
    obtain ⟨-, s2, hmid, -, -⟩ := hs.split h1 h2
    rw [C01.slice_drop (Nat.le_of_lt hmid)] at hr
    have hpos : 0 < 2 ^ L := Nat.two_pow_pos _
    have hf2 : isRootIv d (a + 2 ^ L) (nChunks d.length) = false := by
      simp only [isRootIv, decide_eq_false_iff_not]; omega
    exact ⟨a + 2 ^ L, s2, by rw [hf2]; exact hr.symm⟩

/-- a spine hash that passes the check of a leaf which claims to be the last leaf of a blob of
`size'` bytes: the claimed size is the true size -/
theorem spine_leaf_loc {hf : HashFns H} {d : List UInt8} {S : HashIn H → Prop}
    (cf : CollisionFreeOn hf S) (hT : ∀ x ∈ trueEvals hf d, S x)
    (hd : d.length ≤ 2 ^ 64 * 1024) {x : H} (hx : SpineL hf d x) {s size' : Nat} {flag : Bool}
    {buf : List UInt8} (hS : ∀ y ∈ hashEvals hf s buf flag, S y)
    (h : x = hashSubtree hf s buf flag) (hs : s * 1024 ≤ size')
    (hz : buf.length = size' - s * 1024) : size' = d.length := by
  obtain ⟨a, hsub, rfl⟩ := hx
  have hsubT := trueEvals_sub (hf := hf) hd hsub
  obtain ⟨-, -, -, ha⟩ := hsub
  unfold Spec.cv at h
  obtain ⟨rfl, hb, -⟩ := cv_inj_on' cf (fun y hy => hT y (hsubT y hy)) hS h
  have hl := congrArg List.length hb
  rw [C01.slice_length, hz] at hl
  have hn : nChunks d.length = max 1 ((d.length + 1023) / 1024) := rfl
  omega

section spine
variable {hf : HashFns H} [BEq H] [LawfulBEq H]

/-- the leaf step of the spine argument -/
theorem spine_leaf_step_loc {d : List UInt8} {S : HashIn H → Prop} (cf : CollisionFreeOn hf S)
    (hT : ∀ x ∈ trueEvals hf d, S x) (hd : d.length ≤ 2 ^ 64 * 1024) {top : H}
    (ht : SpineL hf d top)
    {s z size' : Nat} {flag : Bool} {x : Ranges} {p : List Chunk} {stk st1 : List H}
    {s0 s1 : List UInt8} (hs : s * 1024 ≤ size') (hz : z = size' - s * 1024)
    (hE : ∀ y ∈ runLEvals hf (.leaf s z flag x :: p) (top :: stk) s0, S y)
    (hok : (runL hf (.leaf s z flag x :: p) (top :: stk) s0).fin = .ok st1 s1) :
    size' = d.length := by
  obtain ⟨i, st2, s2, hstep, -, -⟩ := runL_cons_ok hok
  rw [runLEvals_cons_item hstep] at hE
  obtain ⟨hl, top', rest', htr, hc, -, -, -⟩ := stepC_item hstep
  simp only [List.cons.injEq] at htr
  obtain ⟨rfl, rfl⟩ := htr
  simp only [Chunk.size] at hl hc hE
  have heq : top = hashSubtree hf s (s0.take z) flag := by simpa [check] using hc
  exact spine_leaf_loc cf hT hd ht
    (fun y hy => hE y (List.mem_append_left _ (by simpa only [checkEvals] using hy))) heq hs
    (by rw [List.length_take, Nat.min_eq_left hl, hz])

/-- the parent step of the spine argument -/
theorem spine_parent_step_loc {d : List UInt8} {S : HashIn H → Prop} (cf : CollisionFreeOn hf S)
    (hT : ∀ x ∈ trueEvals hf d, S x) (hd : d.length ≤ 2 ^ 64 * 1024)
    {top : H} (ht : SpineL hf d top) {node : Nat} {flag lf : Bool} {x : Ranges} {p : List Chunk}
    {stk st1 : List H} {s0 s1 : List UInt8}
    (hE : ∀ y ∈ runLEvals hf (.parent node flag lf true x :: p) (top :: stk) s0, S y)
    (hok : (runL hf (.parent node flag lf true x :: p) (top :: stk) s0).fin = .ok st1 s1) :
    ∃ l r s2, SpineL hf d r ∧
      (runL hf p (if lf then l :: r :: stk else r :: stk) s2).fin = .ok st1 s1 ∧
      ∀ y ∈ runLEvals hf p (if lf then l :: r :: stk else r :: stk) s2, S y := by
  obtain ⟨i, st2, s2, hstep, hrest, -⟩ := runL_cons_ok hok
  rw [runLEvals_cons_item hstep] at hE
  obtain ⟨hl, top', rest', htr, hc, -, rfl, -⟩ := stepC_item hstep
  simp only [List.cons.injEq] at htr
  obtain ⟨rfl, rfl⟩ := htr
  have heq : top = hf.parentCv (parsePair hf (s0.take 64)).1 (parsePair hf (s0.take 64)).2 flag := by
    simpa [check, Chunk.size] using hc
  have hSp : S (.parent (parsePair hf (s0.take 64)).1 (parsePair hf (s0.take 64)).2 flag) :=
    hE _ (List.mem_append_left _ (by simp [checkEvals, Chunk.size]))
  refine ⟨(parsePair hf (s0.take 64)).1, (parsePair hf (s0.take 64)).2, s2,
    spine_parent_loc cf hT hd ht hSp heq, ?_, ?_⟩
  · simpa [push, Chunk.size] using hrest
  · intro y hy
    refine hE y (List.mem_append_right _ ?_)
    simpa [push, Chunk.size] using hy

/-- **the spine argument, local form** -/
theorem spine_node_loc {d : List UInt8} {S : HashIn H → Prop} (cf : CollisionFreeOn hf S)
    (hT : ∀ x ∈ trueEvals hf d, S x) (hd : d.length ≤ 2 ^ 64 * 1024)
    {size' B filled root : Nat} (g : Geo size' 0 filled) (L k : Nat) (rs : Ranges) :
    WF rs = true → Spec.selected size' rs (nChunks size' - 1) = true →
    nChunks size' ≤ endOf k L → startOf k L < filled →
    ∀ (top : H) (stk : List H) (s : List UInt8) (st1 : List H) (s1 : List UInt8),
      SpineL hf d top →
      (∀ y ∈ runLEvals hf (planPre size' 0 B filled root L k rs) (top :: stk) s, S y) →
      (runL hf (planPre size' 0 B filled root L k rs) (top :: stk) s).fin = .ok st1 s1 →
      size' = d.length := by
  refine planPre_induct (size := size') (bs := 0) (ml := B) (filled := filled) (root := root)
    (P := fun L k rs p => WF rs = true → Spec.selected size' rs (nChunks size' - 1) = true →
      nChunks size' ≤ endOf k L → startOf k L < filled →
      ∀ (top : H) (stk : List H) (s : List UInt8) (st1 : List H) (s1 : List UInt8),
        SpineL hf d top → (∀ y ∈ runLEvals hf p (top :: stk) s, S y) →
        (runL hf p (top :: stk) s).fin = .ok st1 s1 → size' = d.length)
    ?_ ?_ ?_ ?_ ?_ ?_ ?_ L k rs
  · -- nil
    intro L k _ hsel
    rw [selected_nil] at hsel; cases hsel
  · -- gone
    intro k rs _ hge _ _ _ hex
    rw [Offsets.startOf_zero] at hex
    rw [Offsets.nodeOf_zero] at hge
    omega
  · -- skip
    intro L k rs _ hge ih hwf hsel _ hex
    have hm : nChunks size' ≤ midOf k (L + 1) := g.skip_mid_ge hge
    exact ih hwf hsel (by rw [endOf_left]; exact hm) (by rw [startOf_left]; exact hex)
  · -- query leaf
    intro L k rs _ hlt _ _ _ hend hex top stk s st1 s1 ht hE hok
    rw [nodeLeaf_zero] at hok hE
    have hs : toBytes (startOf k L) ≤ size' := g.start_le (L := L) hex
    exact spine_leaf_step_loc cf hT hd ht hs (by rw [toBytes_end_ge hend]; rfl) hE hok
  · -- half leaf
    intro k rs _ hlt _ _ _ _ hend hex top stk s st1 s1 ht hE hok
    rw [nodeLeaf_zero] at hok hE
    have hs : toBytes (startOf k 0) ≤ size' := g.start_le (L := 0) hex
    exact spine_leaf_step_loc cf hT hd ht hs (by rw [toBytes_end_ge hend]; rfl) hE hok
  · -- chunk group
    intro k rs _ hlt _ hh hwf hsel hend hex top stk s st1 s1 ht hE hok
    have hm : midOf k 0 < nChunks size' := lt_nChunks_of_toBytes_lt hh
    have hrsel : Spec.selected size' (rq 0 0 k rs) (nChunks size' - 1) = true := by
      rw [rq_zero, selected_right hwf (by omega)]; exact hsel
    have hrne := ne_nil_of_selected hrsel
    rw [nodeParent_zero, isEmpty_eq_false hrne] at hok hE
    simp only [Bool.not_false, Bool.false_eq_true, if_false] at hok hE
    obtain ⟨l, r, s2, hr, hok2, hE2⟩ := spine_parent_step_loc cf hT hd ht hE hok
    have hsz : toBytes (midOf k 0) ≤ size' := Nat.le_of_lt hh
    rw [rightLeaf_zero] at hok2 hE2
    cases hl : (lq 0 0 k rs).isEmpty
    · simp only [hl, Bool.not_false, if_true, Bool.false_eq_true, if_false, List.singleton_append]
        at hok2 hE2
      rw [leftLeaf_zero] at hok2 hE2
      obtain ⟨i, st3, s3, hstep, hrest, -⟩ := runL_cons_ok hok2
      rw [runLEvals_cons_item hstep] at hE2
      obtain ⟨-, top', rest', htr, -, -, rfl, -⟩ := stepC_item hstep
      simp only [List.cons.injEq] at htr
      obtain ⟨rfl, rfl⟩ := htr
      exact spine_leaf_step_loc cf hT hd hr hsz (by rw [toBytes_end_ge hend]; rfl)
        (fun y hy => hE2 y (List.mem_append_right _ hy)) hrest
    · simp only [hl, Bool.not_true, Bool.false_eq_true, if_false, if_true, List.nil_append]
        at hok2 hE2
      exact spine_leaf_step_loc cf hT hd hr hsz (by rw [toBytes_end_ge hend]; rfl) hE2 hok2
  · -- inner node
    intro L k rs _ hlt _ _ ihr hwf hsel hend hex top stk s st1 s1 ht hE hok
    have hm : midOf k (L + 1) < nChunks size' := g.mid_lt_nChunks hlt
    have hwfs := C14.splitInner_wf (startOf k (L + 1)) (midOf k (L + 1)) hwf
    have hrsel : Spec.selected size' (rq 0 (L + 1) k rs) (nChunks size' - 1) = true := by
      rw [rq_zero, selected_right hwf (by omega)]; exact hsel
    have hrne := ne_nil_of_selected hrsel
    rw [nodeParent_zero, isEmpty_eq_false hrne] at hok hE
    simp only [Bool.not_false] at hok hE
    obtain ⟨l, r, s2, hr, hok2, hE2⟩ := spine_parent_step_loc cf hT hd ht hE hok
    rw [runL_append] at hok2
    obtain ⟨st3, s3, hL1, hR1, -⟩ := bind_ok hok2
    rw [runLEvals_append_ok _ _ _ _ _ _ hL1] at hE2
    have hst3 : st3 = r :: stk := by
      cases hl : (lq 0 (L + 1) k rs).isEmpty
      · have hlne : lq 0 (L + 1) k rs ≠ [] := by
          intro e; rw [e] at hl; cases hl
        simp only [hl, Bool.not_false, if_true] at hL1
        exact planPre_frame hf g L (2 * k) _ hlne
          (by rw [startOf_left]; exact hex) hL1
      · have hle : lq 0 (L + 1) k rs = [] := isEmpty_eq_true_iff.1 hl
        simp only [hl, Bool.not_true, Bool.false_eq_true, if_false] at hL1
        rw [hle, planPre_nil] at hL1
        simp only [runL_nil, End.ok.injEq] at hL1
        exact hL1.1.symm
    rw [hst3] at hR1 hE2
    exact ihr (by rw [rq_zero]; exact hwfs.2) hrsel (by rw [endOf_right]; exact hend)
      (g.right_exists hlt) r stk s3 st1 s1 hr
      (fun y hy => hE2 y (List.mem_append_right _ hy)) hR1

/-- **C16, local form**: a decode whose query selects the last chunk of the claimed geometry can end
`done` only if the claimed size is the true size of the blob behind the root hash – provided `hf`
has no collision among the inputs evaluated by the honest hashing of `d` and by the run -/
theorem decode_size_proof_loc (fl : Flavour) (d : List UInt8)
    (hd : d.length ≤ 2 ^ 63) (size' bs : Nat) (hs : size' ≤ 2 ^ 63) (q : Ranges)
    (hwf : WF q = true) (hsel : Spec.selected size' q (nChunks size' - 1) = true)
    (s : List UInt8)
    (cf : CollisionFreeOn hf (fun x => x ∈ trueEvals hf d ∨
      x ∈ runEvals hf fl (Spec.root hf d) ⟨size', bs⟩ q s))
    (hdone : (decodeAll hf fl (Spec.root hf d) ⟨size', bs⟩ q s).terminal = .done) :
    size' = d.length := by
  have hsup := runEvals_sup hf fl (Spec.root hf d) size' bs q s hs
  rw [decodeAll_eq_runL hf fl _ _ _ _ _ hs] at hdone
  simp only [Out.toRun] at hdone
  have g := shifted_geo size' 0 hs (by omega)
  obtain ⟨-, hroot, hlt⟩ := rootLevel_spec size' 0 hs
  cases hfin : (runL hf (plan ⟨size', 0⟩ bs (truncate q size')) [Spec.root hf d] s).fin with
  | err e s1 => rw [hfin] at hdone; cases hdone
  | panic s1 => rw [hfin] at hdone; cases hdone
  | ok st1 s1 =>
    unfold plan at hfin hsup
    refine spine_node_loc cf (fun x hx => .inl hx) (by omega) g (rootLevel ⟨size', 0⟩) 0
      (truncate q size')
      (C14.truncate_wf size' hwf) (by rw [C14.truncate_selected size' hwf]; exact hsel)
      (rootLevel_covers size' 0 hs) (by rw [startOf_zero_left]; omega)
      (Spec.root hf d) [] s st1 s1 (spineL_root hf d) (fun y hy => .inr (hsup y hy)) hfin

end spine

end Bao.DecodeSpec
