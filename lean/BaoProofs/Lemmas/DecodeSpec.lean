import BaoProofs.Lemmas.DecodeBridge

/-!
# Decoding against the specification of the wire format (C02, C09, C16)

Built on `Lemmas/DecRunL.lean` (the decoder as a machine over the plan list), `Lemmas/QueryCanon.lean`
(canonical sub-queries), `Lemmas/ItemsEq.lean` (`Spec.itemsI` unfolded along the plan) and
`Lemmas/DecodeBridge.lean` (`plan_items`, `node_run`).

* `decode_honest` – decoding the honest stream returns exactly `Spec.items`, ends `done`, consumes
  exactly the stream.
* `decode_truncated` – a cut stream: the items in front of the cut, then "not found" for the item
  the cut falls into.
* `decode_altered` – an altered stream: the items in front of the altered one, then "hash mismatch"
  (needs that the hash inputs of the honest and of the altered item do not collide).
* `decode_no_panic` – no stream, claimed size, query makes the decoder panic.
-/

set_option maxRecDepth 8192

namespace Bao.DecodeSpec
open Bao Bao.Spec Bao.PlanPre Bao.Ranges Bao.Bits

variable {H : Type}

/-! ## the honest stream -/

section honest
variable {hf : HashFns H} [BEq H] [LawfulBEq H]

/-- the run over the whole plan on the honest stream followed by anything -/
theorem honest_run (hrt : ∀ h, hf.ofBytes (hf.toBytes h) = h)
    (hlen : ∀ h, (hf.toBytes h).length = 32) (d : List UInt8) (bs : Nat) (q : Ranges)
    (hd : d.length ≤ 2 ^ 63) (hwf : WF q = true) (y : List UInt8) :
    runL hf (plan ⟨d.length, 0⟩ bs (truncate q d.length)) [Spec.root hf d]
        (Spec.encode hf d bs q ++ y)
      = ⟨(Spec.items hf d bs q).map (toItem hf),
         .ok (if (truncate q d.length).isEmpty then [Spec.root hf d] else []) y⟩ := by
  have g := shifted_geo d.length 0 hd (by omega)
  obtain ⟨-, hroot, hlt⟩ := rootLevel_spec d.length 0 hd
  have hn := ninv_root hwf d.length hd
  have hcov := rootLevel_covers d.length 0 hd
  unfold Spec.encode
  rw [items_top hf d bs q hd]
  have := node_run (hf := hf) (B := bs) hrt hlen hd g hroot (by rw [hroot]; exact hlt)
    (rootLevel ⟨d.length, 0⟩) 0 (truncate q d.length) (Nat.le_refl _) hn [] y
  unfold plan
  by_cases he : truncate q d.length = []
  · rw [he] at hn ⊢
    rw [planPre_nil, items_nil hn]
    rfl
  · have he2 : List.isEmpty (truncate q d.length) = false := isEmpty_eq_false he
    rw [isEmpty_eq_false he] at this
    rw [he2]
    simp only [Bool.false_eq_true, if_false, List.append_nil] at this ⊢
    rw [← hroot, startOf_zero_left, beq_self_eq_true,
      show min (endOf 0 (rootLevel ⟨d.length, 0⟩)) (nChunks d.length) = nChunks d.length
        from Nat.min_eq_right hcov] at this
    exact this

/-- **round trip**: the honest stream (followed by any bytes `y`) decodes to exactly the
specification items, ends `done` and leaves exactly `y` unread -/
theorem decode_honest (hrt : ∀ h, hf.ofBytes (hf.toBytes h) = h)
    (hlen : ∀ h, (hf.toBytes h).length = 32) (fl : Flavour) (d : List UInt8) (bs : Nat)
    (q : Ranges) (hd : d.length ≤ 2 ^ 63) (hwf : WF q = true) (y : List UInt8) :
    decodeAll hf fl (Spec.root hf d) ⟨d.length, bs⟩ q (Spec.encode hf d bs q ++ y)
      = ⟨(Spec.items hf d bs q).map (toItem hf), .done, y⟩ := by
  rw [decodeAll_eq_runL hf fl _ _ _ _ _ hd, honest_run hrt hlen d bs q hd hwf y]
  rfl

end honest

/-! ## locating a byte of the stream in the item list -/

/-- index of the item that contains byte `k` of the concatenated item bytes -/
def locate : List SItem → Nat → Nat
  | [], _ => 0
  | it :: I, k => if k < it.bytes.length then 0 else locate I (k - it.bytes.length) + 1

theorem locate_split (I : List SItem) (k : Nat) (hk : k < (I.flatMap SItem.bytes).length) :
    ∃ I1 it I2, I = I1 ++ it :: I2 ∧ I1.length = locate I k ∧
      (I1.flatMap SItem.bytes).length ≤ k ∧
      k < (I1.flatMap SItem.bytes).length + it.bytes.length := by
  induction I generalizing k with
  | nil => simp at hk
  | cons it I ih =>
    rw [flatMap_bytes_cons, List.length_append] at hk
    by_cases h : k < it.bytes.length
    · exact ⟨[], it, I, rfl, by simp [locate, h], by simp, by simpa using h⟩
    · obtain ⟨I1, it', I2, rfl, h1, h2, h3⟩ := ih (k - it.bytes.length) (by omega)
      refine ⟨it :: I1, it', I2, rfl, by simp [locate, h, h1], ?_, ?_⟩
      · rw [flatMap_bytes_cons, List.length_append]; omega
      · rw [flatMap_bytes_cons, List.length_append]; omega

/-- "not found" error of a specification item -/
def _root_.Bao.Spec.SItem.notFound : SItem → DecodeError
  | .parent node _ => .parentNotFound node
  | .leaf s _ => .leafNotFound s

/-- "hash mismatch" error of a specification item -/
def _root_.Bao.Spec.SItem.mismatch : SItem → DecodeError
  | .parent node _ => .parentHashMismatch node
  | .leaf s _ => .leafHashMismatch s

theorem match_notFound {hf : HashFns H} {d : List UInt8} {c : Chunk} {it : SItem}
    (h : Match hf d c it) : notFound c = it.notFound := by
  cases c <;> cases it <;> simp only [Match] at h
  · simp only [notFound, SItem.notFound, h.1]
  · simp only [notFound, SItem.notFound, h.1]

theorem match_mismatch {hf : HashFns H} {d : List UInt8} {c : Chunk} {it : SItem}
    (h : Match hf d c it) : mismatch c = it.mismatch := by
  cases c <;> cases it <;> simp only [Match] at h
  · simp only [mismatch, SItem.mismatch, h.1]
  · simp only [mismatch, SItem.mismatch, h.1]

theorem skel_psize {hf : HashFns H} {d : List UInt8} (hlen : ∀ h, (hf.toBytes h).length = 32)
    {P : List Chunk} {I : List SItem} (h : Skel (Match hf d) P I) :
    psize P = (I.flatMap SItem.bytes).length := by
  induction h with
  | nil => rfl
  | cons hm _ ih =>
    rw [psize_cons, flatMap_bytes_cons, List.length_append, ih, hm.size hlen]

/-! ## cut streams -/

section faults
variable {hf : HashFns H} [BEq H] [LawfulBEq H]

omit [BEq H] [LawfulBEq H] in
/-- the decomposition of plan and items at the item that contains byte `k` of the honest stream -/
theorem split_at_byte (hlen : ∀ h, (hf.toBytes h).length = 32) (d : List UInt8) (bs : Nat)
    (q : Ranges) (hd : d.length ≤ 2 ^ 63) (hwf : WF q = true) (k : Nat)
    (hk : k < (Spec.encode hf d bs q).length) :
    ∃ P1 c P2 I1 it I2, plan ⟨d.length, 0⟩ bs (truncate q d.length) = P1 ++ c :: P2 ∧
      Spec.items hf d bs q = I1 ++ it :: I2 ∧ Match hf d c it ∧
      P1.length = locate (Spec.items hf d bs q) k ∧ I1.length = P1.length ∧
      psize P1 = (I1.flatMap SItem.bytes).length ∧ psize P1 ≤ k ∧ k < psize P1 + c.size ∧
      Spec.encode hf d bs q
        = I1.flatMap SItem.bytes ++ (it.bytes ++ I2.flatMap SItem.bytes) := by
  obtain ⟨I1, it, I2, hI, h1, h2, h3⟩ := locate_split (Spec.items hf d bs q) k hk
  have hsk := plan_items hf d bs q hd hwf
  rw [hI] at hsk
  obtain ⟨P1, c, P2, hP, s1, hm, -⟩ := hsk.split_right
  have hps := skel_psize hlen s1
  refine ⟨P1, c, P2, I1, it, I2, hP, hI, hm, by rw [s1.length_eq, h1], s1.length_eq.symm, hps,
    by omega, by rw [← hm.size hlen]; omega, ?_⟩
  unfold Spec.encode
  rw [hI, List.flatMap_append, flatMap_bytes_cons]

/-- **cut stream**: decoding the first `k` bytes of the honest stream returns the items that lie
completely in front of the cut and then reports the item the cut falls into as not found -/
theorem decode_truncated (hrt : ∀ h, hf.ofBytes (hf.toBytes h) = h)
    (hlen : ∀ h, (hf.toBytes h).length = 32) (fl : Flavour) (d : List UInt8) (bs : Nat)
    (q : Ranges) (hd : d.length ≤ 2 ^ 63) (hwf : WF q = true) (k : Nat)
    (hk : k < (Spec.encode hf d bs q).length) :
    ∃ it, (Spec.items hf d bs q)[locate (Spec.items hf d bs q) k]? = some it ∧
      (decodeAll hf fl (Spec.root hf d) ⟨d.length, bs⟩ q ((Spec.encode hf d bs q).take k)).items
        = ((Spec.items hf d bs q).take (locate (Spec.items hf d bs q) k)).map (toItem hf) ∧
      (decodeAll hf fl (Spec.root hf d) ⟨d.length, bs⟩ q ((Spec.encode hf d bs q).take k)).terminal
        = .err it.notFound := by
  obtain ⟨P1, c, P2, I1, it, I2, hP, hI, hm, hloc, hI1, -, hk1, hk2, -⟩ :=
    split_at_byte (hf := hf) hlen d bs q hd hwf k hk
  have hrun := honest_run hrt hlen d bs q hd hwf []
  rw [List.append_nil] at hrun
  have hok : (runL hf (P1 ++ c :: P2) [Spec.root hf d] (Spec.encode hf d bs q)).fin
      = .ok (if (truncate q d.length).isEmpty then [Spec.root hf d] else []) [] := by
    rw [← hP, hrun]
  have ht := runL_truncate hf hok hk1 hk2
  rw [← hP, hrun] at ht
  refine ⟨it, ?_, ?_, ?_⟩
  · rw [← hloc, ← hI1, hI, List.getElem?_append_right (Nat.le_refl _)]; simp
  · rw [decodeAll_eq_runL hf fl _ _ _ _ _ hd, ht]
    simp only [Out.toRun, hloc, List.map_take]
  · rw [decodeAll_eq_runL hf fl _ _ _ _ _ hd, ht]
    simp only [Out.toRun, End.terminal, match_notFound hm]

end faults

/-! ## no panic -/

/-- **no stream, claimed size, block size or query makes a decoder panic** -/
theorem decode_no_panic (hf : HashFns H) [BEq H] (fl : Flavour) (root : H) (size bs : Nat)
    (q : Ranges) (s : List UInt8) (hs : size ≤ 2 ^ 63) :
    (decodeAll hf fl root ⟨size, bs⟩ q s).terminal ≠ .panic := by
  rw [decodeAll_eq_runL hf fl _ _ _ _ _ hs]
  simp only [Out.toRun]
  by_cases hq : truncate q size = []
  · rw [hq, plan_nil]; simp [End.terminal]
  · exact runL_no_panic hf _ 1 _ _ rfl
      (fun n => plan_stack_prefix size 0 bs (truncate q size) hs (by omega) hq n)

/-! ## altered streams

`CollisionFree hf` cannot be assumed together with a faithful 32-byte wire format
(`Lemmas/CFUnsat.lean`), so collision freedom is localised: `NoCollision hf S` for the finite list
`S` of the hash inputs of the honest and of the altered item. -/

/-- the hash inputs of the computation `cvLevel hf L c b r` -/
def hashInputs (hf : HashFns H) : Nat → Nat → List UInt8 → Bool → List (HashIn H)
  | 0, c, b, r => [.chunk c b r]
  | L + 1, c, b, r =>
    if b.length ≤ 2 ^ L * chunkLen then hashInputs hf L c b r
    else
      .parent (cvLevel hf L c (b.take (2 ^ L * chunkLen)) false)
          (cvLevel hf L (c + 2 ^ L) (b.drop (2 ^ L * chunkLen)) false) r ::
        (hashInputs hf L c (b.take (2 ^ L * chunkLen)) false ++
          hashInputs hf L (c + 2 ^ L) (b.drop (2 ^ L * chunkLen)) false)

/-- data of at most one chunk has a single hash input -/
theorem hashInputs_chunk (hf : HashFns H) (L c : Nat) (b : List UInt8) (r : Bool)
    (h : b.length ≤ 1024) : hashInputs hf L c b r = [.chunk c b r] := by
  induction L with
  | zero => rfl
  | succ L ih =>
    have : b.length ≤ 2 ^ L * chunkLen := by
      have := Nat.one_le_two_pow (n := L)
      unfold chunkLen
      calc b.length ≤ 1 * 1024 := by omega
        _ ≤ 2 ^ L * 1024 := Nat.mul_le_mul_right _ this
    simp only [hashInputs, if_pos this, ih]

/-- no two different inputs of the list `S` hash to the same value -/
def NoCollision (hf : HashFns H) (S : List (HashIn H)) : Prop :=
  ∀ x ∈ S, ∀ y ∈ S, hf.eval x = hf.eval y → x = y

theorem NoCollision.mono {hf : HashFns H} {S T : List (HashIn H)} (h : NoCollision hf T)
    (hst : ∀ x ∈ S, x ∈ T) : NoCollision hf S :=
  fun x hx y hy e => h x (hst x hx) y (hst y hy) e

theorem NoCollision.of_cf {hf : HashFns H} (cf : CollisionFree hf) (S : List (HashIn H)) :
    NoCollision hf S := fun x _ y _ e => cf x y e

/-- two byte strings of the same length with the same tree hash at the same place are equal, if
the hash inputs of the two computations do not collide -/
theorem cvLevel_inj_local (hf : HashFns H) : ∀ (L c : Nat) (b b' : List UInt8) (r : Bool),
    b.length = b'.length →
    NoCollision hf (hashInputs hf L c b r ++ hashInputs hf L c b' r) →
    cvLevel hf L c b r = cvLevel hf L c b' r → b = b' := by
  intro L
  induction L with
  | zero =>
    intro c b b' r _ hnc h
    have := hnc (.chunk c b r) (by simp [hashInputs]) (.chunk c b' r) (by simp [hashInputs]) h
    injection this
  | succ L ih =>
    intro c b b' r hl hnc h
    by_cases h1 : b.length ≤ 2 ^ L * chunkLen
    · have h1' : b'.length ≤ 2 ^ L * chunkLen := by omega
      simp only [hashInputs, if_pos h1, if_pos h1'] at hnc
      simp only [cvLevel, if_pos h1, if_pos h1'] at h
      exact ih c b b' r hl hnc h
    · have h1' : ¬ b'.length ≤ 2 ^ L * chunkLen := by omega
      simp only [hashInputs, if_neg h1, if_neg h1'] at hnc
      simp only [cvLevel, if_neg h1, if_neg h1'] at h
      have := hnc (.parent (cvLevel hf L c (b.take (2 ^ L * chunkLen)) false)
          (cvLevel hf L (c + 2 ^ L) (b.drop (2 ^ L * chunkLen)) false) r) (by simp)
        (.parent (cvLevel hf L c (b'.take (2 ^ L * chunkLen)) false)
          (cvLevel hf L (c + 2 ^ L) (b'.drop (2 ^ L * chunkLen)) false) r) (by simp) h
      injection this with e1 e2 _
      have ht := ih c _ _ false (by simp only [List.length_take]; omega)
        (hnc.mono (by
          intro x hx
          simp only [List.mem_append, List.mem_cons] at hx ⊢
          rcases hx with hx | hx <;> simp [hx])) e1
      have hd := ih (c + 2 ^ L) _ _ false (by simp only [List.length_drop]; omega)
        (hnc.mono (by
          intro x hx
          simp only [List.mem_append, List.mem_cons] at hx ⊢
          rcases hx with hx | hx <;> simp [hx])) e2
      rw [← List.take_append_drop (2 ^ L * chunkLen) b, ← List.take_append_drop (2 ^ L * chunkLen) b',
        ht, hd]

/-- the hash inputs of the check of a plan item on the bytes `buf` -/
def checkInputs (hf : HashFns H) : Chunk → List UInt8 → List (HashIn H)
  | .parent _ isRoot _ _ _, buf => [.parent (parsePair hf buf).1 (parsePair hf buf).2 isRoot]
  | .leaf start _ isRoot _, buf => hashInputs hf 64 start buf isRoot

/-- the hash inputs of the check of a specification item (with root flag `f`) on the bytes `buf` -/
def itemInputs (hf : HashFns H) (f : Bool) : SItem → List UInt8 → List (HashIn H)
  | .parent _ _, buf => [.parent (parsePair hf buf).1 (parsePair hf buf).2 f]
  | .leaf s _, buf => hashInputs hf 64 s buf f

theorem match_inputs {hf : HashFns H} {d : List UInt8} {c : Chunk} {it : SItem}
    (h : Match hf d c it) (buf : List UInt8) :
    checkInputs hf c buf = itemInputs hf c.rootFlag it buf := by
  cases c <;> cases it <;> simp only [Match] at h
  · rfl
  · simp only [checkInputs, itemInputs, Chunk.rootFlag, h.1]

/-- different bytes for an item give a different check value -/
theorem check_inj_local {hf : HashFns H}
    (hinj : ∀ a b : List UInt8, a.length = 32 → b.length = 32 → hf.ofBytes a = hf.ofBytes b → a = b)
    (c : Chunk) (b b' : List UInt8) (hb : b.length = c.size) (hb' : b'.length = c.size)
    (hnc : NoCollision hf (checkInputs hf c b ++ checkInputs hf c b'))
    (h : check hf c b = check hf c b') : b = b' := by
  cases c with
  | parent node isRoot lf rf x =>
    simp only [Chunk.size] at hb hb'
    simp only [check] at h
    have := hnc (.parent (parsePair hf b).1 (parsePair hf b).2 isRoot) (by simp [checkInputs])
      (.parent (parsePair hf b').1 (parsePair hf b').2 isRoot) (by simp [checkInputs]) h
    injection this with e1 e2 _
    simp only [parsePair] at e1 e2
    have t1 := hinj _ _ (by simp; omega) (by simp; omega) e1
    have t2 := hinj _ _ (by simp; omega) (by simp; omega) e2
    rw [List.take_of_length_le (by simp; omega), List.take_of_length_le (by simp; omega)] at t2
    rw [← List.take_append_drop 32 b, ← List.take_append_drop 32 b', t1, t2]
  | leaf start size isRoot x =>
    simp only [Chunk.size] at hb hb'
    simp only [check, hashSubtree] at h
    exact cvLevel_inj_local hf 64 start b b' isRoot (by omega) hnc h

section altered
variable {hf : HashFns H} [BEq H] [LawfulBEq H]

/-- **altered stream**: if `e'` has the length of the honest stream `e`, agrees with it in front of
byte `k` and differs at byte `k`, and the hash inputs of the honest and the altered version of the
item `it` that contains byte `k` do not collide, then decoding `e'` returns the items in front of
`it` and then reports a hash mismatch at `it` -/
theorem decode_altered (hrt : ∀ h, hf.ofBytes (hf.toBytes h) = h)
    (hlen : ∀ h, (hf.toBytes h).length = 32)
    (hinj : ∀ a b : List UInt8, a.length = 32 → b.length = 32 → hf.ofBytes a = hf.ofBytes b → a = b)
    (fl : Flavour) (d : List UInt8) (bs : Nat) (q : Ranges) (hd : d.length ≤ 2 ^ 63)
    (hwf : WF q = true) (e' : List UInt8) (k : Nat)
    (hk : k < (Spec.encode hf d bs q).length) (hl : e'.length = (Spec.encode hf d bs q).length)
    (hpre : e'.take k = (Spec.encode hf d bs q).take k)
    (hdiff : e'[k]? ≠ (Spec.encode hf d bs q)[k]?) :
    ∃ it, (Spec.items hf d bs q)[locate (Spec.items hf d bs q) k]? = some it ∧
      ((∀ f, NoCollision hf (itemInputs hf f it it.bytes ++ itemInputs hf f it
          ((e'.drop (((Spec.items hf d bs q).take
            (locate (Spec.items hf d bs q) k)).flatMap SItem.bytes).length).take it.bytes.length))) →
        (decodeAll hf fl (Spec.root hf d) ⟨d.length, bs⟩ q e').items
          = ((Spec.items hf d bs q).take (locate (Spec.items hf d bs q) k)).map (toItem hf) ∧
        (decodeAll hf fl (Spec.root hf d) ⟨d.length, bs⟩ q e').terminal = .err it.mismatch) := by
  obtain ⟨P1, c, P2, I1, it, I2, hP, hI, hm, hloc, hI1, hps, hk1, hk2, he⟩ :=
    split_at_byte (hf := hf) hlen d bs q hd hwf k hk
  have hrun := honest_run hrt hlen d bs q hd hwf []
  rw [List.append_nil] at hrun
  have hok : (runL hf (P1 ++ c :: P2) [Spec.root hf d] (Spec.encode hf d bs q)).fin
      = .ok (if (truncate q d.length).isEmpty then [Spec.root hf d] else []) [] := by
    rw [← hP, hrun]
  have hsz := hm.size hlen
  refine ⟨it, ?_, fun hnc => ?_⟩
  · rw [← hloc, ← hI1, hI, List.getElem?_append_right (Nat.le_refl _)]; simp
  have htake : (Spec.items hf d bs q).take (locate (Spec.items hf d bs q) k) = I1 := by
    rw [← hloc, ← hI1, hI]; exact List.take_left' rfl
  rw [htake, ← hps, hsz] at hnc
  have hbytes : ((Spec.encode hf d bs q).drop (psize P1)).take c.size = it.bytes := by
    rw [he, List.drop_left' hps.symm, List.take_left' hsz]
  have hpre' : e'.take (psize P1) = (Spec.encode hf d bs q).take (psize P1) := by
    have := congrArg (List.take (psize P1)) hpre
    rwa [List.take_take, List.take_take, Nat.min_eq_left hk1] at this
  have hlen2 : psize P1 + c.size ≤ e'.length := by
    rw [hl, he]; simp only [List.length_append]; omega
  have hne : check hf c ((e'.drop (psize P1)).take c.size)
      ≠ check hf c (((Spec.encode hf d bs q).drop (psize P1)).take c.size) := by
    intro heq
    rw [hbytes] at heq
    have hnc' := hnc c.rootFlag
    rw [← match_inputs hm, ← match_inputs hm] at hnc'
    have hb := check_inj_local hinj c it.bytes _ hsz
      (by rw [List.length_take, List.length_drop]; omega) hnc' heq.symm
    apply hdiff
    have e1 : e'[k]? = ((e'.drop (psize P1)).take c.size)[k - psize P1]? := by
      rw [List.getElem?_take, if_pos (by omega), List.getElem?_drop]
      congr 1; omega
    have e2 : (Spec.encode hf d bs q)[k]?
        = (((Spec.encode hf d bs q).drop (psize P1)).take c.size)[k - psize P1]? := by
      rw [List.getElem?_take, if_pos (by omega), List.getElem?_drop]
      congr 1; omega
    rw [e1, e2, hbytes, ← hb]
  have ha := runL_alter hf hok hpre' hlen2 hne
  rw [← hP, hrun] at ha
  rw [decodeAll_eq_runL hf fl _ _ _ _ _ hd, ha]
  refine ⟨?_, ?_⟩
  · simp only [Out.toRun, hloc]
    exact (List.map_take ..).symm
  · simp only [Out.toRun, End.terminal, match_mismatch hm]

end altered

/-! ## what is delivered -/

/-- the chunk spans `[off/1024, off/1024 + max 1 ⌈len/1024⌉)` of the leaf items a decoder returned -/
def itemSpans : List (Item H) → List (Nat × Nat)
  | [] => []
  | .leaf off b :: rest => (off / 1024, off / 1024 + max 1 (chunksOf b.length)) :: itemSpans rest
  | .parent .. :: rest => itemSpans rest

theorem spans_of_skel {hf : HashFns H} {d : List UInt8} {P : List Chunk} {I : List SItem}
    (h : Skel (Match hf d) P I) : itemSpans (I.map (toItem hf)) = leafSpans P := by
  induction h with
  | nil => rfl
  | @cons c it P I hm _ ih =>
    cases c <;> cases it <;> simp only [Match] at hm
    · simp only [List.map_cons, toItem, itemSpans, leafSpans, ih]
    · obtain ⟨rfl, rfl, -⟩ := hm
      simp only [List.map_cons, toItem, itemSpans, leafSpans, ih, Nat.mul_div_cancel _ (by decide : 0 < 1024)]

theorem covered_iff_spans (p : List Chunk) (c : Nat) :
    covered p c ↔ ∃ a ∈ leafSpans p, a.1 ≤ c ∧ c < a.2 := by
  induction p with
  | nil => simp [covered, leafSpans]
  | cons x p ih =>
    cases x with
    | parent n ir l r rs =>
      simp only [leafSpans, ← ih, covered, List.mem_cons, reduceCtorEq, false_or]
    | leaf s z ir rs =>
      simp only [leafSpans, List.mem_cons, exists_eq_or_imp, ← ih]
      simp only [covered, List.mem_cons, Chunk.leaf.injEq]
      constructor
      · rintro ⟨s', z', r', x', (⟨rfl, rfl, -, -⟩ | hm), h1, h2⟩
        · exact Or.inl ⟨h1, h2⟩
        · exact Or.inr ⟨s', z', r', x', hm, h1, h2⟩
      · rintro (⟨h1, h2⟩ | ⟨s', z', r', x', hm, h1, h2⟩)
        · exact ⟨s, z, ir, rs, Or.inl ⟨rfl, rfl, rfl, rfl⟩, h1, h2⟩
        · exact ⟨s', z', r', x', Or.inr hm, h1, h2⟩

theorem Skel.mem_right {α β : Type} {R : α → β → Prop} {a : List α} {b : List β}
    (h : Skel R a b) {y : β} (hy : y ∈ b) : ∃ x ∈ a, R x y := by
  induction h with
  | nil => simp at hy
  | cons hr _ ih =>
    rcases List.mem_cons.1 hy with rfl | hy
    · exact ⟨_, List.mem_cons_self .., hr⟩
    · obtain ⟨x, hx, hxy⟩ := ih hy
      exact ⟨x, List.mem_cons_of_mem _ hx, hxy⟩

/-- **exactly the selected chunks**: the chunk spans of the leaf items of the honest item stream
cover exactly the selected chunks, are non-empty, pairwise disjoint and in increasing order, and
every leaf carries the blob's bytes at its offset -/
theorem delivered_spec (hf : HashFns H) (d : List UInt8) (bs : Nat) (q : Ranges)
    (hd : d.length ≤ 2 ^ 63) (hwf : WF q = true) :
    (∀ c, Spec.selected d.length q c = true ↔
      ∃ a ∈ itemSpans ((Spec.items hf d bs q).map (toItem hf)), a.1 ≤ c ∧ c < a.2) ∧
    (∀ a ∈ itemSpans ((Spec.items hf d bs q).map (toItem hf)), a.1 < a.2) ∧
    (itemSpans ((Spec.items hf d bs q).map (toItem hf))).Pairwise (fun a b => a.2 ≤ b.1) ∧
    (itemSpans ((Spec.items hf d bs q).map (toItem hf))).Pairwise (fun a b => a.1 < b.1) ∧
    (∀ off bytes, Item.leaf off bytes ∈ (Spec.items hf d bs q).map (toItem hf) →
      off % 1024 = 0 ∧ off + bytes.length ≤ d.length ∧ bytes = (d.drop off).take bytes.length) := by
  have hsk := plan_items hf d bs q hd hwf
  have hsp := plan_spans d.length 0 bs (truncate q d.length) hd (by omega)
  rw [spans_of_skel hsk]
  refine ⟨fun c => ?_, fun a ha => (hsp.1 a ha).2.1, hsp.2, spans_starts_increasing hsp, ?_⟩
  · rw [← covered_iff_spans, plan_cover_exact d.length bs hd _ (C14.truncate_wf _ hwf),
      C14.truncate_selected _ hwf]
  · intro off bytes hmem
    obtain ⟨it, hit, hoff⟩ := List.mem_map.1 hmem
    obtain ⟨c, hc, hm⟩ := hsk.mem_right hit
    cases it with
    | parent node b => simp [toItem] at hoff
    | leaf s b =>
      simp only [toItem, Item.leaf.injEq] at hoff
      obtain ⟨rfl, rfl⟩ := hoff
      cases c with
      | parent n ir l r rs => simp [Match] at hm
      | leaf s' z ir rs =>
        simp only [Match] at hm
        obtain ⟨rfl, hz, hb⟩ := hm
        have := plan_leaf_in_blob d.length 0 bs (truncate q d.length) hd (by omega) _ _ _ _ hc
        unfold toBytes at this
        exact ⟨Nat.mul_mod_left s 1024, by omega, by rw [hz]; exact hb⟩

/-- an empty query has no items and an empty encoding -/
theorem items_empty_query (hf : HashFns H) (d : List UInt8) (bs : Nat) (hd : d.length ≤ 2 ^ 63) :
    Spec.items hf d bs [] = [] ∧ Spec.encode hf d bs [] = [] := by
  have hsk := plan_items hf d bs [] hd (by rfl)
  rw [DecSim.truncate_nil, plan_nil] at hsk
  have : Spec.items hf d bs [] = [] :=
    List.eq_nil_of_length_eq_zero (by rw [← hsk.length_eq]; rfl)
  exact ⟨this, by unfold Spec.encode; rw [this]; rfl⟩

end Bao.DecodeSpec
