import BaoProofs.Lemmas.C01Inv

/-!
# Histories of `decode_ranges` calls into one sink (C07)

* `decodeRangesFAux_sound` – the C01 invariant for `decode_ranges` with an injected failure of the
  `fw`-th target write / `fs`-th outboard save: the final target is the initial one after a list
  of positioned writes of true leaves, the final outboard the initial one after a list of
  successful saves of true pairs.
* `Store.save` never changes `root`, `tree`, `kind`.
* `Op`, `step`, `run` – a history of calls, each with its own flavour, stream, query, faults.
* `Cov wl i` – position `i` is covered by some write of `wl`; `applyWrites_spec` – positions
  outside the covered set keep their byte, covered positions hold the blob's byte.
-/

namespace Bao.C07

open Bao.Spec Bao.C01

variable {H : Type}

/-! ## `save` keeps root, tree and kind -/

theorem save_root (hf : HashFns H) (s s' : Store H) (node : Nat) (p : H × H)
    (h : s.save hf node p = .ok s') : s'.root = s.root ∧ s'.tree = s.tree ∧ s'.kind = s.kind := by
  unfold Store.save at h
  simp only at h
  repeat' split at h
  all_goals first | (cases h; exact ⟨rfl, rfl, rfl⟩) | cases h

theorem applySaves_root (hf : HashFns H) : ∀ (pl : List (Nat × H × H)) (s : Store H),
    (applySaves hf s pl).root = s.root ∧ (applySaves hf s pl).tree = s.tree ∧
      (applySaves hf s pl).kind = s.kind := by
  intro pl
  induction pl with
  | nil => intro s; exact ⟨rfl, rfl, rfl⟩
  | cons p pl ih =>
    intro s
    simp only [applySaves, List.foldl_cons]
    split
    · rename_i ob' hsave
      obtain ⟨h1, h2, h3⟩ := save_root hf s ob' p.1 p.2 hsave
      obtain ⟨g1, g2, g3⟩ := ih ob'
      simp only [applySaves] at g1 g2 g3
      exact ⟨g1.trans h1, g2.trans h2, g3.trans h3⟩
    · exact ih s

theorem applyWrites_append (t : List UInt8) (a b : List (Nat × List UInt8)) :
    applyWrites t (a ++ b) = applyWrites (applyWrites t a) b := by
  simp [applyWrites, List.foldl_append]

theorem applySaves_append (hf : HashFns H) (s : Store H) (a b : List (Nat × H × H)) :
    applySaves hf s (a ++ b) = applySaves hf (applySaves hf s a) b := by
  simp [applySaves, List.foldl_append]

/-! ## C01 invariant for the fault-injected driver -/

section
variable {hf : HashFns H} {d : List UInt8}

/-- what a (possibly interrupted) `decode_ranges` did to its sink: a list of writes of true leaves
and a list of successful saves of true pairs -/
def Effect (hf : HashFns H) (d : List UInt8) (s s' : Sink H) : Prop :=
  ∃ (wl : List (Nat × List UInt8)) (pl : List (Nat × H × H)),
    (∀ w ∈ wl, TrueLeaf d w.1 w.2) ∧ (∀ p ∈ pl, TruePair hf d p.2.1 p.2.2) ∧
    s'.target = applyWrites s.target wl ∧ s'.ob = applySaves hf s.ob pl

theorem Effect.refl (s : Sink H) : Effect hf d s s :=
  ⟨[], [], by simp, by simp, rfl, rfl⟩

theorem Effect.trans {s₁ s₂ s₃ : Sink H} (h₁ : Effect hf d s₁ s₂) (h₂ : Effect hf d s₂ s₃) :
    Effect hf d s₁ s₃ := by
  obtain ⟨w1, p1, hw1, hp1, ht1, ho1⟩ := h₁
  obtain ⟨w2, p2, hw2, hp2, ht2, ho2⟩ := h₂
  refine ⟨w1 ++ w2, p1 ++ p2, ?_, ?_, ?_, ?_⟩
  · intro w hw
    rcases List.mem_append.1 hw with h | h
    · exact hw1 w h
    · exact hw2 w h
  · intro p hp
    rcases List.mem_append.1 hp with h | h
    · exact hp1 p h
    · exact hp2 p h
  · rw [applyWrites_append, ← ht1, ht2]
  · rw [applySaves_append, ← ho1, ho2]

theorem Effect.write {s : Sink H} {off : Nat} {data : List UInt8} (h : TrueLeaf d off data) :
    Effect hf d s { s with target := writeAt s.target off data } :=
  ⟨[(off, data)], [], by simpa using h, by simp, rfl, rfl⟩

theorem Effect.save {s : Sink H} {node : Nat} {l r : H} {ob : Store H} (h : TruePair hf d l r)
    (hs : s.ob.save hf node (l, r) = .ok ob) : Effect hf d s { s with ob } :=
  ⟨[], [(node, l, r)], by simp, by simpa using h, rfl, by
    simp only [applySaves, List.foldl_cons, List.foldl_nil, hs]⟩

theorem decodeRangesFAux_sound [BEq H] [LawfulBEq H] (cf : CollisionFree hf) (hd : d.length ≤ 2 ^ 64 * 1024)
    (fl : Flavour) (tree : Tree) (fw fs : Option Nat) :
    ∀ (fuel : Nat) (dec : Dec H) (sink : Sink H) (nw ns : Nat), StackOk hf d dec.stack →
      Effect hf d sink (decodeRangesFAux hf fl tree fw fs fuel dec sink nw ns).1 := by
  intro fuel
  induction fuel with
  | zero => intro dec sink nw ns _; exact Effect.refl sink
  | succ fuel ih =>
    intro dec sink nw ns hs
    unfold decodeRangesFAux
    split
    · exact Effect.refl sink
    · exact Effect.refl sink
    · exact Effect.refl sink
    · rename_i node l r dec' hnext
      obtain ⟨hit, hs'⟩ := next_sound cf hd fl dec hs hnext
      split
      · split
        · exact Effect.refl sink
        · split
          · rename_i ob hsave
            exact (Effect.save hit hsave).trans (ih dec' { sink with ob } nw (ns + 1) hs')
          · exact Effect.refl sink
          · exact Effect.refl sink
      · exact ih dec' sink nw ns hs'
    · rename_i off data dec' hnext
      obtain ⟨hit, hs'⟩ := next_sound cf hd fl dec hs hnext
      split
      · exact ih dec' sink nw ns hs'
      · split
        · exact Effect.refl sink
        · exact (Effect.write hit).trans (ih dec' _ (nw + 1) ns hs')

theorem decodeRangesF_effect [BEq H] [LawfulBEq H] (cf : CollisionFree hf) (hd : d.length ≤ 2 ^ 64 * 1024)
    (fl : Flavour) (s : List UInt8) (ranges : Ranges) (sink : Sink H) (fw fs : Option Nat)
    (hroot : sink.ob.root = Spec.root hf d) :
    Effect hf d sink (decodeRangesF hf fl s ranges sink fw fs).1 :=
  decodeRangesFAux_sound cf hd fl _ fw fs _ _ sink 0 0 (by
    intro h hh
    simp only [Dec.new, List.mem_singleton] at hh
    subst hh
    rw [hroot]
    exact TrueCv.root hf d)

/-! ## histories -/

/-- one `decode_ranges` call of a history: flavour, the stream presented (arbitrary: honest,
truncated or tampered), the query, and the optional injected failure of the `fw`-th target write /
`fs`-th outboard save of this call -/
structure Op where
  fl : Flavour
  stream : List UInt8
  ranges : Ranges
  fw : Option Nat
  fs : Option Nat

/-- apply one call to the sink (the terminal is dropped: the caller just goes on) -/
def step (hf : HashFns H) [BEq H] (sink : Sink H) (op : Op) : Sink H :=
  (decodeRangesF hf op.fl op.stream op.ranges sink op.fw op.fs).1

/-- apply a history of calls -/
def run (hf : HashFns H) [BEq H] (ops : List Op) (sink : Sink H) : Sink H := ops.foldl (step hf) sink

theorem run_append (hf : HashFns H) [BEq H] (a b : List Op) (sink : Sink H) :
    run hf (a ++ b) sink = run hf b (run hf a sink) := by simp [run, List.foldl_append]

theorem Effect.root {s s' : Sink H} (h : Effect hf d s s') :
    s'.ob.root = s.ob.root ∧ s'.ob.tree = s.ob.tree ∧ s'.ob.kind = s.ob.kind := by
  obtain ⟨_, pl, _, _, _, ho⟩ := h
  rw [ho]
  exact applySaves_root hf pl s.ob

theorem run_effect [BEq H] [LawfulBEq H] (cf : CollisionFree hf) (hd : d.length ≤ 2 ^ 64 * 1024) :
    ∀ (ops : List Op) (sink : Sink H), sink.ob.root = Spec.root hf d →
      Effect hf d sink (run hf ops sink) := by
  intro ops
  induction ops with
  | nil => intro sink _; exact Effect.refl sink
  | cons op ops ih =>
    intro sink hroot
    have h1 : Effect hf d sink (step hf sink op) :=
      decodeRangesF_effect cf hd op.fl op.stream op.ranges sink op.fw op.fs hroot
    have h2 := ih (step hf sink op) (h1.root.1.trans hroot)
    exact h1.trans h2

end

/-! ## root / tree never change, for ANY hash functions and ANY root (no soundness needed) -/

section
variable (hf : HashFns H) [BEq H]

theorem decodeRangesFAux_root (fl : Flavour) (tree : Tree) (fw fs : Option Nat) :
    ∀ (fuel : Nat) (dec : Dec H) (sink : Sink H) (nw ns : Nat),
      (decodeRangesFAux hf fl tree fw fs fuel dec sink nw ns).1.ob.root = sink.ob.root ∧
      (decodeRangesFAux hf fl tree fw fs fuel dec sink nw ns).1.ob.tree = sink.ob.tree ∧
      (decodeRangesFAux hf fl tree fw fs fuel dec sink nw ns).1.ob.kind = sink.ob.kind := by
  intro fuel
  induction fuel with
  | zero => intro dec sink nw ns; exact ⟨rfl, rfl, rfl⟩
  | succ fuel ih =>
    intro dec sink nw ns
    unfold decodeRangesFAux
    split
    · exact ⟨rfl, rfl, rfl⟩
    · exact ⟨rfl, rfl, rfl⟩
    · exact ⟨rfl, rfl, rfl⟩
    · rename_i node l r dec' hnext
      split
      · split
        · exact ⟨rfl, rfl, rfl⟩
        · split
          · rename_i ob hsave
            obtain ⟨h1, h2, h3⟩ := save_root hf sink.ob ob node (l, r) hsave
            obtain ⟨g1, g2, g3⟩ := ih dec' { sink with ob } nw (ns + 1)
            exact ⟨g1.trans h1, g2.trans h2, g3.trans h3⟩
          · exact ⟨rfl, rfl, rfl⟩
          · exact ⟨rfl, rfl, rfl⟩
      · exact ih dec' sink nw ns
    · rename_i off data dec' hnext
      split
      · exact ih dec' sink nw ns
      · split
        · exact ⟨rfl, rfl, rfl⟩
        · exact ih dec' _ (nw + 1) ns

theorem step_root (sink : Sink H) (op : Op) :
    (step hf sink op).ob.root = sink.ob.root ∧ (step hf sink op).ob.tree = sink.ob.tree ∧
      (step hf sink op).ob.kind = sink.ob.kind :=
  decodeRangesFAux_root hf op.fl _ op.fw op.fs _ _ sink 0 0

theorem run_root : ∀ (ops : List Op) (sink : Sink H),
    (run hf ops sink).ob.root = sink.ob.root ∧ (run hf ops sink).ob.tree = sink.ob.tree ∧
      (run hf ops sink).ob.kind = sink.ob.kind := by
  intro ops
  induction ops with
  | nil => intro sink; exact ⟨rfl, rfl, rfl⟩
  | cons op ops ih =>
    intro sink
    obtain ⟨h1, h2, h3⟩ := step_root hf sink op
    obtain ⟨g1, g2, g3⟩ := ih (step hf sink op)
    exact ⟨g1.trans h1, g2.trans h2, g3.trans h3⟩

end

/-! ## the delivered set -/

/-- byte position `i` is covered by some write of `wl` -/
def Cov (wl : List (Nat × List UInt8)) (i : Nat) : Prop :=
  ∃ w ∈ wl, w.1 ≤ i ∧ i < w.1 + w.2.length

theorem cov_cons (w : Nat × List UInt8) (wl : List (Nat × List UInt8)) (i : Nat) :
    Cov (w :: wl) i ↔ (w.1 ≤ i ∧ i < w.1 + w.2.length) ∨ Cov wl i := by
  simp [Cov]

theorem cov_append (a b : List (Nat × List UInt8)) (i : Nat) :
    Cov (a ++ b) i ↔ Cov a i ∨ Cov b i := by
  simp only [Cov, List.mem_append]
  constructor
  · rintro ⟨w, hw | hw, h⟩
    · exact .inl ⟨w, hw, h⟩
    · exact .inr ⟨w, hw, h⟩
  · rintro (⟨w, hw, h⟩ | ⟨w, hw, h⟩)
    · exact ⟨w, .inl hw, h⟩
    · exact ⟨w, .inr hw, h⟩

/-- one write of a true leaf into a target of the blob's length -/
theorem writeAt_trueLeaf {d t : List UInt8} {off : Nat} {bytes : List UInt8}
    (hlen : t.length = d.length) (hl : TrueLeaf d off bytes) :
    (writeAt t off bytes).length = d.length ∧
    ∀ i : Nat, (off ≤ i ∧ i < off + bytes.length → (writeAt t off bytes)[i]? = d[i]?) ∧
      (¬ (off ≤ i ∧ i < off + bytes.length) → (writeAt t off bytes)[i]? = t[i]?) := by
  obtain ⟨_, h2, h3⟩ := hl.spec
  refine ⟨by rw [writeAt_length (by omega), hlen], fun i => ?_⟩
  have key := writeAt_getElem? (t := t) (bytes := bytes) (off := off) (by omega) i
  by_cases c1 : i < off
  · simp only [c1, if_true] at key
    exact ⟨fun h => by omega, fun _ => key⟩
  · by_cases c2 : i < off + bytes.length
    · simp only [c1, c2, if_true, if_false] at key
      refine ⟨fun _ => ?_, fun h => by omega⟩
      rw [key]
      have hlt : i - off < bytes.length := by omega
      have hb : bytes[i - off]? = ((d.drop off).take bytes.length)[i - off]? :=
        congrArg (·[i - off]?) h3
      rw [hb, List.getElem?_take, List.getElem?_drop]
      simp only [hlt, if_true]
      congr 1; omega
    · simp only [c1, c2, if_false] at key
      exact ⟨fun h => by omega, fun _ => key⟩

/-- writes of true leaves into a target of the blob's length: the length stays, covered positions
hold the blob's byte, the others their old byte -/
theorem applyWrites_spec {d : List UInt8} : ∀ (wl : List (Nat × List UInt8)) (t : List UInt8),
    t.length = d.length → (∀ w ∈ wl, TrueLeaf d w.1 w.2) →
    (applyWrites t wl).length = d.length ∧
    ∀ i : Nat, (Cov wl i → (applyWrites t wl)[i]? = d[i]?) ∧
      (¬ Cov wl i → (applyWrites t wl)[i]? = t[i]?) := by
  intro wl
  induction wl with
  | nil =>
    intro t hlen _
    refine ⟨hlen, fun i => ⟨fun h => ?_, fun _ => rfl⟩⟩
    obtain ⟨w, hw, _⟩ := h
    cases hw
  | cons w wl ih =>
    intro t hlen hw
    obtain ⟨hl1, hg1⟩ := writeAt_trueLeaf hlen (hw w (List.mem_cons_self ..))
    obtain ⟨hl2, hg2⟩ := ih (writeAt t w.1 w.2) hl1 (fun w' h' => hw w' (List.mem_cons_of_mem _ h'))
    have e : applyWrites t (w :: wl) = applyWrites (writeAt t w.1 w.2) wl := by
      simp only [applyWrites, List.foldl_cons]
    rw [e]
    refine ⟨hl2, fun i => ⟨fun hc => ?_, fun hc => ?_⟩⟩
    · by_cases c : Cov wl i
      · exact (hg2 i).1 c
      · rw [(hg2 i).2 c]
        rcases (cov_cons w wl i).1 hc with h | h
        · exact (hg1 i).1 h
        · exact (c h).elim
    · have c1 : ¬ Cov wl i := fun h => hc ((cov_cons w wl i).2 (.inr h))
      have c2 : ¬ (w.1 ≤ i ∧ i < w.1 + w.2.length) := fun h => hc ((cov_cons w wl i).2 (.inl h))
      rw [(hg2 i).2 c1, (hg1 i).2 c2]

/-- all positions covered: the target is the blob -/
theorem applyWrites_full {d : List UInt8} (wl : List (Nat × List UInt8)) (t : List UInt8)
    (hlen : t.length = d.length) (hw : ∀ w ∈ wl, TrueLeaf d w.1 w.2)
    (hall : ∀ i, i < d.length → Cov wl i) : applyWrites t wl = d := by
  obtain ⟨hl, hg⟩ := applyWrites_spec wl t hlen hw
  apply List.ext_getElem?
  intro i
  by_cases hi : i < d.length
  · exact (hg i).1 (hall i hi)
  · rw [List.getElem?_eq_none (by omega), List.getElem?_eq_none (by omega)]

/-- writing a whole list over itself -/
theorem applyWrites_whole (t : List UInt8) : applyWrites t [(0, t)] = t := by
  simp [applyWrites, writeAt]

/-- a covered position lies inside the blob (true leaves never reach past its end) -/
theorem Cov.lt {d : List UInt8} {wl : List (Nat × List UInt8)} {i : Nat}
    (hw : ∀ w ∈ wl, TrueLeaf d w.1 w.2) (h : Cov wl i) : i < d.length := by
  obtain ⟨w, hmem, h1, h2⟩ := h
  obtain ⟨_, h3, _⟩ := (hw w hmem).spec
  omega

end Bao.C07
