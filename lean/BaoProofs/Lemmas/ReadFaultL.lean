import BaoModel.FaultRead
import BaoProofs.Lemmas.C01InvLoc
import BaoProofs.Lemmas.DecSim
import BaoProofs.Lemmas.DecRunL

/-!
# Lemmas for `decodeRangesR` (`decode_ranges` with one failing read of the stream)

* `post`, `next_eq`, `nextR_eq` – a decoder step is "pull a plan item, read, `post`"; the step with
  the read counter differs only in the read;
* `readExactR_none`, `readExactR_miss`, `readExactR_hit` – the read with a counter;
* `act`, `aux_succ`, `rAux_succ`, `calls_succ` – one iteration of the `decode_ranges` loop;
* `rAux_none` – no fault: the plain model;
* `rAux_trace` – the faulty run in terms of the read calls of the fault-free run: reached → the
  fault-free run stopped after `m` items (fuel `m`), terminal replaced; not reached → the fault-free run;
* `cut_aux` – the run on the stream cut in front of a (non-empty) item is that fuel-limited run too;
* `aux_fuel_prefix`, `runEvalsAux_fuel`, `aux_panic` – fuel-limited runs are prefixes;
* `calls_items`, `calls_fsm_item`, `calls_plan` – where a read call is: item index, stream offset,
  plan item (over the iterator states `st …` / `pending` of `Lemmas/DecRunL.lean`).
-/

namespace Bao.C01Read
open Bao

variable {H : Type}

/-! ## one decoder step, factored at the read -/

/-- the error a failed read of the plan item `c` is mapped to -/
def failOf (c : Chunk) (e : IoErr) : DecodeError :=
  match c with
  | .parent node .. => DecodeError.maybeParentNotFound e node
  | .leaf start .. => DecodeError.maybeLeafNotFound e start

/-- the part of a decoder step after the read of the item's bytes -/
def post (hf : HashFns H) [BEq H] (fl : Flavour) (c : Chunk) (it : PrePartial) (d : Dec H) :
    Except IoErr (List UInt8 × List UInt8) → DecNext H (Dec H)
  | .error e => .err (failOf c e) { d with iter := it }
  | .ok (buf, rest) =>
    match c with
    | .parent node isRoot left right _ =>
      match d.stack with
      | [] => .panic
      | parentHash :: stack =>
        match fl with
        | .sync =>
          if parentHash != hf.parentCv (parsePair hf buf).1 (parsePair hf buf).2 isRoot then
            .err (.parentHashMismatch node) { d with iter := it, stack, encoded := rest }
          else
            .item (.parent node (parsePair hf buf).1 (parsePair hf buf).2)
              { d with iter := it,
                       stack := (if left then (parsePair hf buf).1 :: (if right then (parsePair hf buf).2 :: stack else stack)
                                 else (if right then (parsePair hf buf).2 :: stack else stack)),
                       encoded := rest }
        | .fsm =>
          if parentHash != hf.parentCv (parsePair hf buf).1 (parsePair hf buf).2 isRoot then
            .err (.parentHashMismatch node)
              { d with iter := it,
                       stack := (if left then (parsePair hf buf).1 :: (if right then (parsePair hf buf).2 :: stack else stack)
                                 else (if right then (parsePair hf buf).2 :: stack else stack)),
                       encoded := rest }
          else
            .item (.parent node (parsePair hf buf).1 (parsePair hf buf).2)
              { d with iter := it,
                       stack := (if left then (parsePair hf buf).1 :: (if right then (parsePair hf buf).2 :: stack else stack)
                                 else (if right then (parsePair hf buf).2 :: stack else stack)),
                       encoded := rest }
    | .leaf start _ isRoot _ =>
      match d.stack with
      | [] => .panic
      | leafHash :: stack =>
        if leafHash != hashSubtree hf start buf isRoot then
          .err (.leafHashMismatch start) { d with iter := it, stack, encoded := rest }
        else
          .item (.leaf (toBytes start) buf) { d with iter := it, stack, encoded := rest }

/-- a decoder step: pull the next plan item, read its bytes, `post` -/
theorem next_eq (hf : HashFns H) [BEq H] (fl : Flavour) (d : Dec H) :
    d.next hf fl =
      match Response.next d.iter with
      | .done => .done d
      | .panic => .panic
      | .item c it => post hf fl c it d (readExact d.encoded c.size) := by
  cases fl
  · unfold Dec.next Dec.nextSync
    cases hn : Response.next d.iter with
    | done => rfl
    | panic => rfl
    | item c it =>
      cases c with
      | parent node isRoot left right rs =>
        simp only [Chunk.size]
        cases hr : readExact d.encoded 64 with
        | error e => rfl
        | ok p =>
          obtain ⟨buf, rest⟩ := p
          simp only [post]
          cases hs : d.stack with
          | nil => rfl
          | cons ph st => simp only
      | leaf start size isRoot rs =>
        simp only [Chunk.size]
        cases hr : readExact d.encoded size with
        | error e => rfl
        | ok p =>
          obtain ⟨buf, rest⟩ := p
          simp only [post]
          cases hs : d.stack with
          | nil => rfl
          | cons ph st => simp only
  · unfold Dec.next Dec.nextFsm
    cases hn : Response.next d.iter with
    | done => rfl
    | panic => rfl
    | item c it =>
      cases c with
      | parent node isRoot left right rs =>
        simp only [Chunk.size]
        cases hr : readExact d.encoded 64 with
        | error e => rfl
        | ok p =>
          obtain ⟨buf, rest⟩ := p
          simp only [post]
          cases hs : d.stack with
          | nil => rfl
          | cons ph st => simp only
      | leaf start size isRoot rs =>
        simp only [Chunk.size]
        cases hr : readExact d.encoded size with
        | error e => rfl
        | ok p =>
          obtain ⟨buf, rest⟩ := p
          simp only [post]
          cases hs : d.stack with
          | nil => rfl
          | cons ph st => simp only

/-- attach a read counter to the state a step hands back -/
def withC (c : Nat) : DecNext H (Dec H) → DecNext H (Dec H × Nat)
  | .item i d => .item i (d, c)
  | .err e d => .err e (d, c)
  | .done d => .done (d, c)
  | .panic => .panic

/-- the step with a read counter: the same, with the counting / failing read -/
theorem nextR_eq (hf : HashFns H) [BEq H] (fl : Flavour) (f : Option ReadFault) (d : Dec H)
    (n : Nat) :
    d.nextR hf fl f n =
      match Response.next d.iter with
      | .done => .done (d, n)
      | .panic => .panic
      | .item c it =>
        withC (readExactR fl f d.encoded c.size n).2
          (post hf fl c it d (readExactR fl f d.encoded c.size n).1) := by
  cases fl
  · unfold Dec.nextR Dec.nextSyncR
    cases hn : Response.next d.iter with
    | done => rfl
    | panic => rfl
    | item c it =>
      cases c with
      | parent node isRoot left right rs =>
        simp only [Chunk.size]
        generalize readExactR .sync f d.encoded 64 n = r
        obtain ⟨r1, c'⟩ := r
        cases r1 with
        | error e => rfl
        | ok p =>
          obtain ⟨buf, rest⟩ := p
          simp only [post]
          cases hs : d.stack with
          | nil => rfl
          | cons ph st => simp only; split <;> rfl
      | leaf start size isRoot rs =>
        simp only [Chunk.size]
        generalize readExactR .sync f d.encoded size n = r
        obtain ⟨r1, c'⟩ := r
        cases r1 with
        | error e => rfl
        | ok p =>
          obtain ⟨buf, rest⟩ := p
          simp only [post]
          cases hs : d.stack with
          | nil => rfl
          | cons ph st => simp only; split <;> rfl
  · unfold Dec.nextR Dec.nextFsmR
    cases hn : Response.next d.iter with
    | done => rfl
    | panic => rfl
    | item c it =>
      cases c with
      | parent node isRoot left right rs =>
        simp only [Chunk.size]
        generalize readExactR .fsm f d.encoded 64 n = r
        obtain ⟨r1, c'⟩ := r
        cases r1 with
        | error e => rfl
        | ok p =>
          obtain ⟨buf, rest⟩ := p
          simp only [post]
          cases hs : d.stack with
          | nil => rfl
          | cons ph st => simp only; split <;> rfl
      | leaf start size isRoot rs =>
        simp only [Chunk.size]
        generalize readExactR .fsm f d.encoded size n = r
        obtain ⟨r1, c'⟩ := r
        cases r1 with
        | error e => rfl
        | ok p =>
          obtain ⟨buf, rest⟩ := p
          simp only [post]
          cases hs : d.stack with
          | nil => rfl
          | cons ph st => simp only; split <;> rfl

/-! ## the counting read -/

theorem sync_beq : (Flavour.sync == Flavour.sync) = true := rfl
theorem fsm_beq : (Flavour.fsm == Flavour.sync) = false := rfl

/-- the read calls of a sync read -/
theorem callsOf_sync (s : List UInt8) (n : Nat) :
    readCallsOf .sync s n = if n = 0 then 0 else if n ≤ s.length then 1 else if s = [] then 1 else 2 := by
  unfold readCallsOf
  simp only [sync_beq, Bool.true_and, beq_iff_eq, Bool.not_eq_eq_eq_not, Bool.not_true]
  by_cases h0 : n = 0
  · simp [h0]
  · simp only [h0, if_false]
    by_cases hl : n ≤ s.length
    · simp [hl]
    · simp only [hl, if_false]
      by_cases he : s = [] <;> simp [he]

theorem callsOf_fsm (s : List UInt8) (n : Nat) : readCallsOf .fsm s n = 1 := by
  unfold readCallsOf
  simp only [fsm_beq, Bool.false_and, Bool.false_eq_true, if_false]
  split <;> rfl

theorem readExactR_none (fl : Flavour) (s : List UInt8) (n c : Nat) :
    readExactR fl none s n c = (readExact s n, c + readCallsOf fl s n) := by
  cases fl
  · rw [callsOf_sync]
    unfold readExactR readExact ReadFault.hits
    simp only [sync_beq, Bool.true_and, beq_iff_eq]
    by_cases h0 : n = 0
    · subst h0; simp
    · simp only [h0, if_false]
      by_cases hl : n ≤ s.length
      · simp [hl]
      · simp only [hl, if_false]
        by_cases he : s = [] <;> simp [he]
  · rw [callsOf_fsm]
    unfold readExactR readExact ReadFault.hits
    simp only [fsm_beq, Bool.false_and, Bool.false_eq_true, if_false]
    split <;> rfl

/-- a read whose calls all miss the failing call number -/
theorem readExactR_miss (fl : Flavour) (k : Nat) (e : IoErr) (s : List UInt8) (n c : Nat)
    (h : k < c ∨ c + readCallsOf fl s n ≤ k) :
    readExactR fl (some ⟨k, e⟩) s n c = (readExact s n, c + readCallsOf fl s n) := by
  cases fl
  · rw [callsOf_sync] at h ⊢
    unfold readExactR readExact ReadFault.hits
    simp only [sync_beq, Bool.true_and, beq_iff_eq]
    by_cases h0 : n = 0
    · subst h0; simp
    · simp only [h0, if_false] at h ⊢
      by_cases hl : n ≤ s.length
      · simp only [hl, if_true] at h ⊢
        have : ¬ k = c := by omega
        simp [this]
      · simp only [hl, if_false] at h ⊢
        by_cases he : s = []
        · simp only [he, if_true] at h ⊢
          have : ¬ k = c := by omega
          simp [this]
        · simp only [he, if_false] at h ⊢
          have h1 : ¬ k = c := by omega
          have h3 : ¬ k = c + 1 := by omega
          simp [h1, h3, he]
  · rw [callsOf_fsm] at h ⊢
    unfold readExactR readExact ReadFault.hits
    simp only [fsm_beq, Bool.false_and, Bool.false_eq_true, if_false, beq_iff_eq]
    have : ¬ k = c := by omega
    simp only [this, if_false]
    split <;> rfl

/-- a read one of whose calls is the failing one -/
theorem readExactR_hit (fl : Flavour) (k : Nat) (e : IoErr) (s : List UInt8) (n c : Nat)
    (h1 : c ≤ k) (h2 : k < c + readCallsOf fl s n) :
    (readExactR fl (some ⟨k, e⟩) s n c).1 = .error e := by
  cases fl
  · rw [callsOf_sync] at h2
    unfold readExactR ReadFault.hits
    simp only [sync_beq, Bool.true_and, beq_iff_eq]
    by_cases h0 : n = 0
    · simp only [h0, if_true] at h2; omega
    · simp only [h0, if_false] at h2 ⊢
      by_cases hk : k = c
      · simp [hk]
      · simp only [hk, if_false]
        by_cases hl : n ≤ s.length
        · simp only [hl, if_true] at h2; omega
        · simp only [hl, if_false] at h2 ⊢
          by_cases he : s = []
          · simp only [he, if_true] at h2; omega
          · simp only [he, if_false] at h2
            have : k = c + 1 := by omega
            simp [this, he]
  · rw [callsOf_fsm] at h2
    unfold readExactR ReadFault.hits
    simp only [fsm_beq, Bool.false_and, Bool.false_eq_true, if_false, beq_iff_eq]
    have : k = c := by omega
    simp [this]

/-! ## one iteration of the `decode_ranges` loop -/

/-- what the loop does with the decoder's answer: return, or go round again -/
inductive Act (H : Type)
  | stop (r : DecodeRangesRun H)
  | go (d : Dec H) (sink : Sink H) (ws : List (Nat × Nat)) (ss : List Nat)

def act (hf : HashFns H) (tree : Tree) (d : Dec H) (sink : Sink H) (ws : List (Nat × Nat))
    (ss : List Nat) : DecNext H (Dec H) → Act H
  | .done d' => .stop ⟨sink, .done, d'.encoded, ws.reverse, ss.reverse⟩
  | .err e d' => .stop ⟨sink, .err e, d'.encoded, ws.reverse, ss.reverse⟩
  | .panic => .stop ⟨sink, .panic, d.encoded, ws.reverse, ss.reverse⟩
  | .item (.parent node l r) d' =>
    if tree.isRelevant node then
      match sink.ob.save hf node (l, r) with
      | .ok ob => .go d' { sink with ob } ws (node :: ss)
      | .err e => .stop ⟨sink, .err (.io e), d'.encoded, ws.reverse, (node :: ss).reverse⟩
      | .panic => .stop ⟨sink, .panic, d'.encoded, ws.reverse, (node :: ss).reverse⟩
    else .go d' sink ws ss
  | .item (.leaf off data) d' =>
    .go d' { sink with target := writeAt sink.target off data } ((off, data.length) :: ws) ss

theorem aux_succ (hf : HashFns H) [BEq H] (fl : Flavour) (tree : Tree) (fuel : Nat) (d : Dec H)
    (sink : Sink H) (ws : List (Nat × Nat)) (ss : List Nat) :
    decodeRangesAux hf fl tree (fuel + 1) d sink ws ss =
      match act hf tree d sink ws ss (d.next hf fl) with
      | .stop r => r
      | .go d' s' w' x' => decodeRangesAux hf fl tree fuel d' s' w' x' := by
  rw [decodeRangesAux]
  cases d.next hf fl with
  | done d' => rfl
  | err e d' => rfl
  | panic => rfl
  | item i d' =>
    cases i with
    | parent node l r =>
      simp only [act]
      split
      · split <;> simp_all
      · rfl
    | leaf off data => rfl

theorem rAux_succ (hf : HashFns H) [BEq H] (fl : Flavour) (tree : Tree) (f : Option ReadFault)
    (fuel : Nat) (d : Dec H) (c c' : Nat) (nx : DecNext H (Dec H)) (sink : Sink H)
    (ws : List (Nat × Nat)) (ss : List Nat) (h : d.nextR hf fl f c = withC c' nx) :
    decodeRangesRAux hf fl tree f (fuel + 1) d c sink ws ss =
      match act hf tree d sink ws ss nx with
      | .stop r => r
      | .go d' s' w' x' => decodeRangesRAux hf fl tree f fuel d' c' s' w' x' := by
  rw [decodeRangesRAux, h]
  cases nx with
  | done d' => rfl
  | err e d' => rfl
  | panic => rfl
  | item i d' =>
    cases i with
    | parent node l r =>
      simp only [act, withC]
      split
      · split <;> simp_all
      · rfl
    | leaf off data => rfl

theorem calls_succ (hf : HashFns H) [BEq H] (fl : Flavour) (tree : Tree) (fuel : Nat) (d : Dec H)
    (sink : Sink H) (ws : List (Nat × Nat)) (ss : List Nat) (j off : Nat) {ch : Chunk}
    {it : PrePartial} (hn : Response.next d.iter = .item ch it) :
    readCallsAux hf fl tree (fuel + 1) d sink.ob j off =
      List.replicate (readCallsOf fl d.encoded ch.size) ⟨j, off, ch⟩ ++
      match act hf tree d sink ws ss (d.next hf fl) with
      | .stop _ => []
      | .go d' s' _ _ => readCallsAux hf fl tree fuel d' s'.ob (j + 1) (off + ch.size) := by
  rw [readCallsAux, hn]
  simp only
  congr 1
  cases d.next hf fl with
  | done d' => rfl
  | err e d' => rfl
  | panic => rfl
  | item i d' =>
    cases i with
    | parent node l r =>
      simp only [act]
      by_cases hr : tree.isRelevant node = true
      · simp only [hr, if_true]
        cases sink.ob.save hf node (l, r) <;> rfl
      · simp only [hr, Bool.false_eq_true, if_false]
    | leaf off data => rfl

theorem calls_stop (hf : HashFns H) [BEq H] (fl : Flavour) (tree : Tree) (fuel : Nat) (d : Dec H)
    (ob : Store H) (j off : Nat) (hn : ∀ ch it, Response.next d.iter ≠ .item ch it) :
    readCallsAux hf fl tree (fuel + 1) d ob j off = [] := by
  rw [readCallsAux]
  split
  · rename_i c it h; exact absurd h (hn c it)
  · rfl

/-! ## the step with a fault, relative to the plain step -/

theorem nextR_noitem (hf : HashFns H) [BEq H] (fl : Flavour) (f : Option ReadFault) (d : Dec H)
    (c : Nat) (hn : ∀ ch it, Response.next d.iter ≠ .item ch it) :
    d.nextR hf fl f c = withC c (d.next hf fl) := by
  rw [nextR_eq, next_eq]
  cases h : Response.next d.iter with
  | done => rfl
  | panic => rfl
  | item ch it => exact absurd h (hn ch it)

theorem nextR_item_miss (hf : HashFns H) [BEq H] (fl : Flavour) (k : Nat) (e : IoErr) (d : Dec H)
    (c : Nat) {ch : Chunk} {it : PrePartial} (hn : Response.next d.iter = .item ch it)
    (h : c + readCallsOf fl d.encoded ch.size ≤ k) :
    d.nextR hf fl (some ⟨k, e⟩) c =
      withC (c + readCallsOf fl d.encoded ch.size) (d.next hf fl) := by
  rw [nextR_eq, next_eq, hn]
  simp only [readExactR_miss fl k e d.encoded ch.size c (.inr h)]

theorem nextR_item_hit (hf : HashFns H) [BEq H] (fl : Flavour) (k : Nat) (e : IoErr) (d : Dec H)
    (c : Nat) {ch : Chunk} {it : PrePartial} (hn : Response.next d.iter = .item ch it)
    (h1 : c ≤ k) (h2 : k < c + readCallsOf fl d.encoded ch.size) :
    ∃ c', d.nextR hf fl (some ⟨k, e⟩) c = withC c' (.err (failOf ch e) { d with iter := it }) := by
  rw [nextR_eq, hn]
  simp only [readExactR_hit fl k e d.encoded ch.size c h1 h2]
  exact ⟨_, rfl⟩

theorem nextR_none (hf : HashFns H) [BEq H] (fl : Flavour) (d : Dec H) (c : Nat) :
    ∃ c', d.nextR hf fl none c = withC c' (d.next hf fl) := by
  rw [nextR_eq, next_eq]
  cases Response.next d.iter with
  | done => exact ⟨c, rfl⟩
  | panic => exact ⟨c, rfl⟩
  | item ch it => simp only [readExactR_none]; exact ⟨_, rfl⟩

theorem fail_eq (j off : Nat) (ch : Chunk) (e : IoErr) :
    (ReadCall.mk j off ch).fail e = failOf ch e := by
  cases ch <;> rfl

/-! ## the drivers -/

/-- no fault: the plain model, whatever the counter -/
theorem rAux_none (hf : HashFns H) [BEq H] (fl : Flavour) (tree : Tree) :
    ∀ (fuel : Nat) (d : Dec H) (c : Nat) (sink : Sink H) (ws : List (Nat × Nat)) (ss : List Nat),
      decodeRangesRAux hf fl tree none fuel d c sink ws ss
        = decodeRangesAux hf fl tree fuel d sink ws ss := by
  intro fuel
  induction fuel with
  | zero => intros; rfl
  | succ n ih =>
    intro d c sink ws ss
    obtain ⟨c', hc⟩ := nextR_none hf fl d c
    rw [rAux_succ hf fl tree none n d c c' _ sink ws ss hc, aux_succ]
    cases act hf tree d sink ws ss (d.next hf fl) with
    | stop r => rfl
    | go d' s' w' x' => exact ih ..

/-- **the faulty run in terms of the read calls of the fault-free run.**  `c ≤ k` calls have been
made; the remaining trace is `T`.  If `T` has a call number `k - c` – made for item `j + m` – the
run is the fault-free run stopped in front of that item (fuel `m`), with the terminal replaced by
the mapped injected error; if `T` is too short, the run is the fault-free run. -/
theorem rAux_trace (hf : HashFns H) [BEq H] (fl : Flavour) (tree : Tree) (k : Nat) (e : IoErr) :
    ∀ (fuel : Nat) (d : Dec H) (c : Nat) (sink : Sink H) (ws : List (Nat × Nat)) (ss : List Nat)
      (j off : Nat), c ≤ k →
      (∀ rc, (readCallsAux hf fl tree fuel d sink.ob j off)[k - c]? = some rc →
        ∃ m, rc.item = j + m ∧ m < fuel ∧
          decodeRangesRAux hf fl tree (some ⟨k, e⟩) fuel d c sink ws ss =
            { decodeRangesAux hf fl tree m d sink ws ss with terminal := .err (rc.fail e) }) ∧
      ((readCallsAux hf fl tree fuel d sink.ob j off).length ≤ k - c →
        decodeRangesRAux hf fl tree (some ⟨k, e⟩) fuel d c sink ws ss
          = decodeRangesAux hf fl tree fuel d sink ws ss) := by
  intro fuel
  induction fuel with
  | zero =>
    intro d c sink ws ss j off _
    exact ⟨fun rc h => by simp [readCallsAux] at h, fun _ => rfl⟩
  | succ n ih =>
    intro d c sink ws ss j off hck
    cases hn : Response.next d.iter with
    | item ch it =>
      rw [calls_succ hf fl tree n d sink ws ss j off hn]
      by_cases hk : k < c + readCallsOf fl d.encoded ch.size
      · -- the failing call is made for this item
        obtain ⟨c', hx⟩ := nextR_item_hit hf fl k e d c hn hck hk
        have hR : decodeRangesRAux hf fl tree (some ⟨k, e⟩) (n + 1) d c sink ws ss
            = ⟨sink, .err (failOf ch e), d.encoded, ws.reverse, ss.reverse⟩ := by
          rw [rAux_succ hf fl tree _ n d c c' _ sink ws ss hx]; rfl
        constructor
        · intro rc hrc
          rw [List.getElem?_append_left (by rw [List.length_replicate]; omega),
            List.getElem?_replicate, if_pos (by omega)] at hrc
          injection hrc with hrc
          subst hrc
          refine ⟨0, rfl, Nat.succ_pos _, ?_⟩
          rw [hR, fail_eq]; rfl
        · intro hlen
          rw [List.length_append, List.length_replicate] at hlen
          omega
      · -- all calls of this item succeed as in the fault-free run
        have hk' : c + readCallsOf fl d.encoded ch.size ≤ k := by omega
        have hx := nextR_item_miss hf fl k e d c hn hk'
        rw [rAux_succ hf fl tree _ n d c _ _ sink ws ss hx]
        cases ha : act hf tree d sink ws ss (d.next hf fl) with
        | stop r =>
          constructor
          · intro rc hrc
            rw [List.getElem?_append_right (by rw [List.length_replicate]; omega)] at hrc
            simp at hrc
          · intro _
            rw [aux_succ, ha]
        | go d' s' w' x' =>
          obtain ⟨ih1, ih2⟩ := ih d' (c + readCallsOf fl d.encoded ch.size) s' w' x' (j + 1)
            (off + ch.size) hk'
          constructor
          · intro rc hrc
            rw [List.getElem?_append_right (by rw [List.length_replicate]; omega),
              List.length_replicate] at hrc
            have hidx : k - c - readCallsOf fl d.encoded ch.size
                = k - (c + readCallsOf fl d.encoded ch.size) := by omega
            rw [hidx] at hrc
            obtain ⟨m, hm, hmn, hR⟩ := ih1 rc hrc
            refine ⟨m + 1, by omega, by omega, ?_⟩
            rw [aux_succ, ha]
            exact hR
          · intro hlen
            rw [List.length_append, List.length_replicate] at hlen
            simp only at hlen
            rw [aux_succ, ha]
            exact ih2 (by omega)
    | done =>
      have hni : ∀ ch it, Response.next d.iter ≠ .item ch it := by
        intro ch it h; rw [hn] at h; cases h
      rw [calls_stop hf fl tree n d sink.ob j off hni]
      refine ⟨fun rc h => by simp at h, fun _ => ?_⟩
      have hd : d.next hf fl = .done d := by rw [next_eq, hn]
      rw [rAux_succ hf fl tree _ n d c c _ sink ws ss (nextR_noitem hf fl _ d c hni), aux_succ, hd]
      rfl
    | panic =>
      have hni : ∀ ch it, Response.next d.iter ≠ .item ch it := by
        intro ch it h; rw [hn] at h; cases h
      rw [calls_stop hf fl tree n d sink.ob j off hni]
      refine ⟨fun rc h => by simp at h, fun _ => ?_⟩
      have hd : d.next hf fl = .panic := by rw [next_eq, hn]
      rw [rAux_succ hf fl tree _ n d c c _ sink ws ss (nextR_noitem hf fl _ d c hni), aux_succ, hd]
      rfl

/-! ## the run on a stream cut in front of an item -/

/-- the decoder reading from another stream -/
def setEnc (d : Dec H) (s : List UInt8) : Dec H := { d with encoded := s }

def mapSt (g : Dec H → Dec H) : DecNext H (Dec H) → DecNext H (Dec H)
  | .item i d => .item i (g d)
  | .err e d => .err e (g d)
  | .done d => .done (g d)
  | .panic => .panic

/-- after a successful read the old stream is forgotten -/
theorem post_ok_setEnc (hf : HashFns H) [BEq H] (fl : Flavour) (c : Chunk) (it : PrePartial)
    (d : Dec H) (x buf r r' : List UInt8) :
    post hf fl c it (setEnc d x) (.ok (buf, r'))
      = mapSt (setEnc · r') (post hf fl c it d (.ok (buf, r))) := by
  cases c with
  | parent node isRoot left right rs =>
    simp only [post, setEnc]
    cases d.stack with
    | nil => rfl
    | cons ph st =>
      cases fl <;> simp only <;> split <;> rfl
  | leaf start size isRoot rs =>
    simp only [post, setEnc]
    cases d.stack with
    | nil => rfl
    | cons ph st => simp only; split <;> rfl

theorem post_item_enc (hf : HashFns H) [BEq H] (fl : Flavour) (c : Chunk) (it : PrePartial)
    (d : Dec H) (buf r : List UInt8) {i : Item H} {d' : Dec H}
    (h : post hf fl c it d (.ok (buf, r)) = .item i d') : d'.encoded = r := by
  cases c with
  | parent node isRoot left right rs =>
    simp only [post] at h
    cases hs : d.stack with
    | nil => simp [hs] at h
    | cons ph st =>
      simp only [hs] at h
      cases fl <;> simp only at h <;> split at h <;> cases h <;> rfl
  | leaf start size isRoot rs =>
    simp only [post] at h
    cases hs : d.stack with
    | nil => simp [hs] at h
    | cons ph st =>
      simp only [hs] at h
      split at h
      · cases h
      · injection h with _ h; subst h; rfl

theorem act_go_item (hf : HashFns H) (tree : Tree) (d : Dec H) (sink : Sink H)
    (ws : List (Nat × Nat)) (ss : List Nat) {nx : DecNext H (Dec H)} {d' : Dec H} {s' : Sink H}
    {w' : List (Nat × Nat)} {x' : List Nat} (h : act hf tree d sink ws ss nx = .go d' s' w' x') :
    ∃ i, nx = .item i d' ∧ ∀ (d0 : Dec H) (g : Dec H → Dec H),
      act hf tree d0 sink ws ss (.item i (g d')) = .go (g d') s' w' x' := by
  cases nx with
  | done d1 => cases h
  | err e d1 => cases h
  | panic => cases h
  | item i d1 =>
    cases i with
    | parent node l r =>
      simp only [act] at h ⊢
      by_cases hr : tree.isRelevant node = true
      · simp only [hr, if_true] at h ⊢
        cases hs : sink.ob.save hf node (l, r) with
        | ok ob =>
          simp only [hs] at h ⊢
          injection h with h1 h2 h3 h4
          subst h1 h2 h3 h4
          exact ⟨_, rfl, fun _ _ => by simp only [hr, hs, if_true]⟩
        | err e => simp [hs] at h
        | panic => simp [hs] at h
      · simp only [hr, Bool.false_eq_true, if_false] at h ⊢
        injection h with h1 h2 h3 h4
        subst h1 h2 h3 h4
        exact ⟨_, rfl, fun _ _ => by simp only [hr, Bool.false_eq_true, if_false]⟩
    | leaf off data =>
      simp only [act] at h ⊢
      injection h with h1 h2 h3 h4
      subst h1 h2 h3 h4
      exact ⟨_, rfl, fun _ _ => rfl⟩

theorem readExact_ok_iff {s : List UInt8} {n : Nat} {buf rest : List UInt8}
    (h : readExact s n = .ok (buf, rest)) : n ≤ s.length ∧ buf = s.take n ∧ rest = s.drop n := by
  unfold readExact at h
  split at h
  · rename_i hl
    injection h with h
    injection h with h1 h2
    exact ⟨hl, h1.symm, h2.symm⟩
  · cases h

theorem readExact_take (s : List UInt8) (n b : Nat) (h : n ≤ s.length) (hb : b ≤ (s.drop n).length) :
    readExact (s.take (n + b)) n = .ok (s.take n, (s.drop n).take b) := by
  unfold readExact
  have hb' : b ≤ s.length - n := by rw [← List.length_drop]; exact hb
  rw [if_pos (by rw [List.length_take]; omega), List.take_take, List.drop_take,
    Nat.min_eq_left (by omega)]
  congr 3
  omega

/-- **cut stream**: if the fault-free run on `d.encoded` makes a read call `rc` for a non-empty
item, then the run on the stream cut in front of that item is the run stopped in front of it
(fuel `m`), ending with the not-found error of the item -/
theorem cut_aux (hf : HashFns H) [BEq H] (fl : Flavour) (tree : Tree) :
    ∀ (fuel : Nat) (d : Dec H) (sink : Sink H) (ws : List (Nat × Nat)) (ss : List Nat)
      (j off r : Nat) (rc : ReadCall),
      (readCallsAux hf fl tree fuel d sink.ob j off)[r]? = some rc → 0 < rc.chunk.size →
      ∃ m b, rc.item = j + m ∧ rc.off = off + b ∧ b ≤ d.encoded.length ∧ m < fuel ∧
        ∃ rest', decodeRangesAux hf fl tree fuel (setEnc d (d.encoded.take b)) sink ws ss =
          { decodeRangesAux hf fl tree m d sink ws ss with
            terminal := .err (rc.fail ⟨.unexpectedEof, false⟩), rest := rest' } := by
  intro fuel
  induction fuel with
  | zero => intro d sink ws ss j off r rc h; simp [readCallsAux] at h
  | succ n ih =>
    intro d sink ws ss j off r rc h hpos
    cases hn : Response.next d.iter with
    | done =>
      rw [calls_stop hf fl tree n d sink.ob j off (by intro ch it h; rw [hn] at h; cases h)] at h
      simp at h
    | panic =>
      rw [calls_stop hf fl tree n d sink.ob j off (by intro ch it h; rw [hn] at h; cases h)] at h
      simp at h
    | item ch it =>
      rw [calls_succ hf fl tree n d sink ws ss j off hn] at h
      by_cases hr : r < readCallsOf fl d.encoded ch.size
      · rw [List.getElem?_append_left (by rw [List.length_replicate]; omega),
          List.getElem?_replicate, if_pos hr] at h
        injection h with h
        subst h
        refine ⟨0, 0, rfl, rfl, Nat.zero_le _, Nat.succ_pos _, [], ?_⟩
        have hnx : (setEnc d (d.encoded.take 0)).next hf fl
            = .err (failOf ch ⟨.unexpectedEof, false⟩) { setEnc d [] with iter := it } := by
          rw [next_eq]
          simp only [setEnc, List.take_zero, hn]
          have : readExact ([] : List UInt8) ch.size = .error ⟨.unexpectedEof, false⟩ := by
            unfold readExact
            rw [if_neg (by simp only [List.length_nil]; simp only at hpos; omega)]
          rw [this]; rfl
        rw [aux_succ, hnx, fail_eq]
        rfl
      · rw [List.getElem?_append_right (by rw [List.length_replicate]; omega),
          List.length_replicate] at h
        cases ha : act hf tree d sink ws ss (d.next hf fl) with
        | stop r0 => rw [ha] at h; simp at h
        | go d' s' w' x' =>
          rw [ha] at h
          simp only at h
          obtain ⟨i, hi, hact⟩ := act_go_item hf tree d sink ws ss ha
          have hp : post hf fl ch it d (readExact d.encoded ch.size) = .item i d' := by
            rw [← hi, next_eq, hn]
          cases hre : readExact d.encoded ch.size with
          | error e0 => rw [hre] at hp; cases hp
          | ok p =>
            obtain ⟨buf, rest⟩ := p
            rw [hre] at hp
            obtain ⟨hl, hbuf, hrest⟩ := readExact_ok_iff hre
            have henc : d'.encoded = d.encoded.drop ch.size := by
              rw [post_item_enc hf fl ch it d buf rest hp, hrest]
            obtain ⟨m, b, hm, hb', hbl, hmn, rest', hR⟩ :=
              ih d' s' w' x' (j + 1) (off + ch.size) _ rc h hpos
            rw [henc] at hbl
            refine ⟨m + 1, ch.size + b, by omega, by omega, ?_, by omega, rest', ?_⟩
            · rw [List.length_drop] at hbl; omega
            · have hnx : (setEnc d (d.encoded.take (ch.size + b))).next hf fl
                  = .item i (setEnc d' ((d.encoded.drop ch.size).take b)) := by
                rw [next_eq]
                simp only [setEnc, hn]
                rw [readExact_take d.encoded ch.size b hl hbl]
                have := post_ok_setEnc hf fl ch it d (d.encoded.take (ch.size + b)) (d.encoded.take ch.size)
                  (d.encoded.drop ch.size) ((d.encoded.drop ch.size).take b)
                simp only [setEnc] at this
                rw [this, ← hbuf, ← hrest, hp]
                rfl
              rw [aux_succ, hnx, hact _ (setEnc · ((d.encoded.drop ch.size).take b))]
              simp only
              rw [aux_succ hf fl tree m d, ha, ← henc]
              exact hR

/-! ## runs with less fuel are prefixes -/

theorem act_ext (hf : HashFns H) (tree : Tree) (d : Dec H) (sink : Sink H)
    (ws : List (Nat × Nat)) (ss : List Nat) (nx : DecNext H (Dec H)) :
    match act hf tree d sink ws ss nx with
    | .stop r => ∃ a b, r.writes = ws.reverse ++ a ∧ r.saves = ss.reverse ++ b
    | .go _ _ w' x' => ∃ a b, w'.reverse = ws.reverse ++ a ∧ x'.reverse = ss.reverse ++ b := by
  cases nx with
  | done d1 => exact ⟨[], [], by simp, by simp⟩
  | err e d1 => exact ⟨[], [], by simp, by simp⟩
  | panic => exact ⟨[], [], by simp, by simp⟩
  | item i d1 =>
    cases i with
    | parent node l r =>
      simp only [act]
      by_cases hr : tree.isRelevant node = true
      · simp only [hr, if_true]
        cases sink.ob.save hf node (l, r) with
        | ok ob => exact ⟨[], [node], by simp, by simp⟩
        | err e => exact ⟨[], [node], by simp, by simp⟩
        | panic => exact ⟨[], [node], by simp, by simp⟩
      · simp only [hr, Bool.false_eq_true, if_false]
        exact ⟨[], [], by simp, by simp⟩
    | leaf off data => exact ⟨[(off, data.length)], [], by simp, by simp⟩

theorem aux_extend (hf : HashFns H) [BEq H] (fl : Flavour) (tree : Tree) :
    ∀ (fuel : Nat) (d : Dec H) (sink : Sink H) (ws : List (Nat × Nat)) (ss : List Nat),
      ∃ a b, (decodeRangesAux hf fl tree fuel d sink ws ss).writes = ws.reverse ++ a ∧
        (decodeRangesAux hf fl tree fuel d sink ws ss).saves = ss.reverse ++ b := by
  intro fuel
  induction fuel with
  | zero => intro d sink ws ss; exact ⟨[], [], by simp [decodeRangesAux], by simp [decodeRangesAux]⟩
  | succ n ih =>
    intro d sink ws ss
    rw [aux_succ]
    have h := act_ext hf tree d sink ws ss (d.next hf fl)
    cases ha : act hf tree d sink ws ss (d.next hf fl) with
    | stop r => rw [ha] at h; exact h
    | go d' s' w' x' =>
      rw [ha] at h
      obtain ⟨a, b, h1, h2⟩ := h
      obtain ⟨a', b', k1, k2⟩ := ih d' s' w' x'
      exact ⟨a ++ a', b ++ b', by rw [k1, h1, List.append_assoc], by rw [k2, h2, List.append_assoc]⟩

/-- the run stopped after `m` items has made a prefix of the writes and saves of a longer run -/
theorem aux_fuel_prefix (hf : HashFns H) [BEq H] (fl : Flavour) (tree : Tree) :
    ∀ (m fuel : Nat) (d : Dec H) (sink : Sink H) (ws : List (Nat × Nat)) (ss : List Nat), m ≤ fuel →
      (decodeRangesAux hf fl tree m d sink ws ss).writes
        <+: (decodeRangesAux hf fl tree fuel d sink ws ss).writes ∧
      (decodeRangesAux hf fl tree m d sink ws ss).saves
        <+: (decodeRangesAux hf fl tree fuel d sink ws ss).saves := by
  intro m
  induction m with
  | zero =>
    intro fuel d sink ws ss _
    obtain ⟨a, b, h1, h2⟩ := aux_extend hf fl tree fuel d sink ws ss
    exact ⟨⟨a, by rw [h1]; rfl⟩, ⟨b, by rw [h2]; rfl⟩⟩
  | succ m ih =>
    intro fuel d sink ws ss hm
    obtain ⟨n, rfl⟩ : ∃ n, fuel = n + 1 := ⟨fuel - 1, by omega⟩
    rw [aux_succ, aux_succ hf fl tree n]
    cases act hf tree d sink ws ss (d.next hf fl) with
    | stop r => exact ⟨List.prefix_refl _, List.prefix_refl _⟩
    | go d' s' w' x' => exact ih n d' s' w' x' (by omega)

/-- … and has evaluated a subset of the hash inputs -/
theorem runEvalsAux_fuel (hf : HashFns H) [BEq H] (fl : Flavour) :
    ∀ (m fuel : Nat) (d : Dec H), m ≤ fuel →
      ∀ x ∈ runEvalsAux hf fl m d, x ∈ runEvalsAux hf fl fuel d := by
  intro m
  induction m with
  | zero => intro fuel d _ x hx; simp [runEvalsAux] at hx
  | succ m ih =>
    intro fuel d hm x hx
    obtain ⟨n, rfl⟩ : ∃ n, fuel = n + 1 := ⟨fuel - 1, by omega⟩
    unfold runEvalsAux at hx ⊢
    rw [List.mem_append] at hx ⊢
    rcases hx with hx | hx
    · exact .inl hx
    · refine .inr ?_
      cases hn : d.next hf fl with
      | item i d' => rw [hn] at hx; exact ih n d' (by omega) x hx
      | err e d' => rw [hn] at hx; simp at hx
      | done d' => rw [hn] at hx; simp at hx
      | panic => rw [hn] at hx; simp at hx

/-! ## panics -/

theorem save_kind (hf : HashFns H) {s s' : Store H} {node : Nat} {p : H × H}
    (h : s.save hf node p = .ok s') : s'.kind = s.kind := by
  unfold Store.save at h
  cases hk : s.kind <;> simp only [hk] at h
  · split at h <;> injection h with h <;> subst h <;> simp [hk]
  · split at h <;> injection h with h <;> subst h <;> simp [hk]
  · split at h
    · cases h
    · split at h
      · injection h with h; subst h; rfl
      · cases h
  · split at h
    · cases h
    · split at h
      · injection h with h; subst h; rfl
      · cases h
  · split at h
    · injection h with h; subst h; exact hk
    · cases h

theorem save_no_panic_io (hf : HashFns H) (s : Store H) (hk : s.kind ≠ .preMem ∧ s.kind ≠ .postMem)
    (node : Nat) (p : H × H) : s.save hf node p ≠ .panic := by
  unfold Store.save
  cases hkd : s.kind with
  | preMem => exact absurd hkd hk.1
  | postMem => exact absurd hkd hk.2
  | empty => simp only; split <;> exact fun h => by cases h
  | preIo => simp only; split <;> exact fun h => by cases h
  | postIo => simp only; split <;> exact fun h => by cases h

/-- with an io-backed (or empty) outboard `decode_ranges` panics only where the decoder does -/
theorem aux_panic (hf : HashFns H) [BEq H] (fl : Flavour) (tree : Tree) :
    ∀ (fuel : Nat) (d : Dec H) (sink : Sink H) (ws : List (Nat × Nat)) (ss : List Nat),
      sink.ob.kind ≠ .preMem ∧ sink.ob.kind ≠ .postMem →
      (decodeRangesAux hf fl tree fuel d sink ws ss).terminal = .panic →
      (Dec.runAux hf fl fuel d).terminal = .panic := by
  intro fuel
  induction fuel with
  | zero => intro d sink ws ss _ _; rfl
  | succ n ih =>
    intro d sink ws ss hk h
    rw [aux_succ] at h
    unfold Dec.runAux
    cases hn : d.next hf fl with
    | done d' => rw [hn] at h; cases h
    | err e d' => rw [hn] at h; cases h
    | panic => rfl
    | item i d' =>
      rw [hn] at h
      simp only
      cases i with
      | parent node l r =>
        simp only [act] at h
        by_cases hr : tree.isRelevant node = true
        · simp only [hr, if_true] at h
          cases hs : sink.ob.save hf node (l, r) with
          | ok ob =>
            rw [hs] at h
            refine ih d' _ ws _ ?_ h
            rw [show ({ sink with ob := ob } : Sink H).ob.kind = sink.ob.kind from save_kind hf hs]
            exact hk
          | err e => rw [hs] at h; cases h
          | panic => exact absurd hs (save_no_panic_io hf sink.ob hk node (l, r))
        · simp only [hr, Bool.false_eq_true, if_false] at h
          exact ih d' sink ws ss hk h
      | leaf off data =>
        simp only [act] at h
        exact ih d' { sink with target := writeAt sink.target off data } _ ss hk h

/-! ## where the read calls are: item index and stream offset -/

theorem post_item_size (hf : HashFns H) [BEq H] (fl : Flavour) (c : Chunk) (it : PrePartial)
    (d : Dec H) (buf r : List UInt8) {i : Item H} {d' : Dec H} (hb : buf.length = c.size)
    (h : post hf fl c it d (.ok (buf, r)) = .item i d') : DecSim.itemSize i = c.size := by
  cases c with
  | parent node isRoot left right rs =>
    simp only [post] at h
    cases hs : d.stack with
    | nil => simp [hs] at h
    | cons ph st =>
      simp only [hs] at h
      cases fl <;> simp only at h <;> split at h <;> cases h <;> rfl
  | leaf start size isRoot rs =>
    simp only [post] at h
    cases hs : d.stack with
    | nil => simp [hs] at h
    | cons ph st =>
      simp only [hs] at h
      split at h
      · cases h
      · cases h; exact hb

/-- every read call is made for an item the decoder gets to: the items in front of it were
yielded, and its stream offset is their total size -/
theorem calls_items (hf : HashFns H) [BEq H] (fl : Flavour) (tree : Tree) :
    ∀ (fuel : Nat) (d : Dec H) (sink : Sink H) (j off : Nat) (rc : ReadCall),
      rc ∈ readCallsAux hf fl tree fuel d sink.ob j off →
      ∃ m, rc.item = j + m ∧ m ≤ (Dec.runAux hf fl fuel d).items.length ∧
        rc.off = off + DecSim.itemsSize ((Dec.runAux hf fl fuel d).items.take m) := by
  intro fuel
  induction fuel with
  | zero => intro d sink j off rc h; simp [readCallsAux] at h
  | succ n ih =>
    intro d sink j off rc h
    cases hn : Response.next d.iter with
    | done =>
      rw [calls_stop hf fl tree n d sink.ob j off (by intro ch it h; rw [hn] at h; cases h)] at h
      simp at h
    | panic =>
      rw [calls_stop hf fl tree n d sink.ob j off (by intro ch it h; rw [hn] at h; cases h)] at h
      simp at h
    | item ch it =>
      rw [calls_succ hf fl tree n d sink [] [] j off hn, List.mem_append] at h
      rcases h with h | h
      · rw [List.mem_replicate] at h
        obtain ⟨-, rfl⟩ := h
        exact ⟨0, rfl, Nat.zero_le _, by simp [DecSim.itemsSize]⟩
      · cases ha : act hf tree d sink [] [] (d.next hf fl) with
        | stop r0 => rw [ha] at h; simp at h
        | go d' s' w' x' =>
          rw [ha] at h
          simp only at h
          obtain ⟨i, hi, -⟩ := act_go_item hf tree d sink [] [] ha
          have hp : post hf fl ch it d (readExact d.encoded ch.size) = .item i d' := by
            rw [← hi, next_eq, hn]
          cases hre : readExact d.encoded ch.size with
          | error e0 => rw [hre] at hp; cases hp
          | ok p =>
            obtain ⟨buf, rest⟩ := p
            rw [hre] at hp
            obtain ⟨hl, hbuf, -⟩ := readExact_ok_iff hre
            have hsz : DecSim.itemSize i = ch.size :=
              post_item_size hf fl ch it d buf rest (by rw [hbuf, List.length_take]; omega) hp
            obtain ⟨m, hm, hml, hoff⟩ := ih d' s' (j + 1) (off + ch.size) rc h
            refine ⟨m + 1, by omega, ?_, ?_⟩
            · unfold Dec.runAux; rw [hi]; simp only [List.length_cons]; omega
            · unfold Dec.runAux; rw [hi]
              simp only [List.take_succ_cons, DecSim.itemsSize_cons, hsz]
              omega

/-- fsm: one read call per plan item – call number `i` of the remaining trace is made for item
`j + i` -/
theorem calls_fsm_item (hf : HashFns H) [BEq H] (tree : Tree) :
    ∀ (fuel : Nat) (d : Dec H) (sink : Sink H) (j off i : Nat) (rc : ReadCall),
      (readCallsAux hf .fsm tree fuel d sink.ob j off)[i]? = some rc → rc.item = j + i := by
  intro fuel
  induction fuel with
  | zero => intro d sink j off i rc h; simp [readCallsAux] at h
  | succ n ih =>
    intro d sink j off i rc h
    cases hn : Response.next d.iter with
    | done =>
      rw [calls_stop hf .fsm tree n d sink.ob j off (by intro ch it h; rw [hn] at h; cases h)] at h
      simp at h
    | panic =>
      rw [calls_stop hf .fsm tree n d sink.ob j off (by intro ch it h; rw [hn] at h; cases h)] at h
      simp at h
    | item ch it =>
      rw [calls_succ hf .fsm tree n d sink [] [] j off hn, callsOf_fsm] at h
      cases i with
      | zero =>
        simp only [List.replicate_one, List.singleton_append, List.getElem?_cons_zero,
          Option.some.injEq] at h
        subst h; rfl
      | succ i =>
        simp only [List.replicate_one, List.singleton_append, List.getElem?_cons_succ] at h
        cases ha : act hf tree d sink [] [] (d.next hf .fsm) with
        | stop r0 => rw [ha] at h; simp at h
        | go d' s' w' x' =>
          rw [ha] at h
          have := ih d' s' (j + 1) (off + ch.size) i rc h
          omega

/-! ## the read calls and the recursive response plan -/

section plan
open Bao.PlanPre Bao.DecodeSpec

theorem post_item_iter (hf : HashFns H) [BEq H] (fl : Flavour) (c : Chunk) (it : PrePartial)
    (d : Dec H) (buf r : List UInt8) {i : Item H} {d' : Dec H}
    (h : post hf fl c it d (.ok (buf, r)) = .item i d') : d'.iter = it := by
  cases c with
  | parent node isRoot left right rs =>
    simp only [post] at h
    cases hs : d.stack with
    | nil => simp [hs] at h
    | cons ph st =>
      simp only [hs] at h
      cases fl <;> simp only at h <;> split at h <;> cases h <;> rfl
  | leaf start size isRoot rs =>
    simp only [post] at h
    cases hs : d.stack with
    | nil => simp [hs] at h
    | cons ph st =>
      simp only [hs] at h
      split at h
      · cases h
      · cases h; rfl

theorem size_withoutRanges (c : Chunk) : c.withoutRanges.size = c.size := by cases c <;> rfl

/-- the read calls follow the pending plan list of the iterator state: a call for item `j + m` is
made for the `m`-th pending plan item, at the offset given by the sizes of the items before it -/
theorem calls_plan {size ml filled root : Nat} (g : Geo size 0 filled) (hf : HashFns H) [BEq H]
    (fl : Flavour) (tree : Tree) (fuel : Nat) :
    ∀ (stack : List (Nat × Ranges)) (buffer : List Chunk) (hst : List H) (enc : List UInt8)
      (hash : H) (sink : Sink H) (j off : Nat) (rc : ReadCall), (∀ e ∈ stack, Valid filled e) →
      rc ∈ readCallsAux hf fl tree fuel ⟨st size 0 ml filled root stack buffer, hst, enc, hash⟩
        sink.ob j off →
      ∃ m c, rc.item = j + m ∧ (pending size 0 ml filled root stack buffer)[m]? = some c ∧
        rc.chunk = c.withoutRanges ∧
        rc.off = off + psize ((pending size 0 ml filled root stack buffer).take m) := by
  induction fuel with
  | zero => intro _ _ _ _ _ _ _ _ rc _ h; simp [readCallsAux] at h
  | succ n ih =>
    intro stack buffer hst enc hash sink j off rc hv h
    rcases iter_next (ml := ml) (root := root) g stack buffer hv with
      ⟨_, hn⟩ | ⟨c, stack', buf', hn, hv', he⟩
    · have hr : Response.next (st size 0 ml filled root stack buffer) = .done := by
        unfold Response.next; rw [hn]
      rw [calls_stop hf fl tree n _ sink.ob j off (by intro ch it h; rw [hr] at h; cases h)] at h
      simp at h
    · have hr : Response.next (st size 0 ml filled root stack buffer)
          = .item c.withoutRanges (st size 0 ml filled root stack' buf') := by
        unfold Response.next; rw [hn]
      rw [calls_succ hf fl tree n _ sink [] [] j off hr, List.mem_append] at h
      rw [he]
      rcases h with h | h
      · rw [List.mem_replicate] at h
        obtain ⟨-, rfl⟩ := h
        exact ⟨0, c, rfl, rfl, rfl, by simp⟩
      · generalize hd : (⟨st size 0 ml filled root stack buffer, hst, enc, hash⟩ : Dec H) = d at h
        have hdi : Response.next d.iter
            = .item c.withoutRanges (st size 0 ml filled root stack' buf') := by rw [← hd]; exact hr
        cases ha : act hf tree d sink [] [] (d.next hf fl) with
        | stop r0 => rw [ha] at h; simp at h
        | go d' s' w' x' =>
          rw [ha] at h
          simp only at h
          obtain ⟨i, hi, -⟩ := act_go_item hf tree d sink [] [] ha
          have hp : post hf fl c.withoutRanges (st size 0 ml filled root stack' buf') d
              (readExact d.encoded c.withoutRanges.size) = .item i d' := by
            rw [← hi, next_eq, hdi]
          cases hre : readExact d.encoded c.withoutRanges.size with
          | error e0 => rw [hre] at hp; cases hp
          | ok p =>
            obtain ⟨buf, rest⟩ := p
            rw [hre] at hp
            have hit := post_item_iter hf fl _ _ d buf rest hp
            obtain ⟨it', st', enc', hash'⟩ := d'
            simp only at hit
            subst hit
            obtain ⟨m, c', hm, hc', hch, hoff⟩ :=
              ih stack' buf' st' enc' hash' s' (j + 1) (off + c.withoutRanges.size) rc hv' h
            refine ⟨m + 1, c', by omega, by rw [List.getElem?_cons_succ]; exact hc', hch, ?_⟩
            rw [List.take_succ_cons, psize_cons, hoff, size_withoutRanges]
            omega

end plan

end Bao.C01Read
