import BaoModel.Codec

/-!
# Lemmas for C10: the fault-aware `decode_ranges` driver against its call log
-/

namespace Bao.FaultL

open Bao

variable {H : Type}

/-- the injected io error -/
def injected : DecEnd := .err (.io ⟨.other, true⟩)

/-! ## the call log of a fault-free run -/

/-- one call on the target or on the outboard -/
inductive Ev (H : Type)
  | write (off : Nat) (data : List UInt8)
  | save (node : Nat) (l r : H)

/-- `OutboardMut::save` as a state update: a failing call leaves the outboard as it is -/
def saveOrKeep (hf : HashFns H) (ob : Store H) (c : Nat × H × H) : Store H :=
  match ob.save hf c.1 (c.2.1, c.2.2) with
  | .ok ob' => ob'
  | _ => ob

/-- effect of one call -/
def applyEv (hf : HashFns H) (sink : Sink H) : Ev H → Sink H
  | .write off data => { sink with target := writeAt sink.target off data }
  | .save node l r => { sink with ob := saveOrKeep hf sink.ob (node, l, r) }

def applyEvs (hf : HashFns H) (sink : Sink H) (es : List (Ev H)) : Sink H :=
  es.foldl (applyEv hf) sink

/-- the write calls of a log -/
def writes : List (Ev H) → List (Nat × List UInt8)
  | [] => []
  | .write off data :: es => (off, data) :: writes es
  | .save .. :: es => writes es

/-- the save calls of a log -/
def saves : List (Ev H) → List (Nat × H × H)
  | [] => []
  | .write .. :: es => saves es
  | .save node l r :: es => (node, l, r) :: saves es

def applyWrites (t : List UInt8) (ws : List (Nat × List UInt8)) : List UInt8 :=
  ws.foldl (fun t w => writeAt t w.1 w.2) t

def applySaves (hf : HashFns H) (ob : Store H) (ss : List (Nat × H × H)) : Store H :=
  ss.foldl (saveOrKeep hf) ob

/-- instrumented twin of `decodeRangesFAux … none none`: the calls made on the target and on the
outboard (every call, also a `save` that fails by itself, which is then the last one), and the
terminal -/
def logAux (hf : HashFns H) [BEq H] (fl : Flavour) (tree : Tree) :
    Nat → Dec H → Sink H → List (Ev H) × DecEnd
  | 0, _, _ => ([], .panic)
  | fuel + 1, d, sink =>
    match d.next hf fl with
    | .done _ => ([], .done)
    | .err e _ => ([], .err e)
    | .panic => ([], .panic)
    | .item (.parent node l r) d' =>
      if tree.isRelevant node then
        match sink.ob.save hf node (l, r) with
        | .ok ob =>
          let p := logAux hf fl tree fuel d' { sink with ob }
          (.save node l r :: p.1, p.2)
        | .err e => ([.save node l r], .err (.io e))
        | .panic => ([.save node l r], .panic)
      else logAux hf fl tree fuel d' sink
    | .item (.leaf off data) d' =>
      if fl == .sync && data.isEmpty then logAux hf fl tree fuel d' sink
      else
        let p := logAux hf fl tree fuel d' { sink with target := writeAt sink.target off data }
        (.write off data :: p.1, p.2)

/-- where a fault script `(fw, fs)` cuts a log, the counters standing at `nw`, `ns`:
`some pre` = the calls completed before the failing one, `none` = no call fails -/
def cut (fw fs : Option Nat) : Nat → Nat → List (Ev H) → Option (List (Ev H))
  | _, _, [] => none
  | nw, ns, .write off data :: es =>
    if fw == some nw then some [] else (cut fw fs (nw + 1) ns es).map (.write off data :: ·)
  | nw, ns, .save node l r :: es =>
    if fs == some ns then some [] else (cut fw fs nw (ns + 1) es).map (.save node l r :: ·)

theorem applyEvs_cons (hf : HashFns H) (sink : Sink H) (e : Ev H) (es : List (Ev H)) :
    applyEvs hf sink (e :: es) = applyEvs hf (applyEv hf sink e) es := rfl

theorem applyEvs_nil (hf : HashFns H) (sink : Sink H) : applyEvs hf sink [] = sink := rfl

/-- the faulty run = the fault-free log cut at the first failing call -/
theorem faux_eq (hf : HashFns H) [BEq H] (fl : Flavour) (tree : Tree) (fw fs : Option Nat)
    (fuel : Nat) (d : Dec H) (sink : Sink H) (nw ns : Nat) :
    decodeRangesFAux hf fl tree fw fs fuel d sink nw ns =
      match cut fw fs nw ns (logAux hf fl tree fuel d sink).1 with
      | none => (applyEvs hf sink (logAux hf fl tree fuel d sink).1, (logAux hf fl tree fuel d sink).2)
      | some pre => (applyEvs hf sink pre, injected) := by
  induction fuel generalizing d sink nw ns with
  | zero => simp [decodeRangesFAux, logAux, cut, applyEvs]
  | succ fuel ih =>
    unfold decodeRangesFAux logAux
    cases hn : d.next hf fl with
    | done d' => simp [cut, applyEvs]
    | err e d' => simp [cut, applyEvs]
    | panic => simp [cut, applyEvs]
    | item i d' =>
      cases i with
      | parent node l r =>
        simp only
        by_cases hrel : tree.isRelevant node = true
        · simp only [hrel, if_true]
          by_cases hfs : (fs == some ns) = true
          · simp only [hfs, if_true]
            cases hsv : sink.ob.save hf node (l, r) <;> simp [cut, hfs, applyEvs, injected]
          · simp only [hfs]
            cases hsv : sink.ob.save hf node (l, r) with
            | ok ob =>
              simp only [cut, hfs, Bool.false_eq_true, if_false]
              rw [ih]
              cases hc : cut fw fs nw (ns + 1) (logAux hf fl tree fuel d' { sink with ob := ob }).1 with
              | none => simp [applyEvs_cons, applyEv, saveOrKeep, hsv]
              | some pre => simp [applyEvs_cons, applyEv, saveOrKeep, hsv]
            | err e => simp [cut, hfs, applyEvs, applyEv, saveOrKeep, hsv]
            | panic => simp [cut, hfs, applyEvs, applyEv, saveOrKeep, hsv]
        · simp only [hrel, Bool.false_eq_true, if_false]
          exact ih ..
      | leaf off data =>
        simp only
        by_cases hskip : (fl == Flavour.sync && data.isEmpty) = true
        · simp only [hskip, if_true]
          exact ih ..
        · simp only [hskip, Bool.false_eq_true, if_false]
          by_cases hfw : (fw == some nw) = true
          · simp [cut, hfw, applyEvs, injected]
          · simp only [hfw, Bool.false_eq_true, if_false, cut]
            rw [ih]
            cases hc : cut fw fs (nw + 1) ns
              (logAux hf fl tree fuel d' { sink with target := writeAt sink.target off data }).1 with
            | none => simp [applyEvs_cons, applyEv]
            | some pre => simp [applyEvs_cons, applyEv]

/-! ## facts about `cut` -/

theorem cut_none_none (nw ns : Nat) (es : List (Ev H)) : cut none none nw ns es = none := by
  induction es generalizing nw ns with
  | nil => rfl
  | cons e es ih => cases e <;> simp [cut, ih]

/-- the calls before the `j`-th write call -/
def beforeWrite : Nat → List (Ev H) → List (Ev H)
  | _, [] => []
  | 0, .write .. :: _ => []
  | j + 1, .write off data :: es => .write off data :: beforeWrite j es
  | j, .save node l r :: es => .save node l r :: beforeWrite j es

/-- the calls before the `j`-th save call -/
def beforeSave : Nat → List (Ev H) → List (Ev H)
  | _, [] => []
  | 0, .save .. :: _ => []
  | j + 1, .save node l r :: es => .save node l r :: beforeSave j es
  | j, .write off data :: es => .write off data :: beforeSave j es

theorem cut_write (k nw ns : Nat) (es : List (Ev H)) (h : nw ≤ k) :
    cut (some k) none nw ns es =
      if k - nw < (writes es).length then some (beforeWrite (k - nw) es) else none := by
  induction es generalizing nw ns with
  | nil => simp [cut, writes]
  | cons e es ih =>
    cases e with
    | save node l r =>
      have h0 : ((none : Option Nat) == some ns) = false := rfl
      simp only [cut, writes, h0, Bool.false_eq_true, if_false]
      rw [ih nw (ns + 1) h]
      by_cases hlt : k - nw < (writes es).length <;> simp [hlt, beforeWrite]
    | write off data =>
      simp only [cut, writes, List.length_cons]
      by_cases hk : k = nw
      · subst hk; simp [beforeWrite]
      · have h1 : (some k == some nw) = false := by simp [hk]
        rw [h1]
        simp only [Bool.false_eq_true, if_false]
        rw [ih (nw + 1) ns (by omega)]
        obtain ⟨j, hj⟩ : ∃ j, k - nw = j + 1 := ⟨k - nw - 1, by omega⟩
        have hj' : k - (nw + 1) = j := by omega
        rw [hj, hj']
        by_cases hlt : j < (writes es).length
        · simp [hlt, beforeWrite]
        · simp [hlt]

theorem cut_save (k nw ns : Nat) (es : List (Ev H)) (h : ns ≤ k) :
    cut none (some k) nw ns es =
      if k - ns < (saves es).length then some (beforeSave (k - ns) es) else none := by
  induction es generalizing nw ns with
  | nil => simp [cut, saves]
  | cons e es ih =>
    cases e with
    | write off data =>
      have h0 : ((none : Option Nat) == some nw) = false := rfl
      simp only [cut, saves, h0, Bool.false_eq_true, if_false]
      rw [ih (nw + 1) ns h]
      by_cases hlt : k - ns < (saves es).length <;> simp [hlt, beforeSave]
    | save node l r =>
      simp only [cut, saves, List.length_cons]
      by_cases hk : k = ns
      · subst hk; simp [beforeSave]
      · have h1 : (some k == some ns) = false := by simp [hk]
        rw [h1]
        simp only [Bool.false_eq_true, if_false]
        rw [ih nw (ns + 1) (by omega)]
        obtain ⟨j, hj⟩ : ∃ j, k - ns = j + 1 := ⟨k - ns - 1, by omega⟩
        have hj' : k - (ns + 1) = j := by omega
        rw [hj, hj']
        by_cases hlt : j < (saves es).length
        · simp [hlt, beforeSave]
        · simp [hlt]

/-- whatever the script, the completed calls are a prefix of the fault-free log -/
theorem cut_prefix (fw fs : Option Nat) (nw ns : Nat) (es pre : List (Ev H))
    (h : cut fw fs nw ns es = some pre) : pre <+: es := by
  induction es generalizing nw ns pre with
  | nil => simp [cut] at h
  | cons e es ih =>
    cases e with
    | write off data =>
      simp only [cut] at h
      split at h
      · cases h; exact List.nil_prefix
      · cases hc : cut fw fs (nw + 1) ns es with
        | none => simp [hc] at h
        | some p =>
          simp [hc] at h; subst h
          exact List.cons_prefix_cons.mpr ⟨rfl, ih _ _ _ hc⟩
    | save node l r =>
      simp only [cut] at h
      split at h
      · cases h; exact List.nil_prefix
      · cases hc : cut fw fs nw (ns + 1) es with
        | none => simp [hc] at h
        | some p =>
          simp [hc] at h; subst h
          exact List.cons_prefix_cons.mpr ⟨rfl, ih _ _ _ hc⟩

/-- … a proper one: the failing call is not among them -/
theorem cut_length_lt (fw fs : Option Nat) (nw ns : Nat) (es pre : List (Ev H))
    (h : cut fw fs nw ns es = some pre) : pre.length < es.length := by
  induction es generalizing nw ns pre with
  | nil => simp [cut] at h
  | cons e es ih =>
    cases e with
    | write off data =>
      simp only [cut] at h
      split at h
      · cases h; simp
      · cases hc : cut fw fs (nw + 1) ns es with
        | none => simp [hc] at h
        | some p =>
          simp [hc] at h; subst h
          have := ih _ _ _ hc
          simp; omega
    | save node l r =>
      simp only [cut] at h
      split at h
      · cases h; simp
      · cases hc : cut fw fs nw (ns + 1) es with
        | none => simp [hc] at h
        | some p =>
          simp [hc] at h; subst h
          have := ih _ _ _ hc
          simp; omega

/-! ## projections of a log -/

theorem writes_append (a b : List (Ev H)) : writes (a ++ b) = writes a ++ writes b := by
  induction a with
  | nil => rfl
  | cons e a ih => cases e <;> simp [writes, ih]

theorem saves_append (a b : List (Ev H)) : saves (a ++ b) = saves a ++ saves b := by
  induction a with
  | nil => rfl
  | cons e a ih => cases e <;> simp [saves, ih]

theorem writes_prefix {a b : List (Ev H)} (h : a <+: b) : writes a <+: writes b := by
  obtain ⟨c, rfl⟩ := h; rw [writes_append]; exact List.prefix_append _ _

theorem saves_prefix {a b : List (Ev H)} (h : a <+: b) : saves a <+: saves b := by
  obtain ⟨c, rfl⟩ := h; rw [saves_append]; exact List.prefix_append _ _

theorem applyEvs_target (hf : HashFns H) (sink : Sink H) (es : List (Ev H)) :
    (applyEvs hf sink es).target = applyWrites sink.target (writes es) := by
  induction es generalizing sink with
  | nil => rfl
  | cons e es ih =>
    rw [applyEvs_cons, ih]
    cases e <;> simp [applyEv, writes, applyWrites]

theorem applyEvs_ob (hf : HashFns H) (sink : Sink H) (es : List (Ev H)) :
    (applyEvs hf sink es).ob = applySaves hf sink.ob (saves es) := by
  induction es generalizing sink with
  | nil => rfl
  | cons e es ih =>
    rw [applyEvs_cons, ih]
    cases e <;> simp [applyEv, saves, applySaves]

theorem beforeWrite_prefix (j : Nat) (es : List (Ev H)) : beforeWrite j es <+: es := by
  induction es generalizing j with
  | nil => simp [beforeWrite]
  | cons e es ih =>
    cases e with
    | save node l r => simp only [beforeWrite]; exact List.cons_prefix_cons.mpr ⟨rfl, ih j⟩
    | write off data =>
      cases j with
      | zero => simp only [beforeWrite]; exact List.nil_prefix
      | succ j => simp only [beforeWrite]; exact List.cons_prefix_cons.mpr ⟨rfl, ih j⟩

theorem beforeSave_prefix (j : Nat) (es : List (Ev H)) : beforeSave j es <+: es := by
  induction es generalizing j with
  | nil => simp [beforeSave]
  | cons e es ih =>
    cases e with
    | write off data => simp only [beforeSave]; exact List.cons_prefix_cons.mpr ⟨rfl, ih j⟩
    | save node l r =>
      cases j with
      | zero => simp only [beforeSave]; exact List.nil_prefix
      | succ j => simp only [beforeSave]; exact List.cons_prefix_cons.mpr ⟨rfl, ih j⟩

theorem writes_beforeWrite (j : Nat) (es : List (Ev H)) :
    writes (beforeWrite j es) = (writes es).take j := by
  induction es generalizing j with
  | nil => simp [beforeWrite, writes]
  | cons e es ih =>
    cases e with
    | save node l r => simp [beforeWrite, writes, ih]
    | write off data =>
      cases j with
      | zero => simp [beforeWrite, writes]
      | succ j => simp [beforeWrite, writes, ih]

theorem saves_beforeSave (j : Nat) (es : List (Ev H)) :
    saves (beforeSave j es) = (saves es).take j := by
  induction es generalizing j with
  | nil => simp [beforeSave, saves]
  | cons e es ih =>
    cases e with
    | write off data => simp [beforeSave, saves, ih]
    | save node l r =>
      cases j with
      | zero => simp [beforeSave, saves]
      | succ j => simp [beforeSave, saves, ih]

theorem prefix_eq_take {α : Type} {a b : List α} (h : a <+: b) : a = b.take a.length := by
  obtain ⟨c, rfl⟩ := h; simp

/-! ## the fault-free faulty driver against the plain driver `decodeRangesAux` -/

@[simp] theorem sync_beq_sync : (Flavour.sync == Flavour.sync) = true := rfl
@[simp] theorem fsm_beq_sync : (Flavour.fsm == Flavour.sync) = false := rfl

theorem writeAt_zero_nil (t : List UInt8) : writeAt t 0 [] = t := by
  simp [writeAt]

/-- the log accumulators of `decodeRangesAux` are only prepended to -/
theorem aux_acc (hf : HashFns H) [BEq H] (fl : Flavour) (tree : Tree) (fuel : Nat) (d : Dec H)
    (sink : Sink H) (ws : List (Nat × Nat)) (ss : List Nat) :
    decodeRangesAux hf fl tree fuel d sink ws ss =
      ⟨(decodeRangesAux hf fl tree fuel d sink [] []).sink,
       (decodeRangesAux hf fl tree fuel d sink [] []).terminal,
       (decodeRangesAux hf fl tree fuel d sink [] []).rest,
       ws.reverse ++ (decodeRangesAux hf fl tree fuel d sink [] []).writes,
       ss.reverse ++ (decodeRangesAux hf fl tree fuel d sink [] []).saves⟩ := by
  induction fuel generalizing d sink ws ss with
  | zero => simp [decodeRangesAux]
  | succ fuel ih =>
    unfold decodeRangesAux
    cases hn : d.next hf fl with
    | done d' => simp
    | err e d' => simp
    | panic => simp
    | item i d' =>
      cases i with
      | parent node l r =>
        simp only
        by_cases hrel : tree.isRelevant node = true
        · simp only [hrel, if_true]
          cases hsv : sink.ob.save hf node (l, r) with
          | ok ob =>
            simp only
            rw [ih d' _ ws (node :: ss), ih d' _ [] [node]]
            simp
          | err e => simp
          | panic => simp
        · simp only [hrel, Bool.false_eq_true, if_false]
          exact ih ..
      | leaf off data =>
        simp only
        rw [ih d' _ ((off, data.length) :: ws) ss, ih d' _ [(off, data.length)] []]
        simp

/-- terminal and outboard of the fault-free faulty driver are those of the plain driver (the
targets may differ, they are not looked at) -/
theorem faux_none_ob_term (hf : HashFns H) [BEq H] (fl : Flavour) (tree : Tree) (fuel : Nat)
    (d : Dec H) (sink sink' : Sink H) (hob : sink.ob = sink'.ob) (nw ns : Nat)
    (ws : List (Nat × Nat)) (ss : List Nat) :
    (decodeRangesFAux hf fl tree none none fuel d sink nw ns).1.ob =
        (decodeRangesAux hf fl tree fuel d sink' ws ss).sink.ob ∧
      (decodeRangesFAux hf fl tree none none fuel d sink nw ns).2 =
        (decodeRangesAux hf fl tree fuel d sink' ws ss).terminal := by
  induction fuel generalizing d sink sink' nw ns ws ss with
  | zero => simp [decodeRangesFAux, decodeRangesAux, hob]
  | succ fuel ih =>
    unfold decodeRangesFAux decodeRangesAux
    cases hn : d.next hf fl with
    | done d' => simp [hob]
    | err e d' => simp [hob]
    | panic => simp [hob]
    | item i d' =>
      cases i with
      | parent node l r =>
        simp only
        by_cases hrel : tree.isRelevant node = true
        · have h0 : ((none : Option Nat) == some ns) = false := rfl
          simp only [hrel, if_true, h0, Bool.false_eq_true, if_false]
          rw [← hob]
          cases hsv : sink.ob.save hf node (l, r) with
          | ok ob =>
            simp only
            exact ih d' { sink with ob := ob } { sink' with ob := ob } rfl ..
          | err e => simp [hob]
          | panic => simp [hob]
        · simp only [hrel, Bool.false_eq_true, if_false]
          exact ih d' sink sink' hob ..
      | leaf off data =>
        have h0 : ((none : Option Nat) == some nw) = false := rfl
        simp only [h0, Bool.false_eq_true, if_false]
        split
        · exact ih d' sink { sink' with target := writeAt sink'.target off data } hob ..
        · exact ih d' { sink with target := writeAt sink.target off data }
            { sink' with target := writeAt sink'.target off data } hob ..

/-- if every empty leaf write of the plain run is at offset 0 (where `writeAt t 0 [] = t`), the
fault-free faulty driver also ends with the same target; for the fsm flavour nothing is needed -/
theorem faux_none_eq (hf : HashFns H) [BEq H] (fl : Flavour) (tree : Tree) (fuel : Nat)
    (d : Dec H) (sink : Sink H) (nw ns : Nat)
    (h : fl = .sync → ∀ p ∈ (decodeRangesAux hf fl tree fuel d sink [] []).writes, p.2 = 0 → p.1 = 0) :
    decodeRangesFAux hf fl tree none none fuel d sink nw ns =
      ((decodeRangesAux hf fl tree fuel d sink [] []).sink,
       (decodeRangesAux hf fl tree fuel d sink [] []).terminal) := by
  induction fuel generalizing d sink nw ns with
  | zero => simp [decodeRangesFAux, decodeRangesAux]
  | succ fuel ih =>
    unfold decodeRangesFAux
    unfold decodeRangesAux at h ⊢
    cases hn : d.next hf fl with
    | done d' => simp
    | err e d' => simp
    | panic => simp
    | item i d' =>
      rw [hn] at h
      cases i with
      | parent node l r =>
        simp only at h ⊢
        by_cases hrel : tree.isRelevant node = true
        · have h0 : ((none : Option Nat) == some ns) = false := rfl
          simp only [hrel, if_true, h0, Bool.false_eq_true, if_false] at h ⊢
          cases hsv : sink.ob.save hf node (l, r) with
          | ok ob =>
            rw [hsv] at h
            simp only at h ⊢
            rw [aux_acc] at h ⊢
            simp only at h ⊢
            exact ih d' _ _ _ h
          | err e => simp
          | panic => simp
        · simp only [hrel, Bool.false_eq_true, if_false] at h ⊢
          exact ih d' _ _ _ h
      | leaf off data =>
        have h0 : ((none : Option Nat) == some nw) = false := rfl
        simp only [h0, Bool.false_eq_true, if_false] at h ⊢
        rw [aux_acc] at h ⊢
        simp only [List.reverse_cons, List.reverse_nil, List.nil_append, List.singleton_append,
          List.mem_cons] at h ⊢
        have h' : fl = .sync → ∀ p ∈ (decodeRangesAux hf fl tree fuel d'
            { sink with target := writeAt sink.target off data } [] []).writes, p.2 = 0 → p.1 = 0 :=
          fun hfl p hp => h hfl p (Or.inr hp)
        by_cases hskip : (fl == Flavour.sync && data.isEmpty) = true
        · simp only [hskip, if_true]
          simp only [Bool.and_eq_true, List.isEmpty_iff] at hskip
          obtain ⟨hfl, hd⟩ := hskip
          have hfl : fl = .sync := by cases fl <;> first | rfl | exact absurd hfl (by decide)
          have hoff : off = 0 := h hfl (off, data.length) (Or.inl rfl) (by simp [hd])
          subst hoff hd
          rw [writeAt_zero_nil] at h' ⊢
          exact ih d' _ _ _ h'
        · simp only [hskip, Bool.false_eq_true, if_false]
          exact ih d' _ _ _ h'

/-- the saves of the instrumented twin are the `saves` log of the plain driver, the writes are its
`writes` log without the (sync) empty ones; the terminals agree -/
theorem logAux_model (hf : HashFns H) [BEq H] (fl : Flavour) (tree : Tree) (fuel : Nat)
    (d : Dec H) (sink sink' : Sink H) (hob : sink.ob = sink'.ob) :
    (saves (logAux hf fl tree fuel d sink).1).map (·.1) =
        (decodeRangesAux hf fl tree fuel d sink' [] []).saves ∧
      (writes (logAux hf fl tree fuel d sink).1).map (fun w => (w.1, w.2.length)) =
        (decodeRangesAux hf fl tree fuel d sink' [] []).writes.filter
          (fun p => !(fl == .sync && p.2 == 0)) ∧
      (logAux hf fl tree fuel d sink).2 = (decodeRangesAux hf fl tree fuel d sink' [] []).terminal := by
  induction fuel generalizing d sink sink' with
  | zero => simp [logAux, decodeRangesAux, saves, writes]
  | succ fuel ih =>
    unfold logAux decodeRangesAux
    cases hn : d.next hf fl with
    | done d' => simp [saves, writes]
    | err e d' => simp [saves, writes]
    | panic => simp [saves, writes]
    | item i d' =>
      cases i with
      | parent node l r =>
        simp only
        by_cases hrel : tree.isRelevant node = true
        · simp only [hrel, if_true]
          rw [← hob]
          cases hsv : sink.ob.save hf node (l, r) with
          | ok ob =>
            simp only
            rw [aux_acc]
            obtain ⟨h1, h2, h3⟩ := ih d' { sink with ob := ob } { sink' with ob := ob } rfl
            simp only [saves, writes, List.map_cons, h1, h2, h3]
            simp
          | err e => simp [saves, writes]
          | panic => simp [saves, writes]
        · simp only [hrel, Bool.false_eq_true, if_false]
          exact ih d' _ _ hob
      | leaf off data =>
        simp only
        rw [aux_acc]
        obtain ⟨h1, h2, h3⟩ := ih d' { sink with target := writeAt sink.target off data }
          { sink' with target := writeAt sink'.target off data } hob
        obtain ⟨h1', h2', h3'⟩ := ih d' sink
          { sink' with target := writeAt sink'.target off data } hob
        cases fl with
        | fsm =>
          simp only [fsm_beq_sync, Bool.false_and, Bool.false_eq_true, if_false, saves, writes,
            List.map_cons, Bool.not_false] at h1 h2 h3 ⊢
          simp [h1, h2, h3]
        | sync =>
          cases data with
          | nil =>
            simp only [sync_beq_sync, List.isEmpty_nil, Bool.and_self, if_true, h1', h2', h3']
            simp
          | cons a t =>
            simp only [sync_beq_sync, List.isEmpty_cons, Bool.and_false, Bool.false_eq_true,
              if_false, saves, writes, List.map_cons, h1, h2, h3]
            simp

/-! ## top level -/

/-- the calls and the terminal of the fault-free `decodeRangesF` -/
def callLog (hf : HashFns H) [BEq H] (fl : Flavour) (encoded : List UInt8) (ranges : Ranges)
    (sink : Sink H) : List (Ev H) × DecEnd :=
  let tree := sink.ob.tree
  let d := Dec.new sink.ob.root tree ranges encoded
  logAux hf fl tree (PrePartial.fuelFor d.iter.tree + 1) d sink

/-- every faulty run, through the log of the fault-free run -/
theorem decodeRangesF_eq (hf : HashFns H) [BEq H] (fl : Flavour) (s : List UInt8) (q : Ranges)
    (sink : Sink H) (fw fs : Option Nat) :
    decodeRangesF hf fl s q sink fw fs =
      match cut fw fs 0 0 (callLog hf fl s q sink).1 with
      | none => (applyEvs hf sink (callLog hf fl s q sink).1, (callLog hf fl s q sink).2)
      | some pre => (applyEvs hf sink pre, injected) := by
  unfold decodeRangesF callLog
  exact faux_eq ..

end Bao.FaultL
