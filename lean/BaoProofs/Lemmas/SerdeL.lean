import BaoModel.Serde

/-!
# Helper lemmas for C19: the codecs of `BaoModel/Serde.lean` are inverse to each other

Every reader lemma is stated for an arbitrary suffix `rest`, so that the codecs compose.
-/

namespace Bao.SerdeL
open Bao.Serde

/-! ## postcard: varint -/

theorem toNat_ofNat_lt {n : Nat} (h : n < 256) : (UInt8.ofNat n).toNat = n := by
  rw [UInt8.toNat_ofNat']; exact Nat.mod_eq_of_lt h

theorem varint_arith (acc q r p : Nat) :
    acc + r * p + q * (p * 128) = acc + (128 * q + r) * p := by
  rw [Nat.add_mul, Nat.add_assoc]
  congr 1
  rw [Nat.add_comm]; congr 1
  rw [Nat.mul_comm 128 q, Nat.mul_assoc, Nat.mul_comm 128 p]

theorem readVarintAux_step_small (fuel n : Nat) (rest : List UInt8) (shift acc : Nat) (hn : n < 128) :
    readVarintAux (fuel + 1) (varintAux (fuel + 1) n ++ rest) shift acc
      = some (acc + n * 2 ^ shift, rest) := by
  have h1 : (UInt8.ofNat n).toNat = n := toNat_ofNat_lt (by omega)
  simp only [varintAux, hn, if_true, List.cons_append, List.nil_append, readVarintAux, h1]

theorem readVarintAux_step_big (fuel n : Nat) (rest : List UInt8) (shift acc : Nat) (hn : ¬ n < 128) :
    readVarintAux (fuel + 1) (varintAux (fuel + 1) n ++ rest) shift acc
      = readVarintAux fuel (varintAux fuel (n / 128) ++ rest) (shift + 7)
          (acc + (n % 128) * 2 ^ shift) := by
  have h1 : (UInt8.ofNat (n % 128 + 128)).toNat = n % 128 + 128 := toNat_ofNat_lt (by omega)
  have h2 : ¬ (n % 128 + 128 < 128) := by omega
  have h4 : n % 128 + 128 - 128 = n % 128 := by omega
  simp only [varintAux, hn, if_false, List.cons_append, readVarintAux, h1, h2, h4]

theorem readVarintAux_varintAux (fuel : Nat) : ∀ (n : Nat) (rest : List UInt8) (shift acc : Nat),
    n < 128 ^ (fuel + 1) →
    readVarintAux (fuel + 1) (varintAux (fuel + 1) n ++ rest) shift acc
      = some (acc + n * 2 ^ shift, rest) := by
  induction fuel with
  | zero => intro n rest shift acc h; exact readVarintAux_step_small 0 n rest shift acc (by omega)
  | succ fuel ih =>
    intro n rest shift acc h
    by_cases hn : n < 128
    · exact readVarintAux_step_small _ n rest shift acc hn
    · have h3 : n / 128 < 128 ^ (fuel + 1) := by
        rw [Nat.pow_succ] at h; omega
      rw [readVarintAux_step_big _ n rest shift acc hn, ih _ _ _ _ h3, Nat.pow_add]
      have h5 : n = 128 * (n / 128) + n % 128 := (Nat.div_add_mod n 128).symm
      have h6 := varint_arith acc (n / 128) (n % 128) (2 ^ shift)
      rw [← h5] at h6
      rw [show (2:Nat) ^ 7 = 128 from rfl, h6]

theorem readVarint_varint (n : Nat) (rest : List UInt8) (h : n < 2 ^ 64) :
    readVarint (varint n ++ rest) = some (n, rest) := by
  unfold readVarint varint
  rw [readVarintAux_varintAux 9 n rest 0 0 (by omega)]
  simp

theorem takeN_append (a rest : List UInt8) (k : Nat) (h : a.length = k) :
    takeN k (a ++ rest) = some (a, rest) := by
  subst h
  simp [takeN]



/-! ## JSON: numbers and byte arrays -/

/-- a byte is an ASCII digit -/
def IsDigit (b : UInt8) : Prop := 48 ≤ b.toNat ∧ b.toNat ≤ 57

/-- `rest` does not start with a digit -/
def NoDigitHead (rest : List UInt8) : Prop := ∀ b ∈ rest.head?, ¬ (48 ≤ b.toNat ∧ b.toNat ≤ 57)

theorem digitsAux_acc (fuel : Nat) : ∀ (n : Nat) (acc : List UInt8),
    digitsAux fuel n acc = digitsAux fuel n [] ++ acc := by
  induction fuel with
  | zero => intro n acc; simp [digitsAux]
  | succ fuel ih =>
    intro n acc
    simp only [digitsAux]
    by_cases h : n < 10
    · simp [h]
    · simp only [h, if_false]
      rw [ih _ (_ :: acc), ih _ [_]]
      simp

theorem digitsAux_succ (fuel n : Nat) :
    digitsAux (fuel + 1) n [] =
      if n < 10 then [UInt8.ofNat (48 + n)]
      else digitsAux fuel (n / 10) [] ++ [UInt8.ofNat (48 + n % 10)] := by
  simp only [digitsAux]
  by_cases h : n < 10
  · simp [h, Nat.mod_eq_of_lt h]
  · simp only [h, if_false]
    rw [digitsAux_acc]

/-- the value read from a digit string, starting from `acc` -/
def digVal (acc : Nat) (ds : List UInt8) : Nat := ds.foldl (fun a b => a * 10 + (b.toNat - 48)) acc

theorem readDigitsAux_digits : ∀ (ds : List UInt8) (fuel : Nat) (rest : List UInt8) (acc : Nat)
    (seen : Bool), (∀ b ∈ ds, IsDigit b) → NoDigitHead rest → ds.length < fuel →
    (ds ≠ [] ∨ seen = true) →
    readDigitsAux fuel (ds ++ rest) acc seen = some (digVal acc ds, rest) := by
  intro ds
  induction ds with
  | nil =>
    intro fuel rest acc seen _ hr hf hs
    have hs : seen = true := by simpa using hs
    subst hs
    cases fuel with
    | zero => simp at hf
    | succ fuel =>
      cases rest with
      | nil => simp [readDigitsAux, digVal]
      | cons b rest =>
        have : ¬ (48 ≤ b.toNat ∧ b.toNat ≤ 57) := hr b (by simp)
        simp [readDigitsAux, digVal, this]
  | cons d ds ih =>
    intro fuel rest acc seen hd hr hf _
    cases fuel with
    | zero => simp at hf
    | succ fuel =>
      have h1 : 48 ≤ d.toNat ∧ d.toNat ≤ 57 := hd d (by simp)
      simp only [List.cons_append, readDigitsAux, h1, and_self, if_true]
      rw [ih fuel rest _ true (fun b hb => hd b (by simp [hb])) hr (by simpa using hf) (Or.inr rfl)]
      simp [digVal]

theorem digits_spec (fuel : Nat) : ∀ n, n < 10 ^ fuel → 0 < fuel →
    (∀ b ∈ digitsAux fuel n [], IsDigit b) ∧ (digitsAux fuel n []).length ≤ fuel ∧
    digitsAux fuel n [] ≠ [] ∧ digVal 0 (digitsAux fuel n []) = n := by
  induction fuel with
  | zero => intro n _ h; omega
  | succ fuel ih =>
    intro n hn _
    rw [digitsAux_succ]
    by_cases h : n < 10
    · have h1 : (UInt8.ofNat (48 + n)).toNat = 48 + n := toNat_ofNat_lt (by omega)
      simp only [h, if_true]
      refine ⟨?_, by simp, by simp, ?_⟩
      · intro b hb
        have : b = UInt8.ofNat (48 + n) := by simpa using hb
        subst this
        simp only [IsDigit, h1]; omega
      · simp only [digVal, List.foldl_cons, List.foldl_nil, h1]; omega
    · simp only [h, if_false]
      have hf : 0 < fuel := by
        cases fuel with
        | zero => simp at hn; omega
        | succ f => omega
      have h3 : n / 10 < 10 ^ fuel := by rw [Nat.pow_succ] at hn; omega
      obtain ⟨a1, a2, a3, a4⟩ := ih (n / 10) h3 hf
      have h1 : (UInt8.ofNat (48 + n % 10)).toNat = 48 + n % 10 := toNat_ofNat_lt (by omega)
      refine ⟨?_, by simp; omega, by simp, ?_⟩
      · intro b hb
        rcases List.mem_append.1 hb with hb | hb
        · exact a1 b hb
        · have : b = UInt8.ofNat (48 + n % 10) := by simpa using hb
          subst this
          simp only [IsDigit, h1]; omega
      · unfold digVal at a4 ⊢
        rw [List.foldl_append, a4]
        simp only [List.foldl_cons, List.foldl_nil, h1]
        omega

theorem jsReadNat_jsNat_of_lt (n : Nat) (rest : List UInt8) (h : n < 10 ^ 20)
    (hr : NoDigitHead rest) : jsReadNat (jsNat n ++ rest) = some (n, rest) := by
  obtain ⟨a1, a2, a3, a4⟩ := digits_spec 20 n h (by decide)
  unfold jsReadNat jsNat
  rw [readDigitsAux_digits _ 21 rest 0 false a1 hr (by omega) (Or.inl a3), a4]

theorem jsReadNat_jsNat (n : Nat) (rest : List UInt8) (h : n < 2 ^ 64)
    (hr : NoDigitHead rest) : jsReadNat (jsNat n ++ rest) = some (n, rest) :=
  jsReadNat_jsNat_of_lt n rest (by omega) hr


theorem noDigitHead_nil : NoDigitHead [] := by simp [NoDigitHead]

theorem noDigitHead_cons (b : UInt8) (x : List UInt8) (h : ¬ (48 ≤ b.toNat ∧ b.toNat ≤ 57)) :
    NoDigitHead (b :: x) := by
  intro c hc
  have : b = c := by simpa using hc
  subst this; exact h

theorem str_comma : str "," = [44] := by decide
theorem str_lbrack : str "[" = [91] := by decide
theorem str_rbrack : str "]" = [93] := by decide
theorem str_rbrace : str "}" = [125] := by decide
theorem str_quote : str "\"" = [34] := by decide

theorem jsReadNat_byte (x : UInt8) (rest : List UInt8) (hr : NoDigitHead rest) :
    jsReadNat (jsNat x.toNat ++ rest) = some (x.toNat, rest) :=
  jsReadNat_jsNat _ _ (by have := x.toNat_lt; omega) hr

theorem jsReadBytesAux_spec : ∀ (xs : List UInt8) (x : UInt8) (fuel : Nat) (rest acc : List UInt8),
    xs.length < fuel →
    jsReadBytesAux fuel (jsNat x.toNat ++ ((xs.flatMap fun y => str "," ++ jsNat y.toNat)
      ++ (str "]" ++ rest))) acc = some (acc.reverse ++ x :: xs, rest) := by
  intro xs
  induction xs with
  | nil =>
    intro x fuel rest acc hf
    cases fuel with
    | zero => simp at hf
    | succ fuel =>
      have hx : ¬ (x.toNat ≥ 256) := by have := x.toNat_lt; omega
      simp only [List.flatMap_nil, List.nil_append, str_rbrack, List.cons_append, jsReadBytesAux,
        jsReadNat_byte x (93 :: rest) (noDigitHead_cons _ _ (by decide)), hx, if_false,
        UInt8.ofNat_toNat, List.reverse_cons]
  | cons y ys ih =>
    intro x fuel rest acc hf
    cases fuel with
    | zero => simp at hf
    | succ fuel =>
      have hx : ¬ (x.toNat ≥ 256) := by have := x.toNat_lt; omega
      simp only [List.flatMap_cons, str_comma, List.append_assoc, List.cons_append,
        List.nil_append, jsReadBytesAux,
        jsReadNat_byte x (44 :: _) (noDigitHead_cons _ _ (by decide)), hx, if_false,
        UInt8.ofNat_toNat]
      have := ih y fuel rest (x :: acc) (by simpa using hf)
      simp only [str_comma, List.cons_append, List.nil_append] at this
      rw [this]
      simp

theorem digitsAux_ne_nil (fuel n : Nat) : digitsAux (fuel + 1) n [] ≠ [] := by
  rw [digitsAux_succ]; split <;> simp

theorem jsNat_head_digit (n : Nat) (h : n < 10 ^ 20) :
    ∃ d tl, jsNat n = d :: tl ∧ IsDigit d := by
  obtain ⟨a1, _, a3, _⟩ := digits_spec 20 n h (by decide)
  unfold jsNat
  cases hd : digitsAux 20 n [] with
  | nil => exact absurd hd a3
  | cons d tl => exact ⟨d, tl, rfl, a1 d (by simp [hd])⟩

theorem flatMap_length_ge (xs : List UInt8) (g : UInt8 → List UInt8)
    (hg : ∀ y, 1 ≤ (g y).length) : xs.length ≤ (xs.flatMap g).length := by
  induction xs with
  | nil => simp
  | cons y ys ih => simp only [List.flatMap_cons, List.length_append, List.length_cons]; have := hg y; omega

theorem jsReadBytes_jsBytes (b rest : List UInt8) :
    jsReadBytes (jsBytes b ++ rest) = some (b, rest) := by
  cases b with
  | nil => simp [jsBytes, jsReadBytes, str_lbrack, str_rbrack]
  | cons x xs =>
    obtain ⟨d, tl, hd, hdig⟩ := jsNat_head_digit x.toNat (by have := x.toNat_lt; omega)
    have hne : d ≠ 93 := by
      intro h; subst h; exact absurd hdig (by unfold IsDigit; decide)
    have hspec := jsReadBytesAux_spec xs x
      ((jsNat x.toNat ++ ((xs.flatMap fun y => str "," ++ jsNat y.toNat)
        ++ (str "]" ++ rest))).length + 1) rest [] (by
        have := flatMap_length_ge xs (fun y => str "," ++ jsNat y.toNat) (by
          intro y; simp [str_comma])
        simp only [List.length_append]; omega)
    simp only [jsBytes, str_lbrack, List.append_assoc, List.cons_append, List.nil_append]
    rw [hd] at hspec ⊢
    simp only [List.cons_append] at hspec ⊢
    unfold jsReadBytes
    split
    · rename_i heq
      simp only [List.cons.injEq, true_and] at heq
      exact absurd heq.1 hne
    · rename_i heq
      simp only [List.cons.injEq, true_and] at heq
      subst heq
      simpa using hspec
    · rename_i h1 h2
      exact absurd rfl (h2 _)

/-! ## JSON: strings -/

theorem esc_quote : jsEscape 34 = [92, 34] := by decide
theorem esc_bslash : jsEscape 92 = [92, 92] := by decide
theorem esc_b : jsEscape 8 = [92, 98] := by decide
theorem esc_f : jsEscape 12 = [92, 102] := by decide
theorem esc_n : jsEscape 10 = [92, 110] := by decide
theorem esc_r : jsEscape 13 = [92, 114] := by decide
theorem esc_t : jsEscape 9 = [92, 116] := by decide

theorem str_u00 : str "\\u00" = [92, 117, 48, 48] := by decide

theorem hex_spec : ∀ n, n < 32 →
    unhex (hexd (n / 16)) = some (n / 16) ∧ unhex (hexd (n % 16)) = some (n % 16) := by decide

theorem esc_ctrl (b : UInt8) (h : b.toNat < 32) (h8 : b ≠ 8) (h12 : b ≠ 12) (h10 : b ≠ 10)
    (h13 : b ≠ 13) (h9 : b ≠ 9) :
    jsEscape b = [92, 117, 48, 48, hexd (b.toNat / 16), hexd (b.toNat % 16)] := by
  have h34 : b ≠ 34 := by intro h'; subst h'; simp at h
  have h92 : b ≠ 92 := by intro h'; subst h'; simp at h
  simp [jsEscape, h, h8, h12, h10, h13, h9, h34, h92, str_u00]

theorem esc_plain (b : UInt8) (h : ¬ b.toNat < 32) (h34 : b ≠ 34) (h92 : b ≠ 92) :
    jsEscape b = [b] := by
  have h8 : b ≠ 8 := by intro h'; subst h'; simp at h
  have h12 : b ≠ 12 := by intro h'; subst h'; simp at h
  have h10 : b ≠ 10 := by intro h'; subst h'; simp at h
  have h13 : b ≠ 13 := by intro h'; subst h'; simp at h
  have h9 : b ≠ 9 := by intro h'; subst h'; simp at h
  simp [jsEscape, h, h8, h12, h10, h13, h9, h34, h92]

theorem read_step (b : UInt8) (fuel : Nat) (tail acc : List UInt8) :
    jsReadStringAux (fuel + 1) (jsEscape b ++ tail) acc = jsReadStringAux fuel tail (b :: acc) := by
  by_cases h34 : b = 34
  · subst h34; rw [esc_quote]; simp [jsReadStringAux]
  by_cases h92 : b = 92
  · subst h92; rw [esc_bslash]; simp [jsReadStringAux]
  by_cases h8 : b = 8
  · subst h8; rw [esc_b]; simp [jsReadStringAux]
  by_cases h12 : b = 12
  · subst h12; rw [esc_f]; simp [jsReadStringAux]
  by_cases h10 : b = 10
  · subst h10; rw [esc_n]; simp [jsReadStringAux]
  by_cases h13 : b = 13
  · subst h13; rw [esc_r]; simp [jsReadStringAux]
  by_cases h9 : b = 9
  · subst h9; rw [esc_t]; simp [jsReadStringAux]
  by_cases hc : b.toNat < 32
  · rw [esc_ctrl b hc h8 h12 h10 h13 h9]
    obtain ⟨u1, u2⟩ := hex_spec b.toNat hc
    have : 16 * (b.toNat / 16) + b.toNat % 16 = b.toNat := by omega
    simp [jsReadStringAux, u1, u2, this]
  · rw [esc_plain b hc h34 h92]
    simp only [List.cons_append, List.nil_append]
    conv => lhs; unfold jsReadStringAux
    split
    · simp at *
    · rename_i heq; simp only [List.cons.injEq] at heq; exact absurd heq.1 h34
    · rename_i heq; simp only [List.cons.injEq] at heq; exact absurd heq.1 h92
    · rename_i heq; simp only [List.cons.injEq] at heq
      obtain ⟨e1, e2⟩ := heq; subst e1 e2; simp [hc]


theorem jsEscape_length_pos (b : UInt8) : 1 ≤ (jsEscape b).length := by
  unfold jsEscape
  repeat' split
  all_goals first | decide | simp

theorem jsReadStringAux_spec : ∀ (t : List UInt8) (fuel : Nat) (rest acc : List UInt8),
    t.length < fuel →
    jsReadStringAux fuel (t.flatMap jsEscape ++ (34 :: rest)) acc = some (acc.reverse ++ t, rest) := by
  intro t
  induction t with
  | nil =>
    intro fuel rest acc hf
    cases fuel with
    | zero => simp at hf
    | succ fuel => simp [jsReadStringAux]
  | cons b t ih =>
    intro fuel rest acc hf
    cases fuel with
    | zero => simp at hf
    | succ fuel =>
      rw [List.flatMap_cons, List.append_assoc, read_step, ih fuel rest (b :: acc) (by simpa using hf)]
      simp

theorem jsReadString_jsString (t rest : List UInt8) :
    jsReadString (jsString t ++ rest) = some (t, rest) := by
  have hlen := flatMap_length_ge t jsEscape jsEscape_length_pos
  have := jsReadStringAux_spec t ((t.flatMap jsEscape ++ (34 :: rest)).length + 1) rest []
    (by simp only [List.length_append]; omega)
  simp only [jsString, show str "\"" = [34] from by decide, List.append_assoc, List.cons_append,
    List.nil_append, jsReadString]
  simpa using this

/-! ## well-formedness of wire values -/

/-- `Parent`: the node id is a u64, both hashes are 32 bytes -/
def ParentWF (p : ParentV) : Prop := p.node < 2 ^ 64 ∧ p.l.length = 32 ∧ p.r.length = 32
/-- `Leaf`: the offset is a u64 -/
def LeafWF (l : LeafV) : Prop := l.offset < 2 ^ 64
/-- `EncodeError`: every node id / chunk number is a u64 -/
def EncErrWF : EncErrV → Prop
  | .parentHashMismatch n => n < 2 ^ 64
  | .leafHashMismatch n => n < 2 ^ 64
  | .parentWrite n => n < 2 ^ 64
  | .leafWrite n => n < 2 ^ 64
  | .sizeMismatch => True
  | .io _ => True
def ContentWF : ContentV → Prop
  | .parent p => ParentWF p
  | .leaf l => LeafWF l
def EncItemWF : EncItemV → Prop
  | .size n => n < 2 ^ 64
  | .parent p => ParentWF p
  | .leaf l => LeafWF l
  | .error e => EncErrWF e
  | .done => True

/-- the length of a byte sequence is a `usize` (needed only by the length-prefixed format) -/
def LeafLen (l : LeafV) : Prop := l.data.length < 2 ^ 64
def EncErrLen : EncErrV → Prop
  | .io t => t.length < 2 ^ 64
  | _ => True
def ContentLen : ContentV → Prop
  | .leaf l => LeafLen l
  | _ => True
def EncItemLen : EncItemV → Prop
  | .leaf l => LeafLen l
  | .error e => EncErrLen e
  | _ => True

/-! ## postcard: composite values -/

theorem pcReadParent_pcParent (p : ParentV) (rest : List UInt8) (h : ParentWF p) :
    pcReadParent (pcParent p ++ rest) = some (p, rest) := by
  unfold pcReadParent pcParent
  simp only [List.append_assoc, readVarint_varint 3 _ (by decide), readVarint_varint _ _ h.1,
    takeN_append _ _ _ h.2.1, takeN_append _ _ _ h.2.2,
    Option.bind_eq_bind, Option.bind_some, Nat.lt_irrefl, if_false]
  rfl

theorem pcReadLeaf_pcLeaf (l : LeafV) (rest : List UInt8) (ho : LeafWF l) (hd : LeafLen l) :
    pcReadLeaf (pcLeaf l ++ rest) = some (l, rest) := by
  unfold pcReadLeaf pcLeaf
  simp only [List.append_assoc, readVarint_varint _ _ ho, readVarint_varint _ _ hd,
    takeN_append _ _ _ rfl, Option.bind_eq_bind, Option.bind_some]
  rfl

theorem pcReadEncErr_pcEncErr (e : EncErrV) (rest : List UInt8) (h : EncErrWF e)
    (hl : EncErrLen e) : pcReadEncErr (pcEncErr e ++ rest) = some (e, rest) := by
  cases e with
  | parentHashMismatch n =>
    simp only [pcReadEncErr, pcEncErr, List.append_assoc, readVarint_varint 0 _ (by decide),
      readVarint_varint n _ h, Option.bind_eq_bind, Option.bind_some]; rfl
  | leafHashMismatch n =>
    simp only [pcReadEncErr, pcEncErr, List.append_assoc, readVarint_varint 1 _ (by decide),
      readVarint_varint n _ h, Option.bind_eq_bind, Option.bind_some]; rfl
  | parentWrite n =>
    simp only [pcReadEncErr, pcEncErr, List.append_assoc, readVarint_varint 2 _ (by decide),
      readVarint_varint n _ h, Option.bind_eq_bind, Option.bind_some]; rfl
  | leafWrite n =>
    simp only [pcReadEncErr, pcEncErr, List.append_assoc, readVarint_varint 3 _ (by decide),
      readVarint_varint n _ h, Option.bind_eq_bind, Option.bind_some]; rfl
  | sizeMismatch =>
    simp only [pcReadEncErr, pcEncErr, readVarint_varint 4 _ (by decide),
      Option.bind_eq_bind, Option.bind_some]; rfl
  | io t =>
    simp only [pcReadEncErr, pcEncErr, List.append_assoc, readVarint_varint 5 _ (by decide),
      readVarint_varint t.length _ hl, takeN_append _ _ _ rfl,
      Option.bind_eq_bind, Option.bind_some]; rfl

theorem pcReadContent_pcContent (c : ContentV) (rest : List UInt8) (h : ContentWF c)
    (hl : ContentLen c) : pcReadContent (pcContent c ++ rest) = some (c, rest) := by
  cases c with
  | parent p =>
    simp only [pcReadContent, pcContent, List.append_assoc, readVarint_varint 0 _ (by decide),
      pcReadParent_pcParent p rest h, Option.bind_eq_bind, Option.bind_some]; rfl
  | leaf l =>
    simp only [pcReadContent, pcContent, List.append_assoc, readVarint_varint 1 _ (by decide),
      pcReadLeaf_pcLeaf l rest h hl, Option.bind_eq_bind, Option.bind_some]; rfl

theorem pcReadEncItem_pcEncItem (c : EncItemV) (rest : List UInt8) (h : EncItemWF c)
    (hl : EncItemLen c) : pcReadEncItem (pcEncItem c ++ rest) = some (c, rest) := by
  cases c with
  | size n =>
    simp only [pcReadEncItem, pcEncItem, List.append_assoc, readVarint_varint 0 _ (by decide),
      readVarint_varint n _ h, Option.bind_eq_bind, Option.bind_some]; rfl
  | parent p =>
    simp only [pcReadEncItem, pcEncItem, List.append_assoc, readVarint_varint 1 _ (by decide),
      pcReadParent_pcParent p rest h, Option.bind_eq_bind, Option.bind_some]; rfl
  | leaf l =>
    simp only [pcReadEncItem, pcEncItem, List.append_assoc, readVarint_varint 2 _ (by decide),
      pcReadLeaf_pcLeaf l rest h hl, Option.bind_eq_bind, Option.bind_some]; rfl
  | error e =>
    simp only [pcReadEncItem, pcEncItem, List.append_assoc, readVarint_varint 3 _ (by decide),
      pcReadEncErr_pcEncErr e rest h hl, Option.bind_eq_bind, Option.bind_some]; rfl
  | done =>
    simp only [pcReadEncItem, pcEncItem, readVarint_varint 4 _ (by decide),
      Option.bind_eq_bind, Option.bind_some]; rfl

/-! ## JSON: literals -/

theorem expect_append (lit rest : List UInt8) : expect lit (lit ++ rest) = some rest := by
  simp [expect]

/-- two literals that differ inside their common length: `expect` of one fails on anything that
starts with the other -/
theorem expect_none (lit pre x : List UInt8)
    (h : pre.take (min pre.length lit.length) ≠ lit.take (min pre.length lit.length)) :
    expect lit (pre ++ x) = none := by
  unfold expect
  split
  · rename_i heq
    exfalso; apply h
    have heq : List.take lit.length (pre ++ x) = lit := by simpa using heq
    have h2 := congrArg (List.take (min pre.length lit.length)) heq
    rw [List.take_take, List.take_append_of_le_length (by omega)] at h2
    rw [← h2]
    congr 1; omega
  · rfl

theorem noDigitHead_lit (s : String) (x : List UInt8) (c : UInt8)
    (hs : (str s).head? = some c) (hc : ¬ (48 ≤ c.toNat ∧ c.toNat ≤ 57)) :
    NoDigitHead (str s ++ x) := by
  cases hl : str s with
  | nil => rw [hl] at hs; simp at hs
  | cons d tl =>
    rw [hl] at hs
    have : d = c := by simpa using hs
    subst this; exact noDigitHead_cons _ _ hc

/-! ## JSON: composite values -/

theorem jsReadParent_jsParent (p : ParentV) (rest : List UInt8) (h : ParentWF p) :
    jsReadParent (jsParent p ++ rest) = some (p, rest) := by
  unfold jsReadParent jsParent
  simp only [List.append_assoc, expect_append, Option.bind_eq_bind, Option.bind_some,
    jsReadNat_jsNat _ _ h.1 (noDigitHead_lit "," _ 44 (by decide) (by decide)),
    jsReadBytes_jsBytes, h.2.1, h.2.2]
  rfl

theorem jsReadLeaf_jsLeaf (l : LeafV) (rest : List UInt8) (h : LeafWF l) :
    jsReadLeaf (jsLeaf l ++ rest) = some (l, rest) := by
  unfold jsReadLeaf jsLeaf
  simp only [List.append_assoc, expect_append, Option.bind_eq_bind, Option.bind_some,
    jsReadNat_jsNat _ _ h (noDigitHead_lit ",\"data\":" _ 44 (by decide) (by decide)),
    jsReadBytes_jsBytes]
  rfl


/-- the opening of an externally tagged enum variant, `{"Tag":` -/
def tagLit (tag : String) : List UInt8 := str "{\"" ++ str tag ++ str "\":"

theorem jsTagged_append (tag : String) (body rest : List UInt8) :
    jsTagged tag body ++ rest = tagLit tag ++ (body ++ (str "}" ++ rest)) := by
  simp [jsTagged, tagLit]

theorem jsReadTaggedNat_ok (tag : String) (n : Nat) (rest : List UInt8) (h : n < 2 ^ 64) :
    jsReadTaggedNat tag (tagLit tag ++ (jsNat n ++ (str "}" ++ rest))) = some (n, rest) := by
  unfold jsReadTaggedNat
  rw [show str "{\"" ++ str tag ++ str "\":" = tagLit tag from rfl]
  simp only [expect_append, Option.bind_eq_bind, Option.bind_some,
    jsReadNat_jsNat _ _ h (noDigitHead_lit "}" _ 125 (by decide) (by decide))]
  rfl

theorem jsReadTaggedNat_none (tag : String) (pre x : List UInt8)
    (h : pre.take (min pre.length (tagLit tag).length)
      ≠ (tagLit tag).take (min pre.length (tagLit tag).length)) :
    jsReadTaggedNat tag (pre ++ x) = none := by
  unfold jsReadTaggedNat
  rw [show str "{\"" ++ str tag ++ str "\":" = tagLit tag from rfl, expect_none _ _ _ h]
  rfl

theorem jsReadEncErr_jsEncErr (e : EncErrV) (rest : List UInt8) (h : EncErrWF e) :
    jsReadEncErr (jsEncErr e ++ rest) = some (e, rest) := by
  unfold jsReadEncErr
  cases e with
  | parentHashMismatch n =>
    simp only [jsEncErr, jsTagged_append, jsReadTaggedNat_ok _ n rest h]
  | leafHashMismatch n =>
    simp only [jsEncErr, jsTagged_append, jsReadTaggedNat_ok _ n rest h,
      jsReadTaggedNat_none "ParentHashMismatch" (tagLit "LeafHashMismatch") _ (by decide)]
  | parentWrite n =>
    simp only [jsEncErr, jsTagged_append, jsReadTaggedNat_ok _ n rest h,
      jsReadTaggedNat_none "ParentHashMismatch" (tagLit "ParentWrite") _ (by decide),
      jsReadTaggedNat_none "LeafHashMismatch" (tagLit "ParentWrite") _ (by decide)]
  | leafWrite n =>
    simp only [jsEncErr, jsTagged_append, jsReadTaggedNat_ok _ n rest h,
      jsReadTaggedNat_none "ParentHashMismatch" (tagLit "LeafWrite") _ (by decide),
      jsReadTaggedNat_none "LeafHashMismatch" (tagLit "LeafWrite") _ (by decide),
      jsReadTaggedNat_none "ParentWrite" (tagLit "LeafWrite") _ (by decide)]
  | sizeMismatch =>
    simp only [jsEncErr, expect_append,
      jsReadTaggedNat_none "ParentHashMismatch" (str "\"SizeMismatch\"") _ (by decide),
      jsReadTaggedNat_none "LeafHashMismatch" (str "\"SizeMismatch\"") _ (by decide),
      jsReadTaggedNat_none "ParentWrite" (str "\"SizeMismatch\"") _ (by decide),
      jsReadTaggedNat_none "LeafWrite" (str "\"SizeMismatch\"") _ (by decide)]
  | io t =>
    simp only [jsEncErr, jsTagged_append,
      jsReadTaggedNat_none "ParentHashMismatch" (tagLit "Io") _ (by decide),
      jsReadTaggedNat_none "LeafHashMismatch" (tagLit "Io") _ (by decide),
      jsReadTaggedNat_none "ParentWrite" (tagLit "Io") _ (by decide),
      jsReadTaggedNat_none "LeafWrite" (tagLit "Io") _ (by decide),
      expect_none (str "\"SizeMismatch\"") (tagLit "Io") _ (by decide)]
    rw [show str "{\"Io\":" = tagLit "Io" from by decide]
    simp only [expect_append, Option.bind_eq_bind, Option.bind_some, jsReadString_jsString]
    rfl


theorem tagLit_Parent : str "{\"Parent\":" = tagLit "Parent" := by decide
theorem tagLit_Leaf : str "{\"Leaf\":" = tagLit "Leaf" := by decide
theorem tagLit_Error : str "{\"Error\":" = tagLit "Error" := by decide

theorem jsReadContent_jsContent (c : ContentV) (rest : List UInt8) (h : ContentWF c) :
    jsReadContent (jsContent c ++ rest) = some (c, rest) := by
  unfold jsReadContent
  rw [tagLit_Parent, tagLit_Leaf]
  cases c with
  | parent p =>
    simp only [jsContent, jsTagged_append, expect_append, jsReadParent_jsParent p _ h,
      Option.bind_eq_bind, Option.bind_some]
    rfl
  | leaf l =>
    simp only [jsContent, jsTagged_append, expect_append, jsReadLeaf_jsLeaf l _ h,
      expect_none (tagLit "Parent") (tagLit "Leaf") _ (by decide),
      Option.bind_eq_bind, Option.bind_some]
    rfl

theorem jsReadEncItem_jsEncItem (c : EncItemV) (rest : List UInt8) (h : EncItemWF c) :
    jsReadEncItem (jsEncItem c ++ rest) = some (c, rest) := by
  unfold jsReadEncItem
  rw [tagLit_Parent, tagLit_Leaf, tagLit_Error]
  cases c with
  | size n =>
    simp only [jsEncItem, jsTagged_append, jsReadTaggedNat_ok _ n rest h]
  | parent p =>
    simp only [jsEncItem, jsTagged_append, expect_append, jsReadParent_jsParent p _ h,
      jsReadTaggedNat_none "Size" (tagLit "Parent") _ (by decide),
      Option.bind_eq_bind, Option.bind_some]
    rfl
  | leaf l =>
    simp only [jsEncItem, jsTagged_append, expect_append, jsReadLeaf_jsLeaf l _ h,
      jsReadTaggedNat_none "Size" (tagLit "Leaf") _ (by decide),
      expect_none (tagLit "Parent") (tagLit "Leaf") _ (by decide),
      Option.bind_eq_bind, Option.bind_some]
    rfl
  | error e =>
    simp only [jsEncItem, jsTagged_append, expect_append, jsReadEncErr_jsEncErr e _ h,
      jsReadTaggedNat_none "Size" (tagLit "Error") _ (by decide),
      expect_none (tagLit "Parent") (tagLit "Error") _ (by decide),
      expect_none (tagLit "Leaf") (tagLit "Error") _ (by decide),
      Option.bind_eq_bind, Option.bind_some]
    rfl
  | done =>
    simp only [jsEncItem, expect_append,
      jsReadTaggedNat_none "Size" (str "\"Done\"") _ (by decide),
      expect_none (tagLit "Parent") (str "\"Done\"") _ (by decide),
      expect_none (tagLit "Leaf") (str "\"Done\"") _ (by decide),
      expect_none (tagLit "Error") (str "\"Done\"") _ (by decide),
      Option.bind_eq_bind, Option.bind_some]
    rfl

theorem ioErrorText_spec (kind msg : List UInt8) :
    kind <+: ioErrorText kind msg ∧ msg <:+ ioErrorText kind msg := by
  unfold ioErrorText
  exact ⟨⟨[58] ++ msg, by simp⟩, ⟨kind ++ [58], rfl⟩⟩

end Bao.SerdeL
