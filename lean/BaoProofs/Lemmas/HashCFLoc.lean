import BaoProofs.Lemmas.HashCF

/-!
# Localised collision freedom

`CollisionFree hf` (global injectivity of the two primitives, `Lemmas/HashCF.lean`) is false of
every function into 32 bytes.  The meaningful hypothesis is LOCAL: injectivity on the finite set of
inputs that are actually evaluated.

* `CollisionFreeOn hf S`   – `hf.eval` is injective on the inputs satisfying `S`
* `evalsOf hf L c b r`     – the list of inputs evaluated by `cvLevel hf L c b r` (top call first,
                             then the left half, then the right half)
* `hashEvals hf c b r`     – the same for `hashSubtree hf c b r`
* `cvInjOn_all` / `cv_inj_on` – the tree hash is injective as soon as `hf` is collision free on the
                             union of the two evaluation lists (same conclusion as `cv_inj`)
-/

namespace Bao

/-- `hf.eval` is injective on the inputs in `S` -/
def CollisionFreeOn {H : Type} (hf : HashFns H) (S : HashIn H → Prop) : Prop :=
  ∀ x y : HashIn H, S x → S y → hf.eval x = hf.eval y → x = y

/-- the inputs evaluated by `cvLevel hf L c b r`: the input of the top call, then (recursively)
those of the two halves -/
def evalsOf {H : Type} (hf : HashFns H) : Nat → Nat → List UInt8 → Bool → List (HashIn H)
  | 0, start, data, isRoot => [.chunk start data isRoot]
  | L + 1, start, data, isRoot =>
    if data.length ≤ 2 ^ L * chunkLen then evalsOf hf L start data isRoot
    else
      .parent
        (cvLevel hf L start (data.take (2 ^ L * chunkLen)) false)
        (cvLevel hf L (start + 2 ^ L) (data.drop (2 ^ L * chunkLen)) false)
        isRoot ::
      (evalsOf hf L start (data.take (2 ^ L * chunkLen)) false ++
        evalsOf hf L (start + 2 ^ L) (data.drop (2 ^ L * chunkLen)) false)

/-- the inputs evaluated by `hashSubtree hf start data isRoot` -/
def hashEvals {H : Type} (hf : HashFns H) (start : Nat) (data : List UInt8) (isRoot : Bool) :
    List (HashIn H) :=
  evalsOf hf 64 start data isRoot

section
variable {H : Type} {hf : HashFns H}

theorem CollisionFree.on (cf : CollisionFree hf) (S : HashIn H → Prop) : CollisionFreeOn hf S :=
  fun x y _ _ h => cf x y h

theorem CollisionFreeOn.mono {S T : HashIn H → Prop} (cf : CollisionFreeOn hf T)
    (h : ∀ x, S x → T x) : CollisionFreeOn hf S :=
  fun x y hx hy e => cf x y (h x hx) (h y hy) e

theorem CollisionFreeOn.chunk_inj {S : HashIn H → Prop} (cf : CollisionFreeOn hf S) {c₁ c₂ : Nat}
    {b₁ b₂ : List UInt8} {r₁ r₂ : Bool} (h1 : S (.chunk c₁ b₁ r₁)) (h2 : S (.chunk c₂ b₂ r₂))
    (h : hf.chunkCv c₁ b₁ r₁ = hf.chunkCv c₂ b₂ r₂) : c₁ = c₂ ∧ b₁ = b₂ ∧ r₁ = r₂ := by
  have := cf (.chunk c₁ b₁ r₁) (.chunk c₂ b₂ r₂) h1 h2 h
  injection this with h1 h2 h3
  exact ⟨h1, h2, h3⟩

theorem CollisionFreeOn.parent_inj {S : HashIn H → Prop} (cf : CollisionFreeOn hf S)
    {l₁ l₂ r₁ r₂ : H} {f₁ f₂ : Bool} (h1 : S (.parent l₁ r₁ f₁)) (h2 : S (.parent l₂ r₂ f₂))
    (h : hf.parentCv l₁ r₁ f₁ = hf.parentCv l₂ r₂ f₂) : l₁ = l₂ ∧ r₁ = r₂ ∧ f₁ = f₂ := by
  have := cf (.parent l₁ r₁ f₁) (.parent l₂ r₂ f₂) h1 h2 h
  injection this with h1 h2 h3
  exact ⟨h1, h2, h3⟩

theorem CollisionFreeOn.chunk_ne_parent {S : HashIn H → Prop} (cf : CollisionFreeOn hf S) {c : Nat}
    {b : List UInt8} {r : Bool} {l₂ r₂ : H} {f₂ : Bool} (h1 : S (.chunk c b r))
    (h2 : S (.parent l₂ r₂ f₂)) (h : hf.chunkCv c b r = hf.parentCv l₂ r₂ f₂) : False := by
  have := cf (.chunk c b r) (.parent l₂ r₂ f₂) h1 h2 h
  injection this

/-! ## unfolding `evalsOf` (twins of the `cvLevel` lemmas of `HashCF.lean`) -/

theorem evalsOf_zero (c : Nat) (b : List UInt8) (r : Bool) :
    evalsOf hf 0 c b r = [.chunk c b r] := rfl

theorem evalsOf_succ_le {L : Nat} {b : List UInt8} (h : b.length ≤ 2 ^ L * 1024) (c : Nat)
    (r : Bool) : evalsOf hf (L + 1) c b r = evalsOf hf L c b r := by
  simp [evalsOf, chunkLen, h]

theorem evalsOf_succ_gt {L : Nat} {b : List UInt8} (h : 2 ^ L * 1024 < b.length) (c : Nat)
    (r : Bool) :
    evalsOf hf (L + 1) c b r =
      .parent (cvLevel hf L c (b.take (2 ^ L * 1024)) false)
        (cvLevel hf L (c + 2 ^ L) (b.drop (2 ^ L * 1024)) false) r ::
      (evalsOf hf L c (b.take (2 ^ L * 1024)) false ++
        evalsOf hf L (c + 2 ^ L) (b.drop (2 ^ L * 1024)) false) := by
  have : ¬ b.length ≤ 2 ^ L * 1024 := by omega
  simp [evalsOf, chunkLen, this]

theorem evalsOf_add {L : Nat} {b : List UInt8} (h : b.length ≤ 2 ^ L * 1024) (c : Nat)
    (r : Bool) (k : Nat) : evalsOf hf (L + k) c b r = evalsOf hf L c b r := by
  induction k with
  | zero => rfl
  | succ k ih =>
    have hp : 2 ^ L ≤ 2 ^ (L + k) := Nat.pow_le_pow_right (by decide) (by omega)
    have : b.length ≤ 2 ^ (L + k) * 1024 := Nat.le_trans h (Nat.mul_le_mul_right 1024 hp)
    rw [← Nat.add_assoc, evalsOf_succ_le this, ih]

/-- level irrelevance of the evaluation list -/
theorem evalsOf_mono {L L' : Nat} {b : List UInt8} (h : b.length ≤ 2 ^ L * 1024) (hL : L ≤ L')
    (c : Nat) (r : Bool) : evalsOf hf L' c b r = evalsOf hf L c b r := by
  obtain ⟨k, rfl⟩ : ∃ k, L' = L + k := ⟨L' - L, by omega⟩
  exact evalsOf_add h c r k

private theorem take_len_le' (b : List UInt8) (n : Nat) : (b.take n).length ≤ n := by
  simp [List.length_take]; omega

private theorem pow_succ_1024' (L : Nat) : 2 ^ (L + 1) * 1024 = 2 ^ L * 1024 + 2 ^ L * 1024 := by
  rw [Nat.pow_succ]; omega

/-- one unfolding step of the evaluation list at the level determined by the length -/
theorem evalsOf_parent {L M N : Nat} {b : List UInt8} (h1 : 2 ^ L * 1024 < b.length)
    (h2 : b.length ≤ 2 ^ (L + 1) * 1024) (hM : L + 1 ≤ M) (hN : L ≤ N) (c : Nat) (r : Bool) :
    evalsOf hf M c b r =
      .parent (cvLevel hf N c (b.take (2 ^ L * 1024)) false)
        (cvLevel hf N (c + 2 ^ L) (b.drop (2 ^ L * 1024)) false) r ::
      (evalsOf hf N c (b.take (2 ^ L * 1024)) false ++
        evalsOf hf N (c + 2 ^ L) (b.drop (2 ^ L * 1024)) false) := by
  rw [evalsOf_mono h2 hM, evalsOf_succ_gt h1]
  have hd : (b.drop (2 ^ L * 1024)).length ≤ 2 ^ L * 1024 := by
    rw [List.length_drop]; have := pow_succ_1024' L; omega
  rw [cvLevel_mono (take_len_le' b _) hN, cvLevel_mono hd hN,
    evalsOf_mono (take_len_le' b _) hN, evalsOf_mono hd hN]

/-- shape of the evaluation list (and of the hash) of data that fits level `M`: a chunk input, or a
parent input followed by the evaluation lists of the two halves -/
theorem evalsOf_shape {M : Nat} {b : List UInt8} (h : b.length ≤ 2 ^ M * 1024) (c : Nat)
    (r : Bool) :
    (b.length ≤ 1024 ∧ cvLevel hf M c b r = hf.chunkCv c b r ∧
      evalsOf hf M c b r = [.chunk c b r]) ∨
    (∃ L, L < M ∧ 2 ^ L * 1024 < b.length ∧ b.length ≤ 2 ^ (L + 1) * 1024 ∧
      cvLevel hf M c b r =
        hf.parentCv (cvLevel hf L c (b.take (2 ^ L * 1024)) false)
          (cvLevel hf L (c + 2 ^ L) (b.drop (2 ^ L * 1024)) false) r ∧
      evalsOf hf M c b r =
        .parent (cvLevel hf L c (b.take (2 ^ L * 1024)) false)
          (cvLevel hf L (c + 2 ^ L) (b.drop (2 ^ L * 1024)) false) r ::
        (evalsOf hf L c (b.take (2 ^ L * 1024)) false ++
          evalsOf hf L (c + 2 ^ L) (b.drop (2 ^ L * 1024)) false)) := by
  by_cases h1 : b.length ≤ 1024
  · left
    refine ⟨h1, ?_, ?_⟩
    · rw [cvLevel_mono (L := 0) (by simpa using h1) (Nat.zero_le _)]
      rfl
    · rw [evalsOf_mono (L := 0) (by simpa using h1) (Nat.zero_le _)]
      rfl
  · right
    obtain ⟨L, hL, ha, hb⟩ := exists_level (by omega) h
    exact ⟨L, hL, ha, hb, cvLevel_parent ha hb (by omega) (Nat.le_refl _) c r,
      evalsOf_parent ha hb (by omega) (Nat.le_refl _) c r⟩

/-- shape of `hashEvals` / `hashSubtree` on data of at most `2^64` chunks -/
theorem hashEvals_shape {b : List UInt8} (h : b.length ≤ 2 ^ 64 * 1024) (c : Nat) (r : Bool) :
    (b.length ≤ 1024 ∧ hashSubtree hf c b r = hf.chunkCv c b r ∧
      hashEvals hf c b r = [.chunk c b r]) ∨
    (∃ L, L < 64 ∧ 2 ^ L * 1024 < b.length ∧ b.length ≤ 2 ^ (L + 1) * 1024 ∧
      hashSubtree hf c b r =
        hf.parentCv (hashSubtree hf c (b.take (2 ^ L * 1024)) false)
          (hashSubtree hf (c + 2 ^ L) (b.drop (2 ^ L * 1024)) false) r ∧
      hashEvals hf c b r =
        .parent (hashSubtree hf c (b.take (2 ^ L * 1024)) false)
          (hashSubtree hf (c + 2 ^ L) (b.drop (2 ^ L * 1024)) false) r ::
        (hashEvals hf c (b.take (2 ^ L * 1024)) false ++
          hashEvals hf (c + 2 ^ L) (b.drop (2 ^ L * 1024)) false)) := by
  by_cases h1 : b.length ≤ 1024
  · left
    refine ⟨h1, hashSubtree_chunk h1 c r, ?_⟩
    unfold hashEvals
    rw [evalsOf_mono (L := 0) (by simpa using h1) (Nat.zero_le _)]
    rfl
  · right
    obtain ⟨L, hL, ha, hb⟩ := exists_level (by omega) h
    exact ⟨L, hL, ha, hb, hashSubtree_parent ha hb hL c r,
      evalsOf_parent ha hb (by omega) (by omega) c r⟩

/-! ## local injectivity of the tree hash -/

/-- `cvLevel hf L` is injective on every pair of arguments on whose evaluation lists `hf` is
collision free -/
def CvInjOn (hf : HashFns H) (L : Nat) : Prop :=
  ∀ (c₁ c₂ : Nat) (b₁ b₂ : List UInt8) (r₁ r₂ : Bool),
    CollisionFreeOn hf (fun x => x ∈ evalsOf hf L c₁ b₁ r₁ ∨ x ∈ evalsOf hf L c₂ b₂ r₂) →
    cvLevel hf L c₁ b₁ r₁ = cvLevel hf L c₂ b₂ r₂ → c₁ = c₂ ∧ b₁ = b₂ ∧ r₁ = r₂

/-- a tree that fits the left half never collides with one that does not -/
private theorem cvInjOn_mixed {L : Nat} (ih : CvInjOn hf L) {c₁ c₂ : Nat}
    {b₁ b₂ : List UInt8} {r₁ r₂ : Bool} (h1 : b₁.length ≤ 2 ^ L * 1024)
    (h2 : 2 ^ L * 1024 < b₂.length)
    (cf : CollisionFreeOn hf
      (fun x => x ∈ evalsOf hf L c₁ b₁ r₁ ∨ x ∈ evalsOf hf (L + 1) c₂ b₂ r₂))
    (h : cvLevel hf L c₁ b₁ r₁ = cvLevel hf (L + 1) c₂ b₂ r₂) : False := by
  rw [cvLevel_succ_gt h2] at h
  have e2 := evalsOf_succ_gt (hf := hf) h2 c₂ r₂
  have hp2 : (HashIn.parent (cvLevel hf L c₂ (b₂.take (2 ^ L * 1024)) false)
      (cvLevel hf L (c₂ + 2 ^ L) (b₂.drop (2 ^ L * 1024)) false) r₂) ∈
      evalsOf hf (L + 1) c₂ b₂ r₂ := by rw [e2]; exact List.mem_cons_self ..
  rcases evalsOf_shape (hf := hf) h1 c₁ r₁ with ⟨_, e, ee⟩ | ⟨L', hL', ha, _, e, ee⟩
  · rw [e] at h
    exact cf.chunk_ne_parent (.inl (by rw [ee]; exact List.mem_singleton_self _)) (.inr hp2) h
  · rw [e] at h
    have hl := (cf.parent_inj (.inl (by rw [ee]; exact List.mem_cons_self ..)) (.inr hp2) h).1
    rw [← cvLevel_mono (L' := L) (take_len_le' b₁ _) (by omega)] at hl
    have hsub : CollisionFreeOn hf (fun x =>
        x ∈ evalsOf hf L c₁ (b₁.take (2 ^ L' * 1024)) false ∨
        x ∈ evalsOf hf L c₂ (b₂.take (2 ^ L * 1024)) false) := by
      apply cf.mono
      intro x hx
      rcases hx with hx | hx
      · left
        rw [ee]
        rw [evalsOf_mono (L' := L) (take_len_le' b₁ _) (by omega)] at hx
        exact List.mem_cons_of_mem _ (List.mem_append_left _ hx)
      · right
        rw [e2]
        exact List.mem_cons_of_mem _ (List.mem_append_left _ hx)
    have hb := (ih _ _ _ _ _ _ hsub hl).2.1
    have hlen := congrArg List.length hb
    simp only [List.length_take] at hlen
    have hp : 2 ^ L' < 2 ^ L := Nat.pow_lt_pow_right (by decide) hL'
    generalize 2 ^ L' = p at *
    generalize 2 ^ L = q at *
    omega

theorem cvInjOn_all : ∀ L, CvInjOn hf L := by
  intro L
  induction L with
  | zero =>
    intro c₁ c₂ b₁ b₂ r₁ r₂ cf h
    exact cf.chunk_inj (.inl (List.mem_singleton_self _)) (.inr (List.mem_singleton_self _)) h
  | succ L ih =>
    intro c₁ c₂ b₁ b₂ r₁ r₂ cf h
    by_cases h1 : b₁.length ≤ 2 ^ L * 1024 <;> by_cases h2 : b₂.length ≤ 2 ^ L * 1024
    · rw [cvLevel_succ_le h1, cvLevel_succ_le h2] at h
      rw [evalsOf_succ_le h1, evalsOf_succ_le h2] at cf
      exact ih _ _ _ _ _ _ cf h
    · rw [cvLevel_succ_le h1] at h
      rw [evalsOf_succ_le h1] at cf
      exact (cvInjOn_mixed ih h1 (by omega) cf h).elim
    · rw [cvLevel_succ_le h2] at h
      rw [evalsOf_succ_le h2] at cf
      exact (cvInjOn_mixed ih h2 (by omega) (cf.mono (fun x hx => hx.symm)) h.symm).elim
    · have g1 : 2 ^ L * 1024 < b₁.length := by omega
      have g2 : 2 ^ L * 1024 < b₂.length := by omega
      rw [cvLevel_succ_gt g1, cvLevel_succ_gt g2] at h
      have e1 := evalsOf_succ_gt (hf := hf) g1 c₁ r₁
      have e2 := evalsOf_succ_gt (hf := hf) g2 c₂ r₂
      obtain ⟨hl, hr, hf'⟩ := cf.parent_inj (.inl (by rw [e1]; exact List.mem_cons_self ..))
        (.inr (by rw [e2]; exact List.mem_cons_self ..)) h
      have cfl : CollisionFreeOn hf (fun x =>
          x ∈ evalsOf hf L c₁ (b₁.take (2 ^ L * 1024)) false ∨
          x ∈ evalsOf hf L c₂ (b₂.take (2 ^ L * 1024)) false) := by
        apply cf.mono
        intro x hx
        rcases hx with hx | hx
        · left; rw [e1]; exact List.mem_cons_of_mem _ (List.mem_append_left _ hx)
        · right; rw [e2]; exact List.mem_cons_of_mem _ (List.mem_append_left _ hx)
      have cfr : CollisionFreeOn hf (fun x =>
          x ∈ evalsOf hf L (c₁ + 2 ^ L) (b₁.drop (2 ^ L * 1024)) false ∨
          x ∈ evalsOf hf L (c₂ + 2 ^ L) (b₂.drop (2 ^ L * 1024)) false) := by
        apply cf.mono
        intro x hx
        rcases hx with hx | hx
        · left; rw [e1]; exact List.mem_cons_of_mem _ (List.mem_append_right _ hx)
        · right; rw [e2]; exact List.mem_cons_of_mem _ (List.mem_append_right _ hx)
      obtain ⟨hc, ht, _⟩ := ih _ _ _ _ _ _ cfl hl
      obtain ⟨_, hd, _⟩ := ih _ _ _ _ _ _ cfr hr
      refine ⟨hc, ?_, hf'⟩
      rw [← List.take_append_drop (2 ^ L * 1024) b₁, ← List.take_append_drop (2 ^ L * 1024) b₂,
        ht, hd]

/-- **the tree hash is injective wherever `hf` is locally collision free**: equal subtree hashes
mean equal position, equal data and equal root flag, provided `hf` has no collision among the
inputs evaluated by the two computations.  (No bound on the data lengths is needed.) -/
theorem cv_inj_on {c₁ c₂ : Nat} {b₁ b₂ : List UInt8} {r₁ r₂ : Bool}
    (cf : CollisionFreeOn hf (fun x => x ∈ hashEvals hf c₁ b₁ r₁ ∨ x ∈ hashEvals hf c₂ b₂ r₂))
    (h : hashSubtree hf c₁ b₁ r₁ = hashSubtree hf c₂ b₂ r₂) : c₁ = c₂ ∧ b₁ = b₂ ∧ r₁ = r₂ :=
  cvInjOn_all 64 _ _ _ _ _ _ cf h

/-- the form for an arbitrary set containing both evaluation lists -/
theorem cv_inj_on' {S : HashIn H → Prop} (cf : CollisionFreeOn hf S) {c₁ c₂ : Nat}
    {b₁ b₂ : List UInt8} {r₁ r₂ : Bool} (h1 : ∀ x ∈ hashEvals hf c₁ b₁ r₁, S x)
    (h2 : ∀ x ∈ hashEvals hf c₂ b₂ r₂, S x)
    (h : hashSubtree hf c₁ b₁ r₁ = hashSubtree hf c₂ b₂ r₂) : c₁ = c₂ ∧ b₁ = b₂ ∧ r₁ = r₂ :=
  cv_inj_on (cf.mono (fun x hx => hx.elim (h1 x) (h2 x))) h

/-- the global hypothesis implies the local conclusion (sanity: `cv_inj` is an instance) -/
theorem cv_inj_of_global (cf : CollisionFree hf) {c₁ c₂ : Nat} {b₁ b₂ : List UInt8} {r₁ r₂ : Bool}
    (h : hashSubtree hf c₁ b₁ r₁ = hashSubtree hf c₂ b₂ r₂) : c₁ = c₂ ∧ b₁ = b₂ ∧ r₁ = r₂ :=
  cv_inj_on (cf.on _) h

/-- the top input of an evaluation list evaluates to the hash -/
theorem evalsOf_head (L c : Nat) (b : List UInt8) (r : Bool) :
    ∃ x rest, evalsOf hf L c b r = x :: rest ∧ hf.eval x = cvLevel hf L c b r := by
  induction L with
  | zero => exact ⟨_, [], rfl, rfl⟩
  | succ L ih =>
    by_cases h : b.length ≤ 2 ^ L * 1024
    · rw [evalsOf_succ_le h, cvLevel_succ_le h]; exact ih
    · have g : 2 ^ L * 1024 < b.length := by omega
      rw [evalsOf_succ_gt g, cvLevel_succ_gt g]
      exact ⟨_, _, rfl, rfl⟩

end

/-! ## deciding local collision freedom on a finite list -/

deriving instance DecidableEq for HashIn

/-- collision freedom on a list, in the bounded-quantifier form that `decide` understands -/
theorem collisionFreeOn_list {H : Type} {hf : HashFns H} {l : List (HashIn H)}
    (h : ∀ x ∈ l, ∀ y ∈ l, hf.eval x = hf.eval y → x = y) :
    CollisionFreeOn hf (fun x => x ∈ l) :=
  fun x y hx hy e => h x hx y hy e

/-- the form for the union of two lists -/
theorem collisionFreeOn_append {H : Type} {hf : HashFns H} {l₁ l₂ : List (HashIn H)}
    (h : ∀ x ∈ l₁ ++ l₂, ∀ y ∈ l₁ ++ l₂, hf.eval x = hf.eval y → x = y) :
    CollisionFreeOn hf (fun x => x ∈ l₁ ∨ x ∈ l₂) :=
  fun x y hx hy e => h x (List.mem_append.2 hx) y (List.mem_append.2 hy) e

/-! ## searching a finite list for a collision -/

/-- the first pair `(x, y)` of `l × l` (row major) with `x ≠ y` and `hf.eval x = hf.eval y` -/
def findCollision {H : Type} [DecidableEq H] (hf : HashFns H) (l : List (HashIn H)) :
    Option (HashIn H × HashIn H) :=
  (l.flatMap fun x => l.map fun y => (x, y)).find?
    fun p => decide (p.1 ≠ p.2) && decide (hf.eval p.1 = hf.eval p.2)

/-- whatever the search returns is a collision inside the list -/
theorem findCollision_some {H : Type} [DecidableEq H] {hf : HashFns H} {l : List (HashIn H)}
    {x y : HashIn H} (h : findCollision hf l = some (x, y)) :
    x ∈ l ∧ y ∈ l ∧ x ≠ y ∧ hf.eval x = hf.eval y := by
  unfold findCollision at h
  have hp := List.find?_some h
  have hm := List.mem_of_find?_eq_some h
  simp only [Bool.and_eq_true, decide_eq_true_eq] at hp
  simp only [List.mem_flatMap, List.mem_map] at hm
  obtain ⟨a, ha, b, hb, hab⟩ := hm
  injection hab with h1 h2
  subst h1 h2
  exact ⟨ha, hb, hp.1, hp.2⟩

/-- the search succeeds as soon as the list contains a collision -/
theorem findCollision_complete {H : Type} [DecidableEq H] {hf : HashFns H} {l : List (HashIn H)}
    {x y : HashIn H} (hx : x ∈ l) (hy : y ∈ l) (hne : x ≠ y) (he : hf.eval x = hf.eval y) :
    ∃ x' y', findCollision hf l = some (x', y') := by
  have : (findCollision hf l).isSome = true := by
    unfold findCollision
    rw [List.find?_isSome]
    refine ⟨(x, y), ?_, ?_⟩
    · simp only [List.mem_flatMap, List.mem_map]
      exact ⟨x, hx, y, hy, rfl⟩
    · simp only [Bool.and_eq_true, decide_eq_true_eq]
      exact ⟨hne, he⟩
  obtain ⟨⟨x', y'⟩, h⟩ := Option.isSome_iff_exists.1 this
  exact ⟨x', y', h⟩

/-! ## a toy instance WITH the 32-byte wire round trip

Hashes are byte strings of length 32, `toBytes` is the identity on them and `ofBytes` its inverse,
so `hrt` and `hlen` hold.  By pigeonhole (`Lemmas/CFUnsat.lean`) such an instance can not be
globally collision free (`toy32_not_cf` shows a collision); it can be collision free on the
finitely many inputs of a concrete run, which `decide` checks. -/

/-- 32-byte strings -/
abbrev H32 : Type := { l : List UInt8 // l.length = 32 }

/-- truncate / zero-pad to 32 bytes -/
def pad32 (l : List UInt8) : H32 :=
  ⟨(l ++ List.replicate 32 0).take 32, by simp [List.length_take]⟩

def flagByte (r : Bool) : UInt8 := if r then 1 else 0

/-- a 16 bit checksum -/
def checksum (b : List UInt8) : Nat := b.foldl (fun a x => (a * 31 + x.toNat) % 65521) 7

/-- a toy hash into 32 bytes (tag, root flag, counter / lengths / checksum of the data, resp. 15
bytes of each child) -/
def toy32 : HashFns H32 where
  chunkCv c b r :=
    pad32 [0, flagByte r, UInt8.ofNat c, UInt8.ofNat b.length, UInt8.ofNat (b.length / 256),
      UInt8.ofNat (checksum b), UInt8.ofNat (checksum b / 256)]
  parentCv l r f := pad32 ([1, flagByte f] ++ l.1.take 15 ++ r.1.take 15)
  ofBytes b := if h : b.length = 32 then ⟨b, h⟩ else pad32 []
  toBytes h := h.1

theorem toy32_len : ∀ h, (toy32.toBytes h).length = 32 := fun h => h.2

theorem toy32_rt : ∀ h, toy32.ofBytes (toy32.toBytes h) = h := by
  intro h
  simp only [toy32, h.2, dite_true]

/-- the toy hash is (of course) not globally collision free: the chunk counter is taken mod 256 -/
theorem toy32_not_cf : ¬ CollisionFree toy32 := by
  intro cf
  have := cf (.chunk 0 [] false) (.chunk 256 [] false) (by decide)
  injection this with h
  exact absurd h (by decide)

end Bao
