import BaoProofs.Lemmas.QueryCanon
import BaoProofs.Lemmas.C01Inv

/-!
# `Spec.itemsI` unfolded along the cases of the recursive plan

`NInv sel L k rs`: the sub-query `rs` handed to the (block-size-0) node `(k, L)` is canonical
(`QInv`), selects on the node's chunk interval exactly what `sel` selects, and the subtree exists.
Under `NInv` the specification `Spec.itemsI … (L + 1) k` takes the same branch as
`PlanPre.planPre size 0 B …  L k rs`; the equations below are one per branch.
-/

set_option maxRecDepth 8192

namespace Bao.DecodeSpec
open Bao Bao.Spec Bao.PlanPre Bao.Ranges Bao.Bits

variable {H : Type}

/-- invariant of the sub-query at node `(k, L)` of the block-size-0 tree -/
structure NInv (size filled : Nat) (sel : Nat → Bool) (L k : Nat) (rs : Ranges) : Prop where
  q : QInv size rs (startOf k L) (endOf k L)
  agree : ∀ c, startOf k L ≤ c → c < endOf k L → sel c = Spec.selected size rs c
  ex : startOf k L < filled

theorem lq_zero (L k : Nat) (rs : Ranges) :
    lq 0 L k rs = (splitInner rs (startOf k L) (midOf k L)).1 := rfl

theorem rq_zero (L k : Nat) (rs : Ranges) :
    rq 0 L k rs = (splitInner rs (startOf k L) (midOf k L)).2 := rfl

section
variable {size filled : Nat} {sel : Nat → Bool}

theorem NInv.start_lt (g : Geo size 0 filled) {L k : Nat} {rs : Ranges}
    (h : NInv size filled sel L k rs) : startOf k L < nChunks size :=
  g.start_lt_nChunks (L := L) h.ex

theorem NInv.skip (g : Geo size 0 filled) {L k : Nat} {rs : Ranges}
    (h : NInv size filled sel (L + 1) k rs) (hge : filled ≤ nodeOf k (L + 1)) :
    NInv size filled sel L (2 * k) rs := by
  have hm : nChunks size ≤ midOf k (L + 1) := g.skip_mid_ge hge
  refine ⟨?_, ?_, ?_⟩
  · rw [startOf_left, endOf_left]; exact h.q.skip hm
  · intro c h1 h2
    rw [startOf_left] at h1; rw [endOf_left] at h2
    exact h.agree c h1 (Nat.lt_trans h2 (midOf_lt_endOf k (L + 1)))
  · rw [startOf_left]; exact h.ex

theorem NInv.left {L k : Nat} {rs : Ranges}
    (h : NInv size filled sel (L + 1) k rs) (hm : midOf k (L + 1) < nChunks size) :
    NInv size filled sel L (2 * k) (lq 0 (L + 1) k rs) := by
  have hsm := startOf_lt_midOf k (L + 1)
  refine ⟨?_, ?_, ?_⟩
  · rw [startOf_left, endOf_left, lq_zero]
    exact h.q.left (m := midOf k (L + 1)) (by omega)
  · intro c h1 h2
    rw [startOf_left] at h1; rw [endOf_left] at h2
    rw [h.agree c h1 (Nat.lt_trans h2 (midOf_lt_endOf k (L + 1))), lq_zero]
    exact (selected_left h.q.wf h1 h2 hm).symm
  · rw [startOf_left]; exact h.ex

theorem NInv.right (g : Geo size 0 filled) {L k : Nat} {rs : Ranges}
    (h : NInv size filled sel (L + 1) k rs) (hlt : nodeOf k (L + 1) < filled) :
    NInv size filled sel L (2 * k + 1) (rq 0 (L + 1) k rs) := by
  have hsm := startOf_lt_midOf k (L + 1)
  have hme := midOf_lt_endOf k (L + 1)
  refine ⟨?_, ?_, g.right_exists hlt⟩
  · rw [startOf_right, endOf_right, rq_zero]
    exact h.q.right (m := midOf k (L + 1)) (by omega)
  · intro c h1 h2
    rw [startOf_right] at h1; rw [endOf_right] at h2
    rw [h.agree c (by omega) h2, rq_zero]
    exact (selected_right h.q.wf h1).symm

/-- a non-empty sub-query selects a chunk of the node -/
theorem NInv.any (g : Geo size 0 filled) {L k : Nat} {rs : Ranges}
    (h : NInv size filled sel L k rs) (hne : rs ≠ []) :
    anySel sel (startOf k L) (min (endOf k L) (nChunks size)) = true := by
  obtain ⟨c, h1, h2, h3⟩ := h.q.witness hne (startOf_lt_endOf k L) (h.start_lt g)
  rw [anySel_eq_true_iff]
  exact ⟨c, h1, h2, by rw [h.agree c h1 (by omega)]; exact h3⟩

theorem NInv.none {L k : Nat} (h : NInv size filled sel L k []) :
    anySel sel (startOf k L) (min (endOf k L) (nChunks size)) = false := by
  rw [anySel_eq_false_iff]
  intro c h1 h2
  rw [h.agree c h1 (by omega), selected_nil]

/-- `is_all` on the canonical sub-query is "every chunk of the node is selected" -/
theorem NInv.all_iff {L k : Nat} {rs : Ranges}
    (h : NInv size filled sel L k rs) (hm : midOf k L < nChunks size) :
    allSel sel (startOf k L) (min (endOf k L) (nChunks size)) = true ↔ rs = [0] := by
  have hsm := startOf_lt_midOf k L
  rw [allSel_eq_true_iff]
  constructor
  · intro hall
    refine h.q.all_of_selected (by omega) (startOf_lt_endOf k L) (fun c h1 h2 => ?_)
    rw [← h.agree c h1 (by omega)]; exact hall c h1 h2
  · rintro rfl c h1 h2
    rw [h.agree c h1 (by omega), selected_all]
    simp only [decide_eq_true_eq]; omega

end

/-! ## the equations -/

section eqs
variable (hf : HashFns H) (d : List UInt8) (B : Nat) (sel : Nat → Bool)

/-- the parent item of node `(k, L)` -/
def parentItem (k L : Nat) : SItem :=
  .parent (nodeOf k L)
    (hf.toBytes (cv hf d (startOf k L) (midOf k L) false) ++
      hf.toBytes (cv hf d (midOf k L) (min (endOf k L) (nChunks d.length)) false))

/-- the leaf item of the whole node `(k, L)` -/
def wholeLeaf (k L : Nat) : SItem :=
  .leaf (startOf k L) (slice d (startOf k L) (min (endOf k L) (nChunks d.length)))

theorem itemsI_succ (L k : Nat) :
    itemsI hf d (nChunks d.length) B sel (L + 1) k =
      if (!anySel sel (startOf k L) (min (endOf k L) (nChunks d.length))) = true then []
      else if midOf k L ≥ nChunks d.length then itemsI hf d (nChunks d.length) B sel L (2 * k)
      else if (allSel sel (startOf k L) (min (endOf k L) (nChunks d.length))
          && decide (L + 1 ≤ B)) = true then [wholeLeaf d k L]
      else parentItem hf d k L ::
        (itemsI hf d (nChunks d.length) B sel L (2 * k) ++
          itemsI hf d (nChunks d.length) B sel L (2 * k + 1)) := rfl

theorem itemsI_zero (j : Nat) :
    itemsI hf d (nChunks d.length) B sel 0 j =
      if sel j = true then [.leaf j (slice d j (j + 1))] else [] := rfl

variable {hf d B sel} {filled : Nat}

theorem items_nil {L k : Nat} (h : NInv d.length filled sel L k []) :
    itemsI hf d (nChunks d.length) B sel (L + 1) k = [] := by
  rw [itemsI_succ, h.none]; rfl

theorem items_skip (g : Geo d.length 0 filled) {L k : Nat} {rs : Ranges}
    (h : NInv d.length filled sel (L + 1) k rs) (hne : rs ≠ [])
    (hge : filled ≤ nodeOf k (L + 1)) :
    itemsI hf d (nChunks d.length) B sel (L + 1 + 1) k
      = itemsI hf d (nChunks d.length) B sel (L + 1) (2 * k) := by
  have hm : nChunks d.length ≤ midOf k (L + 1) := g.skip_mid_ge hge
  rw [itemsI_succ, h.any g hne, if_neg (by simp), if_pos hm]

/-- the node `(k, 0)` whose right chunk lies behind the blob is the single chunk `2k` -/
theorem items_single (g : Geo d.length 0 filled) {k : Nat} {rs : Ranges}
    (h : NInv d.length filled sel 0 k rs) (hne : rs ≠ [])
    (hm : nChunks d.length ≤ midOf k 0) :
    itemsI hf d (nChunks d.length) B sel 1 k = [wholeLeaf d k 0] := by
  have hs := h.start_lt g
  have hany := h.any g hne
  have e1 : startOf k 0 = 2 * k := by rw [startOf_eq]; simp
  have e2 : midOf k 0 = 2 * k + 1 := by rw [midOf_eq]; simp
  have e3 : endOf k 0 = 2 * k + 2 := by rw [endOf_eq]; simp
  have hmin : min (endOf k 0) (nChunks d.length) = 2 * k + 1 := by omega
  rw [itemsI_succ, hany, if_neg (by simp), if_pos hm, itemsI_zero]
  rw [anySel_eq_true_iff] at hany
  obtain ⟨c, h1, h2, h3⟩ := hany
  have : c = 2 * k := by omega
  subst this
  rw [if_pos h3, wholeLeaf, e1, hmin]

theorem items_all {L k : Nat}
    (h : NInv d.length filled sel L k [0]) (hm : midOf k L < nChunks d.length) (hL : L < B) :
    itemsI hf d (nChunks d.length) B sel (L + 1) k = [wholeLeaf d k L] := by
  have hall := (h.all_iff hm).2 rfl
  have hany : anySel sel (startOf k L) (min (endOf k L) (nChunks d.length)) = true := by
    rw [anySel_eq_true_iff]
    rw [allSel_eq_true_iff] at hall
    have := startOf_lt_midOf k L
    have := midOf_lt_endOf k L
    exact ⟨startOf k L, Nat.le_refl _, by omega, hall _ (Nat.le_refl _) (by omega)⟩
  rw [itemsI_succ, hany, if_neg (by simp), if_neg (by omega), hall, if_pos (by simp; omega)]

theorem items_parent (g : Geo d.length 0 filled) {L k : Nat} {rs : Ranges}
    (h : NInv d.length filled sel L k rs) (hne : rs ≠ [])
    (hm : midOf k L < nChunks d.length) (hq : queryLeaf 0 B L rs = false) :
    itemsI hf d (nChunks d.length) B sel (L + 1) k =
      parentItem hf d k L ::
        (itemsI hf d (nChunks d.length) B sel L (2 * k) ++
          itemsI hf d (nChunks d.length) B sel L (2 * k + 1)) := by
  rw [itemsI_succ, h.any g hne, if_neg (by simp), if_neg (by omega), if_neg]
  intro hc
  simp only [Bool.and_eq_true, decide_eq_true_eq] at hc
  have hrs := (h.all_iff hm).1 hc.1
  subst hrs
  unfold queryLeaf at hq
  simp [Ranges.isAll] at hq
  omega

/-- the two chunks below a level-0 node: selected iff the half of the sub-query is non-empty -/
theorem sel_left_chunk {k : Nat} {rs : Ranges}
    (h : NInv d.length filled sel 0 k rs) (hm : midOf k 0 < nChunks d.length) :
    sel (2 * k) = !(lq 0 0 k rs).isEmpty := by
  have e1 : startOf k 0 = 2 * k := by rw [startOf_eq]; simp
  have e2 : midOf k 0 = 2 * k + 1 := by rw [midOf_eq]; simp
  have e3 : endOf k 0 = 2 * k + 2 := by rw [endOf_eq]; simp
  rw [lq_zero]
  have hq : QInv d.length (splitInner rs (startOf k 0) (midOf k 0)).1 (startOf k 0) (midOf k 0) :=
    h.q.left (m := midOf k 0) (by omega)
  have hag : sel (2 * k)
      = Spec.selected d.length (splitInner rs (startOf k 0) (midOf k 0)).1 (2 * k) := by
    rw [h.agree (2 * k) (by omega) (by omega)]
    exact (selected_left h.q.wf (by omega) (by omega) hm).symm
  by_cases hl : (splitInner rs (startOf k 0) (midOf k 0)).1 = []
  · rw [hag, hl, selected_nil]; rfl
  · obtain ⟨c, h1, h2, h3⟩ := hq.witness hl (by omega) (by omega)
    have : c = 2 * k := by omega
    subst this
    rw [hag, h3, isEmpty_eq_false hl]; rfl

theorem sel_right_chunk {k : Nat} {rs : Ranges}
    (h : NInv d.length filled sel 0 k rs) (hm : midOf k 0 < nChunks d.length) :
    sel (2 * k + 1) = !(rq 0 0 k rs).isEmpty := by
  have e1 : startOf k 0 = 2 * k := by rw [startOf_eq]; simp
  have e2 : midOf k 0 = 2 * k + 1 := by rw [midOf_eq]; simp
  have e3 : endOf k 0 = 2 * k + 2 := by rw [endOf_eq]; simp
  rw [rq_zero]
  have hq : QInv d.length (splitInner rs (startOf k 0) (midOf k 0)).2 (midOf k 0) (endOf k 0) :=
    h.q.right (m := midOf k 0) (by omega)
  have hag : sel (2 * k + 1)
      = Spec.selected d.length (splitInner rs (startOf k 0) (midOf k 0)).2 (2 * k + 1) := by
    rw [h.agree (2 * k + 1) (by omega) (by omega)]
    exact (selected_right h.q.wf (by omega)).symm
  by_cases hl : (splitInner rs (startOf k 0) (midOf k 0)).2 = []
  · rw [hag, hl, selected_nil]; rfl
  · obtain ⟨c, h1, h2, h3⟩ := hq.witness hl (by omega) (by omega)
    have : c = 2 * k + 1 := by omega
    subst this
    rw [hag, h3, isEmpty_eq_false hl]; rfl

end eqs

end Bao.DecodeSpec
