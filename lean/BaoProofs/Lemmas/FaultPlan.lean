import BaoProofs.Lemmas.FaultL
import BaoProofs.Lemmas.PlanPreRefine
import BaoProofs.Lemmas.PlanPreShape

/-!
# C10 side condition: an empty leaf of a response plan is the leaf of the empty blob (offset 0)
-/

namespace Bao.FaultPlan

open Bao Bao.Spec Bao.Bits Bao.PlanPre Bao.FaultL

variable {size bs ml filled root : Nat}

/-- the leaf of an existing node is non-empty unless it starts at chunk 0 -/
theorem nodeLeaf_pos (g : Geo size bs filled) {L k : Nat} (hlt : nodeOf k L < filled)
    (hz : min (toBytes (endOf k (L + bs))) size - toBytes (startOf k (L + bs)) = 0) :
    startOf k (L + bs) = 0 := by
  have hs : startOf k L < filled := Nat.lt_of_le_of_lt (startOf_le_nodeOf k L) hlt
  by_cases h0 : startOf k L = 0
  · have hk := (startOf_eq_zero_iff k L).1 h0
    exact (startOf_eq_zero_iff k (L + bs)).2 hk
  · exfalso
    have hb := g.le_blocks
    have h1 := (Offsets.lt_blocks_iff size bs (startOf k L) (by omega)).1 (by omega)
    have e : toBytes (startOf k (L + bs)) = startOf k L * 2 ^ (bs + 10) := by
      unfold toBytes startOf
      rw [show L + bs + 1 = L + 1 + bs by omega, Nat.pow_add 2 (L + 1) bs, Nat.pow_add 2 bs 10]
      simp only [Nat.mul_assoc]
    have h2 : startOf k (L + bs) < endOf k (L + bs) :=
      Nat.lt_trans (startOf_lt_midOf _ _) (midOf_lt_endOf _ _)
    unfold toBytes at hz e
    omega

/-- an empty leaf of a plan starts at chunk 0 -/
theorem leaf_pos (g : Geo size bs filled) (L k : Nat) (rs : Ranges) :
    ∀ s z r x, Chunk.leaf s z r x ∈ planPre size bs ml filled root L k rs → z = 0 → s = 0 := by
  refine planPre_induct (size := size) (bs := bs) (ml := ml) (filled := filled) (root := root)
    (P := fun _ _ _ p => ∀ s z r x, Chunk.leaf s z r x ∈ p → z = 0 → s = 0)
    ?_ ?_ ?_ ?_ ?_ ?_ ?_ L k rs
  · intro L k s z r x h; exact absurd h (by simp)
  · intro k rs _ _ s z r x h; exact absurd h (by simp)
  · intro L k rs _ _ ih; exact ih
  · intro L k rs _ hlt _ s z r x h hz
    simp only [nodeLeaf, List.mem_singleton, Chunk.leaf.injEq] at h
    obtain ⟨rfl, rfl, _, _⟩ := h
    exact nodeLeaf_pos g hlt hz
  · intro k rs _ hlt _ _ s z r x h hz
    simp only [nodeLeaf, List.mem_singleton, Chunk.leaf.injEq] at h
    obtain ⟨rfl, rfl, _, _⟩ := h
    exact nodeLeaf_pos g hlt hz
  · intro k rs _ _ _ hh s z r x h hz
    have h1 := startOf_lt_midOf k bs
    have h2 := midOf_lt_endOf k bs
    unfold toBytes at hh
    rw [List.mem_cons, List.mem_append] at h
    rcases h with h | h | h
    · simp [nodeParent] at h
    · split at h
      · exact absurd h (by simp)
      · simp only [leftLeaf, List.mem_singleton, Chunk.leaf.injEq] at h
        obtain ⟨rfl, rfl, _, _⟩ := h
        unfold toBytes at hz; omega
    · split at h
      · exact absurd h (by simp)
      · simp only [rightLeaf, List.mem_singleton, Chunk.leaf.injEq] at h
        obtain ⟨rfl, rfl, _, _⟩ := h
        unfold toBytes at hz; omega
  · intro L k rs _ _ _ ih1 ih2 s z r x h
    rw [List.mem_cons, List.mem_append] at h
    rcases h with h | h | h
    · simp [nodeParent] at h
    · exact ih1 s z r x h
    · exact ih2 s z r x h

/-- … for the plan of a whole tree -/
theorem plan_leaf_pos (size bs ml : Nat) (q : Ranges) (hs : size ≤ 2 ^ 63) (hbs : bs ≤ 10) :
    ∀ s z r x, Chunk.leaf s z r x ∈ plan ⟨size, bs⟩ ml q → z = 0 → s = 0 :=
  leaf_pos (shifted_geo size bs hs hbs) _ _ _

/-! ## the writes of the decode driver are leaves of the plan its iterator yields -/

variable {H : Type}

theorem dec_next_leaf (hf : HashFns H) [BEq H] (fl : Flavour) (d d' : Dec H) (off : Nat)
    (data : List UInt8) (h : d.next hf fl = .item (.leaf off data) d') :
    ∃ start isRoot rs it', d.iter.next = .item (.leaf start data.length isRoot rs) it' ∧
      off = toBytes start ∧ d'.iter = it' := by
  cases fl
  · simp only [Dec.next, Dec.nextSync, Response.next] at h
    cases hn : d.iter.next with
    | done => simp [hn] at h
    | panic => simp [hn] at h
    | item c it' =>
      rw [hn] at h
      cases c with
      | parent node isRoot left right rs =>
        simp only [Chunk.withoutRanges] at h
        split at h
        · cases h
        · split at h
          · cases h
          · split at h <;> cases h
      | leaf start size isRoot rs =>
        simp only [Chunk.withoutRanges] at h
        cases hr : readExact d.encoded size with
        | error e => simp [hr] at h
        | ok p =>
          obtain ⟨buf, rest⟩ := p
          simp only [hr] at h
          have hlen : buf.length = size := by
            unfold readExact at hr
            split at hr
            · cases hr; simp; omega
            · cases hr
          split at h
          · cases h
          · split at h
            · cases h
            · cases h
              exact ⟨start, isRoot, rs, it', by rw [hlen], rfl, rfl⟩
  · simp only [Dec.next, Dec.nextFsm, Response.next] at h
    cases hn : d.iter.next with
    | done => simp [hn] at h
    | panic => simp [hn] at h
    | item c it' =>
      rw [hn] at h
      cases c with
      | parent node isRoot left right rs =>
        simp only [Chunk.withoutRanges] at h
        split at h
        · cases h
        · split at h
          · cases h
          · split at h <;> cases h
      | leaf start size isRoot rs =>
        simp only [Chunk.withoutRanges] at h
        cases hr : readExact d.encoded size with
        | error e => simp [hr] at h
        | ok p =>
          obtain ⟨buf, rest⟩ := p
          simp only [hr] at h
          have hlen : buf.length = size := by
            unfold readExact at hr
            split at hr
            · cases hr; simp; omega
            · cases hr
          split at h
          · cases h
          · split at h
            · cases h
            · cases h
              exact ⟨start, isRoot, rs, it', by rw [hlen], rfl, rfl⟩

theorem dec_next_parent (hf : HashFns H) [BEq H] (fl : Flavour) (d d' : Dec H) (node : Nat)
    (l r : H) (h : d.next hf fl = .item (.parent node l r) d') :
    ∃ c, d.iter.next = .item c d'.iter := by
  cases fl
  · simp only [Dec.next, Dec.nextSync, Response.next] at h
    cases hn : d.iter.next with
    | done => simp [hn] at h
    | panic => simp [hn] at h
    | item c it' =>
      rw [hn] at h
      cases c with
      | parent node isRoot left right rs =>
        simp only [Chunk.withoutRanges] at h
        split at h
        · cases h
        · split at h
          · cases h
          · split at h
            · cases h
            · cases h; exact ⟨_, rfl⟩
      | leaf start size isRoot rs =>
        simp only [Chunk.withoutRanges] at h
        split at h
        · cases h
        · split at h
          · cases h
          · split at h <;> cases h
  · simp only [Dec.next, Dec.nextFsm, Response.next] at h
    cases hn : d.iter.next with
    | done => simp [hn] at h
    | panic => simp [hn] at h
    | item c it' =>
      rw [hn] at h
      cases c with
      | parent node isRoot left right rs =>
        simp only [Chunk.withoutRanges] at h
        split at h
        · cases h
        · split at h
          · cases h
          · split at h
            · cases h
            · cases h; exact ⟨_, rfl⟩
      | leaf start size isRoot rs =>
        simp only [Chunk.withoutRanges] at h
        split at h
        · cases h
        · split at h
          · cases h
          · split at h <;> cases h

/-- every logged write of the plain driver is `(toBytes start, size)` of a leaf item of the plan
that the decoder's iterator yields with the same fuel -/
theorem writes_in_plan (hf : HashFns H) [BEq H] (fl : Flavour) (tree : Tree) (fuel : Nat)
    (d : Dec H) (sink : Sink H) (p : List Chunk) (hp : PrePartial.run fuel d.iter = some p) :
    ∀ w ∈ (decodeRangesAux hf fl tree fuel d sink [] []).writes,
      ∃ s r x, Chunk.leaf s w.2 r x ∈ p ∧ w.1 = toBytes s := by
  induction fuel generalizing d sink p with
  | zero => simp [decodeRangesAux]
  | succ fuel ih =>
    unfold decodeRangesAux
    cases hn : d.next hf fl with
    | done d' => simp
    | err e d' => simp
    | panic => simp
    | item i d' =>
      cases i with
      | parent node l r =>
        obtain ⟨c, hc⟩ := dec_next_parent hf fl d d' node l r hn
        simp only [PrePartial.run, hc] at hp
        cases hrun : PrePartial.run fuel d'.iter with
        | none => simp [hrun] at hp
        | some p' =>
          simp only [hrun, Option.map_some, Option.some.injEq] at hp
          subst hp
          simp only
          split
          · split
            · rw [aux_acc]
              simp only [List.reverse_nil, List.nil_append]
              intro w hw
              obtain ⟨s, r', x, h1, h2⟩ := ih d' _ p' hrun w hw
              exact ⟨s, r', x, List.mem_cons_of_mem _ h1, h2⟩
            · simp
            · simp
          · intro w hw
            obtain ⟨s, r', x, h1, h2⟩ := ih d' _ p' hrun w hw
            exact ⟨s, r', x, List.mem_cons_of_mem _ h1, h2⟩
      | leaf off data =>
        obtain ⟨start, isRoot, rs, it', hc, hoff, hit⟩ := dec_next_leaf hf fl d d' off data hn
        subst hit
        simp only [PrePartial.run, hc] at hp
        cases hrun : PrePartial.run fuel d'.iter with
        | none => simp [hrun] at hp
        | some p' =>
          simp only [hrun, Option.map_some, Option.some.injEq] at hp
          subst hp
          simp only
          rw [aux_acc]
          simp only [List.reverse_cons, List.reverse_nil, List.nil_append, List.singleton_append,
            List.mem_cons]
          intro w hw
          rcases hw with rfl | hw
          · exact ⟨start, isRoot, rs, Or.inl rfl, hoff⟩
          · obtain ⟨s, r', x, h1, h2⟩ := ih d' _ p' hrun w hw
            exact ⟨s, r', x, Or.inr h1, h2⟩

/-- the hypothesis of `no_fault_eq` holds for every blob size the crate supports -/
theorem decodeRanges_empty_writes (hf : HashFns H) [BEq H] (fl : Flavour) (s : List UInt8)
    (q : Ranges) (sink : Sink H) (hs : sink.ob.tree.size ≤ 2 ^ 63) :
    ∀ w ∈ (decodeRanges hf fl s q sink).writes, w.2 = 0 → w.1 = 0 := by
  intro w hw hz
  unfold decodeRanges at hw
  simp only at hw
  have hrun := new_run_eq sink.ob.tree.size 0 sink.ob.tree.bs
    (Ranges.truncate q sink.ob.tree.size) hs (by omega)
    (PrePartial.fuelFor ⟨sink.ob.tree.size, 0⟩ + 1)
    (by have := plan_length_le ⟨sink.ob.tree.size, 0⟩ sink.ob.tree.bs
          (Ranges.truncate q sink.ob.tree.size)
        unfold PrePartial.fuelFor; omega)
  have hfuel : PrePartial.fuelFor (Dec.new sink.ob.root sink.ob.tree q s).iter.tree =
      PrePartial.fuelFor ⟨sink.ob.tree.size, 0⟩ := by
    simp only [Dec.new, Response.new, PrePartial.new]
  rw [hfuel] at hw
  obtain ⟨st, r, x, hmem, hoff⟩ := writes_in_plan hf fl _ _ _ sink _
    (by simpa [Dec.new, Response.new] using hrun) w hw
  have := plan_leaf_pos sink.ob.tree.size 0 sink.ob.tree.bs _ hs (by omega) st w.2 r x hmem hz
  rw [hoff, this]; rfl

end Bao.FaultPlan
