import BaoModel.U64
import BaoModel.Tree
import BaoModel.Spec

/-!
# Bit-level helper lemmas

Facts about the fuel-driven `u64` helpers of `BaoModel.U64` (`trailingOnes`, `popcount`,
`not64`, `shl64`, `neg64`) and about the three bit tricks of `BaoModel.Tree`
(`x & -x`, `x & (x-1)`, `!(!x << n)`), all phrased through the coordinate bijection

  `x + 1 = (2*k+1) * 2^L`      (`x = Spec.nodeOf k L`).
-/

namespace Bao.Bits

open Bao

/-! ## normal forms -/

theorem two_pow_pos' (L : Nat) : 0 < 2 ^ L := Nat.two_pow_pos L

/-- `(2k+1)·p` in the one syntactic form used for `omega`: `2*(k*p) + p`. -/
theorem odd_mul (k p : Nat) : (2 * k + 1) * p = 2 * (k * p) + p := by
  rw [Nat.add_mul, Nat.mul_assoc, Nat.one_mul]

theorem nodeOf_eq (k L : Nat) : Spec.nodeOf k L = 2 * (k * 2 ^ L) + 2 ^ L - 1 := by
  unfold Spec.nodeOf; rw [odd_mul]

theorem nodeOf_succ (k L : Nat) : Spec.nodeOf k L + 1 = 2 * (k * 2 ^ L) + 2 ^ L := by
  have := two_pow_pos' L
  rw [nodeOf_eq]; omega

theorem nodeOf_succ' (k L : Nat) : Spec.nodeOf k L + 1 = (2 * k + 1) * 2 ^ L := by
  rw [nodeOf_succ, odd_mul]

theorem nodeOf_eq_succ (k L : Nat) :
    Spec.nodeOf k (L + 1) = 4 * (k * 2 ^ L) + 2 * 2 ^ L - 1 := by
  rw [nodeOf_eq, Nat.pow_succ, ← Nat.mul_assoc k]
  generalize 2 ^ L = p
  generalize k * p = q
  omega

/-- binary layout of the id: index bits, a `0`, then `L` ones -/
theorem nodeOf_layout (k L : Nat) : Spec.nodeOf k L = 2 ^ (L + 1) * k + (2 ^ L - 1) := by
  have := two_pow_pos' L
  rw [nodeOf_eq, Nat.pow_succ, Nat.mul_comm k]
  generalize 2 ^ L = p at *
  rw [Nat.mul_assoc, Nat.mul_left_comm p 2 k]
  omega

/-- binary layout of `id + 1`: index bits, a `1`, then `L` zeros -/
theorem nodeOf_succ_layout (k L : Nat) : Spec.nodeOf k L + 1 = 2 ^ (L + 1) * k + 2 ^ L := by
  have := two_pow_pos' L
  rw [nodeOf_layout]; omega

theorem startOf_eq (k L : Nat) : Spec.startOf k L = 2 * (k * 2 ^ L) := by
  unfold Spec.startOf
  rw [Nat.pow_succ, ← Nat.mul_assoc, Nat.mul_comm]

theorem endOf_eq (k L : Nat) : Spec.endOf k L = 2 * (k * 2 ^ L) + 2 * 2 ^ L := by
  unfold Spec.endOf
  rw [Nat.pow_succ, ← Nat.mul_assoc, Nat.add_mul, Nat.one_mul, Nat.add_mul, Nat.mul_comm _ 2,
    Nat.mul_comm _ 2]

theorem midOf_eq (k L : Nat) : Spec.midOf k L = 2 * (k * 2 ^ L) + 2 ^ L := by
  unfold Spec.midOf
  rw [Nat.pow_succ, ← Nat.mul_assoc, Nat.mul_comm _ 2]

/-! ## the coordinate bijection -/

/-- every positive number is an odd number times a power of two -/
theorem odd_pow_decomp (y : Nat) (hy : 0 < y) : ∃ k L, y = (2 * k + 1) * 2 ^ L := by
  induction y using Nat.strongRecOn with
  | _ y ih =>
    by_cases h : y % 2 = 1
    · exact ⟨y / 2, 0, by simp; omega⟩
    · have hlt : y / 2 < y := by omega
      have hpos : 0 < y / 2 := by omega
      obtain ⟨k, L, hk⟩ := ih (y / 2) hlt hpos
      refine ⟨k, L + 1, ?_⟩
      rw [Nat.pow_succ, ← Nat.mul_assoc, ← hk]
      omega

theorem odd_pow_inj {k L k' L' : Nat} (h : (2 * k + 1) * 2 ^ L = (2 * k' + 1) * 2 ^ L') :
    k = k' ∧ L = L' := by
  induction L generalizing L' with
  | zero =>
    cases L' with
    | zero => simp at h; omega
    | succ n =>
      exfalso
      rw [Nat.pow_succ, ← Nat.mul_assoc] at h
      simp at h; omega
  | succ n ih =>
    cases L' with
    | zero =>
      exfalso
      rw [Nat.pow_succ, ← Nat.mul_assoc] at h
      simp at h; omega
    | succ m =>
      rw [Nat.pow_succ, Nat.pow_succ, ← Nat.mul_assoc, ← Nat.mul_assoc] at h
      have h' := Nat.eq_of_mul_eq_mul_right (by decide : 0 < 2) h
      obtain ⟨h1, h2⟩ := ih h'
      exact ⟨h1, by omega⟩

/-! ## bounds -/

/-- an id below `2^64` has level at most 64 -/
theorem level_le_of_lt {k L : Nat} (h : Spec.nodeOf k L < 2 ^ 64) : L ≤ 64 := by
  have hs := nodeOf_succ k L
  have hp := two_pow_pos' L
  have : 2 ^ L ≤ 2 ^ 64 := by
    generalize 2 ^ L = p at *
    generalize k * p = q at *
    omega
  exact (Nat.pow_le_pow_iff_right (by decide : 1 < 2)).mp this

/-- an id below `2^64 - 1` has level at most 63 -/
theorem level_lt_of_succ_lt {k L : Nat} (h : Spec.nodeOf k L + 1 < 2 ^ 64) : L < 64 := by
  have hs := nodeOf_succ k L
  have hp := two_pow_pos' L
  have : 2 ^ L < 2 ^ 64 := by
    generalize 2 ^ L = p at *
    generalize k * p = q at *
    omega
  exact (Nat.pow_lt_pow_iff_right (by decide : 1 < 2)).mp this

/-- if `a·2^L ≤ 2^64` with `a` odd and `L < 64`, then also `(a+1)·2^L ≤ 2^64` -/
theorem odd_mul_pow_bound {a L : Nat} (h : a * 2 ^ L ≤ 2 ^ 64) (hL : L < 64) (hodd : a % 2 = 1) :
    (a + 1) * 2 ^ L ≤ 2 ^ 64 := by
  have e : (2 : Nat) ^ 64 = (2 * 2 ^ (63 - L)) * 2 ^ L := by
    rw [Nat.mul_comm 2, ← Nat.pow_succ, ← Nat.pow_add]
    congr 1; omega
  rw [e] at h ⊢
  have h1 : a ≤ 2 * 2 ^ (63 - L) := Nat.le_of_mul_le_mul_right h (two_pow_pos' L)
  exact Nat.mul_le_mul_right _ (by omega)

/-- index bound: `(2k+1)·2^L < 2^64` gives `k < 2^(63-L)` -/
theorem index_lt {k L : Nat} (h : (2 * k + 1) * 2 ^ L < 2 ^ 64) (hL : L < 64) :
    k < 2 ^ (63 - L) := by
  have e : (2 : Nat) ^ 64 = (2 * 2 ^ (63 - L)) * 2 ^ L := by
    rw [Nat.mul_comm 2, ← Nat.pow_succ, ← Nat.pow_add]
    congr 1; omega
  rw [e] at h
  have h1 : 2 * k + 1 < 2 * 2 ^ (63 - L) := Nat.lt_of_mul_lt_mul_right h
  omega

/-! ## `trailingOnes` -/

theorem trailingOnesAux_nodeOf (k L fuel : Nat) (h : L ≤ fuel) :
    trailingOnesAux fuel (Spec.nodeOf k L) = L := by
  induction L generalizing fuel with
  | zero =>
    cases fuel with
    | zero => rfl
    | succ f =>
      have : Spec.nodeOf k 0 % 2 ≠ 1 := by simp [Spec.nodeOf]
      simp [trailingOnesAux, this]
  | succ n ih =>
    cases fuel with
    | zero => omega
    | succ f =>
      have hp := two_pow_pos' n
      have e1 := nodeOf_eq_succ k n
      have e0 := nodeOf_eq k n
      have hodd : Spec.nodeOf k (n + 1) % 2 = 1 := by
        generalize 2 ^ n = p at *; generalize k * p = q at *; omega
      have hhalf : Spec.nodeOf k (n + 1) / 2 = Spec.nodeOf k n := by
        generalize 2 ^ n = p at *; generalize k * p = q at *; omega
      simp [trailingOnesAux, hodd, hhalf, ih f (by omega)]

theorem trailingOnes_nodeOf {k L : Nat} (h : Spec.nodeOf k L < 2 ^ 64) :
    trailingOnes (Spec.nodeOf k L) = L :=
  trailingOnesAux_nodeOf k L 64 (level_le_of_lt h)

/-! ## `popcount` -/

theorem popcountAux_zero (f : Nat) : popcountAux f 0 = 0 := by
  induction f with
  | zero => rfl
  | succ f ih => simp [popcountAux, ih]

theorem popcountAux_le (f y : Nat) : popcountAux f y ≤ y := by
  induction f generalizing y with
  | zero => simp [popcountAux]
  | succ f ih =>
    have := ih (y / 2)
    simp only [popcountAux]; omega

theorem popcount_le (y : Nat) : popcount y ≤ y := popcountAux_le 64 y

/-- more fuel than bits does not change the count -/
theorem popcountAux_fuel (f d y : Nat) (h : y < 2 ^ f) :
    popcountAux (f + d) y = popcountAux f y := by
  induction f generalizing y with
  | zero =>
    have : y = 0 := by simpa using h
    subst this
    simp [popcountAux_zero, popcountAux]
  | succ f ih =>
    rw [Nat.add_right_comm]
    simp only [popcountAux]
    rw [ih (y / 2) (by rw [Nat.pow_succ] at h; omega)]

theorem popcountAux_two_mul (f y : Nat) : popcountAux (f + 1) (2 * y) = popcountAux f y := by
  simp [popcountAux]

theorem popcountAux_two_mul_add_one (f y : Nat) :
    popcountAux (f + 1) (2 * y + 1) = popcountAux f y + 1 := by
  have : (2 * y + 1) / 2 = y := by omega
  simp [popcountAux, this]; omega

theorem popcountAux_odd_mul_pow (f k L : Nat) :
    popcountAux (f + 1 + L) ((2 * k + 1) * 2 ^ L) = popcountAux f k + 1 := by
  induction L with
  | zero => simpa using popcountAux_two_mul_add_one f k
  | succ n ih =>
    rw [Nat.pow_succ, ← Nat.mul_assoc, Nat.mul_comm _ 2, ← Nat.add_assoc, popcountAux_two_mul, ih]

/-- `count_ones` of `id + 1` is `count_ones(index) + 1` -/
theorem popcount_nodeOf_succ {k L : Nat} (h : Spec.nodeOf k L + 1 < 2 ^ 64) :
    popcount (Spec.nodeOf k L + 1) = popcount k + 1 := by
  have hL := level_lt_of_succ_lt h
  rw [nodeOf_succ'] at h ⊢
  have hk := index_lt h hL
  unfold popcount
  have e : 64 = (63 - L) + 1 + L := by omega
  conv => lhs; rw [e]
  rw [popcountAux_odd_mul_pow]
  have e2 : 64 = (63 - L) + (L + 1) := by omega
  conv => rhs; rw [e2]
  rw [popcountAux_fuel _ _ _ hk]

theorem popcountAux_mul_pow (f k n : Nat) :
    popcountAux (f + n) (k * 2 ^ n) = popcountAux f k := by
  induction n with
  | zero => simp
  | succ m ih =>
    rw [Nat.pow_succ, ← Nat.mul_assoc, Nat.mul_comm _ 2, ← Nat.add_assoc, popcountAux_two_mul, ih]

/-- shifting left inside 64 bits keeps `count_ones` -/
theorem popcount_mul_pow {k n : Nat} (h : k * 2 ^ n < 2 ^ 64) :
    popcount (k * 2 ^ n) = popcount k := by
  by_cases hk : k = 0
  · subst hk; simp
  have hp := two_pow_pos' n
  have hn : n < 64 := by
    have : 1 * 2 ^ n ≤ k * 2 ^ n := Nat.mul_le_mul_right _ (by omega)
    exact (Nat.pow_lt_pow_iff_right (by decide : 1 < 2)).mp (by omega)
  have e : (2 : Nat) ^ 64 = 2 ^ (64 - n) * 2 ^ n := by
    rw [← Nat.pow_add]; congr 1; omega
  rw [e] at h
  have hk' : k < 2 ^ (64 - n) := Nat.lt_of_mul_lt_mul_right h
  unfold popcount
  have e1 : 64 = (64 - n) + n := by omega
  conv => lhs; rw [e1]
  conv => rhs; rw [e1]
  rw [popcountAux_mul_pow, popcountAux_fuel _ _ _ hk']

theorem popcount_startOf {k L : Nat} (h : Spec.startOf k L < 2 ^ 64) :
    popcount (Spec.startOf k L) = popcount k := popcount_mul_pow h

/-! ## the bit tricks -/

/-- `y & (y-1)` with `y = id + 1` clears the lowest set bit: what is left is the start chunk -/
theorem and_pred_nodeOf (k L : Nat) :
    (Spec.nodeOf k L + 1) &&& (Spec.nodeOf k L + 1 - 1) = Spec.startOf k L := by
  have hp := two_pow_pos' L
  have h1 : (2 : Nat) ^ L < 2 ^ (L + 1) := by rw [Nat.pow_succ]; omega
  have h2 : (2 : Nat) ^ L - 1 < 2 ^ (L + 1) := by omega
  have h3 : 0 < (2 : Nat) ^ (L + 1) := two_pow_pos' _
  have es : Spec.startOf k L = 2 ^ (L + 1) * k + 0 := by
    unfold Spec.startOf; rw [Nat.mul_comm]; rfl
  rw [Nat.add_sub_cancel, es]
  conv => lhs; rw [nodeOf_succ_layout, nodeOf_layout]
  apply Nat.eq_of_testBit_eq
  intro j
  rw [Nat.testBit_and, Nat.testBit_two_pow_mul_add k h1, Nat.testBit_two_pow_mul_add k h2,
    Nat.testBit_two_pow_mul_add k h3, Nat.testBit_two_pow, Nat.testBit_two_pow_sub_one]
  by_cases hj : j < L + 1
  · simp only [hj, if_true, Nat.zero_testBit]
    by_cases hjl : L = j
    · subst hjl; simp
    · simp [hjl]
  · simp [hj]

/-- `y & -y` with `y = id + 1 < 2^64` isolates the lowest set bit `2^level` -/
theorem and_neg_nodeOf {k L : Nat} (h : Spec.nodeOf k L + 1 < 2 ^ 64) :
    (Spec.nodeOf k L + 1) &&& neg64 (Spec.nodeOf k L + 1) = 2 ^ L := by
  have hL := level_lt_of_succ_lt h
  have hp := two_pow_pos' L
  have h1 : (2 : Nat) ^ L < 2 ^ (L + 1) := by rw [Nat.pow_succ]; omega
  have h2 : (2 : Nat) ^ L - 1 < 2 ^ (L + 1) := by omega
  have hx : Spec.nodeOf k L < 2 ^ 64 := by omega
  have eneg : neg64 (Spec.nodeOf k L + 1) = 2 ^ 64 - (Spec.nodeOf k L + 1) := by
    unfold neg64 U64
    rw [Nat.mod_eq_of_lt]
    omega
  rw [eneg]
  apply Nat.eq_of_testBit_eq
  intro j
  rw [Nat.testBit_and, Nat.testBit_two_pow_sub_succ hx, Nat.testBit_two_pow]
  rw [nodeOf_succ_layout, nodeOf_layout]
  rw [Nat.testBit_two_pow_mul_add k h1, Nat.testBit_two_pow_mul_add k h2,
    Nat.testBit_two_pow, Nat.testBit_two_pow_sub_one]
  by_cases hj : j < L + 1
  · simp only [hj, if_true]
    by_cases hjl : L = j
    · subst hjl; simp [hL]
    · simp [hjl]
  · simp only [hj, if_false]
    have : ¬ L = j := by omega
    generalize k.testBit (j - (L + 1)) = b
    cases b <;> simp [this]

/-- `!(!x << n)` appends `n` one bits, as long as the result fits in 64 bits -/
theorem not_shl_not {x n : Nat} (h : (x + 1) * 2 ^ n ≤ 2 ^ 64) :
    not64 (shl64 (not64 x) n) = (x + 1) * 2 ^ n - 1 := by
  have hp := two_pow_pos' n
  have hpos : 0 < (x + 1) * 2 ^ n := Nat.mul_pos (by omega) hp
  have hx : x + 1 ≤ 2 ^ 64 := by
    calc x + 1 = (x + 1) * 1 := by omega
      _ ≤ (x + 1) * 2 ^ n := Nat.mul_le_mul_left _ hp
      _ ≤ 2 ^ 64 := h
  unfold not64 shl64 u64Max U64
  rw [Nat.shiftLeft_eq]
  have e1 : 18446744073709551615 - x = 2 ^ 64 - (x + 1) := by omega
  rw [e1, Nat.sub_mul]
  have e2 : 2 ^ 64 * 2 ^ n - (x + 1) * 2 ^ n
      = (2 ^ 64 - (x + 1) * 2 ^ n) + (2 ^ n - 1) * 2 ^ 64 := by
    rw [Nat.sub_mul, Nat.one_mul, Nat.mul_comm (2 ^ n)]
    have : 2 ^ 64 * 1 ≤ 2 ^ 64 * 2 ^ n := Nat.mul_le_mul_left _ hp
    generalize 2 ^ 64 * 2 ^ n = A at *
    generalize (x + 1) * 2 ^ n = B at *
    omega
  have e3 : (18446744073709551616 : Nat) = 2 ^ 64 := by decide
  rw [e3, e2, Nat.add_mul_mod_self_right, Nat.mod_eq_of_lt (by omega)]
  generalize (x + 1) * 2 ^ n = B at *
  omega

/-! ## `Spec.tz` / `Spec.levelOf` / `Spec.indexOf` invert the coordinates -/

theorem tz_odd_mul_pow (k L fuel : Nat) (h : L ≤ fuel) :
    Spec.tz fuel ((2 * k + 1) * 2 ^ L) = L := by
  induction L generalizing fuel with
  | zero =>
    cases fuel with
    | zero => rfl
    | succ f => simp [Spec.tz]
  | succ n ih =>
    cases fuel with
    | zero => omega
    | succ f =>
      have hp := two_pow_pos' n
      have e : (2 * k + 1) * 2 ^ (n + 1) = 2 * ((2 * k + 1) * 2 ^ n) := by
        rw [Nat.pow_succ, ← Nat.mul_assoc, Nat.mul_comm]
      have hpos : 0 < (2 * k + 1) * 2 ^ n := Nat.mul_pos (by omega) hp
      rw [e]
      generalize hq : (2 * k + 1) * 2 ^ n = q at *
      have h1 : 2 * q % 2 = 0 := by omega
      have h2 : 2 * q ≠ 0 := by omega
      have h3 : 2 * q / 2 = q := by omega
      simp only [Spec.tz, h1, h2, h3, ne_eq, not_false_eq_true, and_self, if_true]
      rw [ih f (by omega)]

theorem levelOf_nodeOf {k L : Nat} (h : L ≤ 64) : Spec.levelOf (Spec.nodeOf k L) = L := by
  unfold Spec.levelOf
  rw [nodeOf_succ']
  exact tz_odd_mul_pow k L 64 h

theorem indexOf_nodeOf {k L : Nat} (h : L ≤ 64) : Spec.indexOf (Spec.nodeOf k L) = k := by
  unfold Spec.indexOf
  rw [levelOf_nodeOf h, nodeOf_succ', Nat.mul_div_cancel _ (two_pow_pos' L)]
  omega

/-! ## arithmetic of navigation in coordinates -/

theorem nodeOf_sub_half (k L : Nat) : Spec.nodeOf k (L + 1) - 2 ^ L = Spec.nodeOf (2 * k) L := by
  have hp := two_pow_pos' L
  rw [nodeOf_eq_succ, nodeOf_eq, Nat.mul_assoc 2 k]
  generalize 2 ^ L = p at *; generalize k * p = q at *; omega

theorem nodeOf_add_half (k L : Nat) :
    Spec.nodeOf k (L + 1) + 2 ^ L = Spec.nodeOf (2 * k + 1) L := by
  have hp := two_pow_pos' L
  rw [nodeOf_eq_succ, nodeOf_eq, Nat.add_mul, Nat.mul_assoc 2 k, Nat.one_mul]
  generalize 2 ^ L = p at *; generalize k * p = q at *; omega

/-- `offset & (span*2) == 0` tests the lowest index bit -/
theorem nodeOf_div_span (k L : Nat) : Spec.nodeOf k L / (2 ^ L * 2) = k := by
  have hp := two_pow_pos' L
  have e1 : k * (2 ^ L * 2) = 2 * (k * 2 ^ L) := by
    rw [← Nat.mul_assoc, Nat.mul_comm]
  have e2 : (k + 1) * (2 ^ L * 2) = 2 * (k * 2 ^ L) + 2 * 2 ^ L := by
    rw [Nat.add_mul, e1, Nat.one_mul, Nat.mul_comm (2 ^ L) 2]
  apply Nat.div_eq_of_lt_le
  · rw [nodeOf_eq, e1]
    generalize 2 ^ L = p at *; generalize k * p = q at *; omega
  · rw [nodeOf_eq, e2]
    generalize 2 ^ L = p at *; generalize k * p = q at *; omega

/-- the parent step: add the span for an even index, subtract it for an odd one -/
theorem nodeOf_parent (k L : Nat) :
    (if k % 2 = 0 then Spec.nodeOf k L + 2 ^ L else Spec.nodeOf k L - 2 ^ L)
      = Spec.nodeOf (k / 2) (L + 1) := by
  have hp := two_pow_pos' L
  rw [nodeOf_eq_succ, nodeOf_eq]
  have hk : k = 2 * (k / 2) + k % 2 := by omega
  have e : k * 2 ^ L = 2 * (k / 2 * 2 ^ L) + k % 2 * 2 ^ L := by
    conv => lhs; rw [hk, Nat.add_mul, Nat.mul_assoc]
  rw [e]
  by_cases h : k % 2 = 0
  · simp only [h, if_true, Nat.zero_mul]
    generalize 2 ^ L = p at *; generalize k / 2 * p = q at *; omega
  · have h1 : k % 2 = 1 := by omega
    simp only [h1, Nat.one_mul]
    generalize 2 ^ L = p at *; generalize k / 2 * p = q at *
    simp only [show (1 : Nat) ≠ 0 by decide, if_false]; omega

/-- no overflow in `parent`: the parent of a `u64` id of level `< 63` is a `u64` id -/
theorem nodeOf_parent_lt {k L : Nat} (h : Spec.nodeOf k L < 2 ^ 64) (hL : L < 63) :
    Spec.nodeOf (k / 2) (L + 1) < 2 ^ 64 := by
  have hp := two_pow_pos' L
  have h1 : (2 * k + 1) * 2 ^ L ≤ 2 ^ 64 := by rw [← nodeOf_succ']; omega
  have h2 := odd_mul_pow_bound h1 (by omega) (by omega)
  have h3 : Spec.nodeOf (k / 2) (L + 1) + 1 ≤ (2 * k + 1 + 1) * 2 ^ L := by
    rw [nodeOf_succ', Nat.pow_succ', ← Nat.mul_assoc]
    exact Nat.mul_le_mul_right _ (by omega)
  have hpos : 0 < (2 * k + 1 + 1) * 2 ^ L := Nat.mul_pos (by omega) hp
  omega

/-- no overflow in `right_child`: for an id other than `u64::MAX` the right child is a `u64` id -/
theorem nodeOf_right_lt {k L : Nat} (h : Spec.nodeOf k (L + 1) + 1 < 2 ^ 64) :
    Spec.nodeOf (2 * k + 1) L < 2 ^ 64 := by
  have hL := level_lt_of_succ_lt h
  have h1 : (2 * k + 1) * 2 ^ (L + 1) ≤ 2 ^ 64 := by rw [← nodeOf_succ']; omega
  have h2 := odd_mul_pow_bound h1 hL (by omega)
  have h3 : Spec.nodeOf (2 * k + 1) L + 1 ≤ (2 * k + 1 + 1) * 2 ^ (L + 1) := by
    have e : (2 * k + 1 + 1) * 2 ^ (L + 1) = ((2 * k + 1 + 1) * 2) * 2 ^ L := by
      rw [Nat.pow_succ', Nat.mul_assoc]
    rw [nodeOf_succ', e]
    exact Nat.mul_le_mul_right _ (by omega)
  omega

theorem nodeOf_lt_succ_lt {k L : Nat} (h : Spec.nodeOf k L < 2 ^ 64) (hL : L < 64) :
    Spec.nodeOf k L + 1 < 2 ^ 64 := by
  have h1 : Spec.nodeOf k L + 1 ≠ 2 ^ 64 := by
    intro e
    rw [nodeOf_succ'] at e
    have : (2 * k + 1) * 2 ^ L = (2 * 0 + 1) * 2 ^ 64 := by rw [e]
    have := (odd_pow_inj this).2
    omega
  omega

theorem nodeOf_mid_sub (k L : Nat) : Spec.nodeOf k L + 1 - 2 ^ L = Spec.startOf k L := by
  rw [nodeOf_succ, startOf_eq]; omega

theorem nodeOf_mid_add (k L : Nat) : Spec.nodeOf k L + 1 + 2 ^ L = Spec.endOf k L := by
  rw [nodeOf_succ, endOf_eq]; omega

theorem nodeOf_add_span (k L : Nat) :
    Spec.nodeOf k L + 2 ^ L = Spec.startOf k L + 2 ^ (L + 1) - 1 := by
  have hp := two_pow_pos' L
  rw [nodeOf_eq, startOf_eq, Nat.pow_succ]; omega

theorem startOf_left (k L : Nat) : Spec.startOf (2 * k) L = Spec.startOf k (L + 1) := by
  rw [startOf_eq, startOf_eq, Nat.pow_succ, ← Nat.mul_assoc k, Nat.mul_assoc 2 k, Nat.mul_comm _ 2]

theorem endOf_left (k L : Nat) : Spec.endOf (2 * k) L = Spec.midOf k (L + 1) := by
  rw [endOf_eq, midOf_eq, Nat.pow_succ, ← Nat.mul_assoc k, Nat.mul_assoc 2 k, Nat.mul_comm _ 2,
    Nat.mul_comm (2 ^ L) 2]

theorem startOf_right (k L : Nat) : Spec.startOf (2 * k + 1) L = Spec.midOf k (L + 1) := by
  rw [startOf_eq, midOf_eq, Nat.pow_succ, ← Nat.mul_assoc k, Nat.add_mul, Nat.mul_assoc 2 k,
    Nat.one_mul, Nat.mul_comm (k * 2 ^ L) 2, Nat.mul_comm (2 ^ L) 2]
  omega

theorem endOf_right (k L : Nat) : Spec.endOf (2 * k + 1) L = Spec.endOf k (L + 1) := by
  rw [endOf_eq, endOf_eq, Nat.pow_succ, ← Nat.mul_assoc k, Nat.add_mul, Nat.mul_assoc 2 k,
    Nat.one_mul, Nat.mul_comm (k * 2 ^ L) 2, Nat.mul_comm (2 ^ L) 2]
  omega

theorem startOf_lt_midOf (k L : Nat) : Spec.startOf k L < Spec.midOf k L := by
  have hp := two_pow_pos' L
  rw [startOf_eq, midOf_eq]; omega

theorem midOf_lt_endOf (k L : Nat) : Spec.midOf k L < Spec.endOf k L := by
  have hp := two_pow_pos' L
  rw [endOf_eq, midOf_eq]; omega

theorem startOf_eq_zero_iff (k L : Nat) : Spec.startOf k L = 0 ↔ k = 0 := by
  have hp := two_pow_pos' (L + 1)
  unfold Spec.startOf
  constructor
  · intro h
    rcases Nat.mul_eq_zero.mp h with h | h <;> omega
  · intro h; simp [h]

/-- the start chunk, minus one, of a node with index `(2k'+1)·2^j` is the id of its
nearest ancestor that has the node in its right subtree -/
theorem startOf_pred_eq (k' j L : Nat) :
    Spec.startOf ((2 * k' + 1) * 2 ^ j) L - 1 = Spec.nodeOf k' (L + j + 1) := by
  unfold Spec.startOf Spec.nodeOf
  rw [Nat.mul_assoc, ← Nat.pow_add]
  congr 3; omega

/-! ## block-size conversion in coordinates -/

theorem nodeOf_split (k L n : Nat) (h : n ≤ L) :
    Spec.nodeOf k L = (2 ^ n - 1) + Spec.nodeOf k (L - n) * 2 ^ n := by
  have hp := two_pow_pos' n
  have e : (Spec.nodeOf k (L - n) + 1) * 2 ^ n = Spec.nodeOf k L + 1 := by
    rw [nodeOf_succ', nodeOf_succ', Nat.mul_assoc, ← Nat.pow_add]
    congr 2; omega
  rw [Nat.add_mul, Nat.one_mul] at e
  omega

theorem nodeOf_mod_pow (k L n : Nat) (h : n ≤ L) : Spec.nodeOf k L % 2 ^ n = 2 ^ n - 1 := by
  have hp := two_pow_pos' n
  rw [nodeOf_split k L n h, Nat.add_mul_mod_self_right, Nat.mod_eq_of_lt (by omega)]

theorem nodeOf_div_pow (k L n : Nat) (h : n ≤ L) :
    Spec.nodeOf k L / 2 ^ n = Spec.nodeOf k (L - n) := by
  have hp := two_pow_pos' n
  rw [nodeOf_split k L n h, Nat.add_mul_div_right _ _ hp, Nat.div_eq_of_lt (by omega)]
  omega

theorem nodeOf_testBit_level (k L : Nat) : (Spec.nodeOf k L).testBit L = false := by
  have hp := two_pow_pos' L
  have h2 : (2 : Nat) ^ L - 1 < 2 ^ (L + 1) := by rw [Nat.pow_succ]; omega
  rw [nodeOf_layout, Nat.testBit_two_pow_mul_add k h2, Nat.testBit_two_pow_sub_one]
  simp

theorem nodeOf_mod_pow_ne (k L n : Nat) (h : L < n) : Spec.nodeOf k L % 2 ^ n ≠ 2 ^ n - 1 := by
  intro e
  have := congrArg (fun z => z.testBit L) e
  simp only [Nat.testBit_mod_two_pow, Nat.testBit_two_pow_sub_one, nodeOf_testBit_level] at this
  simp [h] at this

/-! ## ancestors and descendants: chunk intervals -/

theorem ancestor_start_le (k L j : Nat) :
    Spec.startOf (k / 2 ^ j) (L + j) ≤ Spec.startOf k L := by
  unfold Spec.startOf
  have e : 2 ^ (L + j + 1) = 2 ^ j * 2 ^ (L + 1) := by
    rw [← Nat.pow_add]; congr 1; omega
  rw [e, ← Nat.mul_assoc]
  exact Nat.mul_le_mul_right _ (Nat.div_mul_le_self k (2 ^ j))

theorem ancestor_end_le (k L j : Nat) :
    Spec.endOf k L ≤ Spec.endOf (k / 2 ^ j) (L + j) := by
  unfold Spec.endOf
  have e : 2 ^ (L + j + 1) = 2 ^ j * 2 ^ (L + 1) := by
    rw [← Nat.pow_add]; congr 1; omega
  rw [e, ← Nat.mul_assoc]
  apply Nat.mul_le_mul_right
  have := Nat.lt_mul_div_succ k (two_pow_pos' j)
  rw [Nat.mul_comm]; omega

theorem descendant_start (k L j : Nat) (h : j ≤ L) :
    Spec.startOf (k * 2 ^ j) (L - j) = Spec.startOf k L := by
  unfold Spec.startOf
  rw [Nat.mul_assoc, ← Nat.pow_add]
  congr 2; omega

theorem descendant_end_le (k L j : Nat) (h : j ≤ L) :
    Spec.endOf (k * 2 ^ j) (L - j) ≤ Spec.endOf k L := by
  unfold Spec.endOf
  have e : 2 ^ (L + 1) = 2 ^ j * 2 ^ (L - j + 1) := by
    rw [← Nat.pow_add]; congr 1; omega
  rw [e, ← Nat.mul_assoc]
  apply Nat.mul_le_mul_right
  have := two_pow_pos' j
  rw [Nat.add_mul]; omega

end Bao.Bits
