import BaoModel.Iter
import BaoProofs.Lemmas.Offsets
import BaoProofs.Props.C18
import BaoProofs.Props.C14

/-!
# The recursive pre-order plan (C15, pre-order half): definition and geometry

`planPre size bs ml filled root L k rs` is the list of items
`PreOrderPartialChunkIterRef` yields for the sub-query `rs` below the *shifted* node
`(k, L)` (shifted id `nodeOf k L`, real node `nodeOf k (L + bs)`), written by structural
recursion on the shifted level `L`:

* nothing for an empty sub-query;
* a shifted id `≥ filled` does not exist: its left child takes its place with the same
  ranges (this is what `TreeNode::right_descendant` does);
* a *query leaf* (`rs` is "all" and the node level is below `ml`) is one leaf item;
* above the chunk-group level: the parent item, then the plan of the left half, then the
  plan of the right half (sub-queries from `split_inner`; an empty half contributes nothing);
* at chunk-group level (`L = 0`): the half leaf (one leaf item), or the parent item followed
  by the left and/or right group leaf.

`filled` / `root` are `tree.shifted()`; `Geo` collects the facts about them the proofs use.
This file: definition, one-step unfolding lemmas, geometry (`Geo`, `shifted_geo`).
-/

namespace Bao.PlanPre
open Bao Bao.Spec Bao.Bits

/-- the recursive pre-order plan below the shifted node `(k, L)` -/
def planPre (size bs ml filled root : Nat) : Nat → Nat → Ranges → List Chunk
  | 0, k, rs =>
    if rs.isEmpty then [] else
    if filled ≤ nodeOf k 0 then [] else
    let node := nodeOf k bs
    let isRoot := nodeOf k 0 == root
    let s := startOf k bs
    let m := midOf k bs
    let e := endOf k bs
    let bEnd := min (toBytes e) size
    if Ranges.isAll rs && decide (bs < ml) then [.leaf s (bEnd - toBytes s) isRoot rs]
    else if toBytes m ≥ size then [.leaf s (bEnd - toBytes s) isRoot rs]
    else
      let lr := Ranges.splitInner rs s m
      .parent node isRoot (!lr.1.isEmpty) (!lr.2.isEmpty) rs ::
        ((if lr.1.isEmpty then [] else [Chunk.leaf s (toBytes m - toBytes s) false lr.1]) ++
         (if lr.2.isEmpty then [] else [Chunk.leaf m (bEnd - toBytes m) false lr.2]))
  | L + 1, k, rs =>
    if rs.isEmpty then [] else
    if filled ≤ nodeOf k (L + 1) then planPre size bs ml filled root L (2 * k) rs else
    let node := nodeOf k (L + 1 + bs)
    let isRoot := nodeOf k (L + 1) == root
    let s := startOf k (L + 1 + bs)
    let m := midOf k (L + 1 + bs)
    let e := endOf k (L + 1 + bs)
    let bEnd := min (toBytes e) size
    if Ranges.isAll rs && decide (L + 1 + bs < ml) then [.leaf s (bEnd - toBytes s) isRoot rs]
    else
      let lr := Ranges.splitInner rs s m
      .parent node isRoot (!lr.1.isEmpty) (!lr.2.isEmpty) rs ::
        (planPre size bs ml filled root L (2 * k) lr.1 ++
          planPre size bs ml filled root L (2 * k + 1) lr.2)

/-- level of the shifted root -/
def rootLevel (t : Tree) : Nat := Spec.levelOf t.shifted.1

/-- the recursive plan of the whole tree -/
def plan (t : Tree) (ml : Nat) (q : Ranges) : List Chunk :=
  planPre t.size t.bs ml t.shifted.2 t.shifted.1 (rootLevel t) 0 q

/-! ## one-step unfolding -/

variable {size bs ml filled root : Nat}

theorem isEmpty_eq_false {rs : Ranges} (h : rs ≠ []) : rs.isEmpty = false := by
  cases rs with
  | nil => exact absurd rfl h
  | cons a l => rfl

@[simp] theorem planPre_nil (L k : Nat) : planPre size bs ml filled root L k [] = [] := by
  cases L <;> simp [planPre]

/-- a non-existing shifted node is replaced by its left child -/
theorem planPre_skip {L k : Nat} {rs : Ranges} (h : filled ≤ nodeOf k (L + 1)) :
    planPre size bs ml filled root (L + 1) k rs = planPre size bs ml filled root L (2 * k) rs := by
  cases rs with
  | nil => simp
  | cons a l => simp [planPre, h]

theorem planPre_zero_skip {k : Nat} {rs : Ranges} (h : filled ≤ nodeOf k 0) :
    planPre size bs ml filled root 0 k rs = [] := by
  cases rs with
  | nil => simp
  | cons a l => simp [planPre, h]

/-- the query-leaf test of node `(k, L)` -/
def queryLeaf (bs ml L : Nat) (rs : Ranges) : Bool := Ranges.isAll rs && decide (L + bs < ml)

/-- the leaf item of the whole node `(k, L)` (query leaf or half leaf) -/
def nodeLeaf (size bs root L k : Nat) (rs : Ranges) : Chunk :=
  .leaf (startOf k (L + bs))
    (min (toBytes (endOf k (L + bs))) size - toBytes (startOf k (L + bs)))
    (nodeOf k L == root) rs

/-- the parent item of node `(k, L)` -/
def nodeParent (bs root L k : Nat) (rs : Ranges) : Chunk :=
  .parent (nodeOf k (L + bs)) (nodeOf k L == root)
    (!(Ranges.splitInner rs (startOf k (L + bs)) (midOf k (L + bs))).1.isEmpty)
    (!(Ranges.splitInner rs (startOf k (L + bs)) (midOf k (L + bs))).2.isEmpty) rs

/-- the left sub-query of node `(k, L)` -/
def lq (bs L k : Nat) (rs : Ranges) : Ranges :=
  (Ranges.splitInner rs (startOf k (L + bs)) (midOf k (L + bs))).1

/-- the right sub-query of node `(k, L)` -/
def rq (bs L k : Nat) (rs : Ranges) : Ranges :=
  (Ranges.splitInner rs (startOf k (L + bs)) (midOf k (L + bs))).2

/-- the left group leaf below the chunk-group level node `(k, 0)` -/
def leftLeaf (bs k : Nat) (rs : Ranges) : Chunk :=
  .leaf (startOf k bs) (toBytes (midOf k bs) - toBytes (startOf k bs)) false (lq bs 0 k rs)

/-- the right group leaf below the chunk-group level node `(k, 0)` -/
def rightLeaf (size bs k : Nat) (rs : Ranges) : Chunk :=
  .leaf (midOf k bs) (min (toBytes (endOf k bs)) size - toBytes (midOf k bs)) false (rq bs 0 k rs)

theorem planPre_queryLeaf {L k : Nat} {rs : Ranges} (hne : rs ≠ []) (hlt : nodeOf k L < filled)
    (hq : queryLeaf bs ml L rs = true) :
    planPre size bs ml filled root L k rs = [nodeLeaf size bs root L k rs] := by
  have h1 := isEmpty_eq_false hne
  have h2 : ¬ filled ≤ nodeOf k L := by omega
  unfold queryLeaf at hq
  cases L with
  | zero =>
    simp only [Nat.zero_add] at hq
    simp only [planPre, h1, h2, hq, nodeLeaf, Nat.zero_add, if_true, if_false, Bool.false_eq_true]
  | succ L =>
    simp only [planPre, h1, h2, hq, nodeLeaf, if_true, if_false, Bool.false_eq_true]

theorem planPre_succ {L k : Nat} {rs : Ranges} (hne : rs ≠ []) (hlt : nodeOf k (L + 1) < filled)
    (hq : queryLeaf bs ml (L + 1) rs = false) :
    planPre size bs ml filled root (L + 1) k rs =
      nodeParent bs root (L + 1) k rs ::
        (planPre size bs ml filled root L (2 * k) (lq bs (L + 1) k rs) ++
          planPre size bs ml filled root L (2 * k + 1) (rq bs (L + 1) k rs)) := by
  have h1 := isEmpty_eq_false hne
  have h2 : ¬ filled ≤ nodeOf k (L + 1) := by omega
  unfold queryLeaf at hq
  simp only [planPre, h1, h2, hq, nodeParent, lq, rq, if_false, Bool.false_eq_true]

theorem planPre_zero_half {k : Nat} {rs : Ranges} (hne : rs ≠ []) (hlt : nodeOf k 0 < filled)
    (hq : queryLeaf bs ml 0 rs = false) (hh : size ≤ toBytes (midOf k bs)) :
    planPre size bs ml filled root 0 k rs = [nodeLeaf size bs root 0 k rs] := by
  have h1 := isEmpty_eq_false hne
  have h2 : ¬ filled ≤ nodeOf k 0 := by omega
  unfold queryLeaf at hq
  simp only [Nat.zero_add] at hq
  simp only [planPre, h1, h2, hq, nodeLeaf, Nat.zero_add, ge_iff_le, hh, if_true, if_false,
    Bool.false_eq_true]

theorem planPre_zero_parent {k : Nat} {rs : Ranges} (hne : rs ≠ []) (hlt : nodeOf k 0 < filled)
    (hq : queryLeaf bs ml 0 rs = false) (hh : toBytes (midOf k bs) < size) :
    planPre size bs ml filled root 0 k rs =
      nodeParent bs root 0 k rs ::
        ((if (lq bs 0 k rs).isEmpty then [] else [leftLeaf bs k rs]) ++
         (if (rq bs 0 k rs).isEmpty then [] else [rightLeaf size bs k rs])) := by
  have h1 := isEmpty_eq_false hne
  have h2 : ¬ filled ≤ nodeOf k 0 := by omega
  have h3 : ¬ size ≤ toBytes (midOf k bs) := by omega
  unfold queryLeaf at hq
  simp only [Nat.zero_add] at hq
  simp only [planPre, h1, h2, h3, hq, nodeParent, leftLeaf, rightLeaf, lq, rq, Nat.zero_add,
    if_false, Bool.false_eq_true]

/-! ## geometry of the shifted tree -/

/-- what the proofs need to know about `filled = tree.shifted().1` (as a bound on shifted ids):
it is odd, real ids of existing nodes fit into a `u64`, and every existing node starts inside
the blob. -/
structure Geo (size bs filled : Nat) : Prop where
  odd : filled % 2 = 1
  fits : filled * 2 ^ bs ≤ 2 ^ 64
  le_blocks : filled ≤ Tree.blocks ⟨size, bs⟩
  ge_blocks : Tree.blocks ⟨size, bs⟩ - 1 ≤ filled

theorem nextPow2Aux_spec (fuel i x : Nat) (h : x ≤ 2 ^ (i + fuel)) :
    ∃ j, i ≤ j ∧ nextPow2Aux fuel (2 ^ i) x = 2 ^ j ∧ x ≤ 2 ^ j ∧ (j = i ∨ 2 ^ (j - 1) < x) := by
  induction fuel generalizing i with
  | zero => exact ⟨i, Nat.le_refl _, rfl, h, Or.inl rfl⟩
  | succ f ih =>
    unfold nextPow2Aux
    by_cases hx : x ≤ 2 ^ i
    · rw [if_pos hx]; exact ⟨i, Nat.le_refl _, rfl, hx, Or.inl rfl⟩
    · rw [if_neg hx, ← Nat.pow_succ']
      obtain ⟨j, hj, e, hle, hmin⟩ := ih (i + 1) (by rw [show i + 1 + f = i + (f + 1) by omega]; exact h)
      refine ⟨j, by omega, e, hle, Or.inr ?_⟩
      rcases hmin with rfl | hmin
      · simp only [Nat.add_sub_cancel]; omega
      · exact hmin

/-- `next_power_of_two`: a power of two `≥ x`, minimal -/
theorem nextPow2_spec {x : Nat} (h : x ≤ 2 ^ 63) :
    ∃ j, j ≤ 63 ∧ nextPow2 x = 2 ^ j ∧ x ≤ 2 ^ j ∧ (j = 0 ∨ 2 ^ (j - 1) < x) := by
  have h64 : x ≤ 2 ^ (0 + 64) := by omega
  obtain ⟨j, _, e, hle, hmin⟩ := nextPow2Aux_spec 64 0 x h64
  refine ⟨j, ?_, e, hle, hmin⟩
  rcases hmin with rfl | hmin
  · omega
  · have : 2 ^ (j - 1) < 2 ^ 63 := Nat.lt_of_lt_of_le hmin h
    have := (Nat.pow_lt_pow_iff_right (a := 2) (by decide)).1 this
    omega

theorem nodeOf_zero_left (h : Nat) : nodeOf 0 h = 2 ^ h - 1 := by simp [nodeOf]

/-- the shifted root is node `(0, h)` of the shifted tree and exists -/
theorem shifted_root (size bs : Nat) (hs : size ≤ 2 ^ 63) :
    ∃ h, h ≤ 63 ∧ (Tree.shifted ⟨size, bs⟩).1 = nodeOf 0 h ∧
      (Tree.shifted ⟨size, bs⟩).1 < (Tree.shifted ⟨size, bs⟩).2 ∧
      Tree.blocks ⟨size, bs⟩ ≤ 2 ^ (h + 1) := by
  have hdiv := Nat.div_le_self size (2 ^ (10 + bs))
  unfold Tree.shifted Tree.blocks Tree.blocksRaw
  simp only [Nat.add_comm bs 10]
  generalize hn : divCeil2 (max (size / 2 ^ (10 + bs) + if size % 2 ^ (10 + bs) ≠ 0 then 1 else 0) 1) = n
  have hn1 : 1 ≤ n ∧ n ≤ 2 ^ 63 := by
    rw [← hn]; unfold divCeil2
    split <;> omega
  obtain ⟨j, hj, e, hle, hmin⟩ := nextPow2_spec hn1.2
  have hcov : max (size / 2 ^ (10 + bs) + if size % 2 ^ (10 + bs) ≠ 0 then 1 else 0) 1
      ≤ 2 ^ (j + 1) := by
    rw [Nat.pow_succ]
    rw [← hn] at hle; unfold divCeil2 at hle
    omega
  refine ⟨j, hj, by rw [e, nodeOf_zero_left], ?_, hcov⟩
  rw [e]
  have hp := two_pow_pos' j
  rcases hmin with rfl | hmin
  · simp; omega
  · cases j with
    | zero => simp at hmin hle; omega
    | succ i =>
      simp only [Nat.add_sub_cancel] at hmin
      rw [Nat.pow_succ] at *
      omega

theorem rootLevel_spec (size bs : Nat) (hs : size ≤ 2 ^ 63) :
    rootLevel ⟨size, bs⟩ ≤ 63 ∧
    (Tree.shifted ⟨size, bs⟩).1 = nodeOf 0 (rootLevel ⟨size, bs⟩) ∧
    nodeOf 0 (rootLevel ⟨size, bs⟩) < (Tree.shifted ⟨size, bs⟩).2 := by
  obtain ⟨h, hh, e, hlt, _⟩ := shifted_root size bs hs
  have : rootLevel ⟨size, bs⟩ = h := by
    unfold rootLevel; rw [e, levelOf_nodeOf (by omega)]
  rw [this, ← e]
  exact ⟨hh, rfl, hlt⟩

/-- the root's chunk range covers the whole blob -/
theorem rootLevel_covers (size bs : Nat) (hs : size ≤ 2 ^ 63) :
    nChunks size ≤ endOf 0 (rootLevel ⟨size, bs⟩ + bs) := by
  obtain ⟨h, hh, e, _, hb⟩ := shifted_root size bs hs
  have : rootLevel ⟨size, bs⟩ = h := by
    unfold rootLevel; rw [e, levelOf_nodeOf (by omega)]
  rw [this]
  apply Classical.byContradiction
  intro hn
  have h1 : endOf 0 (h + bs) = 2 ^ (h + 1) * 2 ^ bs := by
    unfold endOf; rw [← Nat.pow_add]; simp; congr 1; omega
  have hpos : 0 < 2 ^ (h + 1) * 2 ^ bs := Nat.mul_pos (two_pow_pos' _) (two_pow_pos' _)
  have h2 := (Offsets.lt_nChunks_iff size (2 ^ (h + 1) * 2 ^ bs) hpos).1 (by omega)
  have e10 : (2 : Nat) ^ (bs + 10) = 2 ^ bs * 1024 := by rw [Nat.pow_add]
  have h3 := (Offsets.lt_blocks_iff size bs (2 ^ (h + 1)) (two_pow_pos' _)).2
    (by rw [e10, ← Nat.mul_assoc]; exact h2)
  omega

theorem shifted_geo (size bs : Nat) (hs : size ≤ 2 ^ 63) (hbs : bs ≤ 10) :
    Geo size bs (Tree.shifted ⟨size, bs⟩).2 := by
  obtain ⟨h1, h2, h3⟩ := Offsets.shifted_props size bs
  have hm := Offsets.blocks_mul_le size bs hs hbs
  have hb := Offsets.blocks_pos size bs
  have hle : (Tree.shifted ⟨size, bs⟩).2 ≤ Tree.blocks ⟨size, bs⟩ := by omega
  refine ⟨h3, ?_, hle, h1⟩
  have : (Tree.shifted ⟨size, bs⟩).2 * 2 ^ bs ≤ (Tree.blocks ⟨size, bs⟩ - 1 + 1) * 2 ^ bs :=
    Nat.mul_le_mul_right _ (by omega)
  omega

namespace Geo

variable {size bs filled : Nat}

/-- the real id of an existing shifted node fits into a `u64` -/
theorem real_lt (g : Geo size bs filled) {k L : Nat} (h : nodeOf k L < filled) :
    nodeOf k (L + bs) < 2 ^ 64 := by
  have e : nodeOf k (L + bs) + 1 = (nodeOf k L + 1) * 2 ^ bs := by
    rw [nodeOf_succ', nodeOf_succ', Nat.mul_assoc, ← Nat.pow_add]
  have : (nodeOf k L + 1) * 2 ^ bs ≤ filled * 2 ^ bs := Nat.mul_le_mul_right _ (by omega)
  have := g.fits
  omega

theorem shifted_lt (g : Geo size bs filled) {k L : Nat} (h : nodeOf k L < filled) :
    nodeOf k L < 2 ^ 64 := by
  have hp := two_pow_pos' bs
  have h1 : filled * 1 ≤ filled * 2 ^ bs := Nat.mul_le_mul_left _ hp
  have := g.fits
  omega

theorem level_le (g : Geo size bs filled) {k L : Nat} (h : nodeOf k L < filled) : L + bs ≤ 64 :=
  level_le_of_lt (g.real_lt h)

/-- the right child's leftmost leaf exists when an inner node exists (`filled` is odd) -/
theorem right_exists (g : Geo size bs filled) {k L : Nat} (h : nodeOf k (L + 1) < filled) :
    startOf (2 * k + 1) L < filled := by
  have h1 := Offsets.nodeOf_succ_odd k L
  have h2 := g.odd
  have e : startOf (2 * k + 1) L = nodeOf k (L + 1) + 1 := by
    rw [Bits.startOf_right, nodeOf_succ, midOf_eq]
  omega

/-- an existing node starts inside the blob -/
theorem start_le (g : Geo size bs filled) {k L : Nat} (h : startOf k L < filled) :
    toBytes (startOf k (L + bs)) ≤ size := by
  have hb := g.le_blocks
  have h1 := (Offsets.full_blocks size bs).1
  have h2 : startOf k L ≤ size / 2 ^ (bs + 10) := by omega
  have h3 := (Nat.le_div_iff_mul_le (two_pow_pos' (bs + 10))).1 h2
  have e : toBytes (startOf k (L + bs)) = startOf k L * 2 ^ (bs + 10) := by
    unfold toBytes startOf
    rw [show L + bs + 1 = L + 1 + bs by omega, Nat.pow_add 2 (L + 1) bs, Nat.pow_add 2 bs 10]
    simp only [Nat.mul_assoc]
  omega

/-- an existing inner node has its mid strictly inside the blob -/
theorem mid_lt (g : Geo size bs filled) {k L : Nat} (h : nodeOf k (L + 1) < filled) :
    toBytes (midOf k (L + 1 + bs)) < size := by
  have h1 := Offsets.nodeOf_succ_odd k L
  have h2 := g.odd
  have hb := g.le_blocks
  have hlt : nodeOf k (L + 1) + 1 < Tree.blocks ⟨size, bs⟩ := by omega
  have := (Offsets.lt_blocks_iff size bs (nodeOf k (L + 1) + 1) (by omega)).1 hlt
  rw [Offsets.midOf_shift]
  unfold toBytes
  rw [Nat.pow_add, ← Nat.mul_assoc] at this
  exact this

end Geo

/-- `split(ranges, node)` of the model in coordinates -/
theorem splitNode_eq {k L : Nat} (bs : Nat) (rs : Ranges) (h : L + bs ≤ 64) :
    Ranges.splitNode rs (nodeOf k (L + bs)) = (lq bs L k rs, rq bs L k rs) := by
  unfold Ranges.splitNode lq rq
  rw [C18.chunkRange_spec h, C18.mid_spec]

/-- the leftmost leaf of the complete subtree `(k, L)` is its smallest id -/
theorem startOf_le_nodeOf (k L : Nat) : startOf k L ≤ nodeOf k L := by
  have hp := two_pow_pos' L
  rw [startOf_eq, nodeOf_eq]; omega

/-! ## an induction principle following the recursion of `planPre` -/

/-- To prove `P L k rs (planPre … L k rs)` for all `L k rs` it suffices to treat the seven
shapes of the definition (each with the side conditions that select it). -/
theorem planPre_induct {size bs ml filled root : Nat}
    {P : Nat → Nat → Ranges → List Chunk → Prop}
    (nil : ∀ L k, P L k [] [])
    (gone : ∀ k rs, rs ≠ [] → filled ≤ nodeOf k 0 → P 0 k rs [])
    (skip : ∀ L k rs, rs ≠ [] → filled ≤ nodeOf k (L + 1) →
      P L (2 * k) rs (planPre size bs ml filled root L (2 * k) rs) →
      P (L + 1) k rs (planPre size bs ml filled root L (2 * k) rs))
    (qleaf : ∀ L k rs, rs ≠ [] → nodeOf k L < filled → queryLeaf bs ml L rs = true →
      P L k rs [nodeLeaf size bs root L k rs])
    (half : ∀ k rs, rs ≠ [] → nodeOf k 0 < filled → queryLeaf bs ml 0 rs = false →
      size ≤ toBytes (midOf k bs) → P 0 k rs [nodeLeaf size bs root 0 k rs])
    (group : ∀ k rs, rs ≠ [] → nodeOf k 0 < filled → queryLeaf bs ml 0 rs = false →
      toBytes (midOf k bs) < size →
      P 0 k rs (nodeParent bs root 0 k rs ::
        ((if (lq bs 0 k rs).isEmpty then [] else [leftLeaf bs k rs]) ++
         (if (rq bs 0 k rs).isEmpty then [] else [rightLeaf size bs k rs]))))
    (inner : ∀ L k rs, rs ≠ [] → nodeOf k (L + 1) < filled → queryLeaf bs ml (L + 1) rs = false →
      P L (2 * k) (lq bs (L + 1) k rs)
        (planPre size bs ml filled root L (2 * k) (lq bs (L + 1) k rs)) →
      P L (2 * k + 1) (rq bs (L + 1) k rs)
        (planPre size bs ml filled root L (2 * k + 1) (rq bs (L + 1) k rs)) →
      P (L + 1) k rs (nodeParent bs root (L + 1) k rs ::
        (planPre size bs ml filled root L (2 * k) (lq bs (L + 1) k rs) ++
          planPre size bs ml filled root L (2 * k + 1) (rq bs (L + 1) k rs))))
    (L k : Nat) (rs : Ranges) : P L k rs (planPre size bs ml filled root L k rs) := by
  induction L generalizing k rs with
  | zero =>
    by_cases hne : rs = []
    · subst hne; rw [planPre_nil]; exact nil 0 k
    by_cases hlt : nodeOf k 0 < filled
    · by_cases hq : queryLeaf bs ml 0 rs = true
      · rw [planPre_queryLeaf hne hlt hq]; exact qleaf 0 k rs hne hlt hq
      · have hq : queryLeaf bs ml 0 rs = false := by simpa using hq
        by_cases hh : toBytes (midOf k bs) < size
        · rw [planPre_zero_parent hne hlt hq hh]; exact group k rs hne hlt hq hh
        · rw [planPre_zero_half hne hlt hq (by omega)]; exact half k rs hne hlt hq (by omega)
    · rw [planPre_zero_skip (by omega)]; exact gone k rs hne (by omega)
  | succ L ih =>
    by_cases hne : rs = []
    · subst hne; rw [planPre_nil]; exact nil (L + 1) k
    by_cases hlt : nodeOf k (L + 1) < filled
    · by_cases hq : queryLeaf bs ml (L + 1) rs = true
      · rw [planPre_queryLeaf hne hlt hq]; exact qleaf (L + 1) k rs hne hlt hq
      · have hq : queryLeaf bs ml (L + 1) rs = false := by simpa using hq
        rw [planPre_succ hne hlt hq]
        exact inner L k rs hne hlt hq (ih _ _) (ih _ _)
    · rw [planPre_skip (by omega)]; exact skip L k rs hne (by omega) (ih _ _)

/-- an existing subtree with a non-empty sub-query has a non-empty plan -/
theorem planPre_ne_nil {size bs ml filled root : Nat} (L k : Nat) (rs : Ranges) :
    rs ≠ [] → startOf k L < filled → planPre size bs ml filled root L k rs ≠ [] := by
  refine planPre_induct (size := size) (bs := bs) (ml := ml) (filled := filled) (root := root)
    (P := fun L k rs p => rs ≠ [] → startOf k L < filled → p ≠ []) ?_ ?_ ?_ ?_ ?_ ?_ ?_ L k rs
  · intro L k h; exact absurd rfl h
  · intro k rs _ hge _ hs
    have : startOf k 0 = nodeOf k 0 := by rw [Offsets.startOf_zero, Offsets.nodeOf_zero]
    omega
  · intro L k rs hne _ ih _ hs
    exact ih hne (by rw [Bits.startOf_left]; exact hs)
  · intro L k rs _ _ _ _ _; simp
  · intro k rs _ _ _ _ _ _; simp
  · intro k rs _ _ _ _ _ _; simp
  · intro L k rs _ _ _ _ _ _ _; simp

end Bao.PlanPre
