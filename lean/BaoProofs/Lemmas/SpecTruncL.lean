import BaoProofs.Lemmas.SpecIndexStr
import BaoModel.Ops1

/-!
# Lemmas for the `trunc` verdict (`opTrunc`)

1. `String.splitOn ","` inverts joining comma-free tokens with `","` (the proof of
   `Lemmas/SpecIndexStr.lean` for the separator `" "`, repeated for `","`; the position lemmas
   `bsize`, `getAux_at`, `extract_at` are reused from there).
2. `parseNatList (natList l) = some l` for every list `l` (`parseNatList_natList`).
3. `opTrunc` restated with named definitions (`truncVerdict`, `truncVerdictL`, `selEq`) whose source
   is identical to the `let`s of `opTrunc`, related by `rfl` (`opTrunc_eq`).
-/

namespace Bao.SpecTrunc
open Bao Bao.Ops Bao.Proto Bao.SpecIndex

/-! ## 1. `splitOn ","` -/

/-- list model of `splitOn ","`: `cur` is the token being read -/
def splitC : List Char → List Char → List (List Char)
  | cur, [] => [cur]
  | cur, c :: rest => if c = ',' then cur :: splitC [] rest else splitC (cur ++ [c]) rest

theorem cm_toList : ("," : String).toList = [','] := by rfl

theorem splitOnAux_comma (s : String) (rest : List Char) : ∀ (pre cur : List Char) (r : List String),
    s.toList = pre ++ cur ++ rest →
    String.splitOnAux s "," ⟨bsize pre⟩ ⟨bsize (pre ++ cur)⟩ 0 r
      = r.reverse ++ (splitC cur rest).map String.ofList := by
  induction rest with
  | nil =>
    intro pre cur r h
    rw [String.splitOnAux]
    have hend : String.Pos.Raw.atEnd s ⟨bsize (pre ++ cur)⟩ = true := by
      simp only [String.Pos.Raw.atEnd, utf8ByteSize_eq_bsize, h, List.append_nil, ge_iff_le,
        Nat.le_refl, decide_true]
    rw [if_pos hend]
    simp only [List.reverse_cons, splitC, List.map_cons, List.map_nil]
    rw [extract_at s pre cur [] h]
  | cons c rest ih =>
    intro pre cur r h
    have hc := Char.utf8Size_pos c
    rw [String.splitOnAux]
    have hend : ¬ String.Pos.Raw.atEnd s ⟨bsize (pre ++ cur)⟩ = true := by
      simp only [String.Pos.Raw.atEnd, utf8ByteSize_eq_bsize, h, ge_iff_le, decide_eq_true_eq]
      rw [bsize_append (pre ++ cur)]
      simp only [bsize]
      omega
    rw [if_neg hend]
    have hget : String.Pos.Raw.get s ⟨bsize (pre ++ cur)⟩ = c := by
      unfold String.Pos.Raw.get
      rw [h]
      have := getAux_at (pre ++ cur) c rest 0
      simp only [Nat.zero_add] at this
      exact this
    have hget0 : String.Pos.Raw.get "," 0 = ',' := by rfl
    have hnext : String.Pos.Raw.next s ⟨bsize (pre ++ cur)⟩ = ⟨bsize (pre ++ cur ++ [c])⟩ := by
      unfold String.Pos.Raw.next
      rw [hget, bsize_append (pre ++ cur)]
      simp only [bsize, Nat.add_zero]
      rfl
    by_cases hsp : c = ','
    · subst hsp
      have hb : (String.Pos.Raw.get s ⟨bsize (pre ++ cur)⟩ == String.Pos.Raw.get "," 0) = true := by
        rw [hget, hget0]; rfl
      rw [if_pos hb]
      have hj : String.Pos.Raw.atEnd "," (String.Pos.Raw.next "," 0) = true := by rfl
      simp only [hj, if_true, hnext]
      have hun : (⟨bsize (pre ++ cur ++ [','])⟩ : String.Pos.Raw).unoffsetBy
          (String.Pos.Raw.next "," 0) = ⟨bsize (pre ++ cur)⟩ := by
        have : String.Pos.Raw.next "," 0 = ⟨1⟩ := by rfl
        rw [this, bsize_append (pre ++ cur)]
        simp only [bsize]
        ext
        simp
        rfl
      rw [hun, extract_at s pre cur (',' :: rest) h]
      have h' : s.toList = (pre ++ cur ++ [',']) ++ [] ++ rest := by
        rw [h]; simp
      have := ih (pre ++ cur ++ [',']) [] (String.ofList cur :: r) h'
      rw [List.append_nil] at this
      rw [this]
      simp [splitC]
    · have hb : ¬ (String.Pos.Raw.get s ⟨bsize (pre ++ cur)⟩ == String.Pos.Raw.get "," 0) = true := by
        rw [hget, hget0]; simpa using hsp
      rw [if_neg hb]
      have hun : (⟨bsize (pre ++ cur)⟩ : String.Pos.Raw).unoffsetBy 0 = ⟨bsize (pre ++ cur)⟩ := by
        ext; simp
      rw [hun, hnext]
      have h' : s.toList = pre ++ (cur ++ [c]) ++ rest := by
        rw [h]; simp
      have := ih pre (cur ++ [c]) r h'
      rw [← List.append_assoc] at this
      rw [this]
      simp [splitC, hsp]

theorem splitOn_comma (s : String) : s.splitOn "," = (splitC [] s.toList).map String.ofList := by
  unfold String.splitOn
  rw [if_neg (by decide)]
  have := splitOnAux_comma s s.toList [] [] [] (by simp)
  simpa [bsize] using this

theorem splitC_append (t : List Char) (ht : ',' ∉ t) (cur rest : List Char) :
    splitC cur (t ++ rest) = splitC (cur ++ t) rest := by
  induction t generalizing cur with
  | nil => simp
  | cons c t ih =>
    have hc : c ≠ ',' := fun e => ht (by rw [e]; exact List.mem_cons_self ..)
    have ht' : ',' ∉ t := fun h => ht (List.mem_cons_of_mem _ h)
    simp only [List.cons_append, splitC, if_neg hc]
    rw [ih ht', List.append_assoc]
    rfl

/-- the characters of `",".intercalate (a :: as)` after `a` -/
def joinTailC : List (List Char) → List Char
  | [] => []
  | t :: ts => ',' :: (t ++ joinTailC ts)

theorem splitC_join (ts : List (List Char)) (hts : ∀ t ∈ ts, ',' ∉ t) (cur : List Char) :
    splitC cur (joinTailC ts) = cur :: ts := by
  induction ts generalizing cur with
  | nil => rfl
  | cons t ts ih =>
    have ht := hts t (List.mem_cons_self ..)
    have hts' : ∀ u ∈ ts, ',' ∉ u := fun u hu => hts u (List.mem_cons_of_mem _ hu)
    simp only [joinTailC, splitC, if_true]
    rw [splitC_append t ht, ih hts', List.nil_append]

theorem toList_intercalate_cm (a : String) (as : List String) :
    (",".intercalate (a :: as)).toList = a.toList ++ joinTailC (as.map String.toList) := by
  induction as generalizing a with
  | nil => simp [joinTailC]
  | cons u l ih =>
    rw [String.intercalate_cons_cons, String.toList_append, String.toList_append, ih, cm_toList]
    simp [joinTailC]

/-- `splitOn ","` inverts joining comma-free tokens with `","` -/
theorem splitOn_intercalate_comma (toks : List String) (hne : toks ≠ [])
    (hsp : ∀ t ∈ toks, ',' ∉ t.toList) : (",".intercalate toks).splitOn "," = toks := by
  obtain ⟨a, as, rfl⟩ := List.exists_cons_of_ne_nil hne
  rw [splitOn_comma, toList_intercalate_cm]
  have ha := hsp a (List.mem_cons_self ..)
  have has : ∀ t ∈ as.map String.toList, ',' ∉ t := by
    intro t ht
    obtain ⟨u, hu, rfl⟩ := List.mem_map.1 ht
    exact hsp u (List.mem_cons_of_mem _ hu)
  rw [splitC_append a.toList ha, splitC_join _ has, List.nil_append]
  simp [String.ofList_toList]

/-! ## 2. `parseNatList ∘ natList` -/

/-- every character of a decimal number is a digit -/
theorem isDigit_of_mem_toString (n : Nat) {c : Char} (h : c ∈ (toString n).toList) :
    c.isDigit = true := by
  have h' : c ∈ (Nat.repr n).toList := h
  rw [Nat.toList_repr] at h'
  exact Nat.isDigit_of_mem_toDigits (by omega) (by omega) h'

theorem noComma_nat (n : Nat) : ',' ∉ (toString n).toList :=
  fun h => absurd (isDigit_of_mem_toString n h) (by decide)

/-- the characters of `joinTailC` of decimal numbers are digits or commas -/
theorem mem_joinTailC_nat (l : List Nat) {c : Char}
    (h : c ∈ joinTailC ((l.map toString).map String.toList)) : c = ',' ∨ c.isDigit = true := by
  induction l with
  | nil => simp [joinTailC] at h
  | cons a l ih =>
    simp only [List.map_cons, joinTailC, List.mem_cons, List.mem_append] at h
    rcases h with h | h | h
    · exact Or.inl h
    · exact Or.inr (isDigit_of_mem_toString a h)
    · exact ih h

/-- the canonical text of a non-empty list is not `"-"` -/
theorem intercalate_ne_dash (a : Nat) (l : List Nat) :
    ((",".intercalate ((a :: l).map toString)) == "-") = false := by
  rw [beq_eq_false_iff_ne]
  intro e
  have hm : '-' ∈ (",".intercalate ((a :: l).map toString)).toList := by
    rw [e]; decide
  rw [List.map_cons, toList_intercalate_cm, List.mem_append] at hm
  rcases hm with hm | hm
  · exact absurd (isDigit_of_mem_toString a hm) (by decide)
  · rcases mem_joinTailC_nat l hm with h | h
    · exact absurd h (by decide)
    · exact absurd h (by decide)

/-- the canonical text form of a list of numbers parses back to the list -/
theorem parseNatList_natList (l : List Nat) : parseNatList (natList l) = some l := by
  cases l with
  | nil => rfl
  | cons a l =>
    have hn : natList (a :: l) = ",".intercalate ((a :: l).map toString) := rfl
    rw [hn]
    unfold parseNatList
    rw [intercalate_ne_dash a l]
    simp only [Bool.false_eq_true, if_false]
    rw [splitOn_intercalate_comma _ (by simp)]
    · exact mapM_toNat?_toString (a :: l)
    · intro t ht
      obtain ⟨n, _, rfl⟩ := List.mem_map.1 ht
      exact noComma_nat n

/-! ## 3. `opTrunc` with named parts -/

/-- the verdict's `selEq`: the selected sets of `it` and `rs` agree on the chunks `0 .. nChunks+1` -/
def selEq (size : Nat) (rs it : List Nat) : Bool :=
  (List.range (Spec.nChunks size + 2)).all fun c =>
    Spec.selected size it c == Spec.selected size rs c

/-- the cascade of `opTrunc` on a parsed output `it` -/
def truncVerdictL (rs : List Nat) (size : Nat) (it : List Nat) : Option String :=
  if !Ranges.WF it then some "not strictly sorted"
  else if !selEq size rs it then some "selected set changed"
  else if Ranges.truncate it size != it then some "not idempotent (model truncate on impl output)"
  else none

/-- the verdict of `opTrunc` on the output text `impl` -/
def truncVerdict (rs : List Nat) (size : Nat) (impl : String) : Option String :=
  match parseNatList impl with
  | none => some "malformed"
  | some it => truncVerdictL rs size it

/-- `opTrunc` on arguments that parse: the model output and the verdict, by name -/
theorem opTrunc_eq (rsS sizeS impl : String) (rs : List Nat) (size : Nat)
    (h1 : parseNatList rsS = some rs) (h2 : sizeS.toNat? = some size) :
    (opTrunc [rsS, sizeS] impl).model = natList (Ranges.truncate rs size) ∧
    (opTrunc [rsS, sizeS] impl).specFail = truncVerdict rs size impl := by
  refine ⟨?_, ?_⟩ <;> simp only [opTrunc, h1, h2] <;> rfl

/-- arguments that do not parse are rejected as `bad-op` (by design, not a finding) -/
theorem opTrunc_bad (rsS sizeS impl : String)
    (h : parseNatList rsS = none ∨ sizeS.toNat? = none) :
    (opTrunc [rsS, sizeS] impl).specFail = some "bad-op" := by
  rcases h with h | h
  · simp only [opTrunc, h]; rfl
  · cases h1 : parseNatList rsS <;> simp only [opTrunc, h1, h] <;> rfl

end Bao.SpecTrunc
