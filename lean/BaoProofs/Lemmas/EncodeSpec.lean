import BaoProofs.Props.C15
import BaoProofs.Props.C03
import BaoProofs.Props.C08
import BaoProofs.Lemmas.EncL

/-!
# The encoders emit the honest encoding `Spec.encode` (lemmas for C04)

* part A – `Spec.slice`, `Spec.anySel`, `Spec.allSel`: elementary facts.
* part B – `Spec.itemsI`: one-step unfolding in terms of the first chunk `a = j·2^h` of the
  interval, an interval without selected chunk has no items (`itemsI_none`), an interval whose
  right half is beyond the blob is its left half (`itemsI_succ_skip`), a fully selected interval
  of height `≤ bs` is its bytes (`bytesI_full`).
* part C – `prune_aux`: the block-size-`bs` stream is the block-size-0 stream with the parents
  of fully selected sub-group nodes removed (on the byte level).
* part D – `Repr`: the invariant of a restricted range set `rs` at a node `[a, b)`:
  well-formed, `Tight`, `Bounded` (both from `PlanPreCover`), "a single boundary is `0` or behind
  the start", truncated (`Trunc`), and it selects the chunks `sel` selects.  `Repr` holds at the
  root for `truncate q size`, is preserved by `split_inner`, and gives
  `rs = [] ↔ ¬anySel` (`repr_nil_iff`) and `isAll rs ↔ allSel` (`repr_all_iff`, for nodes with at
  least two chunks inside the blob).
* part E – `rec_out`, `rec_spec`: `encode_selected_rec` on the bytes of an interval inside a chunk
  group returns `Spec.cv` and the bytes of `Spec.itemsI`.
* part F – `loop_sub`: `encodeValidatedLoop` over the recursive plan `PlanPre.planPre` of a subtree,
  with `Spec.cv` of the subtree's interval on top of the expected-hash stack, on the intact store:
  every comparison succeeds, the stack loses exactly that entry, and the output gains exactly the
  bytes of `Spec.itemsI` of that interval.  `validated_spec`: the whole encoder.
-/

set_option maxRecDepth 8192

namespace Bao.EncodeSpec
open Bao Bao.Spec Bao.Bits Bao.PlanPre

variable {H : Type}

/-! ## part A: slices and selections -/

theorem length_le_nChunks (size : Nat) : size ≤ nChunks size * 1024 := by
  unfold nChunks; omega

theorem lt_nChunks_iff (size c : Nat) : c < nChunks size ↔ c = 0 ∨ c * 1024 < size := by
  unfold nChunks; omega

/-- a slice may be clipped to the blob -/
theorem slice_clip (d : List UInt8) {n : Nat} (hn : d.length ≤ n * 1024) (a b : Nat) :
    slice d a (min b n) = slice d a b := by
  unfold slice
  rw [List.take_eq_take_iff, List.length_drop]
  omega

theorem slice_eq_of_ge (d : List UInt8) {n : Nat} (hn : d.length ≤ n * 1024) (a : Nat) {b b' : Nat}
    (h1 : n ≤ b) (h2 : n ≤ b') : slice d a b = slice d a b' := by
  rw [← slice_clip d hn a b, ← slice_clip d hn a b', Nat.min_eq_right h1, Nat.min_eq_right h2]

theorem slice_append (d : List UInt8) {a m b : Nat} (h1 : a ≤ m) (h2 : m ≤ b) :
    slice d a m ++ slice d m b = slice d a b := by
  unfold slice
  have e : (b - a) * 1024 = (m - a) * 1024 + (b - m) * 1024 := by omega
  have e2 : m * 1024 = a * 1024 + (m - a) * 1024 := by omega
  rw [e, List.take_add, e2, ← List.drop_drop]

theorem anySel_eq_true {sel : Nat → Bool} {a b : Nat} :
    anySel sel a b = true ↔ ∃ c, a ≤ c ∧ c < b ∧ sel c = true := by
  unfold anySel
  rw [List.any_eq_true]
  constructor
  · rintro ⟨i, hi, hs⟩
    rw [List.mem_range] at hi
    exact ⟨a + i, by omega, by omega, hs⟩
  · rintro ⟨c, h1, h2, hs⟩
    exact ⟨c - a, List.mem_range.2 (by omega), by rw [show a + (c - a) = c by omega]; exact hs⟩

theorem anySel_eq_false {sel : Nat → Bool} {a b : Nat} :
    anySel sel a b = false ↔ ∀ c, a ≤ c → c < b → sel c = false := by
  constructor
  · intro h c h1 h2
    cases hs : sel c with
    | false => rfl
    | true => rw [anySel_eq_true.2 ⟨c, h1, h2, hs⟩] at h; cases h
  · intro h
    cases ha : anySel sel a b with
    | false => rfl
    | true =>
      obtain ⟨c, h1, h2, hs⟩ := anySel_eq_true.1 ha
      rw [h c h1 h2] at hs; cases hs

theorem allSel_eq_true {sel : Nat → Bool} {a b : Nat} :
    allSel sel a b = true ↔ ∀ c, a ≤ c → c < b → sel c = true := by
  unfold allSel
  rw [List.all_eq_true]
  constructor
  · intro h c h1 h2
    have := h (c - a) (List.mem_range.2 (by omega))
    rwa [show a + (c - a) = c by omega] at this
  · intro h i hi
    rw [List.mem_range] at hi
    exact h (a + i) (by omega) (by omega)

/-! ## part B: `Spec.itemsI` -/

/-- the bytes of the items of the interval of height `h` and index `j` -/
def bytesI (hf : HashFns H) (d : List UInt8) (n bs : Nat) (sel : Nat → Bool) (h j : Nat) :
    List UInt8 :=
  (itemsI hf d n bs sel h j).flatMap SItem.bytes

section items
variable (hf : HashFns H) (d : List UInt8) (n bs : Nat) (sel : Nat → Bool)

theorem pow_succ_two (h : Nat) : 2 ^ (h + 1) = 2 ^ h + 2 ^ h := by rw [Nat.pow_succ]; omega

/-- first chunk of the left child -/
theorem left_start {a j h : Nat} (ha : a = j * 2 ^ (h + 1)) : a = 2 * j * 2 ^ h := by
  rw [ha, Nat.pow_succ, Nat.mul_comm 2 j, Nat.mul_assoc, Nat.mul_comm 2]

/-- first chunk of the right child -/
theorem right_start {a j h : Nat} (ha : a = j * 2 ^ (h + 1)) : a + 2 ^ h = (2 * j + 1) * 2 ^ h := by
  rw [Nat.add_mul, Nat.one_mul, ← left_start ha]

theorem itemsI_zero (j : Nat) :
    itemsI hf d n bs sel 0 j = if sel j then [.leaf j (slice d j (j + 1))] else [] := by
  simp only [itemsI]

/-- one-step unfolding, in terms of the first chunk `a` of the interval -/
theorem itemsI_succ {a j h : Nat} (ha : a = j * 2 ^ (h + 1)) :
    itemsI hf d n bs sel (h + 1) j =
      if !anySel sel a (min (a + 2 ^ (h + 1)) n) then []
      else if a + 2 ^ h ≥ n then itemsI hf d n bs sel h (2 * j)
      else if allSel sel a (min (a + 2 ^ (h + 1)) n) && decide (h + 1 ≤ bs) then
        [.leaf a (slice d a (min (a + 2 ^ (h + 1)) n))]
      else
        .parent (nodeOf j h)
            (hf.toBytes (cv hf d a (a + 2 ^ h) false) ++
              hf.toBytes (cv hf d (a + 2 ^ h) (min (a + 2 ^ (h + 1)) n) false))
          :: (itemsI hf d n bs sel h (2 * j) ++ itemsI hf d n bs sel h (2 * j + 1)) := by
  have e : (j + 1) * 2 ^ (h + 1) = a + 2 ^ (h + 1) := by rw [Nat.add_mul, Nat.one_mul, ha]
  simp only [itemsI, e, ← ha]

variable {hf d n bs sel}

/-- an interval without a selected chunk has no items -/
theorem itemsI_none : ∀ (h j a : Nat), a = j * 2 ^ h → a < n →
    anySel sel a (min (a + 2 ^ h) n) = false → itemsI hf d n bs sel h j = [] := by
  intro h
  cases h with
  | zero =>
    intro j a ha han hsel
    simp only [Nat.pow_zero, Nat.mul_one] at ha hsel
    subst ha
    have := anySel_eq_false.1 hsel a (Nat.le_refl _) (by omega)
    rw [itemsI_zero, this]; rfl
  | succ h =>
    intro j a ha han hsel
    rw [itemsI_succ hf d n bs sel ha, hsel]; rfl

/-- an interval whose right half is beyond the blob is its left half -/
theorem itemsI_succ_skip {h j a : Nat} (ha : a = j * 2 ^ (h + 1)) (han : a < n)
    (hmid : n ≤ a + 2 ^ h) : itemsI hf d n bs sel (h + 1) j = itemsI hf d n bs sel h (2 * j) := by
  have hp := pow_succ_two h
  have e1 : min (a + 2 ^ (h + 1)) n = n := by omega
  have e2 : min (a + 2 ^ h) n = n := by omega
  rw [itemsI_succ hf d n bs sel ha]
  cases hsel : anySel sel a (min (a + 2 ^ (h + 1)) n) with
  | false =>
    rw [e1] at hsel
    rw [itemsI_none h (2 * j) a (left_start ha) han (by rw [e2]; exact hsel)]; rfl
  | true => simp only [Bool.not_true, Bool.false_eq_true, if_false, ge_iff_le, if_pos hmid]

theorem bytesI_succ_skip {h j a : Nat} (ha : a = j * 2 ^ (h + 1)) (han : a < n)
    (hmid : n ≤ a + 2 ^ h) : bytesI hf d n bs sel (h + 1) j = bytesI hf d n bs sel h (2 * j) := by
  unfold bytesI; rw [itemsI_succ_skip ha han hmid]

theorem bytesI_none {h j a : Nat} (ha : a = j * 2 ^ h) (han : a < n)
    (hsel : anySel sel a (min (a + 2 ^ h) n) = false) : bytesI hf d n bs sel h j = [] := by
  unfold bytesI; rw [itemsI_none h j a ha han hsel]; rfl

/-- a completely selected interval of height at most `bs` is encoded as its bytes -/
theorem bytesI_full : ∀ (h j a : Nat), a = j * 2 ^ h → h ≤ bs → a < n →
    allSel sel a (min (a + 2 ^ h) n) = true →
    bytesI hf d n bs sel h j = slice d a (min (a + 2 ^ h) n) := by
  intro h
  induction h with
  | zero =>
    intro j a ha _ han hall
    simp only [Nat.pow_zero, Nat.mul_one] at ha hall ⊢
    subst ha
    have := allSel_eq_true.1 hall a (Nat.le_refl _) (by omega)
    unfold bytesI
    rw [itemsI_zero, this, Nat.min_eq_left (by omega)]
    simp [SItem.bytes]
  | succ h ih =>
    intro j a ha hbs han hall
    have hp := pow_succ_two h
    have hany : anySel sel a (min (a + 2 ^ (h + 1)) n) = true :=
      anySel_eq_true.2 ⟨a, Nat.le_refl _, by have := two_pow_pos' h; omega,
        allSel_eq_true.1 hall a (Nat.le_refl _) (by have := two_pow_pos' h; omega)⟩
    by_cases hmid : n ≤ a + 2 ^ h
    · have e1 : min (a + 2 ^ (h + 1)) n = n := by omega
      have e2 : min (a + 2 ^ h) n = n := by omega
      rw [bytesI_succ_skip ha han hmid, ih (2 * j) a (left_start ha) (by omega) han
        (by rw [e2, ← e1]; exact hall), e1, e2]
    · unfold bytesI
      rw [itemsI_succ hf d n bs sel ha, hany, hall]
      have : decide (h + 1 ≤ bs) = true := by simpa using hbs
      simp only [this, Bool.not_true, Bool.false_eq_true, if_false, ge_iff_le, if_neg hmid,
        Bool.and_self, if_true]
      simp [SItem.bytes]

/-- unfolding of the bytes at an interval that really splits (its mid lies inside the blob) -/
theorem bytesI_succ_split {h j a : Nat} (ha : a = j * 2 ^ (h + 1)) (hmid : a + 2 ^ h < n) :
    bytesI hf d n bs sel (h + 1) j =
      if !anySel sel a (min (a + 2 ^ (h + 1)) n) then []
      else if allSel sel a (min (a + 2 ^ (h + 1)) n) && decide (h + 1 ≤ bs) then
        slice d a (min (a + 2 ^ (h + 1)) n)
      else
        hf.toBytes (cv hf d a (a + 2 ^ h) false) ++
          hf.toBytes (cv hf d (a + 2 ^ h) (min (a + 2 ^ (h + 1)) n) false) ++
          (bytesI hf d n bs sel h (2 * j) ++ bytesI hf d n bs sel h (2 * j + 1)) := by
  unfold bytesI
  rw [itemsI_succ hf d n bs sel ha]
  have hm : ¬ (a + 2 ^ h ≥ n) := by omega
  simp only [if_neg hm]
  split
  · rfl
  · split
    · simp [SItem.bytes]
    · simp [SItem.bytes, List.flatMap_append]

end items

/-! ## part C: pruning the block-size-0 stream -/

/-- which items of the block-size-0 stream survive at block size `bs`: all leaves, and the
parents except those of a node of level `< bs` whose chunk interval (clipped to the blob of `n`
chunks) is completely selected -/
def keep (bs : Nat) (sel : Nat → Bool) (n : Nat) : SItem → Bool
  | .leaf _ _ => true
  | .parent node _ =>
    !(decide (levelOf node < bs) &&
      allSel sel (startOf (indexOf node) (levelOf node))
        (min (endOf (indexOf node) (levelOf node)) n))

theorem keep_parent (bs : Nat) (sel : Nat → Bool) (n : Nat) {a j h : Nat}
    (ha : a = j * 2 ^ (h + 1)) (hh : h ≤ 64) (b : List UInt8) :
    keep bs sel n (.parent (nodeOf j h) b) =
      !(allSel sel a (min (a + 2 ^ (h + 1)) n) && decide (h + 1 ≤ bs)) := by
  have e : endOf j h = a + 2 ^ (h + 1) := by unfold endOf; rw [Nat.add_mul, Nat.one_mul, ha]
  have e' : startOf j h = a := by unfold startOf; rw [ha]
  simp only [keep, levelOf_nodeOf hh, indexOf_nodeOf hh, e, e']
  rw [Bool.and_comm]
  congr 2

theorem allSel_mono {sel : Nat → Bool} {a b a' b' : Nat} (h : allSel sel a b = true)
    (h1 : a ≤ a') (h2 : b' ≤ b) : allSel sel a' b' = true :=
  allSel_eq_true.2 fun c hc1 hc2 => allSel_eq_true.1 h c (by omega) (by omega)

theorem anySel_mono_false {sel : Nat → Bool} {a b a' b' : Nat} (h : anySel sel a b = false)
    (h1 : a ≤ a') (h2 : b' ≤ b) : anySel sel a' b' = false :=
  anySel_eq_false.2 fun c hc1 hc2 => anySel_eq_false.1 h c (by omega) (by omega)

/-- the bytes at block size `bs` are the bytes of the block-size-0 items that `keep` keeps -/
theorem prune_aux (hf : HashFns H) (d : List UInt8) (n bs : Nat) (sel : Nat → Bool) :
    ∀ (h j a : Nat), a = j * 2 ^ h → h ≤ 64 → a < n →
      bytesI hf d n bs sel h j =
        ((itemsI hf d n 0 sel h j).filter (keep bs sel n)).flatMap SItem.bytes := by
  intro h
  induction h with
  | zero =>
    intro j a _ _ _
    unfold bytesI
    rw [itemsI_zero, itemsI_zero]
    split
    · simp [List.filter, keep]
    · simp
  | succ h ih =>
    intro j a ha hh han
    have hp := pow_succ_two h
    have hpos := two_pow_pos' h
    by_cases hmid : n ≤ a + 2 ^ h
    · rw [bytesI_succ_skip ha han hmid, itemsI_succ_skip ha han hmid]
      exact ih (2 * j) a (left_start ha) (by omega) han
    · have hmid : a + 2 ^ h < n := by omega
      have ihl := ih (2 * j) a (left_start ha) (by omega) han
      have ihr := ih (2 * j + 1) (a + 2 ^ h) (right_start ha) (by omega) hmid
      rw [bytesI_succ_split ha hmid, itemsI_succ hf d n 0 sel ha]
      have hm : ¬ (a + 2 ^ h ≥ n) := by omega
      have h0 : decide (h + 1 ≤ 0) = false := by simp
      simp only [if_neg hm, h0, Bool.and_false, Bool.false_eq_true, if_false]
      cases hany : anySel sel a (min (a + 2 ^ (h + 1)) n) with
      | false => simp
      | true =>
        simp only [Bool.not_true, Bool.false_eq_true, if_false, List.filter_cons,
          keep_parent bs sel n ha (by omega : h ≤ 64)]
        cases hk : (allSel sel a (min (a + 2 ^ (h + 1)) n) && decide (h + 1 ≤ bs)) with
        | true =>
          simp only [Bool.and_eq_true, decide_eq_true_eq] at hk
          obtain ⟨hall, hbs⟩ := hk
          simp only [Bool.not_true, Bool.false_eq_true, if_false, if_true, List.filter_append,
            List.flatMap_append, ← ihl, ← ihr]
          rw [bytesI_full h (2 * j) a (left_start ha) (by omega) han
              (allSel_mono hall (Nat.le_refl _) (by omega)),
            bytesI_full h (2 * j + 1) (a + 2 ^ h) (right_start ha) (by omega) hmid
              (allSel_mono hall (by omega) (by omega)),
            Nat.min_eq_left (by omega : a + 2 ^ h ≤ n),
            show a + 2 ^ h + 2 ^ h = a + 2 ^ (h + 1) by omega,
            slice_append d (by omega) (by omega)]
        | false =>
          simp only [Bool.not_false, if_true, Bool.false_eq_true, if_false, List.filter_append,
            List.flatMap_cons, List.flatMap_append, ← ihl, ← ihr, SItem.bytes]

theorem log2ceil_le (f n : Nat) : log2ceil f n ≤ f := by
  induction f generalizing n with
  | zero => simp [log2ceil]
  | succ f ih =>
    unfold log2ceil
    split
    · omega
    · have := ih ((n + 1) / 2); omega

/-! ## part D: the invariant of a restricted range set -/

section repr
open Bao.Ranges

/-- all boundaries but the last lie below the last chunk `n - 1`, and a closing last boundary
(even length) is at most `n - 1`: what `truncate_ranges` establishes -/
def Trunc (n : Nat) (rs : Ranges) : Prop :=
  (∀ x ∈ rs.dropLast, x < n - 1) ∧ (rs.length % 2 = 0 → ∀ x ∈ rs, x ≤ n - 1)

/-- `rs` is the range set the plan hands to the node with chunk interval `[a, b)`, for the
selection `sel` of a blob of `size` bytes -/
structure Repr (size : Nat) (sel : Nat → Bool) (rs : Ranges) (a b : Nat) : Prop where
  wf : WF rs = true
  tight : Tight rs a
  single : ∀ x, rs = [x] → x = 0 ∨ a < x
  bounded : Bounded size rs b
  trunc : Trunc (nChunks size) rs
  agree : ∀ c, a ≤ c → c < b → Spec.selected size rs c = sel c

theorem mem_of_mem_dropLast' {l : List Nat} {x : Nat} (h : x ∈ l.dropLast) : x ∈ l := by
  rw [List.dropLast_eq_take] at h; exact List.mem_of_mem_take h

theorem trunc_of_lt {n m : Nat} {rs : Ranges} (hm : m < n) (h : ∀ x ∈ rs, x < m) : Trunc n rs :=
  ⟨fun x hx => by have := h x (mem_of_mem_dropLast' hx); omega,
   fun _ x hx => by have := h x hx; omega⟩

theorem trunc_drop {n j : Nat} {rs : Ranges} (hj : j % 2 = 0) (h : Trunc n rs) :
    Trunc n (rs.drop j) := by
  by_cases hlen : rs.length ≤ j
  · rw [List.drop_eq_nil_of_le hlen]
    exact ⟨fun x hx => by simp at hx, fun _ x hx => by simp at hx⟩
  · constructor
    · intro x hx
      apply h.1
      rw [List.dropLast_eq_take] at hx ⊢
      rw [List.length_drop, List.take_drop] at hx
      exact List.take_subset_take_left rs (by omega) (List.mem_of_mem_drop hx)
    · intro hev x hx
      rw [List.length_drop] at hev
      exact h.2 (by omega) x (List.mem_of_mem_drop hx)

theorem trunc_fixAll {n s : Nat} {l : List Nat} (h : Trunc n l) : Trunc n (fixAll l s) := by
  unfold fixAll; split
  · split
    · exact ⟨fun x hx => by simp at hx, fun hev => by simp at hev⟩
    · exact h
  · exact h

theorem single_fixAll (l : List Nat) (s : Nat) : ∀ x, fixAll l s = [x] → x = 0 ∨ s < x := by
  intro x hx
  unfold fixAll at hx
  split at hx
  · split at hx
    · simp only [List.cons.injEq, and_true] at hx; left; exact hx.symm
    · simp only [List.cons.injEq, and_true] at hx; right; omega
  · rename_i hne
    exact (hne x hx).elim

theorem trunc_split_snd {n : Nat} {rs : Ranges} (hwf : WF rs = true) (m : Nat) (h : Trunc n rs) :
    Trunc n (split rs m).2 := by
  rw [split_eq hwf]
  apply trunc_drop _ h
  repeat' split
  all_goals omega

theorem repr_left {size : Nat} {sel : Nat → Bool} {rs : Ranges} {a b m : Nat}
    (h : Repr size sel rs a b) (ham : a < m) (hmb : m ≤ b) (hmn : m < nChunks size) :
    Repr size sel (splitInner rs a m).1 a m where
  wf := (C14.splitInner_wf a m h.wf).1
  tight := tight_left m h.tight
  single := by rw [splitInner_eq]; exact single_fixAll _ _
  bounded := Or.inr (left_lt_mid rs a (by omega))
  trunc := trunc_of_lt hmn (left_lt_mid rs a (by omega))
  agree := fun c h1 h2 => by
    rw [selected_left h.wf h1 h2 hmn]; exact h.agree c h1 (by omega)

theorem repr_right {size : Nat} {sel : Nat → Bool} {rs : Ranges} {a b m : Nat}
    (h : Repr size sel rs a b) (ham : a ≤ m) (hb : 0 < b) :
    Repr size sel (splitInner rs a m).2 m b where
  wf := (C14.splitInner_wf a m h.wf).2
  tight := tight_right h.wf a m
  single := by rw [splitInner_eq]; exact single_fixAll _ _
  bounded := bounded_right h.wf a m hb h.bounded
  trunc := by rw [splitInner_eq]; exact trunc_fixAll (trunc_split_snd h.wf m h.trunc)
  agree := fun c h1 h2 => by
    rw [selected_right h.wf h1]; exact h.agree c (by omega) h2

/-- a node whose right half lies beyond the blob hands its range set to its left half -/
theorem repr_skip {size : Nat} {sel : Nat → Bool} {rs : Ranges} {a b b' : Nat}
    (h : Repr size sel rs a b) (h1 : nChunks size ≤ b') (h2 : b' ≤ b) :
    Repr size sel rs a b' where
  wf := h.wf
  tight := h.tight
  single := h.single
  bounded := Or.inl h1
  trunc := h.trunc
  agree := fun c hc1 hc2 => h.agree c hc1 (by omega)

/-- the invariant holds at the root for the truncated query -/
theorem repr_root {size : Nat} {q : Ranges} (hwf : WF q = true) {b : Nat}
    (hb : nChunks size ≤ b) :
    Repr size (Spec.selected size q) (truncate q size) 0 b where
  wf := C14.truncate_wf size hwf
  tight := tight_zero (C14.truncate_wf size hwf)
  single := fun x _ => by omega
  bounded := Or.inl hb
  trunc := ⟨C14.truncate_bounded q size, C14.truncate_bounded_closed size hwf⟩
  agree := fun c _ _ => C14.truncate_selected size hwf c

theorem repr_nil {size : Nat} {sel : Nat → Bool} {a b : Nat}
    (hsel : ∀ c, a ≤ c → c < b → sel c = false) : Repr size sel [] a b where
  wf := rfl
  tight := fun x hx => by simp at hx
  single := fun x hx => by cases hx
  bounded := Or.inr (fun x hx => by simp at hx)
  trunc := ⟨fun x hx => by simp at hx, fun _ x hx => by simp at hx⟩
  agree := fun c h1 h2 => by rw [selected_nil, hsel c h1 h2]

/-- the range set is empty iff no chunk of the node (inside the blob) is selected -/
theorem repr_nil_iff {size : Nat} {sel : Nat → Bool} {rs : Ranges} {a b : Nat}
    (h : Repr size sel rs a b) (hab : a < b) (han : a < nChunks size) :
    rs = [] ↔ anySel sel a (min b (nChunks size)) = false := by
  constructor
  · rintro rfl
    apply anySel_eq_false.2
    intro c h1 h2
    rw [← h.agree c h1 (by omega), selected_nil]
  · intro hsel
    apply Classical.byContradiction
    intro hne
    obtain ⟨c, h1, h2, h3⟩ := leaf_witness h.wf hne h.tight h.bounded hab han
    rw [h.agree c h1 (by omega), anySel_eq_false.1 hsel c h1 h2] at h3
    cases h3

theorem contains_of_forall_gt {l : List Nat} (hwf : WF l = true) {x : Nat}
    (h : ∀ b ∈ l, x < b) : contains l x = false := by
  rw [contains_eq hwf, countLe_eq_zero_of_forall_gt h]; rfl

/-- for a node with at least two chunks inside the blob: the range set is "all" iff every chunk
of the node (inside the blob) is selected -/
theorem repr_all_iff {size : Nat} {sel : Nat → Bool} {rs : Ranges} {a b : Nat}
    (h : Repr size sel rs a b) (hab : a + 1 < min b (nChunks size)) :
    isAll rs = true ↔ allSel sel a (min b (nChunks size)) = true := by
  constructor
  · intro hall
    have := isAll_eq hall; subst this
    apply allSel_eq_true.2
    intro c h1 h2
    rw [← h.agree c h1 (by omega), selected_all]
    simp only [decide_eq_true_eq]; omega
  · intro hall
    have hsel : ∀ c, a ≤ c → c < min b (nChunks size) → Spec.selected size rs c = true :=
      fun c h1 h2 => by rw [h.agree c h1 (by omega)]; exact allSel_eq_true.1 hall c h1 h2
    match rs, h, hsel with
    | [], _, hsel =>
      have := hsel a (Nat.le_refl _) (by omega)
      rw [selected_nil] at this; cases this
    | [x], h, hsel =>
      have h1 := hsel a (Nat.le_refl _) (by omega)
      rw [selected_of_lt_mid [x] (c := a) (m := a + 1) (by omega) (by omega),
        contains_singleton, decide_eq_true_eq] at h1
      rcases h.single x rfl with rfl | h2
      · rfl
      · omega
    | x :: y :: rest, h, hsel =>
      exfalso
      have hn := nChunks_pos size
      have hay : a < y := h.tight y (by simp)
      have hwf := h.wf
      have hrest : ∀ z ∈ rest, y < z := WF_head_lt (WF_tail hwf)
      have hcy : contains (x :: y :: rest) y = false := by
        rw [contains_cons_cons' hwf, contains_of_forall_gt (WF_tail (WF_tail hwf)) hrest]
        simp
      have hy : y < nChunks size - 1 ∨ (rest = [] ∧ y ≤ nChunks size - 1) := by
        cases rest with
        | nil => right; exact ⟨rfl, h.trunc.2 (by simp) y (by simp)⟩
        | cons z r => left; exact h.trunc.1 y (by simp [List.dropLast])
      by_cases hye : y < min b (nChunks size)
      · have hs := hsel y (by omega) hye
        rw [selected_eq_reachesPast, hcy] at hs
        rcases hy with hy | ⟨rfl, hy⟩
        · have : (y == nChunks size - 1) = false := by simp; omega
          simp [this] at hs
        · simp [reachesPast] at hs
          omega
      · have : nChunks size ≤ y := by
          rcases h.bounded with hb | hb
          · omega
          · have := hb y (by simp); omega
        omega

end repr

/-! ## part E: `encode_selected_rec` inside a chunk group -/

section rec
variable (hf : HashFns H)

theorem rec_small (L start : Nat) (data : List UInt8) (isRoot : Bool) (query : Ranges)
    (minLevel : Nat) (emit : Bool) (h : data.length ≤ 1024) :
    encodeSelectedRec hf L start data isRoot query minLevel emit =
      (hashSubtree hf start data isRoot, if emit && !query.isEmpty then data else []) := by
  cases L with
  | zero => rw [encodeSelectedRec]
  | succ L => rw [encodeSelectedRec, if_pos (by simpa [chunkLen] using h)]

theorem rec_succ_le (L start : Nat) (data : List UInt8) (isRoot : Bool) (query : Ranges)
    (minLevel : Nat) (emit : Bool) (h1 : 1024 < data.length) (h2 : data.length ≤ 2 ^ L * 1024) :
    encodeSelectedRec hf (L + 1) start data isRoot query minLevel emit =
      encodeSelectedRec hf L start data isRoot query minLevel emit := by
  rw [encodeSelectedRec, if_neg (by simp only [chunkLen]; omega),
    if_pos (by simpa [chunkLen] using h2)]

theorem rec_succ_split (L start : Nat) (data : List UInt8) (isRoot : Bool) (query : Ranges)
    (minLevel : Nat) (emit : Bool) (h2 : 2 ^ L * 1024 < data.length) :
    encodeSelectedRec hf (L + 1) start data isRoot query minLevel emit =
      (hf.parentCv
        (encodeSelectedRec hf L start (data.take (2 ^ L * 1024)) false
          (Ranges.splitInner query start (start + 2 ^ L)).1 minLevel emit).1
        (encodeSelectedRec hf L (start + 2 ^ L) (data.drop (2 ^ L * 1024)) false
          (Ranges.splitInner query start (start + 2 ^ L)).2 minLevel emit).1 isRoot,
       (if !query.isEmpty && (!Ranges.isAll query || decide (L ≥ minLevel)) then
          hf.toBytes (encodeSelectedRec hf L start (data.take (2 ^ L * 1024)) false
            (Ranges.splitInner query start (start + 2 ^ L)).1 minLevel emit).1 ++
          hf.toBytes (encodeSelectedRec hf L (start + 2 ^ L) (data.drop (2 ^ L * 1024)) false
            (Ranges.splitInner query start (start + 2 ^ L)).2 minLevel emit).1
        else []) ++
        (encodeSelectedRec hf L start (data.take (2 ^ L * 1024)) false
          (Ranges.splitInner query start (start + 2 ^ L)).1 minLevel emit).2 ++
        (encodeSelectedRec hf L (start + 2 ^ L) (data.drop (2 ^ L * 1024)) false
          (Ranges.splitInner query start (start + 2 ^ L)).2 minLevel emit).2) := by
  have hp := two_pow_pos' L
  rw [encodeSelectedRec, if_neg (by simp only [chunkLen]; omega),
    if_neg (by simp only [chunkLen]; omega)]
  rfl

/-- the level bound of `encode_selected_rec` does not matter once it covers the data -/
theorem rec_fuel : ∀ (L' L start : Nat) (data : List UInt8) (isRoot : Bool) (query : Ranges)
    (minLevel : Nat) (emit : Bool), L ≤ L' → data.length ≤ 2 ^ L * 1024 →
    encodeSelectedRec hf L' start data isRoot query minLevel emit =
      encodeSelectedRec hf L start data isRoot query minLevel emit := by
  intro L'
  induction L' with
  | zero =>
    intro L start data isRoot query minLevel emit hL _
    have : L = 0 := by omega
    subst this; rfl
  | succ L' ih =>
    intro L start data isRoot query minLevel emit hL hlen
    by_cases hLL : L = L' + 1
    · subst hLL; rfl
    · by_cases hs : data.length ≤ 1024
      · rw [rec_small hf _ _ _ _ _ _ _ hs, rec_small hf _ _ _ _ _ _ _ hs]
      · have hle : 2 ^ L ≤ 2 ^ L' := Nat.pow_le_pow_right (by decide) (by omega)
        rw [rec_succ_le hf _ _ _ _ _ _ _ (by omega) (by omega)]
        exact ih L start data isRoot query minLevel emit (by omega) hlen

end rec

theorem slice_take (d : List UInt8) (a : Nat) {p q : Nat} (hpq : p ≤ q) :
    (slice d a (a + q)).take (p * 1024) = slice d a (a + p) := by
  unfold slice
  rw [List.take_take]
  congr 1
  have : p * 1024 ≤ q * 1024 := Nat.mul_le_mul_right _ hpq
  omega

theorem slice_drop (d : List UInt8) (a : Nat) {p q : Nat} (hpq : p ≤ q) :
    (slice d a (a + q)).drop (p * 1024) = slice d (a + p) (a + q) := by
  unfold slice
  rw [List.drop_take, List.drop_drop]
  have : p * 1024 ≤ q * 1024 := Nat.mul_le_mul_right _ hpq
  congr 2 <;> omega

/-- one chunk: the range set is empty iff the chunk is not selected -/
theorem repr_single {size : Nat} {sel : Nat → Bool} {rs : Ranges} {a b : Nat}
    (h : Repr size sel rs a b) (hab : a < b) (han : a < nChunks size)
    (hb : min b (nChunks size) = a + 1) : rs = [] ↔ sel a = false := by
  rw [repr_nil_iff h hab han, hb]
  constructor
  · intro hs; exact anySel_eq_false.1 hs a (Nat.le_refl _) (by omega)
  · intro hs; apply anySel_eq_false.2
    intro c h1 h2
    have : c = a := by omega
    rw [this]; exact hs

theorem isEmpty_eq_true_of_nil {rs : Ranges} (h : rs = []) : rs.isEmpty = true := by
  subst h; rfl

/-- **`encode_selected_rec` emits `Spec.itemsI`**: on the bytes of the interval of height `h ≤ bs`
and index `j` (first chunk `a = j·2^h` inside the blob), with a range set that represents the
selection there, the bytes appended are those of the items of the interval -/
theorem rec_out (hf : HashFns H) (d : List UInt8) (bs : Nat) (sel : Nat → Bool) (hbs : bs ≤ 64) :
    ∀ (h j a : Nat) (rs : Ranges) (isRoot : Bool), a = j * 2 ^ h → h ≤ bs →
      a < nChunks d.length → Repr d.length sel rs a (a + 2 ^ h) →
      (encodeSelectedRec hf h a (slice d a (a + 2 ^ h)) isRoot rs bs true).2 =
        bytesI hf d (nChunks d.length) bs sel h j := by
  have hdn := length_le_nChunks d.length
  intro h
  induction h with
  | zero =>
    intro j a rs isRoot ha _ han hr
    simp only [Nat.pow_zero, Nat.mul_one] at ha hr ⊢
    subst ha
    have hiff := repr_single hr (by omega) han (by omega)
    rw [encodeSelectedRec]
    unfold bytesI
    rw [itemsI_zero]
    by_cases hne : rs = []
    · rw [hiff.1 hne, isEmpty_eq_true_of_nil hne]; rfl
    · have hs : sel a = true := by
        cases hsa : sel a with
        | true => rfl
        | false => exact (hne (hiff.2 hsa)).elim
      rw [hs, isEmpty_eq_false hne]
      simp [SItem.bytes]
  | succ h ih =>
    intro j a rs isRoot ha hh han hr
    have hp := pow_succ_two h
    have hpos := two_pow_pos' h
    have hlen := OutboardL.slice_length d a (a + 2 ^ (h + 1))
    rw [Nat.add_sub_cancel_left] at hlen
    by_cases hs : (slice d a (a + 2 ^ (h + 1))).length ≤ 1024
    · -- a single chunk
      have hn1 : nChunks d.length = a + 1 := by
        have h3 : ¬ (a + 1) * 1024 < d.length := by omega
        have : ¬ (a + 1 < nChunks d.length) := by
          rw [lt_nChunks_iff]; omega
        omega
      have hmin : min (a + 2 ^ (h + 1)) (nChunks d.length) = a + 1 := by omega
      have hiff := repr_single hr (by omega) han hmin
      rw [rec_small hf _ _ _ _ _ _ _ hs]
      by_cases hne : rs = []
      · rw [isEmpty_eq_true_of_nil hne]
        have := (repr_nil_iff hr (by omega) han).1 hne
        rw [bytesI_none ha han this]; rfl
      · have hsa : sel a = true := by
          cases hsa : sel a with
          | true => rfl
          | false => exact (hne (hiff.2 hsa)).elim
        rw [isEmpty_eq_false hne]
        have hall : allSel sel a (min (a + 2 ^ (h + 1)) (nChunks d.length)) = true := by
          rw [hmin]; apply allSel_eq_true.2
          intro c h1 h2
          have : c = a := by omega
          rw [this]; exact hsa
        rw [bytesI_full (h + 1) j a ha hh han hall, slice_clip d hdn]
        rfl
    · by_cases hm : (slice d a (a + 2 ^ (h + 1))).length ≤ 2 ^ h * 1024
      · -- the right half lies beyond the blob
        have hmid : nChunks d.length ≤ a + 2 ^ h := by
          have : ¬ (a + 2 ^ h < nChunks d.length) := by
            rw [lt_nChunks_iff]
            have : (a + 2 ^ h) * 1024 = a * 1024 + 2 ^ h * 1024 := Nat.add_mul _ _ _
            omega
          omega
        rw [rec_succ_le hf _ _ _ _ _ _ _ (by omega) hm, bytesI_succ_skip ha han hmid,
          slice_eq_of_ge d hdn a (b' := a + 2 ^ h) (by omega) hmid]
        exact ih (2 * j) a rs isRoot (left_start ha) (by omega) han
          (repr_skip hr hmid (by omega))
      · -- the interval splits
        have hmid : a + 2 ^ h < nChunks d.length := by
          rw [lt_nChunks_iff]
          have : (a + 2 ^ h) * 1024 = a * 1024 + 2 ^ h * 1024 := Nat.add_mul _ _ _
          right; omega
        have hrl := repr_left hr (by omega : a < a + 2 ^ h) (by omega) hmid
        have hrr := repr_right hr (by omega : a ≤ a + 2 ^ h) (by omega)
        have e1 : (slice d a (a + 2 ^ (h + 1))).take (2 ^ h * 1024) = slice d a (a + 2 ^ h) :=
          slice_take d a (by omega)
        have e2 : (slice d a (a + 2 ^ (h + 1))).drop (2 ^ h * 1024)
            = slice d (a + 2 ^ h) (a + 2 ^ h + 2 ^ h) := by
          rw [slice_drop d a (by omega), hp, Nat.add_assoc]
        have ihl := ih (2 * j) a _ false (left_start ha) (by omega) han hrl
        have ihr := ih (2 * j + 1) (a + 2 ^ h) _ false (right_start ha) (by omega) hmid
          (by rw [hp, ← Nat.add_assoc] at hrr; exact hrr)
        have hl1 := C05.encodeSelectedRec_hash hf h a (slice d a (a + 2 ^ h)) false
          (Ranges.splitInner rs a (a + 2 ^ h)).1 bs true (by omega)
          (by rw [OutboardL.slice_length]; omega)
        have hr1 := C05.encodeSelectedRec_hash hf h (a + 2 ^ h)
          (slice d (a + 2 ^ h) (a + 2 ^ h + 2 ^ h)) false
          (Ranges.splitInner rs a (a + 2 ^ h)).2 bs true (by omega)
          (by rw [OutboardL.slice_length]; omega)
        have hcr : hashSubtree hf (a + 2 ^ h) (slice d (a + 2 ^ h) (a + 2 ^ h + 2 ^ h)) false
            = cv hf d (a + 2 ^ h) (min (a + 2 ^ (h + 1)) (nChunks d.length)) false := by
          unfold cv; rw [slice_clip d hdn, hp, Nat.add_assoc]
        rw [rec_succ_split hf _ _ _ _ _ _ _ (by omega), e1, e2, ihl, ihr, hl1, hr1, hcr,
          bytesI_succ_split ha hmid]
        have hlev : decide (h ≥ bs) = false := by simp; omega
        have hbsd : decide (h + 1 ≤ bs) = true := by simpa using hh
        simp only [hlev, hbsd, Bool.or_false, Bool.and_true]
        have hnil := repr_nil_iff hr (by omega : a < a + 2 ^ (h + 1)) han
        have hall := repr_all_iff hr (by omega : a + 1 < min (a + 2 ^ (h + 1)) (nChunks d.length))
        by_cases hne : rs = []
        · have hany := hnil.1 hne
          rw [isEmpty_eq_true_of_nil hne, hany]
          have h1 := bytesI_none (hf := hf) (d := d) (bs := bs) (left_start ha) han
            (anySel_mono_false hany (Nat.le_refl _) (by omega))
          have h2 := bytesI_none (hf := hf) (d := d) (bs := bs) (right_start ha) hmid
            (anySel_mono_false hany (by omega) (by omega))
          rw [h1, h2]; rfl
        · have hany : anySel sel a (min (a + 2 ^ (h + 1)) (nChunks d.length)) = true := by
            cases hx : anySel sel a (min (a + 2 ^ (h + 1)) (nChunks d.length)) with
            | true => rfl
            | false => exact (hne (hnil.2 hx)).elim
          rw [isEmpty_eq_false hne, hany]
          cases hal : Ranges.isAll rs with
          | true =>
            have hal' := hall.1 hal
            rw [hal']
            have h1 := bytesI_full (hf := hf) (d := d) (bs := bs) h (2 * j) a (left_start ha) (by omega) han
              (allSel_mono hal' (Nat.le_refl _) (by omega))
            have h2 := bytesI_full (hf := hf) (d := d) (bs := bs) h (2 * j + 1) (a + 2 ^ h) (right_start ha)
              (by omega) hmid (allSel_mono hal' (by omega) (by omega))
            rw [h1, h2, Nat.min_eq_left (by omega : a + 2 ^ h ≤ nChunks d.length),
              show a + 2 ^ h + 2 ^ h = a + 2 ^ (h + 1) by omega]
            simp only [Bool.not_true, Bool.and_false, Bool.false_eq_true, if_false, if_true,
              List.nil_append]
            exact slice_append d (by omega) (by omega)
          | false =>
            have hal' : allSel sel a (min (a + 2 ^ (h + 1)) (nChunks d.length)) = false := by
              cases hx : allSel sel a (min (a + 2 ^ (h + 1)) (nChunks d.length)) with
              | false => rfl
              | true => rw [hall.2 hx] at hal; cases hal
            rw [hal']
            simp only [Bool.not_false, Bool.and_self, if_true, Bool.not_true, Bool.false_eq_true,
              if_false, List.append_assoc]
            rfl

/-- **1. `encodeSelectedRec_spec`**: hash and bytes, for any level bound that covers the data -/
theorem rec_spec (hf : HashFns H) (d : List UInt8) (bs : Nat) (sel : Nat → Bool) (hbs : bs ≤ 64)
    {h j a : Nat} {rs : Ranges} (isRoot : Bool) (fuel : Nat) (hfuel : h ≤ fuel) (hf64 : fuel ≤ 64)
    (ha : a = j * 2 ^ h) (hh : h ≤ bs) (han : a < nChunks d.length)
    (hr : Repr d.length sel rs a (a + 2 ^ h)) :
    encodeSelectedRec hf fuel a (slice d a (a + 2 ^ h)) isRoot rs bs true =
      (cv hf d a (min (a + 2 ^ h) (nChunks d.length)) isRoot,
        bytesI hf d (nChunks d.length) bs sel h j) := by
  have hlen : (slice d a (a + 2 ^ h)).length ≤ 2 ^ h * 1024 := by
    rw [OutboardL.slice_length]; omega
  have h1 := C05.encodeSelectedRec_hash hf fuel a (slice d a (a + 2 ^ h)) isRoot rs bs true hf64
    (Nat.le_trans hlen (Nat.mul_le_mul_right _ (Nat.pow_le_pow_right (by decide) hfuel)))
  have h2 := rec_out hf d bs sel hbs h j a rs isRoot ha hh han hr
  rw [← rec_fuel hf fuel h _ _ _ _ _ _ hfuel hlen] at h2
  rw [Prod.ext_iff]
  refine ⟨?_, h2⟩
  rw [h1]
  unfold cv
  rw [slice_clip d (length_le_nChunks d.length)]

/-! ## part F: the validating encoder on the intact store -/

/-! ### every existing node of level `≥ bs` is persisted (as in `ValidL`) -/

theorem mem_preNodes_anc (n minL M k : Nat) (hM : minL ≤ M) (hm : midOf k M < n) :
    ∀ j, nodeOf k M ∈ preNodes n minL (M + j) (k / 2 ^ j) := by
  intro j
  induction j with
  | zero =>
    simp only [Nat.add_zero, Nat.pow_zero, Nat.div_one]
    cases M with
    | zero =>
      have : minL = 0 := by omega
      simp [preNodes, hm, this]
    | succ M =>
      simp only [preNodes, if_pos hm, ge_iff_le, if_pos hM]
      simp
  | succ j ih =>
    have hp : k / 2 ^ j / 2 = k / 2 ^ (j + 1) := by
      rw [Nat.div_div_eq_div_mul, ← Nat.pow_succ]
    rw [show M + (j + 1) = M + j + 1 by omega]
    simp only [preNodes]
    rcases Nat.mod_two_eq_zero_or_one (k / 2 ^ j) with h0 | h1
    · have hc : 2 * (k / 2 ^ (j + 1)) = k / 2 ^ j := by omega
      split
      · rw [hc]
        exact List.mem_append_left _ (List.mem_append_right _ ih)
      · rw [hc]; exact ih
    · have hc : 2 * (k / 2 ^ (j + 1)) + 1 = k / 2 ^ j := by omega
      have hmid : midOf (k / 2 ^ (j + 1)) (M + j + 1) < n := by
        rw [← Bits.startOf_right, hc]
        have h1 : k / 2 ^ j * 2 ^ j ≤ k := Nat.div_mul_le_self k (2 ^ j)
        have h2 : startOf (k / 2 ^ j) (M + j) = k / 2 ^ j * 2 ^ j * 2 ^ (M + 1) := by
          unfold startOf
          rw [show M + j + 1 = j + (M + 1) by omega, Nat.pow_add, Nat.mul_assoc]
        have h3 : startOf k M = k * 2 ^ (M + 1) := rfl
        have h4 := startOf_lt_midOf k M
        have h5 : k / 2 ^ j * 2 ^ j * 2 ^ (M + 1) ≤ k * 2 ^ (M + 1) := Nat.mul_le_mul_right _ h1
        omega
      rw [if_pos hmid, hc]
      exact List.mem_append_right _ ih

/-- every existing node `(k, M)` of level `M ≥ bs` is persisted -/
theorem mem_persistedPre (size bs k M : Nat) (hs : size ≤ 2 ^ 63) (hM : bs ≤ M)
    (hm : midOf k M < nChunks size) : nodeOf k M ∈ persistedPre size bs := by
  unfold persistedPre
  have hn := Offsets.log2ceil_spec 64 (nChunks size) (Offsets.nChunks_le size hs)
  generalize log2ceil 64 (nChunks size) = Hh at *
  have e1 : midOf k M = startOf k M + 2 ^ M := rfl
  have e3 : startOf k M = k * 2 ^ (M + 1) := rfl
  have hlt : 2 ^ M < 2 ^ Hh := by omega
  have hMH : M < Hh := (Nat.pow_lt_pow_iff_right (a := 2) (by decide)).1 hlt
  obtain ⟨j, rfl⟩ : ∃ j, Hh = M + j := ⟨Hh - M, by omega⟩
  have hk : k / 2 ^ j = 0 := by
    apply Nat.div_eq_of_lt
    have hpM := two_pow_pos' M
    have h1 : k * 2 ^ (M + 1) < 2 ^ (M + j) := by omega
    have h2 : (2 : Nat) ^ (M + j) = 2 ^ j * 2 ^ M := by rw [Nat.add_comm, Nat.pow_add]
    have h3 : (2 : Nat) ^ (M + 1) = 2 * 2 ^ M := Nat.pow_succ'
    rw [h2, h3] at h1
    have h4 : k * 2 ^ M < 2 ^ j * 2 ^ M := by
      have : k * 2 ^ M ≤ k * (2 * 2 ^ M) := Nat.mul_le_mul_left _ (by omega)
      omega
    exact (Nat.mul_lt_mul_right hpM).1 h4
  have := mem_preNodes_anc (nChunks size) bs M k hM hm j
  rwa [hk] at this

/-- the store is the intact outboard of blob `d` at block size `bs` -/
structure Intact (hf : HashFns H) (d : List UInt8) (bs : Nat) (st : Store H) : Prop where
  hlen : ∀ h, (hf.toBytes h).length = 32
  hrt : ∀ h, hf.ofBytes (hf.toBytes h) = h
  hs : d.length ≤ 2 ^ 63
  hbs : bs ≤ 10
  tree : st.tree = ⟨d.length, bs⟩
  data : ((st.kind = .preIo ∨ st.kind = .preMem) ∧ st.data = Spec.preOutboard hf d bs) ∨
         ((st.kind = .postIo ∨ st.kind = .postMem) ∧ st.data = Spec.postOutboard hf d bs)

section loop
variable {hf : HashFns H} [BEq H] [LawfulBEq H] {d : List UInt8} {bs : Nat} {st : Store H}
  (hI : Intact hf d bs st) (fl : Flavour) (sel : Nat → Bool)

/-- reading the bytes of a chunk group (clipped to the blob) -/
theorem readExactAt_slice {a p sz : Nat} (han : a < nChunks d.length) (hp : 0 < p)
    (hsz : sz = min ((a + p) * 1024) d.length - a * 1024) :
    readExactAt d (toBytes a) sz = .ok (slice d a (a + p)) := by
  have ha : a * 1024 ≤ d.length := by
    rcases (lt_nChunks_iff d.length a).1 han with h | h <;> omega
  have hap : (a + p) * 1024 = a * 1024 + p * 1024 := Nat.add_mul _ _ _
  unfold readExactAt toBytes slice
  rw [Nat.add_sub_cancel_left]
  by_cases h0 : sz = 0
  · rw [if_pos h0, List.drop_eq_nil_of_le (by omega)]; simp
  · rw [if_neg h0, if_pos (by omega)]
    congr 1
    rw [List.take_eq_take_iff, List.length_drop]
    omega

include hI in
/-- a group leaf: the hash comparison succeeds and the bytes of the group's items are emitted -/
theorem leaf_step {j a : Nat} {rs : Ranges} (flag : Bool) (ha : a = j * 2 ^ bs)
    (han : a < nChunks d.length) (hr : Repr d.length sel rs a (a + 2 ^ bs)) {sz : Nat}
    (hsz : sz = min ((a + 2 ^ bs) * 1024) d.length - a * 1024)
    (rest : List Chunk) (stk : List H) (out : List UInt8) :
    encodeValidatedLoop hf fl d st (.leaf a sz flag rs :: rest)
        (cv hf d a (min (a + 2 ^ bs) (nChunks d.length)) flag :: stk) out
      = encodeValidatedLoop hf fl d st rest stk
          (out ++ bytesI hf d (nChunks d.length) bs sel bs j) := by
  have hbs := hI.hbs
  have hdn := length_le_nChunks d.length
  have hread := readExactAt_slice (d := d) han (two_pow_pos' bs) hsz
  have hAW : C05.leafAW hf st.tree.bs a (slice d a (a + 2 ^ bs)) flag rs =
      (cv hf d a (min (a + 2 ^ bs) (nChunks d.length)) flag,
        bytesI hf d (nChunks d.length) bs sel bs j) := by
    rw [hI.tree]
    unfold C05.leafAW
    cases hal : Ranges.isAll rs with
    | false =>
      simp only [Bool.not_false, if_true]
      exact rec_spec hf d bs sel (by omega) flag recFuel (by unfold recFuel; omega)
        (by unfold recFuel; omega) ha (Nat.le_refl _) han hr
    | true =>
      simp only [Bool.not_true, Bool.false_eq_true, if_false]
      have hall : allSel sel a (min (a + 2 ^ bs) (nChunks d.length)) = true := by
        apply allSel_eq_true.2
        intro c h1 h2
        rw [← hr.agree c h1 (by omega), isAll_eq hal, selected_all]
        simp only [decide_eq_true_eq]; omega
      rw [bytesI_full bs j a ha (Nat.le_refl _) han hall, slice_clip d hdn]
      unfold cv
      rw [slice_clip d hdn]
  have hstep : C05.encStep hf fl d st (.leaf a sz flag rs)
      (cv hf d a (min (a + 2 ^ bs) (nChunks d.length)) flag :: stk)
      = .cont stk (bytesI hf d (nChunks d.length) bs sel bs j) :=
    (C05.step_leaf_cont hf fl d st).2
      ⟨_, _, rfl, hread, by rw [hAW]; exact bne_self_eq_false _, by rw [hAW]⟩
  rw [C05.loop_cons, hstep]

include hI in
/-- a group leaf or nothing, in the form of a sub-run -/
theorem leaf_sub {j a : Nat} {rs : Ranges} (ha : a = j * 2 ^ bs)
    (han : a < nChunks d.length) (hr : Repr d.length sel rs a (a + 2 ^ bs)) {sz : Nat}
    (hsz : sz = min ((a + 2 ^ bs) * 1024) d.length - a * 1024)
    (rest : List Chunk) (stk : List H) (out : List UInt8) :
    encodeValidatedLoop hf fl d st ((if rs.isEmpty then [] else [Chunk.leaf a sz false rs]) ++ rest)
        ((if rs.isEmpty then [] else [cv hf d a (min (a + 2 ^ bs) (nChunks d.length)) false]) ++ stk)
        out
      = encodeValidatedLoop hf fl d st rest stk
          (out ++ bytesI hf d (nChunks d.length) bs sel bs j) := by
  have hpos := two_pow_pos' bs
  by_cases hne : rs = []
  · have hany := (repr_nil_iff hr (by omega) han).1 hne
    rw [isEmpty_eq_true_of_nil hne, bytesI_none ha han hany]
    simp
  · rw [isEmpty_eq_false hne]
    simp only [Bool.false_eq_true, if_false, List.cons_append, List.nil_append]
    exact leaf_step hI fl sel false ha han hr hsz rest stk out

include hI in
/-- a parent item of an existing node of level `M ≥ bs`: the pair is loaded, the comparison
succeeds, the children's `Spec.cv`s are pushed, the 64 bytes are emitted -/
theorem parent_step {k M : Nat} (hbM : bs ≤ M) (hM : M < 64)
    (hmid : midOf k M < nChunks d.length) (flag lf rf : Bool) (rs : Ranges)
    (rest : List Chunk) (stk : List H) (out : List UInt8) :
    encodeValidatedLoop hf fl d st (.parent (nodeOf k M) flag lf rf rs :: rest)
        (cv hf d (startOf k M) (min (endOf k M) (nChunks d.length)) flag :: stk) out
      = encodeValidatedLoop hf fl d st rest
          (C05.pushLR lf rf (cv hf d (startOf k M) (midOf k M) false)
            (cv hf d (midOf k M) (min (endOf k M) (nChunks d.length)) false) stk)
          (out ++ (hf.toBytes (cv hf d (startOf k M) (midOf k M) false) ++
            hf.toBytes (cv hf d (midOf k M) (min (endOf k M) (nChunks d.length)) false))) := by
  have hp := two_pow_pos' M
  have hload : st.load hf fl (nodeOf k M) = .ok (some
      (cv hf d (startOf k M) (midOf k M) false,
       cv hf d (midOf k M) (min (endOf k M) (nChunks d.length)) false)) := by
    rw [OutboardL.load_persisted hf hI.hlen hI.hrt d bs hI.hs hI.hbs fl st hI.tree hI.data _
      (mem_persistedPre d.length bs k M hI.hs hbM hmid),
      indexOf_nodeOf (by omega), levelOf_nodeOf (by omega)]
    rfl
  have hmlen : midOf k M * 1024 < d.length :=
    (Offsets.lt_nChunks_iff d.length (midOf k M) (by rw [midOf_eq]; omega)).mp hmid
  have hsplit := OutboardL.cv_split hf d (a := startOf k M) (m := midOf k M)
    (b := min (endOf k M) (nChunks d.length)) (j := M) hM
    (by rw [startOf_eq, midOf_eq])
    (by rw [endOf_eq, midOf_eq] at *; omega) (by rw [endOf_eq, midOf_eq]; omega) hmlen flag
  have hstep : C05.encStep hf fl d st (.parent (nodeOf k M) flag lf rf rs)
      (cv hf d (startOf k M) (min (endOf k M) (nChunks d.length)) flag :: stk)
      = .cont (C05.pushLR lf rf (cv hf d (startOf k M) (midOf k M) false)
            (cv hf d (midOf k M) (min (endOf k M) (nChunks d.length)) false) stk)
          (hf.toBytes (cv hf d (startOf k M) (midOf k M) false) ++
            hf.toBytes (cv hf d (midOf k M) (min (endOf k M) (nChunks d.length)) false)) :=
    (C05.step_parent_cont hf fl d st).2
      ⟨_, _, _, _, hload, rfl, by rw [← hsplit]; exact bne_self_eq_false _, rfl, rfl⟩
  rw [C05.loop_cons, hstep]

omit [BEq H] [LawfulBEq H] in
theorem pushLR_eq (lq rq : Ranges) (l r : H) (stk : List H) :
    C05.pushLR (!lq.isEmpty) (!rq.isEmpty) l r stk =
      (if lq.isEmpty then [] else [l]) ++ ((if rq.isEmpty then [] else [r]) ++ stk) := by
  unfold C05.pushLR
  cases lq.isEmpty <;> cases rq.isEmpty <;> rfl

include hI in
/-- an existing node of level `M ≥ bs` with a non-empty range set: parent item, left sub-run,
right sub-run -/
theorem node_run {k M : Nat} (hbM : bs ≤ M) (hM : M < 64) (hmid : midOf k M < nChunks d.length)
    (flag : Bool) {rs : Ranges} (hne : rs ≠ [])
    (hr : Repr d.length sel rs (startOf k M) (endOf k M)) (planL planR : List Chunk)
    (lq rq : Ranges)
    (hL : ∀ rest stk out, encodeValidatedLoop hf fl d st (planL ++ rest)
        ((if lq.isEmpty then [] else [cv hf d (startOf k M) (midOf k M) false]) ++ stk) out
      = encodeValidatedLoop hf fl d st rest stk
          (out ++ bytesI hf d (nChunks d.length) bs sel M (2 * k)))
    (hR : ∀ rest stk out, encodeValidatedLoop hf fl d st (planR ++ rest)
        ((if rq.isEmpty then []
          else [cv hf d (midOf k M) (min (endOf k M) (nChunks d.length)) false]) ++ stk) out
      = encodeValidatedLoop hf fl d st rest stk
          (out ++ bytesI hf d (nChunks d.length) bs sel M (2 * k + 1)))
    (rest : List Chunk) (stk : List H) (out : List UInt8) :
    encodeValidatedLoop hf fl d st
        (.parent (nodeOf k M) flag (!lq.isEmpty) (!rq.isEmpty) rs :: (planL ++ planR) ++ rest)
        (cv hf d (startOf k M) (min (endOf k M) (nChunks d.length)) flag :: stk) out
      = encodeValidatedLoop hf fl d st rest stk
          (out ++ bytesI hf d (nChunks d.length) bs sel (M + 1) k) := by
  have hpos := two_pow_pos' M
  have hp := pow_succ_two M
  have ha : startOf k M = k * 2 ^ (M + 1) := rfl
  have hm : midOf k M = startOf k M + 2 ^ M := midOf_eq_start_add k M
  have he : endOf k M = startOf k M + 2 ^ (M + 1) := Offsets.endOf_start k M
  have han : startOf k M < nChunks d.length := by omega
  have hany : anySel sel (startOf k M) (min (startOf k M + 2 ^ (M + 1)) (nChunks d.length)) = true := by
    cases hx : anySel sel (startOf k M) (min (startOf k M + 2 ^ (M + 1)) (nChunks d.length)) with
    | true => rfl
    | false => rw [← he] at hx; exact (hne ((repr_nil_iff hr (by omega) han).2 hx)).elim
  have hdec : decide (M + 1 ≤ bs) = false := by simp; omega
  rw [List.cons_append, List.append_assoc, parent_step hI fl hbM hM hmid, pushLR_eq, hL, hR,
    bytesI_succ_split ha (by omega), hany, hdec, ← hm, ← he]
  simp only [Bool.not_true, Bool.false_eq_true, if_false, Bool.and_false, List.append_assoc]

include hI in
/-- **the loop over the recursive plan of a subtree.**  With `Spec.cv` of the subtree's chunk
interval on top of the expected-hash stack (nothing, for an empty range set) every comparison
succeeds, the entry is consumed, and the output gains the bytes of the items of the interval. -/
theorem loop_sub {filled R : Nat} (g : Geo d.length bs filled) (hroot : nodeOf 0 R < filled)
    (L k : Nat) (rs : Ranges) :
    Repr d.length sel rs (startOf k (L + bs)) (endOf k (L + bs)) → L ≤ R → (L = R → k = 0) →
    startOf k (L + bs) < nChunks d.length →
    ∀ (rest : List Chunk) (stk : List H) (out : List UInt8),
      encodeValidatedLoop hf fl d st (planPre d.length bs 0 filled (nodeOf 0 R) L k rs ++ rest)
        ((if rs.isEmpty then []
          else [cv hf d (startOf k (L + bs)) (min (endOf k (L + bs)) (nChunks d.length))
            (nodeOf k L == nodeOf 0 R)]) ++ stk) out
      = encodeValidatedLoop hf fl d st rest stk
          (out ++ bytesI hf d (nChunks d.length) bs sel (L + bs + 1) k) := by
  refine planPre_induct (size := d.length) (bs := bs) (ml := 0) (filled := filled)
    (root := nodeOf 0 R)
    (P := fun L k rs p =>
      Repr d.length sel rs (startOf k (L + bs)) (endOf k (L + bs)) → L ≤ R → (L = R → k = 0) →
      startOf k (L + bs) < nChunks d.length →
      ∀ (rest : List Chunk) (stk : List H) (out : List UInt8),
        encodeValidatedLoop hf fl d st (p ++ rest)
          ((if rs.isEmpty then []
            else [cv hf d (startOf k (L + bs)) (min (endOf k (L + bs)) (nChunks d.length))
              (nodeOf k L == nodeOf 0 R)]) ++ stk) out
        = encodeValidatedLoop hf fl d st rest stk
            (out ++ bytesI hf d (nChunks d.length) bs sel (L + bs + 1) k))
    ?_ ?_ ?_ ?_ ?_ ?_ ?_ L k rs
  · -- empty range set
    intro L k hr _ _ han rest stk out
    have hse := startOf_lt_endOf k (L + bs)
    have hany := (repr_nil_iff hr hse han).1 rfl
    rw [Offsets.endOf_start] at hany
    rw [bytesI_none (a := startOf k (L + bs)) rfl han hany]
    simp
  · -- a non-existing group with a non-empty range set: impossible
    intro k rs _ hge _ _ _ han
    have := g.sub_exists (k := k) (L := 0) han
    rw [Offsets.startOf_zero] at this
    rw [Offsets.nodeOf_zero] at hge
    omega
  · -- a non-existing inner node: its left child takes its place
    intro L k rs hne hge ih hr hL _ han rest stk out
    have hmN := g.skip_mid_ge hge
    have hme := midOf_lt_endOf k (L + 1 + bs)
    have hr' : Repr d.length sel rs (startOf (2 * k) (L + bs)) (endOf (2 * k) (L + bs)) := by
      rw [child_ls, child_le]; exact repr_skip hr hmN (by omega)
    have := ih hr' (by omega) (by omega) (by rw [child_ls]; exact han) rest stk out
    rw [child_ls, child_le, nodeOf_beq_false (by omega : L < R)] at this
    have hf2 : (nodeOf k (L + 1) == nodeOf 0 R) = false := by
      rw [beq_eq_false_iff_ne]; omega
    have e : L + 1 + bs + 1 = (L + bs + 1) + 1 := by omega
    have hm2 : midOf k (L + 1 + bs) = startOf k (L + 1 + bs) + 2 ^ (L + bs + 1) := by
      rw [midOf_eq_start_add]; congr 2; omega
    rw [hf2, e, bytesI_succ_skip (a := startOf k (L + 1 + bs)) (by unfold startOf; rw [e]) han
      (by omega), Nat.min_eq_right (by omega : nChunks d.length ≤ endOf k (L + 1 + bs))]
    rw [Nat.min_eq_right hmN] at this
    exact this
  · -- query leaf: does not occur for `min_full_level = 0`
    intro L k rs _ _ hq
    have := queryLeaf_lt hq
    omega
  · -- the half leaf
    intro k rs hne hlt _ hh hr _ _ han rest stk out
    simp only [Nat.zero_add] at hr han ⊢
    have hsm := startOf_lt_midOf k bs
    have hm : midOf k bs = startOf k bs + 2 ^ bs := midOf_eq_start_add k bs
    have he : endOf k bs = midOf k bs + 2 ^ bs := endOf_eq_mid_add k bs
    have hmN := nChunks_le_of_le_toBytes (by omega) hh
    have hr' : Repr d.length sel rs (startOf k bs) (startOf k bs + 2 ^ bs) := by
      rw [← hm]; exact repr_skip hr hmN (by omega)
    have ha : startOf k bs = 2 * k * 2 ^ bs := left_start rfl
    rw [isEmpty_eq_false hne]
    simp only [Bool.false_eq_true, if_false, List.cons_append, List.nil_append, nodeLeaf,
      Nat.zero_add]
    have emin : min (endOf k bs) (nChunks d.length)
        = min (startOf k bs + 2 ^ bs) (nChunks d.length) := by omega
    rw [bytesI_succ_skip (a := startOf k bs) rfl han (by omega), emin]
    refine leaf_step hI fl sel _ ha han hr' ?_ rest stk out
    unfold toBytes at hh ⊢
    have : (startOf k bs + 2 ^ bs) * 1024 = startOf k bs * 1024 + 2 ^ bs * 1024 := Nat.add_mul _ _ _
    omega
  · -- two chunk groups below an existing node
    intro k rs hne hlt _ hh hr _ _ han rest stk out
    simp only [Nat.zero_add] at hr han ⊢
    have hmN : midOf k bs < nChunks d.length := lt_nChunks_of_toBytes_lt hh
    have hsm := startOf_lt_midOf k bs
    have hm : midOf k bs = startOf k bs + 2 ^ bs := midOf_eq_start_add k bs
    have he : endOf k bs = midOf k bs + 2 ^ bs := endOf_eq_mid_add k bs
    have hLb := OutboardL.level_bound (k := k) (L := 0) hI.hs
      ((Offsets.exists_iff d.length bs k 0).1 (by rw [Nat.zero_add]; exact hmN))
    have hrl := repr_left hr hsm (by omega) hmN
    have hrr := repr_right hr (Nat.le_of_lt hsm) (by omega)
    rw [hm] at hrl; rw [he] at hrr
    rw [isEmpty_eq_false hne]
    simp only [Bool.false_eq_true, if_false, List.cons_append, List.nil_append]
    have hL := fun rest stk out => leaf_sub hI fl sel (j := 2 * k) (a := startOf k bs)
      (sz := toBytes (midOf k bs) - toBytes (startOf k bs)) (left_start rfl) han hrl
      (by unfold toBytes at hh ⊢; rw [← hm]; omega) rest stk out
    have hR := fun rest stk out => leaf_sub hI fl sel (j := 2 * k + 1) (a := midOf k bs)
      (sz := min (toBytes (endOf k bs)) d.length - toBytes (midOf k bs))
      (by rw [hm]; exact right_start rfl) hmN hrr (by unfold toBytes; rw [← he]) rest stk out
    rw [← hm, Nat.min_eq_left (Nat.le_of_lt hmN)] at hL
    rw [← he] at hR
    have := node_run hI fl sel (k := k) (M := bs) (Nat.le_refl _) (by omega) hmN
      (nodeOf k 0 == nodeOf 0 R) hne hr _ _ (Ranges.splitInner rs (startOf k bs) (midOf k bs)).1
      (Ranges.splitInner rs (startOf k bs) (midOf k bs)).2 hL hR rest stk out
    simp only [nodeParent, leftLeaf, rightLeaf, lq, rq, Nat.zero_add]
    exact this
  · -- an existing inner node
    intro L k rs hne hlt _ ihl ihr hr hL hk han rest stk out
    have hmN := g.mid_lt_nChunks hlt
    have hsm := startOf_lt_midOf k (L + 1 + bs)
    have hme := midOf_lt_endOf k (L + 1 + bs)
    have hLb := OutboardL.level_bound (k := k) (L := L + 1) hI.hs
      ((Offsets.exists_iff d.length bs k (L + 1)).1 hmN)
    have hLb2 : L + 1 + bs < 64 := by omega
    have hrl := repr_left hr hsm (by omega) hmN
    have hrr := repr_right hr (Nat.le_of_lt hsm) (by omega)
    rw [isEmpty_eq_false hne]
    simp only [Bool.false_eq_true, if_false, List.cons_append, List.nil_append]
    have hLl := fun rest stk out => ihl (by rw [child_ls, child_le]; exact hrl) (by omega)
      (by omega) (by rw [child_ls]; exact han) rest stk out
    have hRr := fun rest stk out => ihr (by rw [child_rs, child_re]; exact hrr) (by omega)
      (by omega) (by rw [child_rs]; exact hmN) rest stk out
    simp only [child_ls, child_le, child_rs, child_re, nodeOf_beq_false (by omega : L < R),
      Nat.min_eq_left (Nat.le_of_lt hmN)] at hLl hRr
    have e : L + 1 + bs + 1 = (L + 1 + bs) + 1 := rfl
    have e2 : L + bs + 1 = L + 1 + bs := by omega
    rw [e2] at hLl hRr
    have := node_run hI fl sel (k := k) (M := L + 1 + bs) (by omega) hLb2 hmN
      (nodeOf k (L + 1) == nodeOf 0 R) hne hr _ _ (lq bs (L + 1) k rs) (rq bs (L + 1) k rs)
      hLl hRr rest stk out
    simp only [nodeParent]
    exact this

end loop

/-! ### the whole encoder -/

/-- above the height that covers the blob the items of the leftmost interval do not change -/
theorem bytesI_top {hf : HashFns H} {d : List UInt8} {n bs : Nat} {sel : Nat → Bool} (hn : 0 < n) :
    ∀ (h' h : Nat), n ≤ 2 ^ h → h ≤ h' →
      bytesI hf d n bs sel h' 0 = bytesI hf d n bs sel h 0 := by
  intro h'
  induction h' with
  | zero => intro h _ hh; have : h = 0 := by omega
            subst this; rfl
  | succ h' ih =>
    intro h hcov hh
    by_cases he : h = h' + 1
    · subst he; rfl
    · have hle : 2 ^ h ≤ 2 ^ h' := Nat.pow_le_pow_right (by decide) (by omega)
      rw [bytesI_succ_skip (a := 0) (by simp) hn (by omega)]
      exact ih h hcov (by omega)

theorem encode_eq_bytesI (hf : HashFns H) (d : List UInt8) (bs : Nat) (q : Ranges) :
    Spec.encode hf d bs q =
      bytesI hf d (nChunks d.length) bs (Spec.selected d.length q)
        (log2ceil 64 (nChunks d.length)) 0 := rfl

/-- nothing selected: the honest encoding is empty -/
theorem encode_nil_of_not_selected (hf : HashFns H) (d : List UInt8) (bs : Nat) {q : Ranges}
    (h : ∀ c, Spec.selected d.length q c = false) : Spec.encode hf d bs q = [] := by
  rw [encode_eq_bytesI]
  exact bytesI_none (a := 0) (by simp) (Ranges.nChunks_pos _)
    (anySel_eq_false.2 fun c _ _ => h c)

/-- **2. the validating encoder emits the honest encoding** (both flavours, all four stored
outboard kinds), and every hash comparison succeeds -/
theorem validated_spec {hf : HashFns H} [BEq H] [LawfulBEq H] {d : List UInt8} {bs : Nat}
    {st : Store H} (hI : Intact hf d bs st) (hroot : st.root = Spec.root hf d) (fl : Flavour)
    {q : Ranges} (hwf : Ranges.WF q = true) :
    encodeRangesValidated hf fl d st q = ⟨Spec.encode hf d bs q, .ok⟩ := by
  have hn := Ranges.nChunks_pos d.length
  obtain ⟨hR63, hrootE, hrootlt⟩ := rootLevel_spec d.length bs hI.hs
  have g := shifted_geo d.length bs hI.hs hI.hbs
  have hcov := rootLevel_covers d.length bs hI.hs
  have hplan := C15.pre_refines (size := d.length) (bs := bs) (ml := 0)
    (q := Ranges.truncate q d.length) hI.hs hI.hbs
  unfold encodeRangesValidated
  rw [hI.tree]
  simp only
  rw [hplan, plan_eq _ _ _ _ hI.hs]
  by_cases htr : Ranges.truncate q d.length = []
  · rw [htr, planPre_nil, encode_nil_of_not_selected hf d bs
      ((C14.truncate_empty_iff d.length hwf).1 htr)]
    split <;> simp [encodeValidatedLoop]
  · have hq : q.isEmpty = false := by
      apply isEmpty_eq_false
      rintro rfl
      exact htr rfl
    simp only [hq, Bool.and_false, Bool.false_eq_true, if_false]
    have hrepr : Repr d.length (Spec.selected d.length q) (Ranges.truncate q d.length)
        (startOf 0 (rootLevel ⟨d.length, bs⟩ + bs)) (endOf 0 (rootLevel ⟨d.length, bs⟩ + bs)) := by
      rw [startOf_zero_left]; exact repr_root hwf hcov
    have := loop_sub hI fl (Spec.selected d.length q) g hrootlt (rootLevel ⟨d.length, bs⟩) 0
      (Ranges.truncate q d.length) hrepr (Nat.le_refl _) (fun _ => rfl)
      (by rw [startOf_zero_left]; exact hn) [] [] []
    rw [List.append_nil, isEmpty_eq_false htr, startOf_zero_left, Nat.min_eq_right hcov] at this
    simp only [Bool.false_eq_true, if_false, beq_self_eq_true, List.append_nil,
      List.nil_append] at this
    have hr : st.root = cv hf d 0 (nChunks d.length) true := hroot
    rw [hr, this, C05.loop_nil, encode_eq_bytesI]
    congr 1
    have h1 : nChunks d.length ≤ 2 ^ (rootLevel ⟨d.length, bs⟩ + bs + 1) := by
      have e : endOf 0 (rootLevel ⟨d.length, bs⟩ + bs) = 2 ^ (rootLevel ⟨d.length, bs⟩ + bs + 1) := by
        unfold endOf; omega
      omega
    have h2 := Offsets.log2ceil_spec 64 (nChunks d.length) (Offsets.nChunks_le d.length hI.hs)
    rcases Nat.le_total (rootLevel ⟨d.length, bs⟩ + bs + 1) (log2ceil 64 (nChunks d.length))
      with hle | hle
    · exact (bytesI_top hn _ _ h1 hle).symm
    · exact bytesI_top hn _ _ h2 hle

/-! ### the range sets the plan attaches to its leaves satisfy `Repr` -/

/-- every leaf of the recursive plan (for `min_full_level = 0`) is one chunk group `[s, s + 2^bs)`
starting inside the blob, reads exactly its bytes, and the range set attached to it represents
the selection on the group in the sense of `Repr` -/
theorem plan_leaf_repr {size bs filled root : Nat} (g : Geo size bs filled) (sel : Nat → Bool)
    (L k : Nat) (rs : Ranges) :
    Repr size sel rs (startOf k (L + bs)) (endOf k (L + bs)) →
    startOf k (L + bs) < nChunks size →
    ∀ s z r x, Chunk.leaf s z r x ∈ planPre size bs 0 filled root L k rs →
      ∃ j, s = j * 2 ^ bs ∧ s < nChunks size ∧
        z = min ((s + 2 ^ bs) * 1024) size - s * 1024 ∧ Repr size sel x s (s + 2 ^ bs) := by
  refine planPre_induct (size := size) (bs := bs) (ml := 0) (filled := filled) (root := root)
    (P := fun L k rs p =>
      Repr size sel rs (startOf k (L + bs)) (endOf k (L + bs)) →
      startOf k (L + bs) < nChunks size →
      ∀ s z r x, Chunk.leaf s z r x ∈ p →
        ∃ j, s = j * 2 ^ bs ∧ s < nChunks size ∧
          z = min ((s + 2 ^ bs) * 1024) size - s * 1024 ∧ Repr size sel x s (s + 2 ^ bs))
    ?_ ?_ ?_ ?_ ?_ ?_ ?_ L k rs
  · intro L k _ _ s z r x hm; cases hm
  · intro k rs _ _ _ _ s z r x hm; cases hm
  · -- skip
    intro L k rs _ hge ih hr han s z r x hm
    have hmN := g.skip_mid_ge hge
    have hme := midOf_lt_endOf k (L + 1 + bs)
    exact ih (by rw [child_ls, child_le]; exact repr_skip hr hmN (by omega))
      (by rw [child_ls]; exact han) s z r x hm
  · intro L k rs _ _ hq
    have := queryLeaf_lt hq
    omega
  · -- half leaf
    intro k rs _ _ _ hh hr han s z r x hm
    simp only [Nat.zero_add] at hr han
    have hm' := List.mem_singleton.1 hm
    simp only [nodeLeaf, Chunk.leaf.injEq, Nat.zero_add] at hm'
    obtain ⟨rfl, rfl, -, rfl⟩ := hm'
    have hsm := startOf_lt_midOf k bs
    have hmid : midOf k bs = startOf k bs + 2 ^ bs := midOf_eq_start_add k bs
    have he : endOf k bs = midOf k bs + 2 ^ bs := endOf_eq_mid_add k bs
    have hmN := nChunks_le_of_le_toBytes (by omega) hh
    refine ⟨2 * k, left_start rfl, han, ?_, by rw [← hmid]; exact repr_skip hr hmN (by omega)⟩
    unfold toBytes at hh ⊢
    have : (startOf k bs + 2 ^ bs) * 1024 = startOf k bs * 1024 + 2 ^ bs * 1024 := Nat.add_mul _ _ _
    omega
  · -- chunk group
    intro k rs _ _ _ hh hr han s z r x hm
    simp only [Nat.zero_add] at hr han
    have hmN : midOf k bs < nChunks size := lt_nChunks_of_toBytes_lt hh
    have hsm := startOf_lt_midOf k bs
    have hmid : midOf k bs = startOf k bs + 2 ^ bs := midOf_eq_start_add k bs
    have he : endOf k bs = midOf k bs + 2 ^ bs := endOf_eq_mid_add k bs
    rcases mem_group hm with ⟨rfl, rfl, rfl, -⟩ | ⟨rfl, rfl, rfl, -⟩
    · refine ⟨2 * k, left_start rfl, han, ?_,
        by rw [← hmid]; exact repr_left hr hsm (by omega) hmN⟩
      unfold toBytes at hh ⊢
      rw [← hmid]; omega
    · refine ⟨2 * k + 1, by rw [hmid]; exact right_start rfl, hmN, ?_,
        by rw [← he]; exact repr_right hr (Nat.le_of_lt hsm) (by omega)⟩
      unfold toBytes
      rw [← he]
  · -- inner node
    intro L k rs _ hlt _ ihl ihr hr han s z r x hm
    have hmN := g.mid_lt_nChunks hlt
    have hsm := startOf_lt_midOf k (L + 1 + bs)
    have hme := midOf_lt_endOf k (L + 1 + bs)
    rcases mem_inner rfl hm with hm | hm
    · exact ihl (by rw [child_ls, child_le]; exact repr_left hr hsm (by omega) hmN)
        (by rw [child_ls]; exact han) s z r x hm
    · exact ihr (by rw [child_rs, child_re]; exact repr_right hr (Nat.le_of_lt hsm) (by omega))
        (by rw [child_rs]; exact hmN) s z r x hm

/-- … for the public plan of the truncated query -/
theorem plan_leaf_repr_top {size bs : Nat} (hs : size ≤ 2 ^ 63) (hbs : bs ≤ 10) {q : Ranges}
    (hwf : Ranges.WF q = true) {s z : Nat} {r : Bool} {x : Ranges}
    (hm : Chunk.leaf s z r x ∈ plan ⟨size, bs⟩ 0 (Ranges.truncate q size)) :
    ∃ j, s = j * 2 ^ bs ∧ s < nChunks size ∧
      z = min ((s + 2 ^ bs) * 1024) size - s * 1024 ∧
      Repr size (Spec.selected size q) x s (s + 2 ^ bs) := by
  have hcov := rootLevel_covers size bs hs
  exact plan_leaf_repr (shifted_geo size bs hs hbs) (Spec.selected size q)
    (rootLevel ⟨size, bs⟩) 0 (Ranges.truncate q size)
    (by rw [startOf_zero_left]; exact repr_root hwf hcov)
    (by rw [startOf_zero_left]; exact Ranges.nChunks_pos size) s z r x hm

end Bao.EncodeSpec
