import BaoProofs.Lemmas.OutboardL
import BaoProofs.Lemmas.SpecIndexL
import BaoModel.Ops2

/-!
# Lemmas for `Props/C03SpecOb.lean`: the `ob` verdict never rejects the model

* part A – the executable BLAKE3 instance returns 32 bytes (`chunkCv_length`, `parentCv_length`:
  `compress` pushes 8 words, `bytesOfWords` makes 4 bytes of each);
* part B – the C03 store lemmas of `Lemmas/OutboardL.lean` under the weaker hypothesis `OutLen hf`
  (only the OUTPUTS of `chunkCv` / `parentCv` have a 32-byte representation).  For the driver's
  instance `realHash` a hash IS its byte list, so `∀ h, (toBytes h).length = 32` is false there; the
  only use of that hypothesis in `OutboardL` is `pairBytes_length`, and the pairs are hash outputs
  (`cvLevel_len`).  The proofs are the ones of `OutboardL` with `pairBytes_len` in that place;
* part C – the `let`s of `Ops.opOb` as named definitions (`opOb_eq`, by `rfl`); the entry names
  (`String.startsWith` / `drop` / `endsWith` through the library's list characterisations); the
  verdict on the token list; the tokens of the output line; `splitOn` for a one-character
  separator (`splitOn_char`, the proof of `SpecIndex.splitOnAux_space` with the separator as a
  parameter) for the `+` modifiers and the `:` of blob descriptors; the accepted entries.
-/

set_option maxRecDepth 8192

namespace Bao.SpecOb
open Bao Bao.Spec Bao.OutboardL Bao.WriteAtL Bao.Blake3 Bao.Ops Bao.Proto Bao.SpecIndex

/-! ## A. the executable BLAKE3 returns 32 bytes -/

/-- an invariant of a `for` loop in `Id` whose body always yields -/
theorem forIn_inv {α σ : Type} (P : σ → Prop) (l : List α)
    (f : α → σ → Id (ForInStep σ))
    (hf : ∀ i s, P s → ∃ s', f i s = pure (ForInStep.yield s') ∧ P s')
    (init : σ) (h0 : P init) : P ((forIn (m := Id) l init f).run) := by
  induction l generalizing init with
  | nil => simpa using h0
  | cons a l ih =>
    obtain ⟨s', e, hs'⟩ := hf a init h0
    simp only [List.forIn_cons, e]
    exact ih s' hs'

/-- a `for` loop in `Id` that pushes one element per round -/
theorem forIn_push_size1 {α β : Type} (l : List β)
    (f : β → Array α → Id (ForInStep (Array α)))
    (hf : ∀ i s, ∃ b, f i s = pure (ForInStep.yield (s.push b)))
    (init : Array α) :
    ((forIn (m := Id) l init f).run).size = init.size + l.length := by
  induction l generalizing init with
  | nil => simp
  | cons a l ih =>
    obtain ⟨b, e⟩ := hf a init
    simp only [List.forIn_cons, List.length_cons, e]
    show ((forIn (m := Id) l (init.push b) f).run).size = _
    rw [ih]
    simp only [Array.size_push]
    omega

/-- the compression function returns 8 words, whatever its inputs -/
theorem compress_size (cv m : Array UInt32) (c : UInt64) (bl fl : UInt32) :
    (compress cv m c bl fl).size = 8 := by
  unfold compress
  simp only [Std.Legacy.Range.forIn_eq_forIn_range', Id.run]
  show Array.size (Id.run (forIn (m := Id) _ _ _)) = 8
  rw [forIn_push_size1]
  · simp [Std.Legacy.Range.size]
  · intro i s
    exact ⟨_, rfl⟩

theorem chunkCvWords_size (c : Nat) (data : ByteArray) (r : Bool) :
    (chunkCvWords c data r).size = 8 := by
  unfold chunkCvWords
  simp only [Std.Legacy.Range.forIn_eq_forIn_range', Id.run]
  show Array.size (Id.run (forIn (m := Id) _ _ _)) = 8
  apply forIn_inv (fun s : Array UInt32 => s.size = 8)
  · intro i s _
    repeat' split
    all_goals exact ⟨_, rfl, compress_size ..⟩
  · rfl

theorem bytesOfWords_length (ws : Array UInt32) : (bytesOfWords ws).length = 4 * ws.size := by
  unfold bytesOfWords
  rw [← Array.length_toList]
  induction ws.toList with
  | nil => rfl
  | cons a l ih => simp only [List.flatMap_cons, List.length_append, ih, List.length_cons, List.length_nil]; omega

theorem chunkCv_length (c : Nat) (data : List UInt8) (r : Bool) : (chunkCv c data r).length = 32 := by
  unfold chunkCv
  rw [bytesOfWords_length, chunkCvWords_size]

theorem parentCv_length (l r : List UInt8) (f : Bool) : (parentCv l r f).length = 32 := by
  unfold parentCv
  simp only []
  rw [bytesOfWords_length, compress_size]

/-! ## B. C03 for instances whose hash OUTPUTS are 32 bytes -/

/-- the OUTPUTS of the two hash primitives have a 32-byte representation -/
def OutLen {H : Type} (hf : HashFns H) : Prop :=
  (∀ c b r, (hf.toBytes (hf.chunkCv c b r)).length = 32) ∧
  (∀ l r f, (hf.toBytes (hf.parentCv l r f)).length = 32)

section gen
variable {H : Type} (hf : HashFns H)

theorem outLen_of_hlen (hlen : ∀ h, (hf.toBytes h).length = 32) : OutLen hf :=
  ⟨fun _ _ _ => hlen _, fun _ _ _ => hlen _⟩

theorem cvLevel_len (hol : OutLen hf) (L s : Nat) (data : List UInt8) (r : Bool) :
    (hf.toBytes (cvLevel hf L s data r)).length = 32 := by
  induction L generalizing s data r with
  | zero => exact hol.1 _ _ _
  | succ L ih =>
    unfold cvLevel
    split
    · exact ih _ _ _
    · exact hol.2 _ _ _

theorem cv_len (hol : OutLen hf) (d : List UInt8) (a b : Nat) (r : Bool) :
    (hf.toBytes (Spec.cv hf d a b r)).length = 32 := cvLevel_len hf hol _ _ _ _

theorem pairBytes_len (hol : OutLen hf) (d : List UInt8) (x : Nat) :
    (pairBytes hf d x).length = 64 := by
  simp [pairBytes, Spec.pair, cv_len hf hol]

theorem writes_pre' (hol : OutLen hf) (d : List UInt8) (bs : Nat)
    (hs : d.length ≤ 2 ^ 63) (hbs : bs ≤ 10) (init : List UInt8)
    (hinit : init.length ≤ (Tree.blocks ⟨d.length, bs⟩ - 1) * 64) :
    applyWrites init (swrites hf (slPre d.length bs) (postPairs hf d bs))
      = Spec.preOutboard hf d bs := by
  obtain ⟨hl, hoff⟩ := C12.pre d.length bs hs hbs
  rw [swrites_postPairs]
  exact applyWrites_perm (persistedPre d.length bs) (persistedPost d.length bs)
    (slPre d.length bs) (pairBytes hf d) init (persistedPost_perm d.length bs hs)
    (fun i h => by unfold slPre; rw [hoff i h]; rfl)
    (fun x _ => pairBytes_len hf hol d x) (by rw [hl]; exact hinit)

theorem writes_post' (hol : OutLen hf) (d : List UInt8) (bs : Nat)
    (hs : d.length ≤ 2 ^ 63) (hbs : bs ≤ 10) (init : List UInt8)
    (hinit : init.length ≤ (Tree.blocks ⟨d.length, bs⟩ - 1) * 64) :
    applyWrites init (swrites hf (slPost d.length bs) (postPairs hf d bs))
      = Spec.postOutboard hf d bs := by
  obtain ⟨hl, hoff⟩ := C12.post d.length bs hs hbs
  rw [swrites_postPairs]
  exact applyWrites_perm (persistedPost d.length bs) (persistedPost d.length bs)
    (slPost d.length bs) (pairBytes hf d) init (List.Perm.refl _)
    (fun i h => by unfold slPost; rw [hoff i h]; rfl)
    (fun x _ => pairBytes_len hf hol d x) (by rw [hl]; exact hinit)

theorem outboard_run_gen' (hol : OutLen hf) (d : List UInt8) (bs : Nat)
    (hs : d.length ≤ 2 ^ 63) (hbs : bs ≤ 10) (ob : Store H) (htree : ob.tree = ⟨d.length, bs⟩)
    (hk : ((ob.kind = .preIo ∨ ob.kind = .postIo) ∧
            ob.data.length ≤ (Tree.blocks ⟨d.length, bs⟩ - 1) * 64) ∨
          ((ob.kind = .preMem ∨ ob.kind = .postMem) ∧
            ob.data.length = (Tree.blocks ⟨d.length, bs⟩ - 1) * 64))
    (sl : Nat → Nat) (target : List UInt8)
    (hsl : ∀ x ∈ persistedPost d.length bs,
      ob.slot x = some (sl x) ∧ sl x < Tree.blocks ⟨d.length, bs⟩ - 1)
    (hw : ∀ init : List UInt8, init.length ≤ (Tree.blocks ⟨d.length, bs⟩ - 1) * 64 →
      applyWrites init (swrites hf sl (postPairs hf d bs)) = target) :
    outboard hf d ob.tree ob = ⟨.ok (Spec.root hf d), { ob with data := target }⟩ := by
  unfold outboard
  rw [outboardLoop_eq, htree]
  apply run_plan hf _ d bs hs hbs
  have hsl' : ∀ w ∈ postPairs hf d bs, ob.slot w.1 = some (sl w.1) :=
    fun w hw => (hsl _ (mem_postPairs hf hw).1).1
  rcases hk with ⟨hk, hl⟩ | ⟨hk, hl⟩
  · rw [putAll_io hf ob hk sl _ hsl', hw _ hl, htree]
  · rw [putAll_mem hf ob hk sl _ hsl' _ hl (fun w hw => (hsl _ (mem_postPairs hf hw).1).2)
      (fun w hw => by
        rw [(mem_postPairs hf hw).2]; exact pairBytes_len hf hol d _),
      hw _ (Nat.le_of_eq hl), htree]

theorem outboard_run_pre' (hol : OutLen hf) (d : List UInt8) (bs : Nat)
    (hs : d.length ≤ 2 ^ 63) (hbs : bs ≤ 10) (ob : Store H) (htree : ob.tree = ⟨d.length, bs⟩)
    (hk : (ob.kind = .preIo ∧ ob.data.length ≤ ob.tree.outboardSize) ∨
          (ob.kind = .preMem ∧ ob.data.length = ob.tree.outboardSize)) :
    outboard hf d ob.tree ob
      = ⟨.ok (Spec.root hf d), { ob with data := Spec.preOutboard hf d bs }⟩ := by
  have hsz : ob.tree.outboardSize = (Tree.blocks ⟨d.length, bs⟩ - 1) * 64 := by rw [htree]; rfl
  rw [hsz] at hk
  have hk' : ob.kind = .preIo ∨ ob.kind = .preMem := by
    rcases hk with h | h
    · exact .inl h.1
    · exact .inr h.1
  refine outboard_run_gen' hf hol d bs hs hbs ob htree ?_ (slPre d.length bs) _ ?_
    (writes_pre' hf hol d bs hs hbs)
  · rcases hk with ⟨h, hl⟩ | ⟨h, hl⟩
    · exact .inl ⟨.inl h, hl⟩
    · exact .inr ⟨.inl h, hl⟩
  · intro x hx
    rw [slot_pre hk', htree]
    exact pre_offset_mem hs hbs ((persistedPost_perm d.length bs hs).mem_iff.mp hx)

theorem outboard_run_post' (hol : OutLen hf) (d : List UInt8) (bs : Nat)
    (hs : d.length ≤ 2 ^ 63) (hbs : bs ≤ 10) (ob : Store H) (htree : ob.tree = ⟨d.length, bs⟩)
    (hk : (ob.kind = .postIo ∧ ob.data.length ≤ ob.tree.outboardSize) ∨
          (ob.kind = .postMem ∧ ob.data.length = ob.tree.outboardSize)) :
    outboard hf d ob.tree ob
      = ⟨.ok (Spec.root hf d), { ob with data := Spec.postOutboard hf d bs }⟩ := by
  have hsz : ob.tree.outboardSize = (Tree.blocks ⟨d.length, bs⟩ - 1) * 64 := by rw [htree]; rfl
  rw [hsz] at hk
  have hk' : ob.kind = .postIo ∨ ob.kind = .postMem := by
    rcases hk with h | h
    · exact .inl h.1
    · exact .inr h.1
  refine outboard_run_gen' hf hol d bs hs hbs ob htree ?_ (slPost d.length bs) _ ?_
    (writes_post' hf hol d bs hs hbs)
  · rcases hk with ⟨h, hl⟩ | ⟨h, hl⟩
    · exact .inl ⟨.inr h, hl⟩
    · exact .inr ⟨.inr h, hl⟩
  · intro x hx
    rw [slot_post hk', htree]
    exact post_offset_mem hs hbs hx

theorem preOutboard_length' (hol : OutLen hf) (d : List UInt8) (bs : Nat)
    (hs : d.length ≤ 2 ^ 63) (hbs : bs ≤ 10) :
    (Spec.preOutboard hf d bs).length = (Tree.blocks ⟨d.length, bs⟩ - 1) * 64 := by
  unfold Spec.preOutboard
  rw [length_flatMap64 _ _ (fun x _ => pairBytes_len hf hol d x), (C12.pre d.length bs hs hbs).1]

theorem postOutboard_length' (hol : OutLen hf) (d : List UInt8) (bs : Nat)
    (hs : d.length ≤ 2 ^ 63) (hbs : bs ≤ 10) :
    (Spec.postOutboard hf d bs).length = (Tree.blocks ⟨d.length, bs⟩ - 1) * 64 := by
  unfold Spec.postOutboard
  rw [length_flatMap64 _ _ (fun x _ => pairBytes_len hf hol d x), (C12.post d.length bs hs hbs).1]

/-- `hash_subtree(0, data, true)` of the whole blob is `Spec.root` -/
theorem hashSubtree_root (d : List UInt8) : hashSubtree hf 0 d true = Spec.root hf d := by
  unfold Spec.root Spec.cv Spec.slice
  have h : d.length ≤ (nChunks d.length - 0) * 1024 := by
    unfold nChunks; omega
  rw [Nat.zero_mul, List.drop_zero, List.take_of_length_le h]

end gen

/-! ## C. the operation -/

/-- the entry name without the `+t<m>` / `+p<k>` reader modifiers -/
def entryOf (entry0 : String) : String := (entry0.splitOn "+").head!

/-- `viaStore kind init` of `opOb`: root string and final backing of `outboard` into a store of
the given kind with initial backing `init` (the store's `root` field is `[]`) -/
def viaStore (d : List UInt8) (bs : Nat) (kind : StoreKind) (init : List UInt8) :
    String × List UInt8 :=
  let r := outboard hf d ⟨d.length, bs⟩ { kind, root := [], tree := ⟨d.length, bs⟩, data := init }
  (resHashStr r.res, r.sink.data)

/-- `viaWriter` of `opOb`: `outboard_post_order` into a plain writer -/
def viaWriter (d : List UInt8) (bs : Nat) : String × List UInt8 :=
  let r := outboardPostOrder hf d ⟨d.length, bs⟩
  (resHashStr r.res, r.sink)

/-- the store kind named by a `sync-outboard-<kind>` / `fsm-outboard-<kind>` entry -/
def entryKind (e : String) : Option StoreKind :=
  storeKind? (if e.startsWith "sync-outboard-" then (e.drop 14).toString
             else if e.startsWith "fsm-outboard-" then (e.drop 13).toString else "")

/-- `res` of `opOb`: (root string, outboard bytes, is pre-order) -/
def obRes (d : List UInt8) (bs : Nat) (entry : String) : Option (String × List UInt8 × Bool) :=
  let obsize := Tree.outboardSize ⟨d.length, bs⟩
  match entry with
  | "sync-create-preMem" => let r := viaStore d bs .preMem (zerosN obsize); some (r.1, r.2, true)
  | "sync-create-postMem" | "sync-post-order" | "fsm-post-order" => let r := viaWriter d bs; some (r.1, r.2, false)
  | "sync-sized-preIo" | "fsm-sized-preIo" | "sync-create-preIo" | "fsm-create-preIo" => let r := viaStore d bs .preIo []; some (r.1, r.2, true)
  | "sync-sized-postIo" | "fsm-sized-postIo" | "sync-create-postIo" | "fsm-create-postIo" => let r := viaStore d bs .postIo []; some (r.1, r.2, false)
  | "sync-init-preIo" | "fsm-init-preIo" => let r := viaStore d bs .preIo (staleN obsize); some (r.1, r.2, true)
  | "sync-init-postIo" | "fsm-init-postIo" => let r := viaStore d bs .postIo (staleN obsize); some (r.1, r.2, false)
  | e =>
    match entryKind e with
    | some kind =>
      let r := viaStore d bs kind (staleN obsize)
      some (r.1, r.2, !isPostKind kind)
    | none => none

/-- the model's output line of `ob` -/
def obModelStr (d : List UInt8) (bs : Nat) (rootS : String) (obBytes : List UInt8) : String :=
  let b3 := hex (hashSubtree hf 0 d true)
  let baoOb := if bs == 0 then dig (Spec.preOutboard hf d 0) else "-"
  s!"{rootS} {dig obBytes} {b3} {baoOb}"

/-- the verdict of `ob` on the implementation's output -/
def obVerdict (d : List UInt8) (bs : Nat) (entry : String) (isPre : Bool) (impl : String) :
    Option String :=
  let tree : Tree := ⟨d.length, bs⟩
  let obsize := tree.outboardSize
  let isEmptyKind := entry.endsWith "-empty"
  match impl.splitOn " " with
  | [r, ob, ib3, ibao] =>
    let specOb := if isEmptyKind then staleN obsize
      else if isPre then Spec.preOutboard hf d bs else Spec.postOutboard hf d bs
    if r != ib3 then some "root differs from blake3::hash(data)"
    else if r != hex (Spec.root hf d) then some "root differs from Spec.root"
    else if ob != dig specOb then some s!"outboard bytes differ from Spec pre/postOutboard ({dig specOb})"
    else if specOb.length != (Spec.nBlocks d.length bs - 1) * 64 then some "outboard size"
    else if bs == 0 && isPre && !isEmptyKind && ob != ibao then some "differs from bao crate outboard"
    else none
  | _ => some "malformed"

theorem opOb_eq (b bs entry0 impl : String) (d : List UInt8) (bsn : Nat)
    (h1 : blob b = some d) (h2 : bs.toNat? = some bsn) :
    opOb [b, bs, entry0] impl =
      match obRes d bsn (entryOf entry0) with
      | none => bad "ob entry"
      | some (rootS, obBytes, isPre) =>
        { model := obModelStr d bsn rootS obBytes,
          specFail := obVerdict d bsn (entryOf entry0) isPre impl,
          nontrivial := Spec.nBlocks d.length bsn > 1 } := by
  unfold opOb
  simp only [h1, h2]
  rfl


/-! ### the entry names -/

theorem endsWith_iff (s pat : String) : s.endsWith pat = true ↔ pat.toList <:+ s.toList := by
  show s.toSlice.endsWith pat = true ↔ _
  rw [String.Slice.endsWith_string_iff, String.copy_toSlice]

theorem endsWith_eq_decide (s pat : String) :
    s.endsWith pat = decide (pat.toList <:+ s.toList) := by
  rw [Bool.eq_iff_iff, endsWith_iff]; simp

/-- `e.startsWith p` and `(e.drop p.length).toString = k` determine `e` -/
theorem eq_of_startsWith_drop (e p k : String) (h : e.startsWith p = true)
    (hk : (e.drop p.length).toString = k) : e = p ++ k := by
  rw [String.startsWith_string_iff] at h
  have h2 : (e.drop p.length).copy.toList = e.toList.drop p.length := String.toList_copy_drop
  rw [String.Slice.toString_eq] at hk
  rw [hk] at h2
  obtain ⟨t, ht⟩ := h
  apply String.toList_injective
  rw [String.toList_append, ← ht, h2, ← ht, ← String.length_toList, List.drop_left]

theorem storeKind?_some (k : String) (kind : StoreKind) (h : storeKind? k = some kind) :
    k = kindStr kind := by
  unfold storeKind? at h
  split at h <;> cases h <;> rfl

/-- an entry naming a store kind is one of the ten `…-outboard-<kind>` names -/
theorem entryKind_some (e : String) (kind : StoreKind) (h : entryKind e = some kind) :
    e = "sync-outboard-" ++ kindStr kind ∨ e = "fsm-outboard-" ++ kindStr kind := by
  unfold entryKind at h
  split at h
  next h1 =>
    exact .inl (eq_of_startsWith_drop e "sync-outboard-" _ h1 (storeKind?_some _ _ h))
  next h1 =>
    split at h
    next h2 =>
      exact .inr (eq_of_startsWith_drop e "fsm-outboard-" _ h2 (storeKind?_some _ _ h))
    next h2 =>
      have e0 : storeKind? "" = none := by decide
      rw [e0] at h; cases h

/-- … and it ends with `-empty` exactly for the `EmptyOutboard` -/
theorem entryKind_endsWith (e : String) (kind : StoreKind) (h : entryKind e = some kind) :
    e.endsWith "-empty" = (kind == .empty) := by
  rcases entryKind_some e kind h with rfl | rfl <;> cases kind <;>
    (rw [endsWith_eq_decide]; decide)


/-- the driver's instance: outputs are 32 bytes -/
theorem hf_outLen : OutLen Ops.hf :=
  ⟨fun c b r => chunkCv_length c b r, fun l r f => parentCv_length l r f⟩

theorem length_staleN (n : Nat) : (staleN n).length = n := by simp [staleN]
theorem length_zerosN (n : Nat) : (zerosN n).length = n := by simp [zerosN]

/-- `outboard` into the stores `opOb` builds (root field `[]`): pre-order kinds -/
theorem viaStore_pre (d : List UInt8) (bs : Nat) (hs : d.length ≤ 2 ^ 63) (hbs : bs ≤ 10)
    (kind : StoreKind) (init : List UInt8)
    (hk : (kind = .preIo ∧ init.length ≤ Tree.outboardSize ⟨d.length, bs⟩) ∨
          (kind = .preMem ∧ init.length = Tree.outboardSize ⟨d.length, bs⟩)) :
    viaStore d bs kind init = (hex (Spec.root hf d), Spec.preOutboard hf d bs) := by
  unfold viaStore
  have := outboard_run_pre' hf hf_outLen d bs hs hbs
    { kind, root := [], tree := ⟨d.length, bs⟩, data := init } rfl hk
  simp only at this
  rw [this]
  rfl

theorem viaStore_post (d : List UInt8) (bs : Nat) (hs : d.length ≤ 2 ^ 63) (hbs : bs ≤ 10)
    (kind : StoreKind) (init : List UInt8)
    (hk : (kind = .postIo ∧ init.length ≤ Tree.outboardSize ⟨d.length, bs⟩) ∨
          (kind = .postMem ∧ init.length = Tree.outboardSize ⟨d.length, bs⟩)) :
    viaStore d bs kind init = (hex (Spec.root hf d), Spec.postOutboard hf d bs) := by
  unfold viaStore
  have := outboard_run_post' hf hf_outLen d bs hs hbs
    { kind, root := [], tree := ⟨d.length, bs⟩, data := init } rfl hk
  simp only at this
  rw [this]
  rfl

theorem viaStore_empty (d : List UInt8) (bs : Nat) (hs : d.length ≤ 2 ^ 63) (hbs : bs ≤ 10)
    (init : List UInt8) :
    viaStore d bs .empty init = (hex (Spec.root hf d), init) := by
  unfold viaStore
  have := outboard_run_empty hf d bs hs hbs
    { kind := .empty, root := [], tree := ⟨d.length, bs⟩, data := init } rfl rfl
  simp only at this
  rw [this]
  rfl

theorem viaWriter_eq (d : List UInt8) (bs : Nat) (hs : d.length ≤ 2 ^ 63) (hbs : bs ≤ 10) :
    viaWriter d bs = (hex (Spec.root hf d), Spec.postOutboard hf d bs) := by
  unfold viaWriter
  rw [writer_run hf d bs hs hbs]
  rfl

/-- the outboard bytes the verdict expects (`specOb` of `opOb`) -/
def obExpect (d : List UInt8) (bs : Nat) (entry : String) (isPre : Bool) : List UInt8 :=
  if entry.endsWith "-empty" then staleN (Tree.outboardSize ⟨d.length, bs⟩)
  else if isPre then Spec.preOutboard hf d bs else Spec.postOutboard hf d bs

theorem obExpect_pre (d : List UInt8) (bs : Nat) (entry : String)
    (h : entry.endsWith "-empty" = false) :
    obExpect d bs entry true = Spec.preOutboard hf d bs := by
  unfold obExpect; rw [h]; rfl

theorem obExpect_post (d : List UInt8) (bs : Nat) (entry : String)
    (h : entry.endsWith "-empty" = false) :
    obExpect d bs entry false = Spec.postOutboard hf d bs := by
  unfold obExpect; rw [h]; rfl

theorem obExpect_empty (d : List UInt8) (bs : Nat) (entry : String) (isPre : Bool)
    (h : entry.endsWith "-empty" = true) :
    obExpect d bs entry isPre = staleN (Tree.outboardSize ⟨d.length, bs⟩) := by
  unfold obExpect; rw [h]; rfl

/-- every entry that `opOb` accepts: the root string is `hex (Spec.root hf d)` and the outboard
bytes are the ones the verdict expects -/
theorem obRes_spec (d : List UInt8) (bs : Nat) (hs : d.length ≤ 2 ^ 63) (hbs : bs ≤ 10)
    (entry rootS : String) (ob : List UInt8) (isPre : Bool)
    (h : obRes d bs entry = some (rootS, ob, isPre)) :
    rootS = hex (Spec.root hf d) ∧ ob = obExpect d bs entry isPre := by
  unfold obRes at h
  simp only [] at h
  split at h
  case h_17 =>
    split at h
    next kind hk =>
      have hend := entryKind_endsWith entry kind hk
      cases kind
      · rw [viaStore_pre d bs hs hbs _ _ (.inl ⟨rfl, Nat.le_of_eq (length_staleN _)⟩)] at h
        cases h; exact ⟨rfl, (obExpect_pre d bs _ hend).symm⟩
      · rw [viaStore_post d bs hs hbs _ _ (.inl ⟨rfl, Nat.le_of_eq (length_staleN _)⟩)] at h
        cases h; exact ⟨rfl, (obExpect_post d bs _ hend).symm⟩
      · rw [viaStore_pre d bs hs hbs _ _ (.inr ⟨rfl, length_staleN _⟩)] at h
        cases h; exact ⟨rfl, (obExpect_pre d bs _ hend).symm⟩
      · rw [viaStore_post d bs hs hbs _ _ (.inr ⟨rfl, length_staleN _⟩)] at h
        cases h; exact ⟨rfl, (obExpect_post d bs _ hend).symm⟩
      · rw [viaStore_empty d bs hs hbs] at h
        cases h; exact ⟨rfl, (obExpect_empty d bs _ _ hend).symm⟩
    next => cases h
  all_goals first
    | (rw [viaStore_pre d bs hs hbs _ _ (.inr ⟨rfl, length_zerosN _⟩)] at h; cases h
       exact ⟨rfl, (obExpect_pre d bs _ (by rw [endsWith_eq_decide]; decide)).symm⟩)
    | (rw [viaWriter_eq d bs hs hbs] at h; cases h
       exact ⟨rfl, (obExpect_post d bs _ (by rw [endsWith_eq_decide]; decide)).symm⟩)
    | (rw [viaStore_pre d bs hs hbs _ _ (.inl ⟨rfl, Nat.zero_le _⟩)] at h; cases h
       exact ⟨rfl, (obExpect_pre d bs _ (by rw [endsWith_eq_decide]; decide)).symm⟩)
    | (rw [viaStore_post d bs hs hbs _ _ (.inl ⟨rfl, Nat.zero_le _⟩)] at h; cases h
       exact ⟨rfl, (obExpect_post d bs _ (by rw [endsWith_eq_decide]; decide)).symm⟩)
    | (rw [viaStore_pre d bs hs hbs _ _ (.inl ⟨rfl, Nat.le_of_eq (length_staleN _)⟩)] at h; cases h
       exact ⟨rfl, (obExpect_pre d bs _ (by rw [endsWith_eq_decide]; decide)).symm⟩)
    | (rw [viaStore_post d bs hs hbs _ _ (.inl ⟨rfl, Nat.le_of_eq (length_staleN _)⟩)] at h; cases h
       exact ⟨rfl, (obExpect_post d bs _ (by rw [endsWith_eq_decide]; decide)).symm⟩)

/-! ### the verdict on the token list -/

/-- the verdict of `ob` on the four tokens of the implementation's output -/
def obVerdictT (d : List UInt8) (bs : Nat) (entry : String) (isPre : Bool) (tokens : List String) :
    Option String :=
  let tree : Tree := ⟨d.length, bs⟩
  let obsize := tree.outboardSize
  let isEmptyKind := entry.endsWith "-empty"
  match tokens with
  | [r, ob, ib3, ibao] =>
    let specOb := if isEmptyKind then staleN obsize
      else if isPre then Spec.preOutboard hf d bs else Spec.postOutboard hf d bs
    if r != ib3 then some "root differs from blake3::hash(data)"
    else if r != hex (Spec.root hf d) then some "root differs from Spec.root"
    else if ob != dig specOb then some s!"outboard bytes differ from Spec pre/postOutboard ({dig specOb})"
    else if specOb.length != (Spec.nBlocks d.length bs - 1) * 64 then some "outboard size"
    else if bs == 0 && isPre && !isEmptyKind && ob != ibao then some "differs from bao crate outboard"
    else none
  | _ => some "malformed"

theorem obVerdict_eq (d : List UInt8) (bs : Nat) (entry : String) (isPre : Bool) (impl : String) :
    obVerdict d bs entry isPre impl = obVerdictT d bs entry isPre (impl.splitOn " ") := rfl

/-- the fourth token of the model's line: the bao crate's outboard digest at block size 0 -/
def baoTok (d : List UInt8) (bs : Nat) : String :=
  if bs == 0 then dig (Spec.preOutboard hf d 0) else "-"

theorem obExpect_length (d : List UInt8) (bs : Nat) (hs : d.length ≤ 2 ^ 63) (hbs : bs ≤ 10)
    (entry : String) (isPre : Bool) :
    (obExpect d bs entry isPre).length = (Spec.nBlocks d.length bs - 1) * 64 := by
  rw [← C12.blocks_spec]
  unfold obExpect
  split
  · rw [length_staleN]; rfl
  · split
    · exact preOutboard_length' hf hf_outLen d bs hs hbs
    · exact postOutboard_length' hf hf_outLen d bs hs hbs

/-- component level: the verdict accepts the four tokens computed from the specification -/
theorem verdict_tokens (d : List UInt8) (bs : Nat) (hs : d.length ≤ 2 ^ 63) (hbs : bs ≤ 10)
    (entry : String) (isPre : Bool) :
    obVerdictT d bs entry isPre
      [hex (Spec.root hf d), dig (obExpect d bs entry isPre), hex (hashSubtree hf 0 d true),
        baoTok d bs] = none := by
  have hlen := obExpect_length d bs hs hbs entry isPre
  have e : (if entry.endsWith "-empty" = true then staleN (Tree.outboardSize ⟨d.length, bs⟩)
      else if isPre = true then preOutboard hf d bs else postOutboard hf d bs)
      = obExpect d bs entry isPre := rfl
  have h5 : (bs == 0 && isPre && !entry.endsWith "-empty" &&
      dig (obExpect d bs entry isPre) != baoTok d bs) = false := by
    by_cases hb : bs = 0
    · subst hb
      cases isPre
      · simp
      · cases hE : entry.endsWith "-empty"
        · simp [obExpect, baoTok, hE]
        · simp
    · have : (bs == 0) = false := by simpa using hb
      simp [this]
  unfold obVerdictT
  simp only [hashSubtree_root, bne_self_eq_false, Bool.false_eq_true, if_false]
  rw [e]
  simp only [h5, hlen, bne_self_eq_false, Bool.false_eq_true, if_false]

/-! ### the output line and its tokens -/

theorem hexDigit_ne_space : ∀ n, n < 16 → hexDigit n ≠ ' ' := by decide

theorem noSp_hex (b : List UInt8) : NoSp (hex b) := by
  unfold hex
  split
  · exact noSp_lit "-" (by decide)
  · unfold NoSp
    rw [String.toList_ofList]
    intro h
    obtain ⟨x, _, hx⟩ := List.mem_flatMap.1 h
    simp only [List.mem_cons, List.not_mem_nil, or_false] at hx
    have h1 : x.toNat / 16 < 16 := by have := x.toNat_lt; omega
    have h2 : x.toNat % 16 < 16 := by omega
    rcases hx with hx | hx
    · exact hexDigit_ne_space _ h1 hx.symm
    · exact hexDigit_ne_space _ h2 hx.symm

theorem noSp_baoTok (d : List UInt8) (bs : Nat) : NoSp (baoTok d bs) := by
  unfold baoTok
  split
  · exact noSp_dig _
  · exact noSp_lit "-" (by decide)

theorem obModelStr_eq (d : List UInt8) (bs : Nat) (rootS : String) (ob : List UInt8) :
    obModelStr d bs rootS ob
      = " ".intercalate [rootS, dig ob, hex (hashSubtree hf 0 d true), baoTok d bs] := by
  simp only [obModelStr, baoTok, String.intercalate_cons_cons, String.intercalate_singleton]
  show rootS ++ " " ++ dig ob ++ " " ++ hex (hashSubtree hf 0 d true) ++ " " ++ _ = _
  simp only [String.append_assoc]
  rfl

theorem obModelStr_split (d : List UInt8) (bs : Nat) (rootS : String) (ob : List UInt8)
    (hr : NoSp rootS) :
    (obModelStr d bs rootS ob).splitOn " "
      = [rootS, dig ob, hex (hashSubtree hf 0 d true), baoTok d bs] := by
  rw [obModelStr_eq]
  apply splitOn_intercalate _ (by simp)
  intro t ht
  simp only [List.mem_cons, List.not_mem_nil, or_false] at ht
  rcases ht with rfl | rfl | rfl | rfl
  · exact hr
  · exact noSp_dig _
  · exact noSp_hex _
  · exact noSp_baoTok _ _

/-! ### `splitOn` for a one-character separator, on the list of characters
(`SpecIndex.splitOnAux_space` with the separator as a parameter) -/

/-- list model of `splitOn sep` for a one-character separator `c0`: `cur` is the token being read -/
def splitLc (c0 : Char) : List Char → List Char → List (List Char)
  | cur, [] => [cur]
  | cur, c :: rest => if c = c0 then cur :: splitLc c0 [] rest else splitLc c0 (cur ++ [c]) rest

/-- `sep` is the one-character string `c0` (three facts, each `rfl` for a literal) -/
structure OneChar (sep : String) (c0 : Char) : Prop where
  get0 : String.Pos.Raw.get sep 0 = c0
  end1 : String.Pos.Raw.atEnd sep (String.Pos.Raw.next sep 0) = true
  next0 : String.Pos.Raw.next sep 0 = ⟨c0.utf8Size⟩
  ne : sep ≠ ""

theorem splitOnAux_char (sep : String) (c0 : Char) (hc0 : OneChar sep c0) (s : String)
    (rest : List Char) : ∀ (pre cur : List Char) (r : List String),
    s.toList = pre ++ cur ++ rest →
    String.splitOnAux s sep ⟨bsize pre⟩ ⟨bsize (pre ++ cur)⟩ 0 r
      = r.reverse ++ (splitLc c0 cur rest).map String.ofList := by
  induction rest with
  | nil =>
    intro pre cur r h
    rw [String.splitOnAux]
    have hend : String.Pos.Raw.atEnd s ⟨bsize (pre ++ cur)⟩ = true := by
      simp only [String.Pos.Raw.atEnd, utf8ByteSize_eq_bsize, h, List.append_nil, ge_iff_le,
        Nat.le_refl, decide_true]
    rw [if_pos hend]
    simp only [List.reverse_cons, splitLc, List.map_cons, List.map_nil]
    rw [extract_at s pre cur [] h]
  | cons c rest ih =>
    intro pre cur r h
    have hc := Char.utf8Size_pos c
    rw [String.splitOnAux]
    have hend : ¬ String.Pos.Raw.atEnd s ⟨bsize (pre ++ cur)⟩ = true := by
      simp only [String.Pos.Raw.atEnd, utf8ByteSize_eq_bsize, h, ge_iff_le, decide_eq_true_eq]
      rw [bsize_append (pre ++ cur)]
      simp only [bsize]
      omega
    rw [if_neg hend]
    have hget : String.Pos.Raw.get s ⟨bsize (pre ++ cur)⟩ = c := by
      unfold String.Pos.Raw.get
      rw [h]
      have := getAux_at (pre ++ cur) c rest 0
      simp only [Nat.zero_add] at this
      exact this
    have hnext : String.Pos.Raw.next s ⟨bsize (pre ++ cur)⟩ = ⟨bsize (pre ++ cur ++ [c])⟩ := by
      unfold String.Pos.Raw.next
      rw [hget, bsize_append (pre ++ cur)]
      simp only [bsize, Nat.add_zero]
      rfl
    by_cases hsp : c = c0
    · subst hsp
      have hb : (String.Pos.Raw.get s ⟨bsize (pre ++ cur)⟩ == String.Pos.Raw.get sep 0) = true := by
        rw [hget, hc0.get0]; exact beq_self_eq_true _
      rw [if_pos hb]
      simp only [hc0.end1, if_true, hnext]
      have hun : (⟨bsize (pre ++ cur ++ [c])⟩ : String.Pos.Raw).unoffsetBy
          (String.Pos.Raw.next sep 0) = ⟨bsize (pre ++ cur)⟩ := by
        rw [hc0.next0, bsize_append (pre ++ cur)]
        simp only [bsize]
        ext
        simp
      rw [hun, extract_at s pre cur (c :: rest) h]
      have h' : s.toList = (pre ++ cur ++ [c]) ++ [] ++ rest := by
        rw [h]; simp
      have := ih (pre ++ cur ++ [c]) [] (String.ofList cur :: r) h'
      rw [List.append_nil] at this
      rw [this]
      simp [splitLc]
    · have hb : ¬ (String.Pos.Raw.get s ⟨bsize (pre ++ cur)⟩ == String.Pos.Raw.get sep 0) = true := by
        rw [hget, hc0.get0]; simpa using hsp
      rw [if_neg hb]
      have hun : (⟨bsize (pre ++ cur)⟩ : String.Pos.Raw).unoffsetBy 0 = ⟨bsize (pre ++ cur)⟩ := by
        ext; simp
      rw [hun, hnext]
      have h' : s.toList = pre ++ (cur ++ [c]) ++ rest := by
        rw [h]; simp
      have := ih pre (cur ++ [c]) r h'
      rw [← List.append_assoc] at this
      rw [this]
      simp [splitLc, hsp]

theorem splitOn_char (sep : String) (c0 : Char) (hc0 : OneChar sep c0) (s : String) :
    s.splitOn sep = (splitLc c0 [] s.toList).map String.ofList := by
  unfold String.splitOn
  rw [if_neg (by simpa using hc0.ne)]
  have := splitOnAux_char sep c0 hc0 s s.toList [] [] [] (by simp)
  simpa [bsize] using this

theorem oneChar_plus : OneChar "+" '+' := ⟨rfl, rfl, rfl, by decide⟩
theorem oneChar_colon : OneChar ":" ':' := ⟨rfl, rfl, rfl, by decide⟩

theorem splitLc_head (c0 : Char) (cur cs : List Char) :
    ∃ tl, splitLc c0 cur cs = (cur ++ cs.takeWhile (· != c0)) :: tl := by
  induction cs generalizing cur with
  | nil => exact ⟨[], by simp [splitLc]⟩
  | cons c cs ih =>
    by_cases hc : c = c0
    · subst hc
      exact ⟨splitLc c [] cs, by simp [splitLc]⟩
    · obtain ⟨tl, e⟩ := ih (cur ++ [c])
      refine ⟨tl, ?_⟩
      simp only [splitLc, if_neg hc, e]
      have : (c != c0) = true := by simpa using hc
      simp [this]

/-- the entry name is the part of the third argument before the first `+` -/
theorem entryOf_eq (entry0 : String) :
    entryOf entry0 = String.ofList (entry0.toList.takeWhile (· != '+')) := by
  unfold entryOf
  rw [splitOn_char "+" '+' oneChar_plus]
  obtain ⟨tl, e⟩ := splitLc_head '+' [] entry0.toList
  rw [e]
  rfl

theorem takeWhile_stop {α : Type} (p : α → Bool) (a : List α) (ha : ∀ x ∈ a, p x = true) :
    a.takeWhile p = a ∧ ∀ c b, p c = false → (a ++ c :: b).takeWhile p = a := by
  induction a with
  | nil => exact ⟨rfl, fun c b hc => by simp [hc]⟩
  | cons x a ih =>
    have hx := ha x List.mem_cons_self
    obtain ⟨h1, h2⟩ := ih (fun y hy => ha y (List.mem_cons_of_mem _ hy))
    exact ⟨by simp [hx, h1],
      fun c b hc => by simp [hx, h2 c b hc]⟩

theorem noPlus_pred (e : String) (h : '+' ∉ e.toList) : ∀ c ∈ e.toList, (c != '+') = true := by
  intro c hc
  have : c ≠ '+' := fun e' => h (e' ▸ hc)
  simpa using this

/-- no modifier: the entry name is the argument -/
theorem entryOf_plain (e : String) (h : '+' ∉ e.toList) : entryOf e = e := by
  rw [entryOf_eq, (takeWhile_stop _ _ (noPlus_pred e h)).1, String.ofList_toList]

/-- `name+modifier`: the entry name is `name` -/
theorem entryOf_modified (e t : String) (h : '+' ∉ e.toList) : entryOf (e ++ "+" ++ t) = e := by
  rw [entryOf_eq]
  have : (e ++ "+" ++ t).toList = e.toList ++ '+' :: t.toList := by
    simp [String.toList_append]
  rw [this, (takeWhile_stop _ _ (noPlus_pred e h)).2 '+' _ (by decide), String.ofList_toList]

/-! ### blob descriptors -/

theorem splitLc_append (c0 : Char) (t : List Char) (ht : c0 ∉ t) (cur rest : List Char) :
    splitLc c0 cur (t ++ rest) = splitLc c0 (cur ++ t) rest := by
  induction t generalizing cur with
  | nil => simp
  | cons c t ih =>
    have hc : c ≠ c0 := fun e => ht (by rw [e]; exact List.mem_cons_self ..)
    have ht' : c0 ∉ t := fun h => ht (List.mem_cons_of_mem _ h)
    simp only [List.cons_append, splitLc, if_neg hc]
    rw [ih ht', List.append_assoc]
    rfl

theorem noColon_nat (n : Nat) : ':' ∉ (toString n).toList := by
  show ':' ∉ (Nat.repr n).toList
  rw [Nat.toList_repr]
  intro h
  have := Nat.isDigit_of_mem_toDigits (by omega) (by omega) h
  exact absurd this (by decide)

/-- `const:B:N` descriptors parse to `N` bytes `B` -/
theorem blob_const (b n : Nat) :
    blob ("const:" ++ toString b ++ ":" ++ toString n) = some (List.replicate n (UInt8.ofNat b)) := by
  unfold blob
  rw [splitOn_char ":" ':' oneChar_colon]
  have e : ("const:" ++ toString b ++ ":" ++ toString n).toList
      = "const".toList ++ (':' :: ((toString b).toList ++ (':' :: ((toString n).toList ++ [])))) := by
    simp only [String.toList_append, List.append_nil]
    have : "const:".toList = "const".toList ++ [':'] := by decide
    have e2 : ":".toList = [':'] := by decide
    rw [this, e2]
    simp
  rw [e, splitLc_append ':' _ (by decide), splitLc, if_pos rfl, splitLc_append ':' _ (noColon_nat b),
    splitLc, if_pos rfl, splitLc_append ':' _ (noColon_nat n), splitLc]
  simp only [List.nil_append, List.map_cons, List.map_nil, String.ofList_toList]
  simp

/-- what a `none` verdict on four tokens says -/
theorem verdict_sound (d : List UInt8) (bs : Nat) (entry : String) (isPre : Bool)
    (r ob ib3 ibao : String) (h : obVerdictT d bs entry isPre [r, ob, ib3, ibao] = none) :
    r = ib3 ∧ r = hex (Spec.root hf d) ∧ ob = dig (obExpect d bs entry isPre) ∧
    (obExpect d bs entry isPre).length = (Spec.nBlocks d.length bs - 1) * 64 ∧
    (bs = 0 → isPre = true → entry.endsWith "-empty" = false → ob = ibao) := by
  have e : (if entry.endsWith "-empty" = true then staleN (Tree.outboardSize ⟨d.length, bs⟩)
      else if isPre = true then preOutboard hf d bs else postOutboard hf d bs)
      = obExpect d bs entry isPre := rfl
  unfold obVerdictT at h
  simp only [] at h
  rw [e] at h
  split at h
  · cases h
  next h1 =>
  split at h
  · cases h
  next h2 =>
  split at h
  · cases h
  next h3 =>
  split at h
  · cases h
  next h4 =>
  split at h
  · cases h
  next h5 =>
  refine ⟨by simpa using h1, by simpa using h2, by simpa using h3, by simpa using h4, ?_⟩
  intro hb hp he
  subst hb
  simpa [hp, he] using h5

/-! ### the accepted entries -/

theorem entryKind_sync (kind : StoreKind) : entryKind ("sync-outboard-" ++ kindStr kind) = some kind := by
  unfold entryKind
  cases kind <;>
  (rw [if_pos (String.startsWith_string_iff.2 (by decide))]; decide)

theorem entryKind_fsm (kind : StoreKind) : entryKind ("fsm-outboard-" ++ kindStr kind) = some kind := by
  unfold entryKind
  cases kind <;>
  (rw [if_neg (by rw [Bool.not_eq_true, String.startsWith_string_eq_false_iff]; decide),
     if_pos (String.startsWith_string_iff.2 (by decide))]; decide)


/-- the 26 entry names `opOb` accepts (= `ENTRIES` of `harness/src/gen2.rs`) -/
def obEntries : List String := [
  "sync-create-preMem", "sync-create-postMem", "sync-post-order", "fsm-post-order",
  "sync-sized-preIo", "sync-sized-postIo", "fsm-sized-preIo", "fsm-sized-postIo",
  "sync-init-preIo", "sync-init-postIo", "fsm-init-preIo", "fsm-init-postIo",
  "sync-create-preIo", "sync-create-postIo", "fsm-create-preIo", "fsm-create-postIo",
  "sync-outboard-preMem", "sync-outboard-postMem", "sync-outboard-preIo", "sync-outboard-postIo",
  "sync-outboard-empty",
  "fsm-outboard-preMem", "fsm-outboard-postMem", "fsm-outboard-preIo", "fsm-outboard-postIo",
  "fsm-outboard-empty"]

theorem entryKind_lits :
    entryKind "sync-outboard-preMem" = some .preMem ∧ entryKind "sync-outboard-postMem" = some .postMem ∧
    entryKind "sync-outboard-preIo" = some .preIo ∧ entryKind "sync-outboard-postIo" = some .postIo ∧
    entryKind "sync-outboard-empty" = some .empty ∧
    entryKind "fsm-outboard-preMem" = some .preMem ∧ entryKind "fsm-outboard-postMem" = some .postMem ∧
    entryKind "fsm-outboard-preIo" = some .preIo ∧ entryKind "fsm-outboard-postIo" = some .postIo ∧
    entryKind "fsm-outboard-empty" = some .empty :=
  ⟨entryKind_sync .preMem, entryKind_sync .postMem, entryKind_sync .preIo, entryKind_sync .postIo,
   entryKind_sync .empty, entryKind_fsm .preMem, entryKind_fsm .postMem, entryKind_fsm .preIo,
   entryKind_fsm .postIo, entryKind_fsm .empty⟩

/-- `opOb` accepts exactly the 26 entry names -/
theorem obRes_isSome_iff (d : List UInt8) (bs : Nat) (e : String) :
    (obRes d bs e).isSome = true ↔ e ∈ obEntries := by
  constructor
  · intro h
    unfold obRes at h
    simp only [] at h
    split at h
    case h_17 =>
      split at h
      next kind hk =>
        rcases entryKind_some e kind hk with rfl | rfl <;> cases kind <;> decide
      next => cases h
    all_goals decide
  · intro h
    obtain ⟨k1, k2, k3, k4, k5, k6, k7, k8, k9, k10⟩ := entryKind_lits
    unfold obEntries at h
    simp only [List.mem_cons, List.not_mem_nil, or_false] at h
    rcases h with rfl | rfl | rfl | rfl | rfl | rfl | rfl | rfl | rfl | rfl | rfl | rfl | rfl | rfl |
      rfl | rfl | rfl | rfl | rfl | rfl | rfl | rfl | rfl | rfl | rfl | rfl
    all_goals first
      | rfl
      | simp [obRes, k1, k2, k3, k4, k5, k6, k7, k8, k9, k10]

theorem noPlus_obEntries : ∀ e ∈ obEntries, '+' ∉ e.toList := by decide

end Bao.SpecOb
