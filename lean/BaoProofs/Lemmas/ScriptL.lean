import BaoModel.Script

/-!
# Lemmas for C11: exact reads over a fragmenting transport, and the decoder as a read-client
-/

namespace Bao.ScriptL

open Bao Bao.Script

/-! ## `readExact` on plain byte lists -/

theorem readExact_zero (s : List UInt8) : readExact s 0 = .ok ([], s) := by
  simp [readExact]

theorem readExact_nil_succ (n : Nat) : readExact [] (n + 1) = .error ⟨.unexpectedEof, false⟩ := by
  simp [readExact]

/-- reading across a first block that is entirely consumed -/
theorem readExact_append_le (b c : List UInt8) (n : Nat) (h : b.length ≤ n) :
    readExact (b ++ c) n =
      match readExact c (n - b.length) with
      | .ok (more, rest) => .ok (b ++ more, rest)
      | .error e => .error e := by
  unfold readExact
  by_cases h1 : n ≤ (b ++ c).length
  · have h2 : n - b.length ≤ c.length := by simp at h1; omega
    rw [if_pos h1, if_pos h2]
    simp only [List.take_append, List.drop_append]
    rw [List.take_of_length_le h, List.drop_of_length_le h]
    simp
  · have h2 : ¬ n - b.length ≤ c.length := by simp at h1; omega
    rw [if_neg h1, if_neg h2]

/-- reading strictly inside the first block -/
theorem readExact_append_lt (b c : List UInt8) (n : Nat) (h : n < b.length) :
    readExact (b ++ c) n = .ok (b.take n, b.drop n ++ c) := by
  unfold readExact
  have h1 : n ≤ (b ++ c).length := by simp; omega
  rw [if_pos h1]
  simp only [List.take_append, List.drop_append]
  have : n - b.length = 0 := by omega
  simp [this]

/-! ## the exact-read loop over a script -/

/-- forget how the unread part of a script is sliced -/
def flat (r : Except IoErr (List UInt8 × List Frag)) : Except IoErr (List UInt8 × List UInt8) :=
  match r with
  | .ok (b, fr) => .ok (b, concat fr)
  | .error e => .error e

/-- the exact-read loop over a script is the plain exact read of the concatenated bytes -/
theorem flat_readExactFrags (frags : List Frag) (n : Nat) :
    flat (readExactFrags frags n) = readExact (concat frags) n := by
  induction frags generalizing n with
  | nil =>
    cases n with
    | zero => simp [readExactFrags, flat, concat, readExact_zero]
    | succ n => simp [readExactFrags, flat, concat, readExact_nil_succ]
  | cons f rest ih =>
    cases n with
    | zero => simp [readExactFrags, flat, readExact_zero]
    | succ n =>
      cases f with
      | pending => simpa [readExactFrags, concat] using ih (n + 1)
      | bytes b =>
        simp only [readExactFrags, concat]
        by_cases h : b.length ≤ n + 1
        · rw [if_pos h, readExact_append_le b _ _ h, ← ih (n + 1 - b.length)]
          cases readExactFrags rest (n + 1 - b.length) with
          | error e => simp [flat]
          | ok p => obtain ⟨more, fr⟩ := p; simp [flat]
        · rw [if_neg h, readExact_append_lt b _ _ (by omega)]
          simp [flat, concat]

theorem readExactFrags_ok {frags : List Frag} {n : Nat} {b : List UInt8} {fr : List Frag}
    (h : readExactFrags frags n = .ok (b, fr)) :
    readExact (concat frags) n = .ok (b, concat fr) := by
  rw [← flat_readExactFrags, h]; rfl

theorem readExactFrags_error {frags : List Frag} {n : Nat} {e : IoErr}
    (h : readExactFrags frags n = .error e) :
    readExact (concat frags) n = .error e := by
  rw [← flat_readExactFrags, h]; rfl

theorem readExact_ok_frags {frags : List Frag} {n : Nat} {b rest : List UInt8}
    (h : readExact (concat frags) n = .ok (b, rest)) :
    ∃ fr, readExactFrags frags n = .ok (b, fr) ∧ concat fr = rest := by
  rw [← flat_readExactFrags] at h
  cases h' : readExactFrags frags n with
  | error e => rw [h'] at h; simp [flat] at h
  | ok p =>
    obtain ⟨b', fr⟩ := p
    rw [h'] at h
    simp only [flat, Except.ok.injEq, Prod.mk.injEq] at h
    exact ⟨fr, by rw [h.1], h.2⟩

theorem readExact_error_frags {frags : List Frag} {n : Nat} {e : IoErr}
    (h : readExact (concat frags) n = .error e) :
    readExactFrags frags n = .error e := by
  rw [← flat_readExactFrags] at h
  cases h' : readExactFrags frags n with
  | error e' => rw [h'] at h; simpa [flat] using h
  | ok p => obtain ⟨b', fr⟩ := p; rw [h'] at h; simp [flat] at h

/-! ## clients -/

theorem runFrags_eq_runPlain {σ ρ : Type} (c : Client σ ρ) (fuel : Nat) (s : σ) (frags : List Frag) :
    runFrags c fuel s frags = runPlain c fuel s (concat frags) := by
  induction fuel generalizing s frags with
  | zero => rfl
  | succ fuel ih =>
    simp only [runFrags, runPlain]
    cases hs : c.step s with
    | inl r => rfl
    | inr p =>
      obtain ⟨n, k⟩ := p
      simp only
      cases hr : readExactFrags frags n with
      | error e =>
        rw [readExactFrags_error hr]
        simpa [concat] using ih (k (.error e)) []
      | ok q =>
        obtain ⟨b, fr⟩ := q
        rw [readExactFrags_ok hr]
        exact ih (k (.ok b)) fr

/-! ## the response decoder as a client -/

variable {H : Type}

/-- state of the decoder client: `Dec` without the stream (the transport owns the stream), plus the
loop state of `Dec.runAux` (remaining fuel, items so far in reverse) -/
inductive DSt (H : Type)
  | run (fuel : Nat) (iter : PrePartial) (stack : List H) (hash : H) (acc : List (Item H))
  | fin (acc : List (Item H)) (e : DecEnd)

/-- what `Dec.next` does with the 64 bytes of a parent item -/
def onParent (hf : HashFns H) [BEq H] (fl : Flavour) (fuel : Nat) (iter : PrePartial) (stack : List H)
    (hash : H) (acc : List (Item H)) (node : Nat) (isRoot left right : Bool) :
    Except IoErr (List UInt8) → DSt H
  | .error e => .fin acc (.err (DecodeError.maybeParentNotFound e node))
  | .ok buf =>
    let (l, r) := parsePair hf buf
    match stack with
    | [] => .fin acc .panic
    | parentHash :: stack =>
      let actual := hf.parentCv l r isRoot
      match fl with
      | .sync =>
        if parentHash != actual then .fin acc (.err (.parentHashMismatch node))
        else
          let stack := if right then r :: stack else stack
          let stack := if left then l :: stack else stack
          .run fuel iter stack hash (.parent node l r :: acc)
      | .fsm =>
        let stack := if right then r :: stack else stack
        let stack := if left then l :: stack else stack
        if parentHash != actual then .fin acc (.err (.parentHashMismatch node))
        else .run fuel iter stack hash (.parent node l r :: acc)

/-- what `Dec.next` does with the `size` bytes of a leaf item -/
def onLeaf (hf : HashFns H) [BEq H] (fuel : Nat) (iter : PrePartial) (stack : List H)
    (hash : H) (acc : List (Item H)) (start : Nat) (isRoot : Bool) :
    Except IoErr (List UInt8) → DSt H
  | .error e => .fin acc (.err (DecodeError.maybeLeafNotFound e start))
  | .ok buf =>
    match stack with
    | [] => .fin acc .panic
    | leafHash :: stack =>
      if leafHash != hashSubtree hf start buf isRoot then .fin acc (.err (.leafHashMismatch start))
      else .run fuel iter stack hash (.leaf (toBytes start) buf :: acc)

/-- the decoder loop (`Dec.runAux` over `Dec.next`) as a client that only issues exact reads:
64 bytes for a parent plan item, `size` bytes for a leaf plan item -/
def decClient (hf : HashFns H) [BEq H] (fl : Flavour) : Client (DSt H) (List (Item H) × DecEnd) where
  step
    | .fin acc e => .inl (acc.reverse, e)
    | .run 0 _ _ _ acc => .inl (acc.reverse, .panic)
    | .run (fuel + 1) iter stack hash acc =>
      match Response.next iter with
      | .done => .inl (acc.reverse, .done)
      | .panic => .inl (acc.reverse, .panic)
      | .item (.parent node isRoot left right _) iter' =>
        .inr (64, onParent hf fl fuel iter' stack hash acc node isRoot left right)
      | .item (.leaf start size isRoot _) iter' =>
        .inr (size, onLeaf hf fuel iter' stack hash acc start isRoot)

/-- the client state of a decoder -/
def DSt.ofDec (fuel : Nat) (d : Dec H) (acc : List (Item H)) : DSt H :=
  .run fuel d.iter d.stack d.hash acc

/-- the terminal is a failed stream read (the transport is then in an unspecified position) -/
def readFailed : DecEnd → Bool
  | .err (.parentNotFound _) => true
  | .err (.leafNotFound _) => true
  | .err (.io _) => true
  | _ => false

/-- the unread bytes reported by `Dec.runAux` are the transport position: clean end or hash
mismatch (on a failed read the transport position is unspecified; on a panic there is no value) -/
def restKept : DecEnd → Bool
  | .done => true
  | .err (.parentHashMismatch _) => true
  | .err (.leafHashMismatch _) => true
  | _ => false

theorem readExact_error_eq {s : List UInt8} {n : Nat} {e : IoErr} (h : readExact s n = .error e) :
    e = ⟨.unexpectedEof, false⟩ := by
  unfold readExact at h
  split at h
  · cases h
  · cases h; rfl

theorem runPlain_inl {σ ρ : Type} (c : Client σ ρ) (F : Nat) (s : σ) (bytes : List UInt8) (r : ρ)
    (h : c.step s = .inl r) : runPlain c (F + 1) s bytes = some (r, bytes) := by
  rw [runPlain, h]

theorem runPlain_ok {σ ρ : Type} (c : Client σ ρ) (F : Nat) (s : σ) (bytes : List UInt8) (n : Nat)
    (k : Except IoErr (List UInt8) → σ) (b rest : List UInt8)
    (h : c.step s = .inr (n, k)) (hr : readExact bytes n = .ok (b, rest)) :
    runPlain c (F + 1) s bytes = runPlain c F (k (.ok b)) rest := by
  rw [runPlain, h]; simp only; rw [hr]

theorem runPlain_error {σ ρ : Type} (c : Client σ ρ) (F : Nat) (s : σ) (bytes : List UInt8) (n : Nat)
    (k : Except IoErr (List UInt8) → σ) (e : IoErr)
    (h : c.step s = .inr (n, k)) (hr : readExact bytes n = .error e) :
    runPlain c (F + 1) s bytes = runPlain c F (k (.error e)) [] := by
  rw [runPlain, h]; simp only; rw [hr]

theorem runPlain_fin (hf : HashFns H) [BEq H] (fl : Flavour) (F : Nat) (acc : List (Item H))
    (e : DecEnd) (s : List UInt8) :
    runPlain (decClient hf fl) (F + 1) (.fin acc e) s = some ((acc.reverse, e), s) := rfl

theorem maybeParentNotFound_eof (node : Nat) :
    DecodeError.maybeParentNotFound ⟨.unexpectedEof, false⟩ node = .parentNotFound node := rfl

theorem maybeLeafNotFound_eof (c : Nat) :
    DecodeError.maybeLeafNotFound ⟨.unexpectedEof, false⟩ c = .leafNotFound c := rfl

/-- `runPlain` of the client computes `Dec.runAux`: same items, same terminal, and the same unread
bytes whenever `Dec.runAux` reports a transport position -/
theorem runPlain_decClient (hf : HashFns H) [BEq H] (fl : Flavour) (f F : Nat) (hF : f + 2 ≤ F)
    (d : Dec H) (acc : List (Item H)) :
    ∃ rest', runPlain (decClient hf fl) F (DSt.ofDec f d acc) d.encoded =
        some ((acc.reverse ++ (Dec.runAux hf fl f d).items, (Dec.runAux hf fl f d).terminal), rest') ∧
      (restKept (Dec.runAux hf fl f d).terminal = true → rest' = (Dec.runAux hf fl f d).rest) ∧
      (readFailed (Dec.runAux hf fl f d).terminal = true → rest' = []) := by
  induction f generalizing F d acc with
  | zero =>
    obtain ⟨F, rfl⟩ : ∃ F', F = F' + 1 := ⟨F - 1, by omega⟩
    exact ⟨d.encoded, by simp [runPlain, decClient, DSt.ofDec, Dec.runAux], by simp [Dec.runAux, restKept],
      by simp [Dec.runAux, readFailed]⟩
  | succ f ih =>
    obtain ⟨F, rfl⟩ : ∃ F', F = F' + 2 := ⟨F - 2, by omega⟩
    have hF' : f + 2 ≤ F + 1 := by omega
    cases hn : Response.next d.iter with
    | done =>
      refine ⟨d.encoded, ?_, ?_, ?_⟩
      · rw [runPlain_inl _ _ _ _ (acc.reverse, .done) (by simp [decClient, DSt.ofDec, hn])]
        cases fl <;> simp [Dec.runAux, Dec.next, Dec.nextSync, Dec.nextFsm, hn]
      · cases fl <;> simp [Dec.runAux, Dec.next, Dec.nextSync, Dec.nextFsm, hn]
      · cases fl <;> simp [Dec.runAux, Dec.next, Dec.nextSync, Dec.nextFsm, hn, readFailed]
    | panic =>
      refine ⟨d.encoded, ?_, ?_, ?_⟩
      · rw [runPlain_inl _ _ _ _ (acc.reverse, .panic) (by simp [decClient, DSt.ofDec, hn])]
        cases fl <;> simp [Dec.runAux, Dec.next, Dec.nextSync, Dec.nextFsm, hn]
      · cases fl <;> simp [Dec.runAux, Dec.next, Dec.nextSync, Dec.nextFsm, hn, restKept]
      · cases fl <;> simp [Dec.runAux, Dec.next, Dec.nextSync, Dec.nextFsm, hn, readFailed]
    | item c iter' =>
      cases c with
      | parent node isRoot left right rs =>
        have hstep : (decClient hf fl).step (DSt.ofDec (f + 1) d acc) =
            .inr (64, onParent hf fl f iter' d.stack d.hash acc node isRoot left right) := by
          simp [decClient, DSt.ofDec, hn]
        cases hr : readExact d.encoded 64 with
        | error e =>
          have := readExact_error_eq hr; subst this
          refine ⟨[], ?_, ?_, ?_⟩
          · rw [runPlain_error _ _ _ _ _ _ _ hstep hr]
            cases fl <;>
              simp [Dec.runAux, Dec.next, Dec.nextSync, Dec.nextFsm, hn, hr, onParent, runPlain_fin]
          · cases fl <;>
              simp [Dec.runAux, Dec.next, Dec.nextSync, Dec.nextFsm, hn, hr, restKept,
                maybeParentNotFound_eof]
          · intro; rfl
        | ok p =>
          obtain ⟨buf, rest⟩ := p
          rw [runPlain_ok _ _ _ _ _ _ _ _ hstep hr]
          cases hst : d.stack with
          | nil =>
            refine ⟨rest, ?_, ?_, ?_⟩
            · cases fl <;>
                simp [Dec.runAux, Dec.next, Dec.nextSync, Dec.nextFsm, hn, hr, hst, onParent, runPlain_fin]
            · cases fl <;>
                simp [Dec.runAux, Dec.next, Dec.nextSync, Dec.nextFsm, hn, hr, hst, restKept]
            · cases fl <;>
                simp [Dec.runAux, Dec.next, Dec.nextSync, Dec.nextFsm, hn, hr, hst, readFailed]
          | cons ph st =>
            by_cases hm : (ph != hf.parentCv (parsePair hf buf).1 (parsePair hf buf).2 isRoot) = true
            · refine ⟨rest, ?_, ?_, ?_⟩
              · cases fl <;>
                  simp [Dec.runAux, Dec.next, Dec.nextSync, Dec.nextFsm, hn, hr, hst, onParent,
                    runPlain_fin, hm]
              · cases fl <;>
                  simp [Dec.runAux, Dec.next, Dec.nextSync, Dec.nextFsm, hn, hr, hst, hm]
              · cases fl <;>
                  simp [Dec.runAux, Dec.next, Dec.nextSync, Dec.nextFsm, hn, hr, hst, hm, readFailed]
            · obtain ⟨rest', h1, h2, h3⟩ := ih (F + 1) hF'
                { d with iter := iter', stack := (if left then (parsePair hf buf).1 :: (if right then (parsePair hf buf).2 :: st else st) else (if right then (parsePair hf buf).2 :: st else st)), encoded := rest }
                (.parent node (parsePair hf buf).1 (parsePair hf buf).2 :: acc)
              simp only [DSt.ofDec] at h1
              refine ⟨rest', ?_, ?_, ?_⟩
              · cases fl
                · simp only [Dec.runAux, Dec.next, Dec.nextSync, hn, hr, hst, onParent, hm]
                  simp only [Bool.false_eq_true, if_false]
                  rw [h1]; simp
                · simp only [Dec.runAux, Dec.next, Dec.nextFsm, hn, hr, hst, onParent, hm]
                  simp only [Bool.false_eq_true, if_false]
                  rw [h1]; simp
              · cases fl
                · simp only [Dec.runAux, Dec.next, Dec.nextSync, hn, hr, hst, hm]
                  simpa using h2
                · simp only [Dec.runAux, Dec.next, Dec.nextFsm, hn, hr, hst, hm]
                  simpa using h2
              · cases fl
                · simp only [Dec.runAux, Dec.next, Dec.nextSync, hn, hr, hst, hm]
                  simpa using h3
                · simp only [Dec.runAux, Dec.next, Dec.nextFsm, hn, hr, hst, hm]
                  simpa using h3
      | leaf start size isRoot rs =>
        have hstep : (decClient hf fl).step (DSt.ofDec (f + 1) d acc) =
            .inr (size, onLeaf hf f iter' d.stack d.hash acc start isRoot) := by
          simp [decClient, DSt.ofDec, hn]
        cases hr : readExact d.encoded size with
        | error e =>
          have := readExact_error_eq hr; subst this
          refine ⟨[], ?_, ?_, ?_⟩
          · rw [runPlain_error _ _ _ _ _ _ _ hstep hr]
            cases fl <;>
              simp [Dec.runAux, Dec.next, Dec.nextSync, Dec.nextFsm, hn, hr, onLeaf, runPlain_fin]
          · cases fl <;>
              simp [Dec.runAux, Dec.next, Dec.nextSync, Dec.nextFsm, hn, hr, restKept,
                maybeLeafNotFound_eof]
          · intro; rfl
        | ok p =>
          obtain ⟨buf, rest⟩ := p
          rw [runPlain_ok _ _ _ _ _ _ _ _ hstep hr]
          cases hst : d.stack with
          | nil =>
            refine ⟨rest, ?_, ?_, ?_⟩
            · cases fl <;>
                simp [Dec.runAux, Dec.next, Dec.nextSync, Dec.nextFsm, hn, hr, hst, onLeaf, runPlain_fin]
            · cases fl <;>
                simp [Dec.runAux, Dec.next, Dec.nextSync, Dec.nextFsm, hn, hr, hst, restKept]
            · cases fl <;>
                simp [Dec.runAux, Dec.next, Dec.nextSync, Dec.nextFsm, hn, hr, hst, readFailed]
          | cons lh st =>
            by_cases hm : (lh != hashSubtree hf start buf isRoot) = true
            · refine ⟨rest, ?_, ?_, ?_⟩
              · cases fl <;>
                  simp [Dec.runAux, Dec.next, Dec.nextSync, Dec.nextFsm, hn, hr, hst, onLeaf,
                    runPlain_fin, hm]
              · cases fl <;>
                  simp [Dec.runAux, Dec.next, Dec.nextSync, Dec.nextFsm, hn, hr, hst, hm]
              · cases fl <;>
                  simp [Dec.runAux, Dec.next, Dec.nextSync, Dec.nextFsm, hn, hr, hst, hm, readFailed]
            · obtain ⟨rest', h1, h2, h3⟩ := ih (F + 1) hF'
                { d with iter := iter', stack := st, encoded := rest }
                (.leaf (toBytes start) buf :: acc)
              simp only [DSt.ofDec] at h1
              refine ⟨rest', ?_, ?_, ?_⟩
              · cases fl
                · simp only [Dec.runAux, Dec.next, Dec.nextSync, hn, hr, hst, onLeaf, hm]
                  simp only [Bool.false_eq_true, if_false]
                  rw [h1]; simp
                · simp only [Dec.runAux, Dec.next, Dec.nextFsm, hn, hr, hst, onLeaf, hm]
                  simp only [Bool.false_eq_true, if_false]
                  rw [h1]; simp
              · cases fl
                · simp only [Dec.runAux, Dec.next, Dec.nextSync, hn, hr, hst, hm]
                  simpa using h2
                · simp only [Dec.runAux, Dec.next, Dec.nextFsm, hn, hr, hst, hm]
                  simpa using h2
              · cases fl
                · simp only [Dec.runAux, Dec.next, Dec.nextSync, hn, hr, hst, hm]
                  simpa using h3
                · simp only [Dec.runAux, Dec.next, Dec.nextFsm, hn, hr, hst, hm]
                  simpa using h3

/-! ## outboard creation as a client of its data source -/

variable {σ : Type}

/-- the common shape of `outboardLoop` and `outboardPostOrderLoop`: `par` is what is done for a
parent item (no read), a leaf item reads `size` bytes of the data source -/
def obLoopG (hf : HashFns H) (par : Nat → Bool → List H → σ → Sum (ObRun H σ) (List H × σ)) :
    List Chunk → List H → List UInt8 → σ → ObRun H σ
  | [], stack, _, sink =>
    match stack with
    | [h] => ⟨.ok h, sink⟩
    | _ => ⟨.panic, sink⟩
  | .parent node isRoot _ _ _ :: plan, stack, data, sink =>
    match par node isRoot stack sink with
    | .inl r => r
    | .inr (stack', sink') => obLoopG hf par plan stack' data sink'
  | .leaf start size isRoot _ :: plan, stack, data, sink =>
    match readExact data size with
    | .error e => ⟨.err e, sink⟩
    | .ok (buf, rest) => obLoopG hf par plan (hashSubtree hf start buf isRoot :: stack) rest sink

/-- parent step of `outboard_impl`: save the pair -/
def parOb (hf : HashFns H) (node : Nat) (isRoot : Bool) (stack : List H) (ob : Store H) :
    Sum (ObRun H (Store H)) (List H × Store H) :=
  match stack with
  | r :: l :: stack =>
    match ob.save hf node (l, r) with
    | .err e => .inl ⟨.err e, ob⟩
    | .panic => .inl ⟨.panic, ob⟩
    | .ok ob' => .inr (hf.parentCv l r isRoot :: stack, ob')
  | _ => .inl ⟨.panic, ob⟩

/-- parent step of `outboard_post_order_impl`: append the pair -/
def parPo (hf : HashFns H) (_node : Nat) (isRoot : Bool) (stack : List H) (out : List UInt8) :
    Sum (ObRun H (List UInt8)) (List H × List UInt8) :=
  match stack with
  | r :: l :: stack => .inr (hf.parentCv l r isRoot :: stack, out ++ hf.toBytes l ++ hf.toBytes r)
  | _ => .inl ⟨.panic, out⟩

theorem outboardLoop_eq (hf : HashFns H) (plan : List Chunk) (stack : List H) (data : List UInt8)
    (ob : Store H) : outboardLoop hf plan stack data ob = obLoopG hf (parOb hf) plan stack data ob := by
  induction plan generalizing stack data ob with
  | nil =>
    simp only [outboardLoop, obLoopG]
    cases stack with
    | nil => rfl
    | cons h t => cases t <;> rfl
  | cons c plan ih =>
    cases c with
    | parent node isRoot left right rs =>
      simp only [outboardLoop, obLoopG, parOb]
      split
      · split <;> simp_all
      · simp_all
    | leaf start size isRoot rs =>
      simp only [outboardLoop, obLoopG]
      split <;> simp_all

theorem outboardPostOrderLoop_eq (hf : HashFns H) (plan : List Chunk) (stack : List H)
    (data out : List UInt8) :
    outboardPostOrderLoop hf plan stack data out = obLoopG hf (parPo hf) plan stack data out := by
  induction plan generalizing stack data out with
  | nil =>
    simp only [outboardPostOrderLoop, obLoopG]
    cases stack with
    | nil => rfl
    | cons h t => cases t <;> rfl
  | cons c plan ih =>
    cases c with
    | parent node isRoot left right rs =>
      simp only [outboardPostOrderLoop, obLoopG, parPo]
      split <;> simp_all
    | leaf start size isRoot rs =>
      simp only [outboardPostOrderLoop, obLoopG]
      split <;> simp_all

/-- state of the outboard-creation client -/
inductive OSt (H σ : Type)
  | run (plan : List Chunk) (stack : List H) (sink : σ)
  | fin (r : ObRun H σ)

/-- outboard creation as a client: `size` bytes per leaf item; a parent item reads nothing (a read
of 0 bytes, which does not touch the transport) -/
def obClient (hf : HashFns H) (par : Nat → Bool → List H → σ → Sum (ObRun H σ) (List H × σ)) :
    Client (OSt H σ) (ObRun H σ) where
  step
    | .fin r => .inl r
    | .run [] stack sink =>
      .inl (match stack with
        | [h] => ⟨.ok h, sink⟩
        | _ => ⟨.panic, sink⟩)
    | .run (.parent node isRoot _ _ _ :: plan) stack sink =>
      match par node isRoot stack sink with
      | .inl r => .inl r
      | .inr (stack', sink') => .inr (0, fun _ => .run plan stack' sink')
    | .run (.leaf start size isRoot _ :: plan) stack sink =>
      .inr (size, fun
        | .error e => .fin ⟨.err e, sink⟩
        | .ok buf => .run plan (hashSubtree hf start buf isRoot :: stack) sink)

theorem runPlain_obClient (hf : HashFns H)
    (par : Nat → Bool → List H → σ → Sum (ObRun H σ) (List H × σ)) (plan : List Chunk) (F : Nat)
    (hF : plan.length + 2 ≤ F) (stack : List H) (data : List UInt8) (sink : σ) :
    ∃ rest', runPlain (obClient hf par) F (.run plan stack sink) data =
      some (obLoopG hf par plan stack data sink, rest') := by
  induction plan generalizing F stack data sink with
  | nil =>
    obtain ⟨F, rfl⟩ : ∃ F', F = F' + 1 := ⟨F - 1, by omega⟩
    exact ⟨data, by rw [runPlain_inl _ _ _ _ _ rfl]; simp [obLoopG]⟩
  | cons c plan ih =>
    obtain ⟨F, rfl⟩ : ∃ F', F = F' + 2 := ⟨F - 2, by simp at hF; omega⟩
    have hF' : plan.length + 2 ≤ F + 1 := by simp at hF; omega
    cases c with
    | parent node isRoot left right rs =>
      cases hp : par node isRoot stack sink with
      | inl r =>
        exact ⟨data, by rw [runPlain_inl _ _ _ _ r (by simp [obClient, hp])]; simp [obLoopG, hp]⟩
      | inr q =>
        obtain ⟨stack', sink'⟩ := q
        obtain ⟨rest', h⟩ := ih (F + 1) hF' stack' data sink'
        refine ⟨rest', ?_⟩
        rw [runPlain_ok _ _ _ _ 0 (fun _ => .run plan stack' sink') [] data
          (by simp [obClient, hp]) (readExact_zero data)]
        simp only [obLoopG, hp]
        exact h
    | leaf start size isRoot rs =>
      have hstep : (obClient hf par).step (.run (.leaf start size isRoot rs :: plan) stack sink) =
          .inr (size, fun
            | .error e => .fin ⟨.err e, sink⟩
            | .ok buf => .run plan (hashSubtree hf start buf isRoot :: stack) sink) := rfl
      cases hr : readExact data size with
      | error e =>
        refine ⟨[], ?_⟩
        rw [runPlain_error _ _ _ _ _ _ _ hstep hr]
        simp only [obLoopG, hr]
        rfl
      | ok q =>
        obtain ⟨buf, rest⟩ := q
        obtain ⟨rest', h⟩ := ih (F + 1) hF' (hashSubtree hf start buf isRoot :: stack) rest sink
        refine ⟨rest', ?_⟩
        rw [runPlain_ok _ _ _ _ _ _ _ _ hstep hr]
        simp only [obLoopG, hr]
        exact h

end Bao.ScriptL
