import BaoProofs.Lemmas.PlanPre

/-!
# The recursive pre-order plan: the leaves cover exactly the selected chunks

`covered p c`: chunk `c` lies in the chunk span `[s, s + max 1 (chunksOf z))` of a leaf item
`.leaf s z _ _` of the plan `p` (an empty blob has one empty chunk).

* `cover_complete` (A): every selected chunk of the range of node `(k, L)` is covered by a leaf
  of `planPre … L k rs`.
* `cover_sound` (B): every leaf of `planPre … L k rs` contains a selected chunk, provided the
  sub-query is `Tight` (all boundaries but the first lie behind the start of the node) and
  `Bounded` (the node reaches the end of the blob, or all boundaries lie in front of its end);
  both invariants hold at the root and are preserved by `split_inner`.
* `plan_cover_complete`, `plan_cover_sound` (C): the two statements for the public `plan`.

All statements were first checked with `#eval` (sizes 0 … 20000, `bs ≤ 2`, `ml ≤ 3`, all
well-formed queries with at most four boundaries in `0..9`, all nodes `(k, L)`, `k < 6`, `L ≤ 3`).
-/

namespace Bao.PlanPre
open Bao Bao.Spec Bao.Bits

/-- chunk `c` is covered by a leaf of the plan `p` -/
def covered (p : List Chunk) (c : Nat) : Prop :=
  ∃ s z r x, Chunk.leaf s z r x ∈ p ∧ s ≤ c ∧ c < s + max 1 (chunksOf z)

/-- invariant of the sub-query `rs` handed to a node with chunk range `[s, e)`: every boundary
except the first lies strictly behind `s` -/
def Tight (rs : Ranges) (s : Nat) : Prop := ∀ b ∈ rs.tail, s < b

/-- invariant of the sub-query `rs` handed to a node with chunk range `[s, e)`: the node reaches
the end of the blob, or every boundary lies in front of `e` -/
def Bounded (size : Nat) (rs : Ranges) (e : Nat) : Prop :=
  Spec.nChunks size ≤ e ∨ ∀ b ∈ rs, b < e

/-! ## `covered` is monotone -/

theorem covered_of_mem {p : List Chunk} {s z : Nat} {r : Bool} {x : Ranges} {c : Nat}
    (hm : Chunk.leaf s z r x ∈ p) (hlo : s ≤ c) (hhi : c < s + max 1 (chunksOf z)) :
    covered p c := ⟨s, z, r, x, hm, hlo, hhi⟩

theorem covered_subset {p p' : List Chunk} (h : ∀ i ∈ p, i ∈ p') {c : Nat} (hc : covered p c) :
    covered p' c := by
  obtain ⟨s, z, r, x, hm, h1, h2⟩ := hc
  exact ⟨s, z, r, x, h _ hm, h1, h2⟩

theorem covered_cons {p : List Chunk} (i : Chunk) {c : Nat} (hc : covered p c) :
    covered (i :: p) c := covered_subset (fun _ h => List.mem_cons_of_mem _ h) hc

theorem covered_append_left {p : List Chunk} (p' : List Chunk) {c : Nat} (hc : covered p c) :
    covered (p ++ p') c := covered_subset (fun _ h => List.mem_append_left _ h) hc

theorem covered_append_right (p : List Chunk) {p' : List Chunk} {c : Nat} (hc : covered p' c) :
    covered (p ++ p') c := covered_subset (fun _ h => List.mem_append_right _ h) hc

/-! ## range sets -/

section ranges
open Bao.Ranges

/-- membership, two boundaries at a time -/
theorem contains_cons_cons' {a b : Nat} {rest : List Nat} (h : WF (a :: b :: rest) = true)
    (x : Nat) :
    contains (a :: b :: rest) x = ((decide (a ≤ x) && decide (x < b)) || contains rest x) := by
  have hab := (WF_cons_cons.1 h).1
  have hr := WF_tail (WF_tail h)
  have hb := WF_head_lt (WF_tail h)
  rw [contains_eq h, contains_eq hr, Bool.eq_iff_iff]
  simp only [countLe]
  by_cases h1 : a ≤ x
  · by_cases h2 : b ≤ x
    · simp only [h1, h2, if_true, Bool.or_eq_true, Bool.and_eq_true, decide_eq_true_eq]; omega
    · simp only [h1, h2, if_true, if_false, Bool.or_eq_true, Bool.and_eq_true, decide_eq_true_eq]
      exact ⟨fun _ => Or.inl ⟨trivial, by omega⟩, fun _ => trivial⟩
  · have h0 : countLe rest x = 0 :=
      countLe_eq_zero_of_forall_gt (fun c hc => by have := hb c hc; omega)
    simp only [h1, if_false, h0, Bool.or_eq_true, Bool.and_eq_true, decide_eq_true_eq]
    exact ⟨fun h => by omega, fun h => by rcases h with ⟨h, _⟩ | h; exact h.elim; omega⟩

/-- "the set has a point `≥ m`", literally -/
theorem reachesPast_iff_exists {q : List Nat} (h : WF q = true) (m : Nat) :
    reachesPast q m = true ↔ ∃ y, m ≤ y ∧ contains q y = true := by
  fun_induction reachesPast q m with
  | case1 => simp [contains_nil]
  | case2 a m =>
    simp only [contains_singleton, decide_eq_true_eq, true_iff]
    exact ⟨max m a, by omega, by omega⟩
  | case3 a b rest m ih =>
    have hab := (WF_cons_cons.1 h).1
    have ih := ih (WF_tail (WF_tail h))
    simp only [Bool.or_eq_true, decide_eq_true_eq, ih, contains_cons_cons' h,
      Bool.and_eq_true]
    constructor
    · rintro (hb | ⟨y, hy, hc⟩)
      · exact ⟨max m a, by omega, Or.inl ⟨by omega, by omega⟩⟩
      · exact ⟨y, hy, Or.inr hc⟩
    · rintro ⟨y, hy, (⟨_, h2⟩ | hc)⟩
      · left; omega
      · exact Or.inr ⟨y, hy, hc⟩

theorem selected_lt {size : Nat} {q : List Nat} {c : Nat} (h : Spec.selected size q c = true) :
    c < Spec.nChunks size := by
  rw [selected_eq_reachesPast] at h
  simp only [Bool.and_eq_true, decide_eq_true_eq] at h
  exact h.1

/-- below an inner mid that lies inside the blob, selection is membership -/
theorem selected_of_lt_mid {size : Nat} (q : List Nat) {c m : Nat} (hc : c < m)
    (hm : m < Spec.nChunks size) : Spec.selected size q c = contains q c := by
  rw [selected_eq_reachesPast]
  have h1 : decide (c < Spec.nChunks size) = true := by simp; omega
  have h2 : (c == Spec.nChunks size - 1) = false := by simp; omega
  rw [h1, h2]; simp

/-- the left half of `split_inner` selects the same chunks of `[s, m)` (when `m` is inside) -/
theorem selected_left {size : Nat} {q : List Nat} {s m c : Nat} (h : WF q = true) (hs : s ≤ c)
    (hc : c < m) (hm : m < Spec.nChunks size) :
    Spec.selected size (splitInner q s m).1 c = Spec.selected size q c := by
  rw [selected_of_lt_mid _ hc hm, selected_of_lt_mid _ hc hm, C14.splitInner_left_mem h hs hc]

/-- the right half of `split_inner` selects the same chunks of `[m, ∞)` -/
theorem selected_right {size : Nat} {q : List Nat} {s m c : Nat} (h : WF q = true) (hc : m ≤ c) :
    Spec.selected size (splitInner q s m).2 c = Spec.selected size q c := by
  have hwf := (C14.splitInner_wf s m h).2
  rw [selected_eq_reachesPast, selected_eq_reachesPast, C14.splitInner_right_mem h hc]
  by_cases hl : c = Spec.nChunks size - 1
  · have : reachesPast (splitInner q s m).2 (Spec.nChunks size - 1) =
        reachesPast q (Spec.nChunks size - 1) := by
      rw [Bool.eq_iff_iff, reachesPast_iff_exists hwf, reachesPast_iff_exists h]
      constructor
      · rintro ⟨y, hy, hcy⟩
        exact ⟨y, hy, by rwa [C14.splitInner_right_mem h (by omega)] at hcy⟩
      · rintro ⟨y, hy, hcy⟩
        exact ⟨y, hy, by rwa [C14.splitInner_right_mem h (by omega)]⟩
    rw [this]
  · have h2 : (c == Spec.nChunks size - 1) = false := by simpa using hl
    rw [h2]; simp only [Bool.false_and]

theorem ne_nil_of_selected {size : Nat} {q : List Nat} {c : Nat}
    (h : Spec.selected size q c = true) : q ≠ [] := by
  rintro rfl
  rw [selected_nil] at h; cases h

theorem ne_nil_of_contains {q : List Nat} {c : Nat} (h : contains q c = true) : q ≠ [] := by
  rintro rfl
  rw [contains_nil] at h; cases h

/-! ### the invariants `Tight` / `Bounded` and `split_inner` -/

theorem fixAll_mem (l : List Nat) (s : Nat) : ∀ b ∈ fixAll l s, b = 0 ∨ b ∈ l := by
  unfold fixAll
  split
  · split
    · intro b hb; left; simpa using hb
    · intro b hb; exact Or.inr hb
  · intro b hb; exact Or.inr hb

theorem fixAll_tail_mem (l : List Nat) (s : Nat) : ∀ b ∈ (fixAll l s).tail, b ∈ l.tail := by
  unfold fixAll
  split
  · split
    · intro b hb; simp at hb
    · intro b hb; exact hb
  · intro b hb; exact hb

/-- the boundaries behind `countLe q x` are `> x` -/
theorem gt_of_mem_drop_countLe {q : List Nat} (h : WF q = true) (x : Nat) :
    ∀ b ∈ q.drop (countLe q x), x < b := by
  induction q with
  | nil => intro b hb; simp at hb
  | cons c rest ih =>
    intro b hb
    simp only [countLe] at hb
    split at hb
    · simp only [List.drop_succ_cons] at hb
      exact ih (WF_tail h) b hb
    · simp only [List.drop_zero, List.mem_cons] at hb
      rcases hb with rfl | hb
      · omega
      · have := WF_head_lt h b hb; omega

theorem mem_drop_of_le {l : List Nat} {i j : Nat} (hij : i ≤ j) {b : Nat} (hb : b ∈ l.drop j) :
    b ∈ l.drop i := by
  obtain ⟨d, rfl⟩ := Nat.exists_eq_add_of_le hij
  rw [← List.drop_drop] at hb
  exact List.mem_of_mem_drop hb

/-- all boundaries of the right half of `split` except the first are behind the cut -/
theorem split_snd_tail_gt {q : List Nat} (h : WF q = true) (m : Nat) :
    ∀ b ∈ (split q m).2.tail, m < b := by
  have h1 := countLe_le_countLt_succ h m
  have h2 := countLt_le_countLe q m
  intro b hb
  rw [split_eq h] at hb
  simp only [List.tail_drop] at hb
  apply gt_of_mem_drop_countLe h m b
  refine mem_drop_of_le ?_ hb
  repeat' split
  all_goals omega

theorem mem_tail_take {l : List Nat} {n b : Nat} (hb : b ∈ (l.take n).tail) : b ∈ l.tail := by
  cases l with
  | nil => simp at hb
  | cons a t =>
    cases n with
    | zero => simp at hb
    | succ n =>
      simp only [List.take_succ_cons, List.tail_cons] at hb ⊢
      exact List.mem_of_mem_take hb

theorem tight_left {q : List Nat} {s : Nat} (m : Nat) (ht : Tight q s) :
    Tight (splitInner q s m).1 s := by
  intro b hb
  rw [splitInner_eq] at hb
  have hb := fixAll_tail_mem _ _ b hb
  rw [split_fst] at hb
  exact ht b (mem_tail_take hb)

theorem tight_right {q : List Nat} (h : WF q = true) (s m : Nat) :
    Tight (splitInner q s m).2 m := by
  intro b hb
  rw [splitInner_eq] at hb
  exact split_snd_tail_gt h m b (fixAll_tail_mem _ _ b hb)

theorem left_lt_mid (q : List Nat) (s : Nat) {m : Nat} (hm : 0 < m) :
    ∀ b ∈ (splitInner q s m).1, b < m := by
  intro b hb
  rw [splitInner_eq] at hb
  rcases fixAll_mem _ _ b hb with rfl | hb
  · exact hm
  · exact C14.split_left_bounded q m b hb

theorem split_snd_mem {q : List Nat} (h : WF q = true) (m : Nat) : ∀ b ∈ (split q m).2, b ∈ q := by
  intro b hb
  rw [split_eq h] at hb
  exact List.mem_of_mem_drop hb

theorem bounded_right {size : Nat} {q : List Nat} (h : WF q = true) (s m : Nat) {e : Nat}
    (he : 0 < e) (hb : Bounded size q e) : Bounded size (splitInner q s m).2 e := by
  rcases hb with hb | hb
  · exact Or.inl hb
  · right
    intro b hm
    rw [splitInner_eq] at hm
    rcases fixAll_mem _ _ b hm with rfl | hm
    · exact he
    · exact hb b (split_snd_mem h m b hm)

/-- a non-empty tight sub-query contains the point `max s (first boundary)` -/
theorem tight_witness {a : Nat} {t : List Nat} {s : Nat} (h : WF (a :: t) = true)
    (ht : Tight (a :: t) s) : contains (a :: t) (max s a) = true := by
  cases t with
  | nil => rw [contains_singleton]; simp; omega
  | cons b rest =>
    have hab := (WF_cons_cons.1 h).1
    have hsb : s < b := ht b (by simp)
    rw [contains_cons_cons' h]
    simp only [Bool.or_eq_true, Bool.and_eq_true, decide_eq_true_eq]
    left; omega

end ranges

/-! ## geometry -/

variable {size bs ml filled root : Nat}

theorem child_ls (k L bs : Nat) : startOf (2 * k) (L + bs) = startOf k (L + 1 + bs) := by
  rw [Nat.add_right_comm L 1 bs]; exact Bits.startOf_left k (L + bs)

theorem child_le (k L bs : Nat) : endOf (2 * k) (L + bs) = midOf k (L + 1 + bs) := by
  rw [Nat.add_right_comm L 1 bs]; exact Bits.endOf_left k (L + bs)

theorem child_rs (k L bs : Nat) : startOf (2 * k + 1) (L + bs) = midOf k (L + 1 + bs) := by
  rw [Nat.add_right_comm L 1 bs]; exact Bits.startOf_right k (L + bs)

theorem child_re (k L bs : Nat) : endOf (2 * k + 1) (L + bs) = endOf k (L + 1 + bs) := by
  rw [Nat.add_right_comm L 1 bs]; exact Bits.endOf_right k (L + bs)

theorem startOf_lt_endOf (k L : Nat) : startOf k L < endOf k L :=
  Nat.lt_trans (startOf_lt_midOf k L) (midOf_lt_endOf k L)

theorem toBytes_start (k L bs : Nat) :
    toBytes (startOf k (L + bs)) = startOf k L * 2 ^ (bs + 10) := by
  unfold toBytes startOf
  rw [show L + bs + 1 = L + 1 + bs by omega, Nat.pow_add 2 (L + 1) bs, Nat.pow_add 2 bs 10]
  simp only [Nat.mul_assoc]

theorem startOf_even (k L : Nat) : startOf k L % 2 = 0 := by
  rw [startOf_eq]; omega

theorem lt_nChunks_of_toBytes_lt {size c : Nat} (h : toBytes c < size) : c < nChunks size := by
  unfold toBytes at h; unfold nChunks; omega

/-- an existing subtree starts at chunk 0 or strictly inside the blob -/
theorem Geo.start_strict (g : Geo size bs filled) {k L : Nat} (h : startOf k L < filled) :
    startOf k (L + bs) = 0 ∨ toBytes (startOf k (L + bs)) < size := by
  by_cases h0 : startOf k L = 0
  · left
    have hk := (Bits.startOf_eq_zero_iff k L).1 h0
    exact (Bits.startOf_eq_zero_iff k (L + bs)).2 hk
  · right
    have hb := g.le_blocks
    have := (Offsets.lt_blocks_iff size bs (startOf k L) (by omega)).1 (by omega)
    rw [toBytes_start]; exact this

theorem Geo.start_lt_nChunks (g : Geo size bs filled) {k L : Nat} (h : startOf k L < filled) :
    startOf k (L + bs) < nChunks size := by
  rcases g.start_strict h with h0 | h1
  · rw [h0]; exact Ranges.nChunks_pos size
  · exact lt_nChunks_of_toBytes_lt h1

/-- a subtree whose first chunk lies in the blob exists -/
theorem Geo.sub_exists (g : Geo size bs filled) {k L : Nat}
    (h : startOf k (L + bs) < nChunks size) : startOf k L < filled := by
  have hodd := g.odd
  have hev := startOf_even k L
  by_cases h0 : startOf k L = 0
  · omega
  · have hge := g.ge_blocks
    have hb : toBytes (startOf k (L + bs)) = startOf k L * 2 ^ (bs + 10) := toBytes_start k L bs
    have hpos : 0 < startOf k (L + bs) := by
      apply Nat.pos_of_ne_zero
      intro hz
      exact h0 ((Bits.startOf_eq_zero_iff k L).2 ((Bits.startOf_eq_zero_iff k (L + bs)).1 hz))
    have h1 := (Offsets.lt_nChunks_iff size _ hpos).1 h
    unfold toBytes at hb
    rw [hb] at h1
    have h2 := (Offsets.lt_blocks_iff size bs (startOf k L) (by omega)).2 h1
    omega

/-- the mid of a non-existing inner node lies at or behind the end of the blob -/
theorem Geo.skip_mid_ge (g : Geo size bs filled) {k L : Nat} (h : filled ≤ nodeOf k (L + 1)) :
    nChunks size ≤ midOf k (L + 1 + bs) := by
  have hge := g.ge_blocks
  have := Offsets.exists_iff size bs k (L + 1)
  omega

/-- the mid of an existing inner node lies inside the blob -/
theorem Geo.mid_lt_nChunks (g : Geo size bs filled) {k L : Nat} (h : nodeOf k (L + 1) < filled) :
    midOf k (L + 1 + bs) < nChunks size :=
  lt_nChunks_of_toBytes_lt (g.mid_lt h)

/-! ## chunk spans of the leaf items -/

/-- a leaf item that starts at `s` (inside the blob) and ends at `min e size` spans
`[s, min e N)` -/
theorem span_eq {size s e : Nat} (h0 : s = 0 ∨ toBytes s < size) (hse : s < e) :
    s + max 1 (chunksOf (min (toBytes e) size - toBytes s)) = min e (nChunks size) := by
  unfold toBytes chunksOf nChunks at *
  split <;> omega

/-- a full leaf item `[s, m)` -/
theorem span_full {s m : Nat} (hsm : s < m) :
    s + max 1 (chunksOf (toBytes m - toBytes s)) = m := by
  unfold toBytes chunksOf
  split <;> omega

/-! ## (A) completeness -/

/-- a chunk of the node's range inside the blob is covered by the node's leaf item -/
theorem covered_nodeLeaf (g : Geo size bs filled) {L k : Nat} (rs : Ranges)
    (hlt : nodeOf k L < filled) {c : Nat} (hlo : startOf k (L + bs) ≤ c)
    (hhi : c < endOf k (L + bs)) (hN : c < nChunks size) :
    covered [nodeLeaf size bs root L k rs] c := by
  have hs : startOf k L < filled := Nat.lt_of_le_of_lt (startOf_le_nodeOf k L) hlt
  refine covered_of_mem (List.mem_singleton.2 rfl) hlo ?_
  rw [span_eq (g.start_strict hs) (startOf_lt_endOf k (L + bs))]
  omega

theorem cover_complete_aux (g : Geo size bs filled) (L k : Nat) (rs : Ranges) :
    Ranges.WF rs = true → ∀ c, startOf k (L + bs) ≤ c → c < endOf k (L + bs) →
      Spec.selected size rs c = true → covered (planPre size bs ml filled root L k rs) c := by
  refine planPre_induct (size := size) (bs := bs) (ml := ml) (filled := filled) (root := root)
    (P := fun L k rs p => Ranges.WF rs = true → ∀ c, startOf k (L + bs) ≤ c →
      c < endOf k (L + bs) → Spec.selected size rs c = true → covered p c)
    ?_ ?_ ?_ ?_ ?_ ?_ ?_ L k rs
  · -- nil
    intro L k _ c _ _ hsel
    rw [Ranges.selected_nil] at hsel; cases hsel
  · -- gone
    intro k rs _ hge _ c hlo _ hsel
    have hN := selected_lt hsel
    have := g.sub_exists (k := k) (L := 0) (by omega)
    rw [Offsets.startOf_zero] at this
    rw [Offsets.nodeOf_zero] at hge
    omega
  · -- skip
    intro L k rs _ hge ih hwf c hlo _ hsel
    have hN := selected_lt hsel
    have hm := g.skip_mid_ge hge
    exact ih hwf c (by rw [child_ls]; exact hlo) (by rw [child_le]; omega) hsel
  · -- query leaf
    intro L k rs _ hlt _ _ c hlo hhi hsel
    exact covered_nodeLeaf g rs hlt hlo hhi (selected_lt hsel)
  · -- half leaf
    intro k rs _ hlt _ _ _ c hlo hhi hsel
    exact covered_nodeLeaf g rs hlt hlo hhi (selected_lt hsel)
  · -- chunk group: parent + group leaves
    intro k rs _ hlt _ hh hwf c hlo hhi hsel
    have hN := selected_lt hsel
    have hmN : midOf k bs < nChunks size := lt_nChunks_of_toBytes_lt hh
    apply covered_cons
    simp only [Nat.zero_add] at hlo hhi
    by_cases hc : c < midOf k bs
    · apply covered_append_left
      have hl : Spec.selected size (lq bs 0 k rs) c = true := by
        simp only [lq, Nat.zero_add]; rw [selected_left hwf hlo hc hmN]; exact hsel
      rw [if_neg (by rw [isEmpty_eq_false (ne_nil_of_selected hl)]; simp)]
      refine covered_of_mem (List.mem_singleton.2 rfl) hlo ?_
      rw [span_full (startOf_lt_midOf k bs)]; exact hc
    · apply covered_append_right
      have hc : midOf k bs ≤ c := by omega
      have hr : Spec.selected size (rq bs 0 k rs) c = true := by
        simp only [rq, Nat.zero_add]; rw [selected_right hwf hc]; exact hsel
      rw [if_neg (by rw [isEmpty_eq_false (ne_nil_of_selected hr)]; simp)]
      refine covered_of_mem (List.mem_singleton.2 rfl) hc ?_
      rw [span_eq (Or.inr hh) (midOf_lt_endOf k bs)]
      omega
  · -- inner node
    intro L k rs _ hlt _ ihl ihr hwf c hlo hhi hsel
    have hmN := g.mid_lt_nChunks hlt
    have hwfs := C14.splitInner_wf (startOf k (L + 1 + bs)) (midOf k (L + 1 + bs)) hwf
    apply covered_cons
    by_cases hc : c < midOf k (L + 1 + bs)
    · apply covered_append_left
      refine ihl hwfs.1 c (by rw [child_ls]; exact hlo) (by rw [child_le]; exact hc) ?_
      unfold lq; rw [selected_left hwf hlo hc hmN]; exact hsel
    · apply covered_append_right
      have hc : midOf k (L + 1 + bs) ≤ c := by omega
      refine ihr hwfs.2 c (by rw [child_rs]; exact hc) (by rw [child_re]; exact hhi) ?_
      unfold rq; rw [selected_right hwf hc]; exact hsel

/-- (A) completeness: every selected chunk of the node's range is covered -/
theorem cover_complete (g : Geo size bs filled) (L k : Nat) (rs : Ranges)
    (hwf : Ranges.WF rs = true) (c : Nat) (hlo : startOf k (L + bs) ≤ c)
    (hhi : c < endOf k (L + bs)) (hsel : Spec.selected size rs c = true) :
    covered (planPre size bs ml filled root L k rs) c :=
  cover_complete_aux g L k rs hwf c hlo hhi hsel

/-! ## (B) soundness -/

/-- a non-empty tight and bounded sub-query selects a chunk of `[s, min e N)` -/
theorem leaf_witness {size : Nat} {rs : Ranges} {s e : Nat} (hwf : Ranges.WF rs = true)
    (hne : rs ≠ []) (ht : Tight rs s) (hb : Bounded size rs e) (hse : s < e)
    (hsN : s < nChunks size) :
    ∃ c, s ≤ c ∧ c < min e (nChunks size) ∧ Spec.selected size rs c = true := by
  cases rs with
  | nil => exact absurd rfl hne
  | cons a t =>
    have hy := tight_witness hwf ht
    have hye : max s a < e ∨ nChunks size ≤ e := by
      rcases hb with hb | hb
      · exact Or.inr hb
      · have := hb a (List.mem_cons_self ..)
        left; omega
    by_cases hyN : max s a < nChunks size
    · refine ⟨max s a, by omega, by omega, ?_⟩
      rw [Ranges.selected_eq_reachesPast, hy]
      simp only [Bool.true_or, Bool.and_true, decide_eq_true_eq]
      exact hyN
    · refine ⟨nChunks size - 1, by omega, by omega, ?_⟩
      have hr : Ranges.reachesPast (a :: t) (nChunks size - 1) = true :=
        (reachesPast_iff_exists hwf _).2 ⟨max s a, by omega, hy⟩
      rw [Ranges.selected_eq_reachesPast, hr]
      simp only [beq_self_eq_true, Bool.and_true, Bool.or_true, decide_eq_true_eq]
      omega

/-- the witness of the node's own leaf item -/
theorem nodeLeaf_witness (g : Geo size bs filled) {L k : Nat} {rs : Ranges}
    (hwf : Ranges.WF rs = true) (hne : rs ≠ []) (hlt : nodeOf k L < filled)
    (ht : Tight rs (startOf k (L + bs))) (hb : Bounded size rs (endOf k (L + bs)))
    {s z : Nat} {r : Bool} {x : Ranges}
    (hm : Chunk.leaf s z r x ∈ [nodeLeaf size bs root L k rs]) :
    ∃ c, s ≤ c ∧ c < s + max 1 (chunksOf z) ∧ Spec.selected size rs c = true ∧
      startOf k (L + bs) ≤ c ∧ c < endOf k (L + bs) := by
  have hs : startOf k L < filled := Nat.lt_of_le_of_lt (startOf_le_nodeOf k L) hlt
  have hse := startOf_lt_endOf k (L + bs)
  obtain ⟨c, h1, h2, h3⟩ := leaf_witness hwf hne ht hb hse (g.start_lt_nChunks hs)
  have hm := List.mem_singleton.1 hm
  simp only [nodeLeaf, Chunk.leaf.injEq] at hm
  obtain ⟨rfl, rfl, -, -⟩ := hm
  refine ⟨c, h1, ?_, h3, h1, by omega⟩
  rw [span_eq (g.start_strict hs) hse]; exact h2

theorem tight_zero {q : Ranges} (h : Ranges.WF q = true) : Tight q 0 := by
  cases q with
  | nil => intro b hb; simp at hb
  | cons a t =>
    intro b hb
    have := Ranges.WF_head_lt h b hb
    omega

theorem cover_sound_aux (g : Geo size bs filled) (L k : Nat) (rs : Ranges) :
    Ranges.WF rs = true → Tight rs (startOf k (L + bs)) → Bounded size rs (endOf k (L + bs)) →
    ∀ s z r x, Chunk.leaf s z r x ∈ planPre size bs ml filled root L k rs →
      ∃ c, s ≤ c ∧ c < s + max 1 (chunksOf z) ∧ Spec.selected size rs c = true ∧
        startOf k (L + bs) ≤ c ∧ c < endOf k (L + bs) := by
  refine planPre_induct (size := size) (bs := bs) (ml := ml) (filled := filled) (root := root)
    (P := fun L k rs p => Ranges.WF rs = true → Tight rs (startOf k (L + bs)) →
      Bounded size rs (endOf k (L + bs)) →
      ∀ s z r x, Chunk.leaf s z r x ∈ p →
        ∃ c, s ≤ c ∧ c < s + max 1 (chunksOf z) ∧ Spec.selected size rs c = true ∧
          startOf k (L + bs) ≤ c ∧ c < endOf k (L + bs))
    ?_ ?_ ?_ ?_ ?_ ?_ ?_ L k rs
  · -- nil
    intro L k _ _ _ s z r x hm; cases hm
  · -- gone
    intro k rs _ _ _ _ _ s z r x hm; cases hm
  · -- skip
    intro L k rs _ hge ih hwf ht _ s z r x hm
    have hmN := g.skip_mid_ge hge
    have hme := midOf_lt_endOf k (L + 1 + bs)
    obtain ⟨c, h1, h2, h3, h4, h5⟩ := ih hwf (by rw [child_ls]; exact ht)
      (Or.inl (by rw [child_le]; exact hmN)) s z r x hm
    rw [child_ls] at h4; rw [child_le] at h5
    exact ⟨c, h1, h2, h3, h4, by omega⟩
  · -- query leaf
    intro L k rs hne hlt _ hwf ht hb s z r x hm
    exact nodeLeaf_witness g hwf hne hlt ht hb hm
  · -- half leaf
    intro k rs hne hlt _ _ hwf ht hb s z r x hm
    exact nodeLeaf_witness g hwf hne hlt ht hb hm
  · -- chunk group
    intro k rs _ hlt _ hh hwf ht hb s z r x hm
    simp only [Nat.zero_add] at ht hb ⊢
    have hmN : midOf k bs < nChunks size := lt_nChunks_of_toBytes_lt hh
    have hsm := startOf_lt_midOf k bs
    have hme := midOf_lt_endOf k bs
    have hwfs := C14.splitInner_wf (startOf k bs) (midOf k bs) hwf
    simp only [List.mem_cons, List.mem_append] at hm
    rcases hm with hm | hm | hm
    · unfold nodeParent at hm; cases hm
    · by_cases hl : lq bs 0 k rs = []
      · rw [hl] at hm; simp at hm
      · rw [isEmpty_eq_false hl] at hm
        simp only [Bool.false_eq_true, if_false, List.mem_singleton, leftLeaf,
          Chunk.leaf.injEq] at hm
        obtain ⟨rfl, rfl, -, -⟩ := hm
        simp only [lq, Nat.zero_add] at hl
        obtain ⟨c, h1, h2, h3⟩ := leaf_witness (size := size) hwfs.1 hl (tight_left (midOf k bs) ht)
          (Or.inr (left_lt_mid rs (startOf k bs) (by omega))) hsm (by omega)
        have hc : c < midOf k bs := by omega
        rw [selected_left hwf h1 hc hmN] at h3
        refine ⟨c, h1, ?_, h3, h1, by omega⟩
        rw [span_full hsm]; exact hc
    · by_cases hr : rq bs 0 k rs = []
      · rw [hr] at hm; simp at hm
      · rw [isEmpty_eq_false hr] at hm
        simp only [Bool.false_eq_true, if_false, List.mem_singleton, rightLeaf,
          Chunk.leaf.injEq] at hm
        obtain ⟨rfl, rfl, -, -⟩ := hm
        simp only [rq, Nat.zero_add] at hr
        obtain ⟨c, h1, h2, h3⟩ := leaf_witness hwfs.2 hr
          (tight_right hwf (startOf k bs) (midOf k bs))
          (bounded_right hwf (startOf k bs) (midOf k bs) (by omega) hb) hme hmN
        rw [selected_right hwf h1] at h3
        refine ⟨c, h1, ?_, h3, by omega, by omega⟩
        rw [span_eq (Or.inr hh) hme]; exact h2
  · -- inner node
    intro L k rs _ hlt _ ihl ihr hwf ht hb s z r x hm
    have hmN := g.mid_lt_nChunks hlt
    have hsm := startOf_lt_midOf k (L + 1 + bs)
    have hme := midOf_lt_endOf k (L + 1 + bs)
    have hwfs := C14.splitInner_wf (startOf k (L + 1 + bs)) (midOf k (L + 1 + bs)) hwf
    simp only [List.mem_cons, List.mem_append] at hm
    rcases hm with hm | hm | hm
    · unfold nodeParent at hm; cases hm
    · obtain ⟨c, h1, h2, h3, h4, h5⟩ := ihl hwfs.1
        (by rw [child_ls]; exact tight_left _ ht)
        (Or.inr (by rw [child_le]; exact left_lt_mid rs _ (by omega))) s z r x hm
      rw [child_ls] at h4; rw [child_le] at h5
      unfold lq at h3
      rw [selected_left hwf h4 h5 hmN] at h3
      exact ⟨c, h1, h2, h3, h4, by omega⟩
    · obtain ⟨c, h1, h2, h3, h4, h5⟩ := ihr hwfs.2
        (by rw [child_rs]; exact tight_right hwf _ _)
        (by rw [child_re]; exact bounded_right hwf _ _ (by omega) hb) s z r x hm
      rw [child_rs] at h4; rw [child_re] at h5
      unfold rq at h3
      rw [selected_right hwf h4] at h3
      exact ⟨c, h1, h2, h3, by omega, h5⟩

/-- (B) soundness: every leaf of the plan contains a selected chunk -/
theorem cover_sound (g : Geo size bs filled) (L k : Nat) (rs : Ranges)
    (hwf : Ranges.WF rs = true) (ht : Tight rs (startOf k (L + bs)))
    (hb : Bounded size rs (endOf k (L + bs))) :
    ∀ s z r x, Chunk.leaf s z r x ∈ planPre size bs ml filled root L k rs →
      ∃ c, s ≤ c ∧ c < s + max 1 (chunksOf z) ∧ Spec.selected size rs c = true := by
  intro s z r x hm
  obtain ⟨c, h1, h2, h3, -, -⟩ := cover_sound_aux g L k rs hwf ht hb s z r x hm
  exact ⟨c, h1, h2, h3⟩

/-! ## (C) the public plan -/

theorem startOf_zero_left (L : Nat) : startOf 0 L = 0 := by
  unfold startOf; exact Nat.zero_mul _

/-- (C) completeness of the plan: every selected chunk is covered by a leaf
(size ≤ 2^63, bs ≤ 10) -/
theorem plan_cover_complete (size bs ml : Nat) (hs : size ≤ 2 ^ 63) (hbs : bs ≤ 10) (q : Ranges)
    (hwf : Ranges.WF q = true) (c : Nat) (hsel : Spec.selected size q c = true) :
    covered (plan ⟨size, bs⟩ ml q) c := by
  have hN := selected_lt hsel
  have hcov := rootLevel_covers size bs hs
  exact cover_complete (shifted_geo size bs hs hbs) (rootLevel ⟨size, bs⟩) 0 q hwf c
    (by rw [startOf_zero_left]; omega) (by omega) hsel

/-- (C) soundness of the plan: every leaf contains a selected chunk (size ≤ 2^63, bs ≤ 10) -/
theorem plan_cover_sound (size bs ml : Nat) (hs : size ≤ 2 ^ 63) (hbs : bs ≤ 10) (q : Ranges)
    (hwf : Ranges.WF q = true) :
    ∀ s z r x, Chunk.leaf s z r x ∈ plan ⟨size, bs⟩ ml q →
      ∃ c, s ≤ c ∧ c < s + max 1 (chunksOf z) ∧ Spec.selected size q c = true :=
  cover_sound (shifted_geo size bs hs hbs) (rootLevel ⟨size, bs⟩) 0 q hwf
    (by rw [startOf_zero_left]; exact tight_zero hwf)
    (Or.inl (rootLevel_covers size bs hs))

/-- non-vacuity: a well-formed query on a 3000 byte blob that selects chunk 2 (and the
hypotheses `size ≤ 2^63`, `bs ≤ 10` of the corollaries are met by `size = 3000`, `bs = 0`) -/
example : Ranges.WF [1] = true ∧ Spec.selected 3000 [1] 2 = true ∧ (3000 : Nat) ≤ 2 ^ 63 := by
  decide

/-- non-vacuity of `Tight` / `Bounded` below the root: the right half of `split_inner` -/
example : Tight (Ranges.splitInner [1, 3, 5] 0 2).2 2 ∧ Bounded 3000 [1, 3] 4 := by
  refine ⟨tight_right (by decide) 0 2, Or.inr ?_⟩
  intro b hb; simp at hb; omega

/-
## Status

Proved (axioms ⊆ {propext, Classical.choice, Quot.sound}):
  cover_complete        (A)  as stated
  cover_sound           (B)  as stated (`Tight`, `Bounded` as stated)
  cover_sound_aux            (B) with the extra conclusion that the witness chunk lies in the
                             node's range `[startOf k (L+bs), endOf k (L+bs))` (needed by the
                             induction)
  plan_cover_complete   (C)  as stated
  plan_cover_sound      (C)  as stated
  helper lemmas: contains_cons_cons', reachesPast_iff_exists, selected_lt, selected_of_lt_mid,
  selected_left, selected_right, tight_left, tight_right, left_lt_mid, bounded_right,
  tight_witness, leaf_witness, span_eq, span_full, Geo.start_strict, Geo.start_lt_nChunks,
  Geo.sub_exists, Geo.skip_mid_ge, Geo.mid_lt_nChunks.
Partial: none.  OPEN: none.
-/

end Bao.PlanPre
